import Sudachi.Model.Trie
/-! # C04 — proofs about the trie/lookup model -/
namespace Trie

/-- texts the double array is correct for: bytes 1..255 -/
def NoNul (t : List Nat) : Prop := ∀ b ∈ t, 0 < b ∧ b < 256

/-! ## A. the checker is sound: traversal = derivative-style specification -/

/-- specification in the shape of the traversal: keys are consumed byte by byte -/
def specK : List (List Nat × Nat) → Nat → List Nat → List (Nat × Nat)
  | _, _, [] => []
  | ks, i, b :: t =>
    match (deriv b ks).find? (fun kv => kv.1.isEmpty) with
    | some kv => (kv.2, i+1) :: specK (deriv b ks) (i+1) t
    | none => specK (deriv b ks) (i+1) t

theorem deriv_nil (b : Nat) : deriv b [] = [] := rfl

theorem specK_nil (i : Nat) (t : List Nat) : specK [] i t = [] := by
  induction t generalizing i with
  | nil => rfl
  | cons b t ih => simp [specK, deriv_nil, ih]

theorem step_guard_ne (g : Bool) (a : Arr) (pos k : Nat) (hk : k ≠ 0) :
    step g a pos k = step false a pos k := by
  simp [step, hk]

theorem checkNode_sound (g : Bool) (a : Arr) : ∀ (fuel pos : Nat) (ks : List (List Nat × Nat)),
    checkNode a fuel pos ks = true →
    ∀ (text : List Nat) (i : Nat), NoNul text → run g a pos i text = some (specK ks i text) := by
  intro fuel
  induction fuel with
  | zero => intro pos ks h; simp [checkNode] at h
  | succ fuel ih =>
    intro pos ks h text
    induction text generalizing pos ks with
    | nil => intro i _; rfl
    | cons b t _ =>
      intro i hn
      have hb : 0 < b ∧ b < 256 := hn b (by simp)
      have hn' : NoNul t := fun c hc => hn c (by simp [hc])
      simp only [checkNode, List.all_eq_true, List.mem_range] at h
      have hb' := h (b - 1) (by omega)
      have e1 : b - 1 + 1 = b := by omega
      rw [e1] at hb'
      simp only [run, specK, step_guard_ne g a pos b (by omega)]
      cases hs : step false a pos b with
      | oob => simp [hs] at hb'
      | stop =>
        simp only [hs, List.isEmpty_iff] at hb'
        simp [hb', specK_nil]
      | go pos' leaf =>
        simp only [hs, Bool.and_eq_true, Bool.not_eq_true'] at hb'
        obtain ⟨⟨_, hleaf⟩, hrec⟩ := hb'
        have hr := ih pos' (deriv b ks) hrec t (i+1) hn'
        cases hf : (deriv b ks).find? (fun kv => kv.1.isEmpty) with
        | some kv =>
          simp only [hf, Bool.and_eq_true] at hleaf
          obtain ⟨hl, hv⟩ := hleaf
          cases hp : a[pos']? with
          | none => simp [hp] at hv
          | some u =>
            simp only [hp, beq_iff_eq] at hv
            simp [hl, hr, hp, hv]
        | none =>
          simp only [hf, Bool.not_eq_true'] at hleaf
          simp [hleaf, hr]

/-! ### the repaired variant (`g = true`: NUL guard) is correct for every byte string -/

/-- no key contains a NUL byte (the builder cannot index such a key) -/
def KeysNoNul (ks : List (List Nat × Nat)) : Prop := ∀ kv ∈ ks, 0 ∉ kv.1

theorem mem_deriv {b : Nat} {ks : List (List Nat × Nat)} {kv : List Nat × Nat} (h : kv ∈ deriv b ks) :
    (b :: kv.1, kv.2) ∈ ks := by
  simp only [deriv, List.mem_filterMap] at h
  obtain ⟨x, hx, hm⟩ := h
  obtain ⟨k, v⟩ := x
  cases k with
  | nil => simp at hm
  | cons c r =>
    by_cases hc : c = b
    · subst hc
      simp at hm
      rw [← hm]
      exact hx
    · simp [hc] at hm

theorem KeysNoNul.deriv {ks : List (List Nat × Nat)} (h : KeysNoNul ks) (b : Nat) :
    KeysNoNul (deriv b ks) := by
  intro kv hkv h0
  exact h _ (mem_deriv hkv) (by simp [h0])

theorem deriv_zero {ks : List (List Nat × Nat)} (h : KeysNoNul ks) : deriv 0 ks = [] := by
  cases hd : deriv 0 ks with
  | nil => rfl
  | cons kv rest =>
    have : kv ∈ deriv 0 ks := by rw [hd]; simp
    exact absurd (by simp) (h _ (mem_deriv this))

theorem checkNode_sound_guard (a : Arr) : ∀ (fuel pos : Nat) (ks : List (List Nat × Nat)),
    checkNode a fuel pos ks = true → KeysNoNul ks →
    ∀ (text : List Nat) (i : Nat), (∀ b ∈ text, b < 256) →
      run true a pos i text = some (specK ks i text) := by
  intro fuel
  induction fuel with
  | zero => intro pos ks h; simp [checkNode] at h
  | succ fuel ih =>
    intro pos ks h hk text
    cases text with
    | nil => intro i _; rfl
    | cons b t =>
      intro i hn
      have hb : b < 256 := hn b (by simp)
      have hn' : ∀ c ∈ t, c < 256 := fun c hc => hn c (by simp [hc])
      by_cases hb0 : b = 0
      · subst hb0
        simp [run, step, specK, deriv_zero hk, specK_nil]
      · simp only [checkNode, List.all_eq_true, List.mem_range] at h
        have hb' := h (b - 1) (by omega)
        have e1 : b - 1 + 1 = b := by omega
        rw [e1] at hb'
        simp only [run, specK, step_guard_ne true a pos b hb0]
        cases hs : step false a pos b with
        | oob => simp [hs] at hb'
        | stop =>
          simp only [hs, List.isEmpty_iff] at hb'
          simp [hb', specK_nil]
        | go pos' leaf =>
          simp only [hs, Bool.and_eq_true, Bool.not_eq_true'] at hb'
          obtain ⟨⟨_, hleaf⟩, hrec⟩ := hb'
          have hr := ih pos' (deriv b ks) hrec (hk.deriv b) t (i+1) hn'
          cases hf : (deriv b ks).find? (fun kv => kv.1.isEmpty) with
          | some kv =>
            simp only [hf, Bool.and_eq_true] at hleaf
            obtain ⟨hl, hv⟩ := hleaf
            cases hp : a[pos']? with
            | none => simp [hp] at hv
            | some u =>
              simp only [hp, beq_iff_eq] at hv
              simp [hl, hr, hp, hv]
          | none =>
            simp only [hf, Bool.not_eq_true'] at hleaf
            simp [hleaf, hr]

/-! ## B. derivative-style specification = flat specification -/

/-- The flat specification: for every length `l+1`, the (first) key equal to the first `l+1`
bytes of `t` contributes `(its value, i + l + 1)`; by increasing length. -/
def specFlat (keys : List (List Nat × Nat)) (i : Nat) (t : List Nat) : List (Nat × Nat) :=
  (List.range t.length).filterMap (fun l =>
    (keys.find? (fun kv => kv.1 == t.take (l+1))).map (fun kv => (kv.2, i + l + 1)))

theorem find_deriv (b : Nat) (p : List Nat) (ks : List (List Nat × Nat)) :
    ((deriv b ks).find? (fun kv => kv.1 == p)).map (·.2) =
    (ks.find? (fun kv => kv.1 == b :: p)).map (·.2) := by
  induction ks with
  | nil => rfl
  | cons kv ks ih =>
    obtain ⟨k, v⟩ := kv
    cases k with
    | nil => simpa [deriv, List.filterMap_cons, List.find?_cons] using ih
    | cons c r =>
      by_cases hc : c = b
      · subst hc
        by_cases hr : r = p
        · subst hr; simp [deriv, List.filterMap_cons, List.find?_cons]
        · have : (c :: r == c :: p) = false := by simp [hr]
          have h2 : (r == p) = false := by simp [hr]
          simpa [deriv, List.filterMap_cons, List.find?_cons, this, h2] using ih
      · have : (c :: r == b :: p) = false := by simp [hc]
        simpa [deriv, List.filterMap_cons, List.find?_cons, hc, this] using ih

theorem filterMap_congr' {α β : Type} {f g : α → Option β} :
    ∀ {l : List α}, (∀ x ∈ l, f x = g x) → l.filterMap f = l.filterMap g := by
  intro l
  induction l with
  | nil => intro _; rfl
  | cons x xs ih =>
    intro h
    simp only [List.filterMap_cons, h x (by simp)]
    rw [ih (fun y hy => h y (by simp [hy]))]

theorem isEmpty_eq_beq_nil (l : List Nat) : l.isEmpty = (l == []) := by cases l <;> rfl

theorem specK_eq_flat : ∀ (t : List Nat) (ks : List (List Nat × Nat)) (i : Nat),
    specK ks i t = specFlat ks i t := by
  intro t
  induction t with
  | nil => intro ks i; rfl
  | cons b t ih =>
    intro ks i
    have h0 := find_deriv b [] ks
    have hfun : (fun kv : List Nat × Nat => kv.1.isEmpty) = (fun kv => kv.1 == []) := by
      funext kv; exact isEmpty_eq_beq_nil kv.1
    have hrest : specFlat (deriv b ks) (i+1) t =
        (List.range t.length).filterMap (fun l =>
          (ks.find? (fun kv => kv.1 == (b :: t).take (l+1+1))).map (fun kv => (kv.2, i + (l+1) + 1))) := by
      unfold specFlat
      apply filterMap_congr'
      intro l _
      have := find_deriv b (t.take (l+1)) ks
      simp only [List.take_succ_cons]
      cases h1 : (deriv b ks).find? (fun kv => kv.1 == t.take (l+1)) with
      | none =>
        cases h2 : ks.find? (fun kv => kv.1 == b :: t.take (l+1)) with
        | none => rfl
        | some kv => simp [h1, h2] at this
      | some kv =>
        cases h2 : ks.find? (fun kv => kv.1 == b :: t.take (l+1)) with
        | none => simp [h1, h2] at this
        | some kv' =>
          simp [h1, h2] at this
          simp [this]; omega
    simp only [specK, ih, hrest]
    unfold specFlat
    simp only [List.length_cons, List.range_succ_eq_map, List.filterMap_cons, List.filterMap_map]
    rw [hfun]
    have hcomp : ((fun l => Option.map (fun kv : List Nat × Nat => (kv.2, i + l + 1))
          (List.find? (fun kv => kv.1 == List.take (l + 1) (b :: t)) ks)) ∘ Nat.succ) =
        (fun l => Option.map (fun kv : List Nat × Nat => (kv.2, i + (l + 1) + 1))
          (List.find? (fun kv => kv.1 == List.take (l + 1 + 1) (b :: t)) ks)) := by
      funext l; rfl
    rw [hcomp]
    have htake : List.take (0 + 1) (b :: t) = [b] := by simp
    rw [htake]
    cases h1 : (deriv b ks).find? (fun kv => kv.1 == []) with
    | none =>
      cases h2 : ks.find? (fun kv => kv.1 == [b]) with
      | none => rfl
      | some kv =>
        rw [h1, h2] at h0
        simp only [Option.map_none, Option.map_some] at h0
        cases h0
    | some kv =>
      cases h2 : ks.find? (fun kv => kv.1 == [b]) with
      | none =>
        rw [h1, h2] at h0
        simp only [Option.map_none, Option.map_some] at h0
        cases h0
      | some kv' =>
        rw [h1, h2] at h0
        simp only [Option.map_some] at h0
        have h3 : kv.2 = kv'.2 := Option.some.inj h0
        simp only [Option.map_some, h3, Nat.add_zero]

/-! ## C. the checker at the root -/

theorem NoNul.drop {t : List Nat} (h : NoNul t) (n : Nat) : NoNul (t.drop n) :=
  fun b hb => h b (List.mem_of_mem_drop hb)

/-- `checkTrie a keys = true` ⇒ on every NUL-free text and every offset the traversal yields
exactly the flat specification. -/
theorem checkTrie_sound (g : Bool) (a : Arr) (keys : List (List Nat × Nat)) (h : checkTrie a keys = true)
    (text : List Nat) (off : Nat) (hn : NoNul text) :
    commonPrefix g a text off = some (specFlat keys off (text.drop off)) := by
  unfold checkTrie at h
  unfold commonPrefix
  cases h0 : a[0]? with
  | none => simp [h0] at h
  | some u =>
    simp only [h0] at h ⊢
    rw [checkNode_sound g a _ _ _ h _ _ (hn.drop off), specK_eq_flat]

/-- with the NUL guard the checker's verdict covers every byte string -/
theorem checkTrie_sound_guard (a : Arr) (keys : List (List Nat × Nat)) (h : checkTrie a keys = true)
    (hk : KeysNoNul keys) (text : List Nat) (off : Nat) (hn : ∀ b ∈ text, b < 256) :
    commonPrefix true a text off = some (specFlat keys off (text.drop off)) := by
  unfold checkTrie at h
  unfold commonPrefix
  cases h0 : a[0]? with
  | none => simp [h0] at h
  | some u =>
    simp only [h0] at h ⊢
    rw [checkNode_sound_guard a _ _ _ h hk _ _ (fun b hb => hn b (List.mem_of_mem_drop hb)), specK_eq_flat]

/-! ## D. word-id table: reading back what `write_u32_array` wrote -/

/-- the buffer holds the bytes `L` from index `p` on -/
def Holds (b : Arr) (p : Nat) (L : List Nat) : Prop :=
  ∀ (j : Nat) (h : j < L.length), b[p + j]? = some L[j]

theorem Holds.append_left {b : Arr} {p : Nat} {L1 L2 : List Nat} (h : Holds b p (L1 ++ L2)) :
    Holds b p L1 := by
  intro j hj
  have := h j (by simp; omega)
  rw [this, List.getElem_append_left hj]

theorem Holds.append_right {b : Arr} {p : Nat} {L1 L2 : List Nat} (h : Holds b p (L1 ++ L2)) :
    Holds b (p + L1.length) L2 := by
  intro j hj
  have := h (L1.length + j) (by simp; omega)
  rw [Nat.add_assoc, this, List.getElem_append_right (by omega)]
  simp

theorem Holds.cons {b : Arr} {p x : Nat} {L : List Nat} (h : Holds b p (x :: L)) :
    b[p]? = some x ∧ Holds b (p + 1) L := by
  constructor
  · have := h 0 (by simp)
    simpa only [Nat.add_zero, List.getElem_cons_zero] using this
  · intro j hj
    have := h (j + 1) (by simp; omega)
    rw [show p + 1 + j = p + (j + 1) by omega, this]
    simp

theorem holds_of_toList {b : Arr} {pre L post : List Nat} (h : b.toList = pre ++ L ++ post) :
    Holds b pre.length L := by
  intro j hj
  rw [← Array.getElem?_toList, h, List.append_assoc, List.getElem?_append_right (by omega)]
  simp [List.getElem?_append_left hj]

theorem readU32_holds {b : Arr} {p n : Nat} (h : Holds b p (le32 n)) (hn : n < 4294967296) :
    readU32 b p = some n := by
  have h0 := h 0 (by simp [le32])
  have h1 := h 1 (by simp [le32])
  have h2 := h 2 (by simp [le32])
  have h3 := h 3 (by simp [le32])
  simp only [le32, List.getElem_cons_zero, List.getElem_cons_succ, Nat.add_zero] at h0 h1 h2 h3
  simp only [readU32, h0, h1, h2, h3, Option.some.injEq]
  omega

theorem le32_length (n : Nat) : (le32 n).length = 4 := rfl

theorem readIds_holds {b : Arr} : ∀ (ids : List Nat) (p : Nat), Holds b p (ids.flatMap le32) →
    (∀ x ∈ ids, x < 4294967296) → readIds b p ids.length = some ids := by
  intro ids
  induction ids with
  | nil => intro p _ _; rfl
  | cons x xs ih =>
    intro p h hlt
    simp only [List.flatMap_cons] at h
    have hx := readU32_holds h.append_left (hlt x (by simp))
    have hr := ih (p + 4) (by simpa [le32_length] using h.append_right) (fun y hy => hlt y (by simp [hy]))
    simp [readIds, hx, hr]

/-- reading a record written by `write_u32_array` at `base + idx` gives back the ids -/
theorem entries_holds {b : Arr} {base idx : Nat} {ids : List Nat}
    (h : Holds b (idx + base) (record ids)) (hlt : ∀ x ∈ ids, x < 4294967296) :
    entries b base idx = some ids := by
  obtain ⟨h0, hr⟩ := h.cons
  simp [entries, h0, readIds_holds ids _ hr hlt]

/-! ## E. `build_word_id_table`: every trie value is the offset of its key's record -/

theorem tableFrom_find (key : List Nat) : ∀ (g : Groups) (off : Nat) (t : List Nat)
    (ents : List (List Nat × Nat)), tableFrom off g = some (t, ents) →
    match ents.find? (fun kv => kv.1 == key) with
    | none => g.find? (fun kv => kv.1 == key) = none
    | some kv => ∃ ids pre post, g.find? (fun kv => kv.1 == key) = some (kv.1, ids) ∧
        t = pre ++ record ids ++ post ∧ kv.2 = off + pre.length ∧ ids.length ≤ 127 := by
  intro g
  induction g with
  | nil =>
    intro off t ents h
    simp only [tableFrom, Option.some.injEq, Prod.mk.injEq] at h
    obtain ⟨_, rfl⟩ := h
    simp
  | cons kg gs ih =>
    intro off t ents h
    obtain ⟨k, ids⟩ := kg
    simp only [tableFrom] at h
    split at h
    · cases h
    · split at h
      · cases h
      · rename_i hlen _
        cases hrec : tableFrom (off + (record ids).length) gs with
        | none => simp [hrec] at h
        | some r =>
          obtain ⟨t', es'⟩ := r
          simp only [hrec, Option.some.injEq, Prod.mk.injEq] at h
          obtain ⟨rfl, rfl⟩ := h
          have ih' := ih _ _ _ hrec
          by_cases hk : k = key
          · subst hk
            simp only [List.find?_cons, beq_self_eq_true]
            exact ⟨ids, [], t', rfl, by simp, by simp, by omega⟩
          · have hk' : (k == key) = false := by simp [hk]
            simp only [List.find?_cons, hk']
            cases hf : es'.find? (fun kv => kv.1 == key) with
            | none => simpa [hf] using ih'
            | some kv =>
              simp only [hf] at ih'
              obtain ⟨ids', pre, post, h1, h2, h3, h4⟩ := ih'
              refine ⟨ids', record ids ++ pre, post, h1, ?_, ?_, h4⟩
              · simp [h2, List.append_assoc]
              · simp [h3]; omega

/-! ## F. `IndexBuilder::add` / `write_index`: groups = indexed row numbers per key -/

/-- ids stored for a key (none when the key has no group) -/
def idsOf (g : Groups) (key : List Nat) : List Nat :=
  match g.find? (fun kv => kv.1 == key) with
  | some kv => kv.2
  | none => []

/-- row numbers (counted from `i`) of the indexed rows whose surface is `key` -/
def idsFrom : Nat → List Entry → List Nat → List Nat
  | _, [], _ => []
  | i, e :: es, key =>
    if shouldIndex e && e.key == key then i :: idsFrom (i+1) es key else idsFrom (i+1) es key

theorem idsOf_addKey (g : Groups) (k key : List Nat) (id : Nat) :
    idsOf (addKey g k id) key = if k = key then idsOf g key ++ [id] else idsOf g key := by
  induction g with
  | nil =>
    by_cases h : k = key
    · simp [addKey, idsOf, h]
    · simp [addKey, idsOf, h]
  | cons kg gs ih =>
    obtain ⟨k', ids⟩ := kg
    simp only [addKey]
    by_cases hk : k' = k
    · subst hk
      by_cases h : k' = key
      · simp [idsOf, h]
      · simp [idsOf, h]
    · simp only [hk, if_false]
      by_cases h' : k' = key
      · subst h'
        have : ¬ k = k' := fun e => hk e.symm
        simp [idsOf, this]
      · have e1 : idsOf ((k', ids) :: addKey gs k id) key = idsOf (addKey gs k id) key := by
          simp [idsOf, List.find?_cons, h']
        have e2 : idsOf ((k', ids) :: gs) key = idsOf gs key := by
          simp [idsOf, List.find?_cons, h']
        rw [e1, e2, ih]

theorem indexGo_idsOf (key : List Nat) : ∀ (es : List Entry) (i : Nat) (g g' : Groups),
    indexGo i es g = some g' → i + es.length ≤ 268435456 →
    idsOf g' key = idsOf g key ++ idsFrom i es key := by
  intro es
  induction es with
  | nil => intro i g g' h _; simp [indexGo] at h; subst h; simp [idsFrom]
  | cons e es ih =>
    intro i g g' h hb
    simp only [List.length_cons] at hb
    simp only [indexGo] at h
    by_cases hs : shouldIndex e = true
    · simp only [hs, if_true] at h
      have hi : i % 4294967296 = i := Nat.mod_eq_of_lt (by omega)
      rw [hi] at h
      split at h
      · cases h
      · have := ih (i+1) _ _ h (by omega)
        rw [this, idsOf_addKey]
        by_cases hk : e.key = key
        · simp [idsFrom, hs, hk]
        · simp [idsFrom, hs, hk]
    · simp only [hs] at h
      have := ih (i+1) _ _ h (by omega)
      simp [this, idsFrom, hs]

theorem buildIndex_idsOf (es : List Entry) (g : Groups) (h : buildIndex es = some g)
    (hb : es.length ≤ 268435456) (key : List Nat) : idsOf g key = idsFrom 0 es key := by
  have := indexGo_idsOf key es 0 [] g h (by omega)
  simpa [idsOf] using this

theorem mem_idsFrom (key : List Nat) : ∀ (es : List Entry) (s i : Nat),
    i ∈ idsFrom s es key ↔ s ≤ i ∧ ∃ en, es[i - s]? = some en ∧ shouldIndex en = true ∧ en.key = key := by
  intro es
  induction es with
  | nil => intro s i; simp [idsFrom]
  | cons e es ih =>
    intro s i
    simp only [idsFrom]
    have shift : ∀ en : Entry, s ≤ i → i ≠ s → ((e :: es)[i - s]? = some en ↔ es[i - (s+1)]? = some en) := by
      intro en h1 h2
      rw [show i - s = (i - (s+1)) + 1 by omega]
      simp
    by_cases hc : (shouldIndex e && e.key == key) = true
    · rw [if_pos hc, List.mem_cons, ih (s+1) i]
      constructor
      · rintro (rfl | ⟨h1, en, h2, h3⟩)
        · simp only [Bool.and_eq_true, beq_iff_eq] at hc
          exact ⟨Nat.le_refl _, e, by simp, hc.1, hc.2⟩
        · exact ⟨by omega, en, (shift en (by omega) (by omega)).mpr h2, h3⟩
      · rintro ⟨h1, en, h2, h3⟩
        by_cases his : i = s
        · exact Or.inl his
        · exact Or.inr ⟨by omega, en, (shift en h1 his).mp h2, h3⟩
    · rw [if_neg hc, ih (s+1) i]
      constructor
      · rintro ⟨h1, en, h2, h3⟩
        exact ⟨by omega, en, (shift en (by omega) (by omega)).mpr h2, h3⟩
      · rintro ⟨h1, en, h2, h3⟩
        by_cases his : i = s
        · subst his
          simp only [Nat.sub_self, List.getElem?_cons_zero, Option.some.injEq] at h2
          subst h2
          simp [h3.1, h3.2] at hc
        · exact ⟨by omega, en, (shift en h1 his).mp h2, h3⟩

theorem idsFrom_lt (key : List Nat) (es : List Entry) (s i : Nat) (h : i ∈ idsFrom s es key) :
    i < s + es.length := by
  obtain ⟨h1, en, h2, _⟩ := (mem_idsFrom key es s i).mp h
  have := (List.getElem?_eq_some_iff.mp h2).1
  omega

theorem idsFrom_sorted (key : List Nat) : ∀ (es : List Entry) (s : Nat),
    (idsFrom s es key).Pairwise (· < ·) := by
  intro es
  induction es with
  | nil => intro s; simp [idsFrom]
  | cons e es ih =>
    intro s
    simp only [idsFrom]
    split
    · refine List.pairwise_cons.mpr ⟨?_, ih (s+1)⟩
      intro j hj
      have := ((mem_idsFrom key es (s+1) j).mp hj).1
      omega
    · exact ih (s+1)

/-! ## G. one lexicon: `Lexicon::lookup` = naive scan of the source rows -/

theorem wordId_eq (d w : Nat) (hd : d < 16) (hw : w < 268435456) :
    wordId d w = some (d * 268435456 + w) := by
  have h1 : w / (WORD_MASK + 1) = 0 := Nat.div_eq_of_lt (by simpa [WORD_MASK] using hw)
  have h2 : d / 16 = 0 := Nat.div_eq_of_lt hd
  have h3 : d &&& 0xf = d := by
    have := Nat.and_two_pow_sub_one_eq_mod d 4
    simp only [show (2:Nat)^4 - 1 = 0xf by decide] at this
    rw [this]; exact Nat.mod_eq_of_lt hd
  have h4 : w &&& WORD_MASK = w := by
    have := Nat.and_two_pow_sub_one_eq_mod w 28
    simp only [show (2:Nat)^28 - 1 = WORD_MASK by decide] at this
    rw [this]; exact Nat.mod_eq_of_lt hw
  have h5 : d <<< 28 ||| w = d * 268435456 + w := by
    rw [← Nat.shiftLeft_add_eq_or_of_lt (i := 28) (by simpa using hw) d, Nat.shiftLeft_eq]
  simp [wordId, h1, h2, h3, h4, h5]

theorem stamp_eq (d : Nat) (hd : d < 16) : ∀ (ws : List Nat), (∀ w ∈ ws, w < 268435456) →
    stamp d ws = some (ws.map (fun w => d * 268435456 + w)) := by
  intro ws
  induction ws with
  | nil => intro _; rfl
  | cons w ws ih =>
    intro h
    simp [stamp, wordId_eq d w hd (h w (by simp)), ih (fun x hx => h x (by simp [hx]))]

/-- naive scan of one source list: for every length, the indexed rows whose surface equals the
text's prefix of that length, in row order, stamped with the dictionary number -/
def specLex (d : Nat) (es : List Entry) (off : Nat) (t : List Nat) : List (Nat × Nat) :=
  (List.range t.length).flatMap (fun l =>
    (idsFrom 0 es (t.take (l+1))).map (fun i => (d * 268435456 + i, off + l + 1)))

theorem expand_filterMap (lx : Lex) (f : Nat → Option (Nat × Nat)) (h : Nat → List (Nat × Nat)) :
    ∀ L : List Nat,
    (∀ l ∈ L, match f l with
      | none => h l = []
      | some ve => ∃ ids wids, entries lx.buf lx.tblOff ve.1 = some ids ∧
          stamp lx.lexId ids = some wids ∧ h l = wids.map (fun w => (w, ve.2))) →
    expand lx (L.filterMap f) = some (L.flatMap h) := by
  intro L
  induction L with
  | nil => intro _; rfl
  | cons l L ih =>
    intro hall
    have hl := hall l (by simp)
    have ih' := ih (fun x hx => hall x (by simp [hx]))
    simp only [List.filterMap_cons, List.flatMap_cons]
    cases hf : f l with
    | none =>
      simp only [hf] at hl
      simp [hl, ih']
    | some ve =>
      simp only [hf] at hl
      obtain ⟨ids, wids, h1, h2, h3⟩ := hl
      obtain ⟨v, e⟩ := ve
      simp only [expand, h1, h2, ih', h3]

/-- What the driver establishes for every lexicon of a run: the model of the index builder
accepts the source rows, the compiled buffer holds exactly the table it predicts at the table
offset, and the proved checker accepts the double array the external builder produced for the
predicted `(key, offset)` list. -/
structure Compiled (es : List Entry) (lx : Lex) (d : Nat) : Prop where
  small : es.length ≤ 268435456
  dic : d < 15
  id : lx.lexId = d
  built : ∃ t ents, buildTable es = some (t, ents) ∧ Holds lx.buf lx.tblOff t ∧
    checkTrie lx.trie ents = true

/-- the traversal of the array `a` agrees, on this text and offset, with the prefix scan of the
`(key, offset)` list which the model of the index builder derives from the rows `es` (what the
proved checker establishes: for NUL-free texts with either variant of the loop, for every byte
string with the guarded loop) -/
def TravOk (g : Bool) (es : List Entry) (a : Arr) (text : List Nat) (off : Nat) : Prop :=
  ∀ t ents, buildTable es = some (t, ents) → checkTrie a ents = true →
    commonPrefix g a text off = some (specFlat ents off (text.drop off))

theorem TravOk.of_noNul (g : Bool) (es : List Entry) (a : Arr) (text : List Nat) (off : Nat)
    (hn : NoNul text) : TravOk g es a text off :=
  fun _ ents _ h => checkTrie_sound g a ents h text off hn

theorem lexLookup_spec' (gd : Bool) {es : List Entry} {lx : Lex} {d : Nat} (hc : Compiled es lx d)
    (text : List Nat) (off : Nat) (ht : TravOk gd es lx.trie text off) :
    lexLookup gd lx text off = some (specLex d es off (text.drop off)) := by
  obtain ⟨t, ents, hb, hh, hchk⟩ := hc.built
  have htr := ht t ents hb hchk
  unfold buildTable at hb
  cases hg : buildIndex es with
  | none => simp [hg] at hb
  | some g =>
    simp only [hg] at hb
    have hid : lx.lexId < MAX_DICTIONARIES := by rw [hc.id]; exact hc.dic
    simp only [lexLookup, hid, not_true_eq_false, if_false, htr]
    unfold specFlat specLex
    apply expand_filterMap
    intro l _
    have hkey := tableFrom_find ((text.drop off).take (l+1)) g 0 t ents hb
    have hids := buildIndex_idsOf es g hg hc.small ((text.drop off).take (l+1))
    cases hf : ents.find? (fun kv => kv.1 == (text.drop off).take (l+1)) with
    | none =>
      simp only [hf] at hkey
      simp only [Option.map_none]
      rw [← hids]; simp [idsOf, hkey]
    | some kv =>
      simp only [hf] at hkey
      obtain ⟨ids, pre, post, h1, h2, h3, _⟩ := hkey
      have hids' : ids = idsFrom 0 es ((text.drop off).take (l+1)) := by
        rw [← hids]; simp [idsOf, h1]
      have hlt : ∀ x ∈ ids, x < 268435456 := by
        intro x hx
        rw [hids'] at hx
        have := idsFrom_lt _ es 0 x hx
        have := hc.small
        omega
      simp only [Option.map_some]
      refine ⟨ids, ids.map (fun w => d * 268435456 + w), ?_, ?_, ?_⟩
      · apply entries_holds
        · subst h2
          have := (hh.append_left).append_right
          rw [h3, Nat.zero_add, Nat.add_comm]
          exact this
        · intro x hx; have := hlt x hx; omega
      · rw [hc.id]; exact stamp_eq d (by have := hc.dic; omega) ids hlt
      · rw [← hids']; simp [List.map_map, Function.comp_def]

theorem lexLookup_spec (gd : Bool) {es : List Entry} {lx : Lex} {d : Nat} (hc : Compiled es lx d)
    (text : List Nat) (off : Nat) (hn : NoNul text) :
    lexLookup gd lx text off = some (specLex d es off (text.drop off)) :=
  lexLookup_spec' gd hc text off (TravOk.of_noNul gd es lx.trie text off hn)

/-! ## H. the lexicon set -/

theorem lookupIn_append (g : Bool) (A B : List Lex) (text : List Nat) (off : Nat) :
    lookupIn g (A ++ B) text off =
      match lookupIn g A text off, lookupIn g B text off with
      | some a, some b => some (a ++ b)
      | _, _ => none := by
  induction A with
  | nil => cases hB : lookupIn g B text off <;> simp [lookupIn, hB]
  | cons l A ih =>
    simp only [List.cons_append, lookupIn, ih]
    cases lexLookup g l text off with
    | none => rfl
    | some r =>
      cases lookupIn g A text off with
      | none => rfl
      | some a =>
        cases lookupIn g B text off with
        | none => rfl
        | some b => simp

/-- naive scan of all layers: later dictionaries first (`self.lexicons.iter().rev()`) -/
def specSetFrom (d : Nat) : List (List Entry) → Nat → List Nat → List (Nat × Nat)
  | [], _, _ => []
  | es :: rest, off, t => specSetFrom (d+1) rest off t ++ specLex d es off t

theorem setFrom_spec' (g : Bool) (text : List Nat) (off : Nat) :
    ∀ (ws : List (List Entry × Lex)) (d0 : Nat),
    (∀ (j : Nat) (h : j < ws.length), Compiled ws[j].1 ws[j].2 (d0 + j)) →
    (∀ x ∈ ws, TravOk g x.1 x.2.trie text off) →
    lookupIn g (ws.map (·.2)).reverse text off =
      some (specSetFrom d0 (ws.map (·.1)) off (text.drop off)) := by
  intro ws
  induction ws with
  | nil => intro d0 _ _; rfl
  | cons w ws ih =>
    intro d0 h ht
    have h0 : Compiled w.1 w.2 d0 := h 0 (by simp)
    have hr := ih (d0 + 1) (fun j hj => by
      have := h (j + 1) (by simp; omega)
      simpa [Nat.add_assoc, Nat.add_comm 1 j] using this) (fun x hx => ht x (by simp [hx]))
    simp only [List.map_cons, List.reverse_cons, lookupIn_append, hr, lookupIn,
      lexLookup_spec' g h0 text off (ht w (by simp)), specSetFrom, List.append_nil]

theorem setFrom_spec (g : Bool) (text : List Nat) (off : Nat) (hn : NoNul text)
    (ws : List (List Entry × Lex)) (d0 : Nat)
    (h : ∀ (j : Nat) (h : j < ws.length), Compiled ws[j].1 ws[j].2 (d0 + j)) :
    lookupIn g (ws.map (·.2)).reverse text off =
      some (specSetFrom d0 (ws.map (·.1)) off (text.drop off)) :=
  setFrom_spec' g text off ws d0 h (fun x _ => TravOk.of_noNul g x.1 x.2.trie text off hn)

theorem mem_specLex (d : Nat) (es : List Entry) (off : Nat) (t : List Nat) (w e : Nat) :
    (w, e) ∈ specLex d es off t ↔
      ∃ i en, es[i]? = some en ∧ shouldIndex en = true ∧ en.key ≠ [] ∧ en.key <+: t ∧
        e = off + en.key.length ∧ w = d * 268435456 + i := by
  simp only [specLex, List.mem_flatMap, List.mem_range, List.mem_map, mem_idsFrom, Prod.mk.injEq]
  constructor
  · rintro ⟨l, hl, i, ⟨_, en, h1, h2, h3⟩, rfl, rfl⟩
    have hlen : en.key.length = l + 1 := by rw [h3, List.length_take]; omega
    refine ⟨i, en, by simpa using h1, h2, ?_, ?_, by omega, rfl⟩
    · intro h; rw [h] at hlen; simp at hlen
    · rw [h3]; exact List.take_prefix _ _
  · rintro ⟨i, en, h1, h2, h3, h4, rfl, rfl⟩
    have hpos : 0 < en.key.length := List.length_pos_iff.mpr h3
    have hle := h4.length_le
    refine ⟨en.key.length - 1, by omega, i, ⟨Nat.zero_le _, en, by simpa using h1, h2, ?_⟩, rfl, by omega⟩
    rw [show en.key.length - 1 + 1 = en.key.length by omega]
    exact List.prefix_iff_eq_take.mp h4

theorem mem_specSetFrom (off : Nat) (t : List Nat) (w e : Nat) : ∀ (srcs : List (List Entry)) (d0 : Nat),
    (w, e) ∈ specSetFrom d0 srcs off t ↔
      ∃ j es, srcs[j]? = some es ∧ (w, e) ∈ specLex (d0 + j) es off t := by
  intro srcs
  induction srcs with
  | nil => intro d0; simp [specSetFrom]
  | cons es rest ih =>
    intro d0
    simp only [specSetFrom, List.mem_append, ih]
    constructor
    · rintro (⟨j, es', h1, h2⟩ | h)
      · exact ⟨j + 1, es', by simpa using h1, by simpa [Nat.add_assoc, Nat.add_comm 1 j] using h2⟩
      · exact ⟨0, es, by simp, by simpa using h⟩
    · rintro ⟨j, es', h1, h2⟩
      cases j with
      | zero =>
        simp only [List.getElem?_cons_zero, Option.some.injEq] at h1
        subst h1
        exact Or.inr (by simpa using h2)
      | succ j =>
        exact Or.inl ⟨j, es', by simpa using h1, by simpa [Nat.add_assoc, Nat.add_comm 1 j] using h2⟩

/-! ### every entry exactly once -/

theorem specLex_nodup (d : Nat) (es : List Entry) (off : Nat) (t : List Nat) :
    (specLex d es off t).Nodup := by
  unfold specLex List.Nodup
  rw [List.pairwise_flatMap]
  constructor
  · intro l _
    rw [List.pairwise_map]
    exact (idsFrom_sorted _ es 0).imp (fun {a b} hab h => by
      simp only [Prod.mk.injEq] at h; omega)
  · have : (List.range t.length).Pairwise (· < ·) := List.pairwise_lt_range
    refine this.imp (fun {a b} hab x hx y hy => ?_)
    simp only [List.mem_map] at hx hy
    obtain ⟨_, _, rfl⟩ := hx
    obtain ⟨_, _, rfl⟩ := hy
    intro h
    simp only [Prod.mk.injEq] at h
    omega

theorem specLex_id_range (d : Nat) (es : List Entry) (off : Nat) (t : List Nat)
    (hs : es.length ≤ 268435456) (w e : Nat) (h : (w, e) ∈ specLex d es off t) :
    d * 268435456 ≤ w ∧ w < (d + 1) * 268435456 := by
  obtain ⟨i, en, h1, _, _, _, _, rfl⟩ := (mem_specLex d es off t w e).mp h
  have := (List.getElem?_eq_some_iff.mp h1).1
  constructor
  · omega
  · rw [Nat.add_mul]; omega

theorem specSetFrom_nodup (off : Nat) (t : List Nat) : ∀ (srcs : List (List Entry)) (d0 : Nat),
    (∀ es ∈ srcs, es.length ≤ 268435456) → (specSetFrom d0 srcs off t).Nodup := by
  intro srcs
  induction srcs with
  | nil => intro d0 _; simp [specSetFrom]
  | cons es rest ih =>
    intro d0 hs
    simp only [specSetFrom]
    rw [List.nodup_append]
    refine ⟨ih (d0+1) (fun x hx => hs x (by simp [hx])), specLex_nodup _ _ _ _, ?_⟩
    rintro ⟨w1, e1⟩ h1 ⟨w2, e2⟩ h2 heq
    simp only [Prod.mk.injEq] at heq
    obtain ⟨j, es', hj, hm⟩ := (mem_specSetFrom off t w1 e1 rest (d0+1)).mp h1
    have hes' : es'.length ≤ 268435456 := hs es' (by simp [List.mem_of_getElem? hj])
    have r1 := specLex_id_range _ es' off t hes' w1 e1 hm
    have r2 := specLex_id_range _ es off t (hs es (by simp)) w2 e2 h2
    have hmul : (d0 + 1) * 268435456 ≤ (d0 + 1 + j) * 268435456 := Nat.mul_le_mul_right _ (by omega)
    omega

end Trie
