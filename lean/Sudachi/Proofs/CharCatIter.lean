import Sudachi.Proofs.CharCat
/-!
# `CharacterCategory::iter()` (C17, depth round)

`iterRanges` lists the compiled table as half-open ranges.  Proved here, for every table with strictly
increasing scalar boundaries: the iterator does not panic on a non-empty table, its ranges are consecutive
from 0 to `char::MAX` (`Chain`), every code point below `char::MAX` lies in exactly one of them (`countIn`),
the classes of a range are what the bisection reports for each of its code points (`denF`), and two
neighbouring ranges carry the same classes only when these are DEFAULT (`AdjEqDef`).
-/
namespace CharCat

/-- consecutive half-open ranges `(start, end, classes)` leading from `a` to `z` -/
def Chain : Nat → List (Nat × Nat × Nat) → Nat → Prop
  | a, [], z => a = z
  | a, (s, e, _) :: rest, z => s = a ∧ s ≤ e ∧ Chain e rest z

/-- number of ranges containing `x` -/
def countIn (x : Nat) (items : List (Nat × Nat × Nat)) : Nat :=
  (items.filter (fun it => decide (it.1 ≤ x) && decide (x < it.2.1))).length

/-- neighbours with equal classes are DEFAULT -/
def AdjEqDef : List Nat → Prop
  | [] => True
  | [_] => True
  | a :: b :: t => (a = b → a = DEFAULT) ∧ AdjEqDef (b :: t)

theorem isScalar_le {n : Nat} (h : isScalar n = true) : n ≤ charMax := by
  simp [isScalar, charMax] at *
  omega

theorem Chain.le : ∀ {items : List (Nat × Nat × Nat)} {a z : Nat}, Chain a items z → a ≤ z := by
  intro items
  induction items with
  | nil => intro a z h; simp [Chain] at h; omega
  | cons it rest ih =>
    intro a z h
    obtain ⟨s, e, c⟩ := it
    obtain ⟨h1, h2, h3⟩ := h
    have := ih h3
    omega

theorem Chain.start_le : ∀ {items : List (Nat × Nat × Nat)} {a z : Nat}, Chain a items z →
    ∀ it ∈ items, a ≤ it.1 ∧ it.2.1 ≤ z := by
  intro items
  induction items with
  | nil => intro a z _ it hit; cases hit
  | cons it0 rest ih =>
    intro a z h it hit
    obtain ⟨s, e, c⟩ := it0
    obtain ⟨h1, h2, h3⟩ := h
    cases hit with
    | head => have := h3.le; simp; omega
    | tail _ hit' => have := ih h3 it hit'; omega

theorem countIn_below : ∀ {items : List (Nat × Nat × Nat)} {a z : Nat}, Chain a items z →
    ∀ x, x < a → countIn x items = 0 := by
  intro items a z h x hx
  unfold countIn
  rw [List.length_eq_zero_iff, List.filter_eq_nil_iff]
  intro it hit
  have := h.start_le it hit
  simp; omega

theorem countIn_above : ∀ {items : List (Nat × Nat × Nat)} {a z : Nat}, Chain a items z →
    ∀ x, z ≤ x → countIn x items = 0 := by
  intro items a z h x hx
  unfold countIn
  rw [List.length_eq_zero_iff, List.filter_eq_nil_iff]
  intro it hit
  have := h.start_le it hit
  simp; omega

/-- a chain is a partition of `[a, z)` -/
theorem countIn_chain : ∀ {items : List (Nat × Nat × Nat)} {a z : Nat}, Chain a items z →
    ∀ x, a ≤ x → x < z → countIn x items = 1 := by
  intro items
  induction items with
  | nil => intro a z h x h1 h2; simp [Chain] at h; omega
  | cons it0 rest ih =>
    intro a z h x h1 h2
    obtain ⟨s, e, c⟩ := it0
    obtain ⟨hs, hse, hr⟩ := h
    subst hs
    by_cases hx : x < e
    · have h0 := countIn_below hr x hx
      unfold countIn at h0 ⊢
      simp only [List.filter_cons]
      have : (decide (s ≤ x) && decide (x < e)) = true := by simp; omega
      simp [this, h0]
    · have h0 := ih hr x (by omega) h2
      unfold countIn at h0 ⊢
      simp only [List.filter_cons]
      have : (decide (s ≤ x) && decide (x < e)) = false := by simp; omega
      simp [this, h0]

/-! ### the iterator over a table with strictly increasing scalar boundaries -/

theorem iterGo_spec : ∀ (rest : List (Nat × Nat)) (prev : Nat), SInc (prev :: fsts rest) →
    (∀ b ∈ prev :: fsts rest, isScalar b = true) →
    ∃ items, iterGo prev rest = some items ∧ Chain prev items charMax ∧
      (∀ it ∈ items, ∀ x, it.1 ≤ x → x < it.2.1 → it.2.2 = denF rest x) ∧
      items.map (·.2.2) = snds rest ++ [DEFAULT] := by
  intro rest
  induction rest with
  | nil =>
    intro prev _ hsc
    have hp := hsc prev (by simp)
    refine ⟨[(prev, charMax, DEFAULT)], by simp [iterGo, hp], ?_, ?_, by simp [snds]⟩
    · exact ⟨rfl, isScalar_le hp, rfl⟩
    · intro it hit x _ _
      simp at hit; subst hit
      simp [denF]
  | cons p rest ih =>
    obtain ⟨b, c⟩ := p
    intro prev hs hsc
    have hs' : SInc (prev :: b :: fsts rest) := by simpa [fsts] using hs
    have hp := hsc prev (by simp)
    have hb := hsc b (by simp [fsts])
    obtain ⟨items, h1, h2, h3, h4⟩ := ih b hs'.2 (by
      intro y hy; apply hsc y; simp [fsts] at hy ⊢; rcases hy with h | h
      · exact Or.inr (Or.inl h)
      · exact Or.inr (Or.inr h))
    refine ⟨(prev, b, c) :: items, by simp [iterGo, hp, hb, h1], ⟨rfl, Nat.le_of_lt hs'.1, h2⟩, ?_, by simp [snds, h4]⟩
    intro it hit x hx1 hx2
    cases hit with
    | head => simp at hx2; simp [denF, hx2]
    | tail _ hit' =>
      have := (h2.start_le it hit').1
      have hnb : ¬ x < b := by omega
      simp only [denF, hnb, if_false]
      exact h3 it hit' x hx1 hx2

/-- `iter()` on a non-empty table: no panic, consecutive ranges from 0 to `char::MAX`, each with the
classes the table gives to every code point inside it -/
theorem iterRanges_spec (tab : List (Nat × Nat)) (hne : tab ≠ []) (hs : SInc (fsts tab))
    (hsc : ∀ b ∈ fsts tab, isScalar b = true) :
    ∃ items, iterRanges tab = some items ∧ Chain 0 items charMax ∧
      (∀ it ∈ items, ∀ x, it.1 ≤ x → x < it.2.1 → it.2.2 = denF tab x) ∧
      items.map (·.2.2) = snds tab ++ [DEFAULT] := by
  cases tab with
  | nil => exact absurd rfl hne
  | cons p rest =>
    obtain ⟨b, c⟩ := p
    have hb := hsc b (by simp [fsts])
    obtain ⟨items, h1, h2, h3, h4⟩ := iterGo_spec rest b (by simpa [fsts] using hs) (by simpa [fsts] using hsc)
    refine ⟨(0, b, c) :: items, by simp [iterRanges, hb, h1], ⟨rfl, Nat.zero_le _, h2⟩, ?_, by simp [snds, h4]⟩
    intro it hit x hx1 hx2
    cases hit with
    | head => simp at hx2; simp [denF, hx2]
    | tail _ hit' =>
      have := (h2.start_le it hit').1
      have hnb : ¬ x < b := by omega
      simp only [denF, hnb, if_false]
      exact h3 it hit' x hx1 hx2

/-! ### the boundaries of a compiled table are ends of definition lines -/

theorem mem_fsts_mergeGo : ∀ (l : List (Nat × Nat)) (lb lc y : Nat), y ∈ fsts (mergeGo lb lc l) → y = lb ∨ y ∈ fsts l := by
  intro l
  induction l with
  | nil => intro lb lc y h; simp [mergeGo, fsts] at h; exact Or.inl h
  | cons p rest ih =>
    obtain ⟨b, x⟩ := p
    intro lb lc y h
    simp only [mergeGo] at h
    split at h
    · rcases ih b lc y h with h' | h'
      · exact Or.inr (by simp [fsts, h'])
      · exact Or.inr (by simp [fsts] at h' ⊢; exact Or.inr h')
    · simp only [fsts, List.map_cons, List.mem_cons] at h
      rcases h with h | h
      · exact Or.inl h
      · rcases ih b x y (by simpa [fsts] using h) with h' | h'
        · exact Or.inr (by simp [fsts, h'])
        · exact Or.inr (by simp [fsts] at h' ⊢; exact Or.inr h')

theorem mem_fsts_merge (l : List (Nat × Nat)) (y : Nat) (h : y ∈ fsts (merge l)) : y ∈ fsts l := by
  cases l with
  | nil => simpa [merge] using h
  | cons p rest =>
    obtain ⟨b, c⟩ := p
    rcases mem_fsts_mergeGo rest b c y h with h' | h'
    · simp [fsts, h']
    · simp [fsts] at h' ⊢; exact Or.inr h'

theorem mem_fsts_compile (rs : List CatRange) (y : Nat) (h : y ∈ fsts (compile rs)) :
    ∃ r ∈ rs, y = r.b ∨ y = r.e := by
  unfold compile at h
  rw [fsts_finalize] at h
  have := mem_fsts_merge _ y h
  rw [fsts_setFirst, fsts_applyAll, fsts_initCats] at this
  exact (mem_collect rs y).mp this

theorem mergeGo_ne_nil : ∀ (l : List (Nat × Nat)) (lb lc : Nat), mergeGo lb lc l ≠ [] := by
  intro l
  induction l with
  | nil => intro lb lc; simp [mergeGo]
  | cons p rest ih =>
    obtain ⟨b, x⟩ := p
    intro lb lc
    simp only [mergeGo]
    split
    · exact ih b lc
    · simp

theorem compile_ne_nil (rs : List CatRange) (hne : rs ≠ []) : compile rs ≠ [] := by
  cases rs with
  | nil => exact absurd rfl hne
  | cons r rs' =>
    have hmem : r.b ∈ collectBoundaries (r :: rs') := (mem_collect _ _).mpr ⟨r, by simp, Or.inl rfl⟩
    have hf : fsts (setFirst (applyAll (r :: rs') (initCats (collectBoundaries (r :: rs'))))) = collectBoundaries (r :: rs') := by
      rw [fsts_setFirst, fsts_applyAll, fsts_initCats]
    unfold compile
    generalize setFirst (applyAll (r :: rs') (initCats (collectBoundaries (r :: rs')))) = l at hf
    cases l with
    | nil => simp [fsts] at hf; rw [hf] at hmem; cases hmem
    | cons p rest =>
      obtain ⟨b, c⟩ := p
      simp only [merge, finalize]
      intro h
      exact mergeGo_ne_nil rest b c (List.map_eq_nil_iff.mp h)

/-! ### neighbouring intervals of a compiled table differ, except for DEFAULT -/

/-- neighbours differ -/
def AdjNe : List Nat → Prop
  | [] => True
  | [_] => True
  | a :: b :: t => a ≠ b ∧ AdjNe (b :: t)

theorem mergeGo_head : ∀ (l : List (Nat × Nat)) (lb lc : Nat), ∃ b' t, mergeGo lb lc l = (b', lc) :: t := by
  intro l
  induction l with
  | nil => intro lb lc; exact ⟨lb, [], rfl⟩
  | cons p rest ih =>
    obtain ⟨b, x⟩ := p
    intro lb lc
    simp only [mergeGo]
    split
    · exact ih b lc
    · exact ⟨lb, _, rfl⟩

theorem adjNe_mergeGo : ∀ (l : List (Nat × Nat)) (lb lc : Nat), AdjNe (snds (mergeGo lb lc l)) := by
  intro l
  induction l with
  | nil => intro lb lc; simp [mergeGo, snds, AdjNe]
  | cons p rest ih =>
    obtain ⟨b, x⟩ := p
    intro lb lc
    simp only [mergeGo]
    split
    · exact ih b lc
    · rename_i hne
      obtain ⟨b', t, ht⟩ := mergeGo_head rest b x
      have := ih b x
      rw [ht] at this ⊢
      simp only [snds, List.map_cons] at this ⊢
      exact ⟨fun h => hne h.symm, this⟩

theorem adjEqDef_finalize : ∀ (l : List Nat), AdjNe l →
    AdjEqDef (l.map (fun c => if c = 0 then DEFAULT else c) ++ [DEFAULT]) := by
  intro l
  induction l with
  | nil => intro _; simp [AdjEqDef]
  | cons a t ih =>
    intro h
    cases t with
    | nil =>
      simp only [List.map_cons, List.map_nil, List.cons_append, List.nil_append, AdjEqDef, and_true]
      intro h'; exact h'
    | cons b t' =>
      obtain ⟨hab, ht⟩ := h
      have := ih ht
      simp only [List.map_cons, List.cons_append] at this ⊢
      refine ⟨?_, this⟩
      intro heq
      by_cases ha : a = 0
      · simp [ha]
      · by_cases hb : b = 0
        · simp [ha, hb] at heq ⊢; exact heq
        · simp [ha, hb] at heq; exact absurd heq hab

theorem adjEqDef_compile (rs : List CatRange) : AdjEqDef (snds (compile rs) ++ [DEFAULT]) := by
  unfold compile
  have hsn : ∀ l : List (Nat × Nat), snds (finalize l) = (snds l).map (fun c => if c = 0 then DEFAULT else c) := by
    intro l; simp [snds, finalize, List.map_map, Function.comp_def]
  rw [hsn]
  apply adjEqDef_finalize
  generalize setFirst (applyAll rs (initCats (collectBoundaries rs))) = l
  cases l with
  | nil => simp [merge, snds, AdjNe]
  | cons p rest => obtain ⟨b, c⟩ := p; exact adjNe_mergeGo rest b c

end CharCat
