import Sudachi.Proofs.RewriteSafe
import Sudachi.Proofs.RewriteLocal
/-!
# C14: `Err(InvalidRange)` is unreachable for a parser that rejects a leading separator

`JoinNumericPlugin::rewrite_gen` can return `InvalidRange` only through the trailing-separator rule with an EMPTY
range (`Rewrite.nconcat_safe`): the run consists of the separator alone.  A parser that rejects `,` and `.` as the
first character of a number (`SepNotFirst`, true of the real `NumericParser`) never opens such a run.
-/
namespace Rewrite

/-- while the open run consists of ONE node, the parser has accepted exactly the normalised form of that node -/
def NOne (P : List Char → POut) (st : NState) : Prop :=
  0 ≤ st.beginIdx → st.beginIdx = st.i →
    ∃ node, st.path[st.i.toNat]? = some node ∧ st.acc = normForm node ∧ st.acc.length ≤ (P st.acc).n

theorem nInit_one (P : List Char → POut) (path : List Node) : NOne P (nInit path) := by
  intro h0
  simp only [nInit] at h0
  omega

theorem nstep_one (v : NVariant) (cfg : NCfg) (cat : List Nat) (P : List Char → POut) (st st' : NState)
    (hinv : NInv2 st) (h : nstep v cfg cat P st = .ok st') : NOne P st' := by
  obtain ⟨hi, hb, _⟩ := hinv
  unfold nstep at h
  simp only at h
  repeat (any_goals (first
    | split at h
    | (cases h; done)
    | (cases h
       intro h0 h1
       simp only at h0 h1
       omega)
    | (cases h
       intro h0 h1
       simp only at h0 h1 ⊢
       have hneg : st.beginIdx < 0 := by omega
       simp only [hneg, if_true, List.nil_append] at *
       exact ⟨_, by assumption, rfl, by omega⟩)))

theorem sep_not_accepted {P : List Char → POut} (hP : SepNotFirst P) {acc : List Char} {c1 c2 : Nat}
    (hs : ((c1 == E_COMMA && acc == [',']) || (c2 == E_POINT && acc == ['.'])) = true)
    (hacc : acc.length ≤ (P acc).n) : False := by
  rcases Bool.or_eq_true_iff.mp hs with h | h
  · have := (Bool.and_eq_true_iff.mp h).2
    have e : acc = [','] := by simpa using this
    subst e
    have := hP.1
    simp only [List.length_cons, List.length_nil] at hacc
    omega
  · have := (Bool.and_eq_true_iff.mp h).2
    have e : acc = ['.'] := by simpa using this
    subst e
    have := hP.2
    simp only [List.length_cons, List.length_nil] at hacc
    omega

/-- one iteration never returns `InvalidRange` -/
theorem nstep_ne_err (v : NVariant) (cfg : NCfg) (cat : List Nat) (P : List Char → POut) (hP : SepNotFirst P)
    (st : NState) (hs : Safe cat st.path) (hinv : NInv2 st) (hone : NOne P st)
    (hg : st.i < (st.path.length : Int) - 1) : nstep v cfg cat P st ≠ .err := by
  obtain ⟨path, i, bi, comma, period, acc⟩ := st
  obtain ⟨hi, hb, hbl⟩ := hinv
  simp only [NOne] at hone
  simp only at hs hi hb hbl hg
  obtain ⟨j, rfl⟩ : ∃ j : Nat, i = (j : Int) - 1 := ⟨(i + 1).toNat, by omega⟩
  have hj : j < path.length := by omega
  have a2 : ((j : Int) - 1 + 1) = (j : Int) := by omega
  have n1 : ¬ ((j : Int) < 0) := by omega
  have hnode := getElem?_some_of_lt hj
  obtain ⟨ct, hct⟩ := catOfRange_safe hs path[j] (List.getElem_mem hj)
  unfold nstep
  simp only [a2, n1, if_false, Int.toNat_natCast, hnode, hct]
  split
  · cases v <;> simp only [] <;> (repeat' split) <;> simp
  · by_cases hb0 : bi ≥ 0
    · obtain ⟨k, rfl⟩ : ∃ k : Nat, bi = (k : Int) := ⟨bi.toNat, by omega⟩
      simp only [hb0, if_true, Int.toNat_natCast]
      split
      · rcases nconcat_safe cfg P hs k j (by omega) (by omega) (by omega) acc with he | ⟨q, hq, _, _⟩
        · omega
        · rw [hq]; simp
      · rw [if_neg (by omega), getElem?_some_of_lt (show j - 1 < path.length by omega)]
        simp only
        split
        · rename_i hsep
          rcases nconcat_safe cfg P hs k (j - 1) (by omega) (by omega) (by omega) acc with he | ⟨q, hq, _, _⟩
          · exfalso
            have hk : (k : Int) = (j : Int) - 1 := by omega
            obtain ⟨node, hn, hacc, hlen⟩ := hone hb0 hk
            have e : ((j : Int) - 1).toNat = j - 1 := by omega
            rw [e, getElem?_some_of_lt (show j - 1 < path.length by omega)] at hn
            cases hn
            rw [← hacc] at hsep
            exact sep_not_accepted hP hsep hlen
          · rw [hq]; simp
        · simp
    · simp only [hb0, if_false]
      simp

theorem ntail_ne_err (cfg : NCfg) (cat : List Nat) (P : List Char → POut) (hP : SepNotFirst P) (st : NState)
    (hs : Safe cat st.path) (hinv : NInv2 st) (hone : NOne P st)
    (hg : ¬ st.i < (st.path.length : Int) - 1) : ntail cfg P st ≠ .err := by
  obtain ⟨path, i, bi, comma, period, acc⟩ := st
  obtain ⟨hi, hb, hbl⟩ := hinv
  simp only [NOne] at hone
  simp only at hs hi hb hbl hg
  unfold ntail
  simp only
  by_cases hb0 : bi ≥ 0
  · obtain ⟨k, rfl⟩ : ∃ k : Nat, bi = (k : Int) := ⟨bi.toNat, by omega⟩
    have := hbl hb0
    simp only [hb0, if_true, Int.toNat_natCast]
    split
    · rcases nconcat_safe cfg P hs k path.length (by omega) (by omega) (by omega) acc with he | ⟨q, hq, _, _⟩
      · omega
      · rw [hq]; simp
    · rw [if_neg (by omega), getElem?_some_of_lt (show path.length - 1 < path.length by omega)]
      simp only
      split
      · rename_i hsep
        rcases nconcat_safe cfg P hs k (path.length - 1) (by omega) (by omega) (by omega) acc with
          he | ⟨q, hq, _, _⟩
        · exfalso
          have hk : (k : Int) = i := by omega
          obtain ⟨node, hn, hacc, hlen⟩ := hone hb0 hk
          have e : i.toNat = path.length - 1 := by omega
          rw [e, getElem?_some_of_lt (show path.length - 1 < path.length by omega)] at hn
          cases hn
          rw [← hacc] at hsep
          exact sep_not_accepted hP hsep hlen
        · rw [hq]; simp
      · simp
  · simp only [hb0, if_false]
    simp

/-- the numeral loop on a safe path with a parser that rejects a leading separator: out of fuel or `ok` -/
theorem nloop_ok (v : NVariant) (cfg : NCfg) (cat : List Nat) (P : List Char → POut) (hP : SepNotFirst P) :
    ∀ (fuel : Nat) (st : NState), Safe cat st.path → NInv2 st → NOne P st →
      nloop v cfg cat P fuel st = .fuel ∨ ∃ q, nloop v cfg cat P fuel st = .ok q ∧ Safe cat q := by
  intro fuel
  induction fuel with
  | zero => intro st _ _ _; exact .inl rfl
  | succ fuel ih =>
    intro st hs hinv hone
    unfold nloop
    by_cases hg : st.i < (st.path.length : Int) - 1
    · rw [if_pos hg]
      rcases nstep_safe v cfg cat P st hs hinv hg with he | ⟨st', hst, hs', hinv'⟩
      · exact absurd he (nstep_ne_err v cfg cat P hP st hs hinv hone hg)
      · rw [hst]; exact ih st' hs' hinv' (nstep_one v cfg cat P st st' hinv hst)
    · rw [if_neg hg]
      rcases ntail_safe cfg cat P st hs hinv hg with he | h
      · exact absurd he (ntail_ne_err cfg cat P hP st hs hinv hone hg)
      · exact .inr h

theorem rewriteAll_ok (v : NVariant) (cat : List Nat) (P : List Char → POut) (hP : SepNotFirst P) :
    ∀ (pls : List Plugin) (path : List Node), Safe cat path →
      rewriteAll v cat P pls path = .fuel ∨ ∃ q, rewriteAll v cat P pls path = .ok q ∧ Safe cat q := by
  intro pls
  induction pls with
  | nil => intro path hs; exact .inr ⟨path, rfl, hs⟩
  | cons pl rest ih =>
    intro path hs
    unfold rewriteAll
    have hpl : applyPlugin v cat P pl path = .fuel ∨ ∃ q, applyPlugin v cat P pl path = .ok q ∧ Safe cat q := by
      cases pl with
      | numeric cfg => exact nloop_ok v cfg cat P hP _ _ hs (nInit_inv2 path) (nInit_one P path)
      | katakana cfg => exact kloop_safe cfg cat (kFuel path) path 0 hs
    rcases hpl with h | ⟨q, hq, hsq⟩
    · rw [h]; exact .inl rfl
    · rw [hq]; exact ih q hsq

end Rewrite
