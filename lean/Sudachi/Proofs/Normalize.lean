import Sudachi.Model.Normalize
/-!
# Specifications and lemmas for the input-text plugins (C07; `EditsOk` is reused by C01/C08)
-/
namespace Normalize

/-! ## the reusable predicate on edit lists -/

/-- edits sorted, non-overlapping and inside a text of `n` code points; `start` = end of the
previous edit.  Positions are code-point indices, hence character boundaries by construction;
`EditsOk.bytes` below transports the statement to byte offsets for any width function. -/
def EditsOk (n : Nat) : Nat → List Edit → Prop
  | start, [] => start ≤ n
  | start, e :: es => start ≤ e.s ∧ e.s ≤ e.e ∧ e.e ≤ n ∧ EditsOk n e.e es

theorem EditsOk.start_le {n start : Nat} {es : List Edit} (h : EditsOk n start es) : start ≤ n := by
  cases es with
  | nil => exact h
  | cons e es => obtain ⟨h1, h2, h3, _⟩ := h; omega

theorem EditsOk.weaken {n start start' : Nat} {es : List Edit} (h : EditsOk n start es)
    (hs : start' ≤ start) : EditsOk n start' es := by
  cases es with
  | nil => exact Nat.le_trans hs h
  | cons e es => obtain ⟨h1, h2, h3, h4⟩ := h; exact ⟨by omega, h2, h3, h4⟩

/-! ## `applyGo` -/

theorem applyGo_cons_ok (pos : Nat) (e : Edit) (es : List Edit) (s : List Nat)
    (h1 : pos ≤ e.s) (h2 : e.s ≤ e.e) (h3 : e.e ≤ pos + s.length) :
    applyGo pos (e :: es) s =
      (applyGo e.e es (s.drop (e.e - pos))).map (fun t => s.take (e.s - pos) ++ e.rep ++ t) := by
  simp only [applyGo]
  rw [if_neg]
  rw [lenLt_iff]
  omega

/-- a character in front of every edit is copied -/
theorem applyGo_shift (n pos : Nat) (es : List Edit) (c : Nat) (cs : List Nat)
    (h : EditsOk n (pos + 1) es) :
    applyGo pos es (c :: cs) = (applyGo (pos + 1) es cs).map (fun t => c :: t) := by
  cases es with
  | nil => simp [applyGo]
  | cons e es =>
    obtain ⟨h1, h2, _, _⟩ := h
    simp only [applyGo, lenLt_iff, List.length_cons]
    by_cases hc : e.s < pos + 1 ∨ e.e < e.s ∨ cs.length < e.e - (pos + 1)
    · rw [if_pos hc, if_pos (by omega)]; rfl
    · rw [if_neg hc, if_neg (by omega)]
      have e1 : e.s - pos = (e.s - (pos + 1)) + 1 := by omega
      have e2 : e.e - pos = (e.e - (pos + 1)) + 1 := by omega
      rw [e1, e2, List.take_succ_cons, List.drop_succ_cons, Option.map_map]
      rfl

/-- `j` characters in front of every edit are copied -/
theorem applyGo_skip (n : Nat) (es : List Edit) : ∀ (j pos : Nat) (s : List Nat), j ≤ s.length →
    EditsOk n (pos + j) es →
    applyGo pos es s = (applyGo (pos + j) es (s.drop j)).map (fun t => s.take j ++ t) := by
  intro j
  induction j with
  | zero => intro pos s _ _; simp
  | succ j ih =>
    intro pos s hj h
    cases s with
    | nil => simp at hj
    | cons c cs =>
      have h' : EditsOk n (pos + 1 + j) es := by rw [show pos + 1 + j = pos + (j + 1) by omega]; exact h
      rw [applyGo_shift n pos es c cs (h'.weaken (by omega)), ih (pos + 1) cs (by simpa using hj) h',
        Option.map_map, show pos + 1 + j = pos + (j + 1) by omega]
      rfl

theorem applyGo_isSome (n : Nat) : ∀ (es : List Edit) (pos : Nat) (s : List Nat), n = pos + s.length →
    EditsOk n pos es → (applyGo pos es s).isSome := by
  intro es
  induction es with
  | nil => intro pos s _ _; simp [applyGo]
  | cons e es ih =>
    intro pos s hn h
    obtain ⟨h1, h2, h3, h4⟩ := h
    rw [applyGo_cons_ok pos e es s h1 h2 (by omega)]
    have := ih e.e (s.drop (e.e - pos)) (by simp only [List.length_drop]; omega) h4
    simp only [Option.isSome_map]; exact this

/-! ## table lookups -/

theorem isKeyAt_iff (p : Pair) (s : List Nat) : isKeyAt p s = true ↔ p.1 ≠ [] ∧ p.1 <+: s := by
  simp [isKeyAt, List.isPrefixOf_iff_prefix]

theorem longestAt_ne_none {ps : List Pair} {s : List Nat} {q : Pair} (hq : q ∈ ps) (hne : q.1 ≠ [])
    (hpre : q.1 <+: s) : longestAt ps s ≠ none := by
  induction ps with
  | nil => simp at hq
  | cons b bs ihb =>
    simp only [longestAt]
    by_cases hb : isKeyAt b s = true
    · rw [if_pos hb]; split <;> (try split) <;> simp
    · rw [if_neg hb]
      rcases List.mem_cons.mp hq with rfl | hq'
      · exact absurd ((isKeyAt_iff q s).mpr ⟨hne, hpre⟩) hb
      · exact ihb hq'

/-- `longestAt` returns a table entry whose key is a non-empty prefix of the text and at least as
long as every other such key: "the longest table key starting at a position" -/
theorem longestAt_some {ps : List Pair} {s : List Nat} {p : Pair} (h : longestAt ps s = some p) :
    p ∈ ps ∧ p.1 ≠ [] ∧ p.1 <+: s ∧ ∀ q ∈ ps, q.1 ≠ [] → q.1 <+: s → q.1.length ≤ p.1.length := by
  induction ps generalizing p with
  | nil => simp [longestAt] at h
  | cons a as ih =>
    simp only [longestAt] at h
    by_cases hk : isKeyAt a s = true
    · rw [if_pos hk] at h
      have hka := (isKeyAt_iff a s).mp hk
      cases hr : longestAt as s with
      | none =>
        rw [hr] at h; injection h with h; subst h
        refine ⟨by simp, hka.1, hka.2, ?_⟩
        intro q hq hne hpre
        rcases List.mem_cons.mp hq with rfl | hq
        · exact Nat.le_refl _
        · exact absurd hr (longestAt_ne_none hq hne hpre)
      | some r =>
        rw [hr] at h; dsimp only at h
        obtain ⟨r1, r2, r3, r4⟩ := ih hr
        by_cases hl : a.1.length < r.1.length
        · rw [if_pos hl] at h; injection h with h; subst h
          refine ⟨by simp [r1], r2, r3, ?_⟩
          intro q hq hne hpre
          rcases List.mem_cons.mp hq with rfl | hq
          · omega
          · exact r4 q hq hne hpre
        · rw [if_neg hl] at h; injection h with h; subst h
          refine ⟨by simp, hka.1, hka.2, ?_⟩
          intro q hq hne hpre
          rcases List.mem_cons.mp hq with rfl | hq
          · exact Nat.le_refl _
          · have := r4 q hq hne hpre; omega
    · rw [if_neg hk] at h
      obtain ⟨r1, r2, r3, r4⟩ := ih h
      refine ⟨by simp [r1], r2, r3, ?_⟩
      intro q hq hne hpre
      rcases List.mem_cons.mp hq with rfl | hq
      · exact absurd ((isKeyAt_iff q s).mpr ⟨hne, hpre⟩) hk
      · exact r4 q hq hne hpre

/-- ... and reports nothing only when no key starts at the position -/
theorem longestAt_none {ps : List Pair} {s : List Nat} (h : longestAt ps s = none) :
    ∀ q ∈ ps, q.1 ≠ [] → ¬ q.1 <+: s :=
  fun _ hq hne hpre => longestAt_ne_none hq hne hpre h

theorem shortestAt_some {ps : List Pair} {s : List Nat} {p : Pair} (h : shortestAt ps s = some p) :
    p ∈ ps ∧ p.1 ≠ [] ∧ p.1 <+: s := by
  induction ps generalizing p with
  | nil => simp [shortestAt] at h
  | cons a as ih =>
    simp only [shortestAt] at h
    by_cases hk : isKeyAt a s = true
    · rw [if_pos hk] at h
      have hka := (isKeyAt_iff a s).mp hk
      cases hr : shortestAt as s with
      | none => rw [hr] at h; injection h with h; subst h; exact ⟨by simp, hka.1, hka.2⟩
      | some r =>
        rw [hr] at h; dsimp only at h
        obtain ⟨r1, r2, r3⟩ := ih hr
        by_cases hl : r.1.length < a.1.length
        · rw [if_pos hl] at h; injection h with h; subst h; exact ⟨by simp [r1], r2, r3⟩
        · rw [if_neg hl] at h; injection h with h; subst h; exact ⟨by simp, hka.1, hka.2⟩
    · rw [if_neg hk] at h
      obtain ⟨r1, r2, r3⟩ := ih h
      exact ⟨by simp [r1], r2, r3⟩

theorem anchoredFind_some {e : Bool} {ps : List Pair} {s : List Nat} {p : Pair}
    (h : anchoredFind e ps s = some p) : p ∈ ps ∧ p.1 ≠ [] ∧ p.1 <+: s := by
  cases e with
  | true => exact shortestAt_some (by simpa [anchoredFind] using h)
  | false =>
    obtain ⟨a, b, c, _⟩ := longestAt_some (by simpa [anchoredFind] using h)
    exact ⟨a, b, c⟩

theorem key_len_bounds {p : Pair} {s : List Nat} (hne : p.1 ≠ []) (hpre : p.1 <+: s) :
    1 ≤ p.1.length ∧ p.1.length ≤ s.length :=
  ⟨List.length_pos_iff.mpr hne, hpre.length_le⟩

/-! ## the specification -/

/-- any character not covered by a key: lower-cased and, unless exempt, NFKC-normalised -/
def specChar (U : Uni) (ignore : List Nat) (c : Nat) : List Nat :=
  if ignore.contains c then U.lower c else U.nfkc (U.lower c)

/-- scanning left to right, the longest table key starting at a position is replaced by its
value; any other character is replaced by `specChar`; nothing else changes -/
def normSpec (U : Uni) (T : Table) (s : List Nat) : List Nat :=
  match s with
  | [] => []
  | c :: cs =>
    match h : longestAt T.pairs (c :: cs) with
    | some p => p.2 ++ normSpec U T ((c :: cs).drop p.1.length)
    | none => specChar U T.ignore c ++ normSpec U T cs
termination_by s.length
decreasing_by
  · have := longestAt_key_ne_nil h
    have : 0 < p.1.length := List.length_pos_iff.mpr this
    simp only [List.length_drop, List.length_cons]; omega
  · simp

theorem normSpec_nil (U : Uni) (T : Table) : normSpec U T [] = [] := by
  rw [normSpec]

theorem normSpec_some (U : Uni) (T : Table) (c : Nat) (cs : List Nat) (p : Pair)
    (h : longestAt T.pairs (c :: cs) = some p) :
    normSpec U T (c :: cs) = p.2 ++ normSpec U T ((c :: cs).drop p.1.length) := by
  rw [normSpec]; split
  · rename_i q hq; rw [h] at hq; injection hq with hq; subst hq; rfl
  · rename_i hq; rw [h] at hq; cases hq

theorem normSpec_none (U : Uni) (T : Table) (c : Nat) (cs : List Nat)
    (h : longestAt T.pairs (c :: cs) = none) :
    normSpec U T (c :: cs) = specChar U T.ignore c ++ normSpec U T cs := by
  rw [normSpec]; split
  · rename_i q hq; rw [h] at hq; cases hq
  · rfl

/-! ## assumptions on the Unicode parameters under which the code meets the specification

Each clause is a fact about real Unicode data that the harness re-checks for every character it
ships (`unihyp:*` counters in the evidence); `lower_id` is the one that real data violates
(31 title-case letters), see `C07.titlecase_counterexample`. -/
structure UniOk (U : Uni) : Prop where
  /-- a character that is not `is_uppercase` is its own lower case -/
  lower_id : ∀ c, U.isUpper c = false → U.lower c = [c]
  /-- a character that passes the quick check is its own NFKC -/
  nfkc_id : ∀ c, isNfkcQuick U [c] = QC.yes → U.nfkc [c] = [c]
  /-- the lower case of a quick-check-clean upper-case character is NFKC already -/
  lower_nfkc : ∀ c, U.isUpper c = true → isNfkcQuick U [c] = QC.yes → U.nfkc (U.lower c) = U.lower c
  lower_ne : ∀ c, U.lower c ≠ []
  nfkc_ne : ∀ s, s ≠ [] → U.nfkc s ≠ []
  /-- "first output equals input ⇒ no edit" loses nothing -/
  lower_head : ∀ c ds, U.lower c = c :: ds → ds = []
  nfkc_head : ∀ c ds, U.nfkc [c] = c :: ds → ds = []
  nfkcl_head : ∀ c ds, U.nfkc (U.lower c) = c :: ds → ds = []

/-- what one iteration of step 2 of `replace_slow` writes for the character -/
def charOut (U : Uni) (ignore : List Nat) (pos c : Nat) : List Nat :=
  match charEdit pos c (charData U ignore c) with
  | some e => e.rep
  | none => [c]

theorem charEdit_shape {pos c : Nat} {d : Option (List Nat)} {e : Edit} (h : charEdit pos c d = some e) :
    e.s = pos ∧ e.e = pos + 1 := by
  cases d with
  | none => simp [charEdit] at h
  | some l =>
    cases l with
    | nil => simp [charEdit] at h
    | cons x xs =>
      simp only [charEdit] at h
      split at h
      · cases h
      · injection h with h; subst h; exact ⟨rfl, rfl⟩

theorem charOut_of_data (pos c : Nat) (l : List Nat) (hne : l ≠ [])
    (hhead : ∀ ds, l = c :: ds → ds = []) :
    (match charEdit pos c (some l) with | some e => e.rep | none => [c]) = l := by
  cases l with
  | nil => exact absurd rfl hne
  | cons x xs =>
    simp only [charEdit]
    by_cases hx : x = c
    · subst hx; rw [if_pos rfl]; simp [hhead xs rfl]
    · rw [if_neg hx]

def needNfkc (U : Uni) (ignore : List Nat) (c : Nat) : Bool :=
  !ignore.contains c && (isNfkcQuick U [c] != QC.yes)

theorem charData_eq (U : Uni) (ignore : List Nat) (c : Nat) :
    charData U ignore c =
      if U.isUpper c then (if needNfkc U ignore c then some (U.nfkc (U.lower c)) else some (U.lower c))
      else (if needNfkc U ignore c then some (U.nfkc [c]) else none) := by
  unfold charData needNfkc
  cases U.isUpper c <;> cases (!ignore.contains c && (isNfkcQuick U [c] != QC.yes)) <;> rfl

theorem needNfkc_false {U : Uni} {ignore : List Nat} {c : Nat} (h : needNfkc U ignore c = false) :
    c ∈ ignore ∨ isNfkcQuick U [c] = QC.yes := by
  unfold needNfkc at h
  by_cases hi : c ∈ ignore
  · left; exact hi
  · right; simpa [hi] using h

theorem needNfkc_true {U : Uni} {ignore : List Nat} {c : Nat} (h : needNfkc U ignore c = true) :
    c ∉ ignore := by
  unfold needNfkc at h
  intro hi
  simp [hi] at h

theorem charOut_eq_spec (U : Uni) (hU : UniOk U) (ignore : List Nat) (pos c : Nat) :
    charOut U ignore pos c = specChar U ignore c := by
  unfold charOut
  rw [charData_eq]
  cases hup : U.isUpper c <;> cases hn : needNfkc U ignore c <;>
    simp only [Bool.false_eq_true, if_false, if_true]
  · -- not upper, no NFKC needed: untouched
    simp only [charEdit, specChar, hU.lower_id c hup]
    rcases needNfkc_false hn with hi | hq
    · simp [hi]
    · by_cases hi : c ∈ ignore <;> simp [hi, hU.nfkc_id c hq]
  · -- only NFKC
    rw [charOut_of_data pos c _ (hU.nfkc_ne _ (by simp)) (hU.nfkc_head c)]
    simp [specChar, needNfkc_true hn, hU.lower_id c hup]
  · -- only lower-casing
    rw [charOut_of_data pos c _ (hU.lower_ne c) (hU.lower_head c)]
    unfold specChar
    rcases needNfkc_false hn with hi | hq
    · simp [hi]
    · by_cases hi : c ∈ ignore <;> simp [hi, hU.lower_nfkc c hup hq]
  · -- both
    rw [charOut_of_data pos c _ (hU.nfkc_ne _ (hU.lower_ne c)) (hU.nfkcl_head c)]
    simp [specChar, needNfkc_true hn]

/-! ## the exact assumption

`UniOk` is a convenient SUFFICIENT set of facts.  What the code needs of the Unicode tables — no more, no
less (`C07.uni_assumption_exact`) — is `CharOk`: for every character and either exemption status, what step 2
of `replace_slow` writes is the specification's image of the character.  The harness evaluates both on real
data for every character it ships. -/

/-- per character: the code's output (`charOut`) is lower-casing followed, unless exempt, by NFKC -/
def CharOk (U : Uni) : Prop := ∀ (exempt : List Nat) (c : Nat), charOut U exempt 0 c = specChar U exempt c

theorem charOut_pos (U : Uni) (ignore : List Nat) (pos pos' c : Nat) :
    charOut U ignore pos c = charOut U ignore pos' c := by
  unfold charOut
  cases charData U ignore c with
  | none => rfl
  | some l => cases l with
    | nil => rfl
    | cons d ds =>
      simp only [charEdit]
      by_cases hd : d = c
      · simp [hd]
      · simp [hd]

theorem UniOk.charOk {U : Uni} (hU : UniOk U) : CharOk U :=
  fun ignore c => charOut_eq_spec U hU ignore 0 c

theorem CharOk.at {U : Uni} (hC : CharOk U) (ignore : List Nat) (pos c : Nat) :
    charOut U ignore pos c = specChar U ignore c := by
  rw [charOut_pos U ignore pos 0 c]; exact hC ignore c

/-! ## slow path = specification -/

theorem slowGo_edits_ok (U : Uni) (T : Table) (e : Bool) : ∀ (s : List Nat) (pos mo : Nat),
    mo ≤ pos + s.length → EditsOk (pos + s.length) (max pos mo) (slowGo U T e pos mo s) := by
  intro s
  induction s with
  | nil => intro pos mo h; simp only [slowGo, EditsOk, List.length_nil] at *; omega
  | cons c cs ih =>
    intro pos mo h
    simp only [List.length_cons] at h
    simp only [slowGo, List.length_cons]
    have hlen : pos + (cs.length + 1) = pos + 1 + cs.length := by omega
    by_cases hlt : pos < mo
    · rw [if_pos hlt, hlen]
      exact (ih (pos + 1) mo (by omega)).weaken (by omega)
    · rw [if_neg hlt]
      cases hf : anchoredFind e T.pairs (c :: cs) with
      | some p =>
        obtain ⟨_, hne, hpre⟩ := anchoredFind_some hf
        have hb := key_len_bounds hne hpre
        simp only [List.length_cons] at hb
        refine ⟨by simp only; omega, by simp, by simp only; omega, ?_⟩
        rw [hlen]
        exact (ih (pos + 1) (pos + p.1.length) (by omega)).weaken (by simp only; omega)
      | none =>
        simp only
        cases hc : charEdit pos c (charData U T.ignore c) with
        | some ed =>
          obtain ⟨h1, h2⟩ := charEdit_shape hc
          refine ⟨by omega, by omega, by omega, ?_⟩
          rw [hlen, h2]
          exact (ih (pos + 1) mo (by omega)).weaken (by omega)
        | none =>
          simp only
          rw [hlen]
          exact (ih (pos + 1) mo (by omega)).weaken (by omega)

theorem slowGo_spec (U : Uni) (hU : CharOk U) (T : Table) : ∀ (s : List Nat) (pos mo : Nat),
    mo ≤ pos + s.length →
    applyGo pos (slowGo U T false pos mo s) s =
      some (s.take (mo - pos) ++ normSpec U T (s.drop (mo - pos))) := by
  intro s
  induction s with
  | nil => intro pos mo _; simp [slowGo, applyGo, normSpec_nil]
  | cons c cs ih =>
    intro pos mo h
    simp only [List.length_cons] at h
    have hok := slowGo_edits_ok U T false
    simp only [slowGo]
    by_cases hlt : pos < mo
    · rw [if_pos hlt]
      rw [applyGo_shift (pos + 1 + cs.length) pos _ c cs ((hok cs (pos + 1) mo (by omega)).weaken (by omega)),
        ih (pos + 1) mo (by omega)]
      have e1 : mo - pos = (mo - (pos + 1)) + 1 := by omega
      rw [e1, List.take_succ_cons, List.drop_succ_cons]
      rfl
    · rw [if_neg hlt]
      have e0 : mo - pos = 0 := by omega
      rw [e0, List.take_zero, List.drop_zero, List.nil_append]
      cases hf : anchoredFind false T.pairs (c :: cs) with
      | some p =>
        have hl : longestAt T.pairs (c :: cs) = some p := by simpa [anchoredFind] using hf
        obtain ⟨_, hne, hpre⟩ := anchoredFind_some hf
        have hb := key_len_bounds hne hpre
        simp only [List.length_cons] at hb
        simp only
        rw [applyGo_cons_ok pos _ _ (c :: cs) (by simp) (by simp) (by simp only [List.length_cons]; omega),
          normSpec_some U T c cs p hl]
        simp only [Nat.sub_self, List.take_zero, List.nil_append, Nat.add_sub_cancel_left]
        -- the remaining edits, seen from the end of the key
        have hk : p.1.length = (p.1.length - 1) + 1 := by omega
        have hrest := ih (pos + 1) (pos + p.1.length) (by omega)
        have hokr := (hok cs (pos + 1) (pos + p.1.length) (by omega))
        rw [applyGo_skip (pos + 1 + cs.length) _ (p.1.length - 1) (pos + 1) cs (by omega)
          (hokr.weaken (by omega))] at hrest
        rw [show pos + 1 + (p.1.length - 1) = pos + p.1.length by omega,
          show pos + p.1.length - (pos + 1) = p.1.length - 1 by omega] at hrest
        rw [hk, List.drop_succ_cons]
        cases hx : applyGo (pos + p.1.length) (slowGo U T false (pos + 1) (pos + p.1.length) cs)
            (List.drop (p.1.length - 1) cs) with
        | none => rw [hx] at hrest; simp at hrest
        | some t =>
          rw [hx] at hrest
          simp only [Option.map_some, Option.some.injEq] at hrest
          rw [← hk, hx]
          simp only [Option.map_some]
          rw [List.append_cancel_left hrest]
      | none =>
        have hl : longestAt T.pairs (c :: cs) = none := by simpa [anchoredFind] using hf
        simp only
        rw [normSpec_none U T c cs hl, ← hU.at T.ignore pos c]
        unfold charOut
        have hrest := ih (pos + 1) mo (by omega)
        rw [show mo - (pos + 1) = 0 by omega, List.take_zero, List.drop_zero, List.nil_append] at hrest
        cases hc : charEdit pos c (charData U T.ignore c) with
        | some ed =>
          obtain ⟨h1, h2⟩ := charEdit_shape hc
          simp only
          rw [applyGo_cons_ok pos ed _ (c :: cs) (by omega) (by omega) (by simp only [List.length_cons]; omega)]
          rw [h1, h2, Nat.sub_self, List.take_zero, List.nil_append, Nat.add_sub_cancel_left,
            List.drop_succ_cons, List.drop_zero, hrest]
          rfl
        | none =>
          simp only
          rw [applyGo_shift (pos + 1 + cs.length) pos _ c cs ((hok cs (pos + 1) mo (by omega)).weaken (by omega)),
            hrest]
          rfl

/-! ## fast path -/

theorem fastGo_edits_ok (ps : List Pair) (pos : Nat) (s : List Nat) :
    EditsOk (pos + s.length) pos (fastGo ps pos s) := by
  fun_induction fastGo ps pos s with
  | case1 pos => simp [EditsOk]
  | case2 pos c cs p h ih =>
    obtain ⟨_, hne, hpre, _⟩ := longestAt_some h
    have hb := key_len_bounds hne hpre
    simp only [List.length_cons] at hb
    refine ⟨Nat.le_refl _, by simp, by simp only [List.length_cons]; omega, ?_⟩
    have : pos + (c :: cs).length = pos + p.1.length + ((c :: cs).drop p.1.length).length := by
      simp only [List.length_drop, List.length_cons]; omega
    rw [this]; exact ih
  | case3 pos c cs h ih =>
    have : pos + (c :: cs).length = pos + 1 + cs.length := by simp only [List.length_cons]; omega
    rw [this]; exact ih.weaken (by omega)

/-- on a text whose characters the specification leaves alone, the fast path is the specification -/
theorem fastGo_spec (U : Uni) (T : Table) (pos : Nat) (s : List Nat)
    (hplain : ∀ c ∈ s, specChar U T.ignore c = [c]) :
    applyGo pos (fastGo T.pairs pos s) s = some (normSpec U T s) := by
  fun_induction fastGo T.pairs pos s with
  | case1 pos => simp [applyGo, normSpec_nil]
  | case2 pos c cs p h ih =>
    obtain ⟨_, hne, hpre, _⟩ := longestAt_some h
    have hb := key_len_bounds hne hpre
    simp only [List.length_cons] at hb
    rw [applyGo_cons_ok pos _ _ (c :: cs) (by simp) (by simp) (by simp only [List.length_cons]; omega),
      normSpec_some U T c cs p h]
    simp only [Nat.sub_self, List.take_zero, List.nil_append, Nat.add_sub_cancel_left]
    rw [ih (fun x hx => hplain x (List.mem_of_mem_drop hx))]
    rfl
  | case3 pos c cs h ih =>
    rw [applyGo_shift (pos + 1 + cs.length) pos _ c cs (fastGo_edits_ok T.pairs (pos + 1) cs),
      ih (fun x hx => hplain x (List.mem_cons_of_mem _ hx)), normSpec_none U T c cs h,
      hplain c (by simp)]
    rfl

/-! ## quick check: the whole-text verdict implies every character's -/

theorem quickGo_yes (U : Uni) : ∀ (s : List Nat) (last : Nat) (r : QC), quickGo U last r s = QC.yes →
    r = QC.yes ∧ ∀ c ∈ s, isNfkcQuick U [c] = QC.yes := by
  intro s
  induction s with
  | nil => intro last r h; simpa [quickGo] using h
  | cons c cs ih =>
    intro last r h
    simp only [quickGo] at h
    by_cases ha : c ≤ 0x7f
    · rw [if_pos ha] at h
      obtain ⟨h1, h2⟩ := ih 0 r h
      refine ⟨h1, ?_⟩
      intro x hx
      rcases List.mem_cons.mp hx with rfl | hx
      · simp [isNfkcQuick, quickGo, ha]
      · exact h2 x hx
    · rw [if_neg ha] at h
      by_cases hcc : (last > U.ccc c && U.ccc c != 0) = true
      · simp [hcc] at h
      · simp only [hcc, Bool.false_eq_true, if_false] at h
        cases hq : U.qc c with
        | yes =>
          rw [hq] at h
          obtain ⟨h1, h2⟩ := ih _ r h
          refine ⟨h1, ?_⟩
          intro x hx
          rcases List.mem_cons.mp hx with rfl | hx
          · simp [isNfkcQuick, quickGo, ha, hq]
          · exact h2 x hx
        | no => rw [hq] at h; cases h
        | maybe =>
          rw [hq] at h
          obtain ⟨h1, _⟩ := ih _ _ h
          cases h1

theorem plain_of_fast (U : Uni) (hU : CharOk U) (ignore : List Nat) (s : List Nat)
    (h : useSlow U s = false) : ∀ c ∈ s, specChar U ignore c = [c] := by
  unfold useSlow at h
  simp only [Bool.or_eq_false_iff, bne_eq_false_iff_eq, List.any_eq_false] at h
  obtain ⟨hq, hup⟩ := h
  have hq' := (quickGo_yes U s 0 QC.yes hq).2
  intro c hc
  have hu : U.isUpper c = false := by simpa using hup c hc
  rw [← hU ignore c]
  unfold charOut
  rw [charData_eq, hu]
  have hn : needNfkc U ignore c = false := by
    unfold needNfkc; rw [hq' c hc]; simp
  simp [hn, charEdit]

/-! ## the default plugin as a whole -/

theorem defaultEdits_spec (U : Uni) (hU : CharOk U) (T : Table) (s : List Nat) :
    applyEdits (defaultEdits U T false s) s = some (normSpec U T s) := by
  unfold applyEdits defaultEdits
  cases h : useSlow U s
  · simp only [Bool.false_eq_true, if_false]
    exact fastGo_spec U T 0 s (plain_of_fast U hU T.ignore s h)
  · simp only [if_true]
    have := slowGo_spec U hU T s 0 0 (Nat.zero_le _)
    simpa [replaceSlow] using this

theorem defaultEdits_ok (U : Uni) (T : Table) (e : Bool) (s : List Nat) :
    EditsOk s.length 0 (defaultEdits U T e s) := by
  unfold defaultEdits
  split
  · have := slowGo_edits_ok U T e s 0 0 (Nat.zero_le _)
    simpa [replaceSlow] using this
  · have := fastGo_edits_ok T.pairs 0 s
    simpa [replaceFast] using this

/-- a one-character text over a table without keys: both paths write `charOut` -/
theorem defaultEdits_single (U : Uni) (ignore : List Nat) (c : Nat) :
    applyEdits (defaultEdits U ⟨ignore, []⟩ false [c]) [c] = some (charOut U ignore 0 c) := by
  unfold defaultEdits
  cases hs : useSlow U [c]
  · -- fast path: no edit, and `charOut` is the character itself
    simp only [Bool.false_eq_true, if_false]
    have hplain : charOut U ignore 0 c = [c] := by
      unfold useSlow at hs
      simp only [Bool.or_eq_false_iff, bne_eq_false_iff_eq, List.any_cons, List.any_nil, Bool.or_false] at hs
      unfold charOut
      rw [charData_eq, hs.2]
      have hn : needNfkc U ignore c = false := by unfold needNfkc; rw [hs.1]; simp
      simp [hn, charEdit]
    rw [hplain]
    simp [applyEdits, replaceFast, fastGo, longestAt, applyGo]
  · simp only [if_true]
    unfold charOut
    simp only [applyEdits, replaceSlow, slowGo, anchoredFind, longestAt, Nat.lt_irrefl, if_false,
      Bool.false_eq_true]
    cases hc : charEdit 0 c (charData U ignore c) with
    | none => simp [applyGo]
    | some ed =>
      obtain ⟨h1, h2⟩ := charEdit_shape hc
      simp only
      rw [applyGo_cons_ok 0 ed [] [c] (by omega) (by omega) (by simp; omega)]
      simp [h1, h2, applyGo]

/-! ## context freedom of the specification -/

/-- no occurrence of a table key that starts inside `u` reaches into `v` -/
def NoSpan (T : Table) (u v : List Nat) : Prop :=
  ∀ i, i < u.length → ∀ p ∈ T.pairs, p.1 ≠ [] → p.1 <+: (u ++ v).drop i → i + p.1.length ≤ u.length

theorem longestAt_congr (ps : List Pair) (s s' : List Nat)
    (h : ∀ q ∈ ps, isKeyAt q s = isKeyAt q s') : longestAt ps s = longestAt ps s' := by
  induction ps with
  | nil => rfl
  | cons a as ih =>
    simp only [longestAt]
    rw [h a (by simp), ih (fun q hq => h q (List.mem_cons_of_mem _ hq))]

theorem isKeyAt_append (T : Table) (u v : List Nat) (hns : NoSpan T u v) (hu : 0 < u.length) :
    ∀ q ∈ T.pairs, isKeyAt q (u ++ v) = isKeyAt q u := by
  intro q hq
  rw [Bool.eq_iff_iff, isKeyAt_iff, isKeyAt_iff]
  constructor
  · rintro ⟨hne, hpre⟩
    have := hns 0 hu q hq hne (by simpa using hpre)
    exact ⟨hne, List.prefix_of_prefix_length_le hpre (List.prefix_append u v) (by omega)⟩
  · rintro ⟨hne, hpre⟩
    exact ⟨hne, hpre.trans (List.prefix_append u v)⟩

theorem NoSpan.drop {T : Table} {u v : List Nat} (h : NoSpan T u v) (k : Nat) (hk : k ≤ u.length) :
    NoSpan T (u.drop k) v := by
  intro i hi p hp hne hpre
  simp only [List.length_drop] at hi ⊢
  have e : (u.drop k ++ v).drop i = (u ++ v).drop (k + i) := by
    rw [← List.drop_drop, List.drop_append_of_le_length hk]
  rw [e] at hpre
  have := h (k + i) (by omega) p hp hne hpre
  omega

theorem normSpec_append (U : Uni) (T : Table) (u v : List Nat) (hns : NoSpan T u v) :
    normSpec U T (u ++ v) = normSpec U T u ++ normSpec U T v := by
  fun_induction normSpec U T u with
  | case1 => simp [normSpec_nil]
  | case2 c cs p h ih =>
    obtain ⟨_, hne, hpre, _⟩ := longestAt_some h
    have hb := key_len_bounds hne hpre
    have hl : longestAt T.pairs (c :: (cs ++ v)) = some p := by
      rw [← h, ← List.cons_append]
      exact longestAt_congr _ _ _ (isKeyAt_append T (c :: cs) v hns (by simp))
    rw [List.cons_append, normSpec_some U T c (cs ++ v) p hl, ← List.cons_append,
      List.drop_append_of_le_length hb.2, ih (hns.drop _ hb.2), List.append_assoc]
  | case3 c cs h ih =>
    have hl : longestAt T.pairs (c :: (cs ++ v)) = none := by
      rw [← h, ← List.cons_append]
      exact longestAt_congr _ _ _ (isKeyAt_append T (c :: cs) v hns (by simp))
    have hns' : NoSpan T cs v := by
      have := hns.drop 1 (by simp)
      simpa using this
    rw [List.cons_append, normSpec_none U T c (cs ++ v) hl, ih hns', List.append_assoc]

/-! ## `earliest = true`: agrees with the specification when no key is a prefix of another -/

/-- no key of the table is a prefix of a different entry's key (in particular keys are distinct) -/
def PrefixFree (ps : List Pair) : Prop :=
  ps.Pairwise (fun p q => ¬ p.1 <+: q.1 ∧ ¬ q.1 <+: p.1)

theorem no_match_longest {ps : List Pair} {s : List Nat} (h : ∀ q ∈ ps, isKeyAt q s = false) :
    longestAt ps s = none := by
  induction ps with
  | nil => rfl
  | cons a as ih =>
    simp only [longestAt, h a (by simp), Bool.false_eq_true, if_false]
    exact ih (fun q hq => h q (List.mem_cons_of_mem _ hq))

theorem no_match_shortest {ps : List Pair} {s : List Nat} (h : ∀ q ∈ ps, isKeyAt q s = false) :
    shortestAt ps s = none := by
  induction ps with
  | nil => rfl
  | cons a as ih =>
    simp only [shortestAt, h a (by simp), Bool.false_eq_true, if_false]
    exact ih (fun q hq => h q (List.mem_cons_of_mem _ hq))

theorem shortest_eq_longest {ps : List Pair} (hpf : PrefixFree ps) (s : List Nat) :
    shortestAt ps s = longestAt ps s := by
  induction ps with
  | nil => rfl
  | cons a as ih =>
    obtain ⟨ha, has⟩ := List.pairwise_cons.mp hpf
    simp only [shortestAt, longestAt]
    by_cases hk : isKeyAt a s = true
    · rw [if_pos hk, if_pos hk]
      have hka := (isKeyAt_iff a s).mp hk
      have hno : ∀ q ∈ as, isKeyAt q s = false := by
        intro q hq
        cases hq' : isKeyAt q s with
        | false => rfl
        | true =>
          exfalso
          have hkq := (isKeyAt_iff q s).mp hq'
          rcases Nat.le_total a.1.length q.1.length with hle | hle
          · exact (ha q hq).1 (List.prefix_of_prefix_length_le hka.2 hkq.2 hle)
          · exact (ha q hq).2 (List.prefix_of_prefix_length_le hkq.2 hka.2 hle)
      rw [no_match_longest hno, no_match_shortest hno]
    · rw [if_neg hk, if_neg hk]; exact ih has

theorem slowGo_earliest_irrelevant (U : Uni) (T : Table) (hpf : PrefixFree T.pairs) :
    ∀ (s : List Nat) (pos mo : Nat), slowGo U T true pos mo s = slowGo U T false pos mo s := by
  intro s
  induction s with
  | nil => intro pos mo; rfl
  | cons c cs ih =>
    intro pos mo
    simp only [slowGo, anchoredFind, if_true, Bool.false_eq_true, if_false, shortest_eq_longest hpf, ih]

/-! ## prolonged sound marks -/

theorem psmGo_edits_ok (marks rep : List Nat) (pos : Nat) (s : List Nat) :
    EditsOk (pos + s.length) pos (psmGo marks rep pos s) := by
  fun_induction psmGo marks rep pos s with
  | case1 pos => simp [EditsOk]
  | case2 pos c cs h ih =>
    have hle : ((c :: cs).takeWhile marks.contains).length ≤ (c :: cs).length :=
      (List.takeWhile_sublist _).length_le
    refine ⟨Nat.le_refl _, by simp, by simp only; omega, ?_⟩
    have : pos + (c :: cs).length = pos + ((c :: cs).takeWhile marks.contains).length +
        ((c :: cs).drop ((c :: cs).takeWhile marks.contains).length).length := by
      simp only [List.length_drop]; omega
    rw [this]; exact ih
  | case3 pos c cs h ih =>
    have : pos + (c :: cs).length = pos + 1 + cs.length := by simp only [List.length_cons]; omega
    rw [this]; exact ih.weaken (by omega)

/-- The plugin's definition as a relation between a text and its rewrite: the text decomposes,
left to right, into characters that are not marks, isolated marks (copied) and maximal runs of two
or more marks (each replaced by the replacement symbol).  Maximality: a run, and an isolated
mark, is followed by a non-mark or by the end of the text; what precedes a run is therefore never
a mark either. -/
inductive PsmRel (marks rep : List Nat) : List Nat → List Nat → Prop
  | nil : PsmRel marks rep [] []
  | plain (c : Nat) (s t : List Nat) : marks.contains c = false → PsmRel marks rep s t →
      PsmRel marks rep (c :: s) (c :: t)
  | single (c : Nat) (s t : List Nat) : marks.contains c = true →
      (∀ d ∈ s.head?, marks.contains d = false) → PsmRel marks rep s t →
      PsmRel marks rep (c :: s) (c :: t)
  | run (r s t : List Nat) : 2 ≤ r.length → (∀ d ∈ r, marks.contains d = true) →
      (∀ d ∈ s.head?, marks.contains d = false) → PsmRel marks rep s t →
      PsmRel marks rep (r ++ s) (rep ++ t)

theorem mem_takeWhile_true {α : Type} (p : α → Bool) {l : List α} {x : α} (h : x ∈ l.takeWhile p) :
    p x = true := by
  induction l with
  | nil => simp at h
  | cons a as ih =>
    simp only [List.takeWhile_cons] at h
    cases ha : p a
    · simp [ha] at h
    · simp only [ha, if_true, List.mem_cons] at h
      rcases h with rfl | h
      · exact ha
      · exact ih h

theorem drop_takeWhile_length {α : Type} (p : α → Bool) (l : List α) :
    l.drop (l.takeWhile p).length = l.dropWhile p := by
  induction l with
  | nil => rfl
  | cons a as ih =>
    simp only [List.takeWhile_cons, List.dropWhile_cons]
    cases p a <;> simp [ih]

theorem head_dropWhile_not {α : Type} (p : α → Bool) (l : List α) :
    ∀ d ∈ (l.dropWhile p).head?, p d = false := by
  induction l with
  | nil => simp
  | cons a as ih =>
    simp only [List.dropWhile_cons]
    cases h : p a
    · simp [h]
    · simpa using ih

theorem psmGo_rel (marks rep : List Nat) (pos : Nat) (s : List Nat) :
    ∃ out, applyGo pos (psmGo marks rep pos s) s = some out ∧ PsmRel marks rep s out := by
  fun_induction psmGo marks rep pos s with
  | case1 pos => exact ⟨[], by simp [applyGo], PsmRel.nil⟩
  | case2 pos c cs h ih =>
    obtain ⟨out, h1, h2⟩ := ih
    have hle : ((c :: cs).takeWhile marks.contains).length ≤ (c :: cs).length :=
      (List.takeWhile_sublist _).length_le
    refine ⟨rep ++ out, ?_, ?_⟩
    · rw [applyGo_cons_ok pos _ _ (c :: cs) (by simp) (by simp) (by simp only; omega)]
      simp only [Nat.sub_self, List.take_zero, List.nil_append, Nat.add_sub_cancel_left]
      rw [h1]; rfl
    · have hsplit : (c :: cs) = (c :: cs).takeWhile marks.contains ++ (c :: cs).dropWhile marks.contains :=
        (List.takeWhile_append_dropWhile).symm
      rw [drop_takeWhile_length] at h2
      rw [hsplit]
      exact PsmRel.run _ _ _ h (fun d hd => mem_takeWhile_true _ hd)
        (head_dropWhile_not _ _) h2
  | case3 pos c cs h ih =>
    obtain ⟨out, h1, h2⟩ := ih
    refine ⟨c :: out, ?_, ?_⟩
    · rw [applyGo_shift (pos + 1 + cs.length) pos _ c cs (psmGo_edits_ok marks rep (pos + 1) cs), h1]; rfl
    · cases hc : marks.contains c with
      | false => exact PsmRel.plain c cs out hc h2
      | true =>
        refine PsmRel.single c cs out hc ?_ h2
        intro d hd
        cases cs with
        | nil => simp at hd
        | cons x xs =>
          simp only [List.head?_cons, Option.mem_def, Option.some.injEq] at hd
          subst hd
          cases hx : marks.contains x with
          | false => rfl
          | true =>
            exfalso; apply h
            simp only [List.takeWhile_cons, hc, hx, if_true, List.length_cons]; omega

/-! ## yomigana -/

theorem backtrack_some {right s : List Nat} : ∀ {m k : Nat}, backtrack right s m = some k →
    1 ≤ k ∧ k ≤ m ∧ ∃ b rest, s.drop k = b :: rest ∧ right.contains b = true := by
  intro m
  induction m with
  | zero => intro k h; simp [backtrack] at h
  | succ m ih =>
    intro k h
    simp only [backtrack] at h
    split at h
    · rename_i b rest hd
      by_cases hb : right.contains b = true
      · rw [if_pos hb] at h; injection h with h; subst h
        exact ⟨by omega, Nat.le_refl _, b, rest, hd, hb⟩
      · rw [if_neg hb] at h
        obtain ⟨h1, h2, h3⟩ := ih h
        exact ⟨h1, by omega, h3⟩
    · obtain ⟨h1, h2, h3⟩ := ih h
      exact ⟨h1, by omega, h3⟩

/-- the span the definition describes, at the head of a text: a kanji, a left bracket, `n`
reading characters with `1 ≤ n ≤ maxYomiganaLength`, a right bracket -/
def YomiMatch (Y : Yomi) (s : List Nat) (n : Nat) : Prop :=
  ∃ k l rd b rest, s = k :: l :: (rd ++ b :: rest) ∧ Y.kanji k = true ∧ Y.left.contains l = true ∧
    rd.length = n ∧ (∀ x ∈ rd, Y.kana x = true) ∧ 1 ≤ n ∧ n ≤ Y.max ∧ Y.right.contains b = true

theorem take_of_le_takeWhile {α : Type} (p : α → Bool) (l : List α) (k : Nat)
    (h : k ≤ (l.takeWhile p).length) : ∀ x ∈ l.take k, p x = true := by
  intro x hx
  have hpre : l.take k <+: l.takeWhile p := by
    have h1 : l.take k <+: l := List.take_prefix k l
    have h2 : l.takeWhile p <+: l := List.takeWhile_prefix p
    exact List.prefix_of_prefix_length_le h1 h2 (by simp only [List.length_take]; omega)
  exact mem_takeWhile_true p (hpre.subset hx)

theorem yomiAt_sound {Y : Yomi} {s : List Nat} {n : Nat} (h : yomiAt Y s = some n) : YomiMatch Y s n := by
  match s, h with
  | k :: l :: rest, h =>
    simp only [yomiAt] at h
    split at h
    · rename_i hkl
      simp only [Bool.and_eq_true] at hkl
      obtain ⟨h1, h2, b, tl, hd, hb⟩ := backtrack_some h
      have hkana := take_of_le_takeWhile Y.kana rest n (by omega)
      have hlen : n ≤ rest.length := by
        have : (rest.drop n).length = (b :: tl).length := by rw [hd]
        simp only [List.length_drop, List.length_cons] at this; omega
      refine ⟨k, l, rest.take n, b, tl, ?_, hkl.1, hkl.2, by simp only [List.length_take]; omega,
        hkana, h1, by omega, hb⟩
      rw [← hd, List.take_append_drop]
    · cases h

theorem yomiGo_edits_ok (Y : Yomi) (pos : Nat) (s : List Nat) :
    EditsOk (pos + s.length) pos (yomiGo Y pos s) := by
  fun_induction yomiGo Y pos s with
  | case1 pos => simp [EditsOk]
  | case2 pos c cs k h ih =>
    obtain ⟨k', l, rd, b, rest, hs, _, _, hlen, _, _, _, _⟩ := yomiAt_sound h
    have hl : k + 3 ≤ (c :: cs).length := by
      rw [hs]; simp only [List.length_cons, List.length_append]; omega
    refine ⟨by simp only; omega, by simp only; omega, by simp only; omega, ?_⟩
    have : pos + (c :: cs).length = pos + k + 3 + ((c :: cs).drop (k + 3)).length := by
      simp only [List.length_drop]; omega
    rw [this]; exact ih
  | case3 pos c cs h ih =>
    have : pos + (c :: cs).length = pos + 1 + cs.length := by simp only [List.length_cons]; omega
    rw [this]; exact ih.weaken (by omega)

/-- The plugin's definition as a relation (soundness direction): the text decomposes into copied
characters and described spans `kanji · ( · readings · )` of which only the kanji survives. -/
inductive YomiRel (Y : Yomi) : List Nat → List Nat → Prop
  | nil : YomiRel Y [] []
  | copy (c : Nat) (s t : List Nat) : YomiRel Y s t → YomiRel Y (c :: s) (c :: t)
  | span (k l b : Nat) (rd s t : List Nat) : Y.kanji k = true → Y.left.contains l = true →
      1 ≤ rd.length → rd.length ≤ Y.max → (∀ x ∈ rd, Y.kana x = true) → Y.right.contains b = true →
      YomiRel Y s t → YomiRel Y (k :: l :: (rd ++ b :: s)) (k :: t)

theorem yomiGo_rel (Y : Yomi) (pos : Nat) (s : List Nat) :
    ∃ out, applyGo pos (yomiGo Y pos s) s = some out ∧ YomiRel Y s out := by
  fun_induction yomiGo Y pos s with
  | case1 pos => exact ⟨[], by simp [applyGo], YomiRel.nil⟩
  | case2 pos c cs k h ih =>
    obtain ⟨out, h1, h2⟩ := ih
    obtain ⟨k', l, rd, b, rest, hs, hk, hl, hlen, hkana, hn1, hn2, hb⟩ := yomiAt_sound h
    have hlen3 : k + 3 ≤ (c :: cs).length := by
      rw [hs]; simp only [List.length_cons, List.length_append]; omega
    have hdrop : (c :: cs).drop (k + 3) = rest := by
      rw [hs, show k + 3 = (k + 1) + 1 + 1 by omega, List.drop_succ_cons, List.drop_succ_cons]
      rw [show rd ++ b :: rest = (rd ++ [b]) ++ rest by simp]
      rw [List.drop_left' (by simp only [List.length_append, List.length_cons, List.length_nil]; omega)]
    refine ⟨c :: out, ?_, ?_⟩
    · rw [applyGo_cons_ok pos _ _ (c :: cs) (by simp only; omega) (by simp only; omega) (by simp only; omega)]
      simp only [show pos + 1 - pos = 1 by omega, show pos + k + 3 - pos = k + 3 by omega, List.take_succ_cons,
        List.take_zero, List.append_nil]
      rw [h1]; rfl
    · have hc : c = k' := (List.cons.inj hs).1
      rw [hdrop] at h2
      rw [hs, ← hc]
      exact YomiRel.span c l b rd rest out (hc ▸ hk) hl (by omega) (by omega) hkana hb h2
  | case3 pos c cs h ih =>
    obtain ⟨out, h1, h2⟩ := ih
    refine ⟨c :: out, ?_, YomiRel.copy c cs out h2⟩
    rw [applyGo_shift (pos + 1 + cs.length) pos _ c cs (yomiGo_edits_ok Y (pos + 1) cs), h1]; rfl

/-! ## yomigana: completeness of the matcher, full-strength relation; byte offsets -/


theorem backtrack_none {right s : List Nat} : ∀ {m : Nat}, backtrack right s m = none →
    ∀ k, 1 ≤ k → k ≤ m → ∀ b rest, s.drop k = b :: rest → right.contains b = false := by
  intro m
  induction m with
  | zero => intro _ k h1 h2; omega
  | succ m ih =>
    intro h k h1 h2 b rest hd
    simp only [backtrack] at h
    split at h
    · rename_i b' rest' hd'
      by_cases hb : right.contains b' = true
      · rw [if_pos hb] at h; cases h
      · rw [if_neg hb] at h
        by_cases hk : k = m + 1
        · subst hk; rw [hd] at hd'; injection hd' with e1 _; subst e1; simpa using hb
        · exact ih h k h1 (by omega) b rest hd
    · rename_i hd'
      by_cases hk : k = m + 1
      · subst hk; rw [hd] at hd'; cases hd'
      · exact ih h k h1 (by omega) b rest hd

theorem backtrack_max {right s : List Nat} : ∀ {m n : Nat}, backtrack right s m = some n →
    ∀ k, n < k → k ≤ m → ∀ b rest, s.drop k = b :: rest → right.contains b = false := by
  intro m
  induction m with
  | zero => intro n h; simp [backtrack] at h
  | succ m ih =>
    intro n h k h1 h2 b rest hd
    simp only [backtrack] at h
    split at h
    · rename_i b' rest' hd'
      by_cases hb : right.contains b' = true
      · rw [if_pos hb] at h; injection h with h; omega
      · rw [if_neg hb] at h
        by_cases hk : k = m + 1
        · subst hk; rw [hd] at hd'; injection hd' with e1 _; subst e1; simpa using hb
        · exact ih h k h1 (by omega) b rest hd
    · rename_i hd'
      by_cases hk : k = m + 1
      · subst hk; rw [hd] at hd'; cases hd'
      · exact ih h k h1 (by omega) b rest hd

theorem le_takeWhile_of_all {α : Type} (p : α → Bool) : ∀ (l : List α) (n : Nat), n ≤ l.length →
    (∀ x ∈ l.take n, p x = true) → n ≤ (l.takeWhile p).length := by
  intro l
  induction l with
  | nil => intro n h _; simpa using h
  | cons a as ih =>
    intro n h hall
    cases n with
    | zero => omega
    | succ n =>
      have ha : p a = true := hall a (by simp)
      simp only [List.takeWhile_cons, ha, if_true, List.length_cons]
      have := ih n (by simpa using h) (fun x hx => hall x (by simp [hx]))
      omega

/-- anatomy of a described span in terms of the matcher's data -/
theorem yomiMatch_data {Y : Yomi} {k l : Nat} {rest : List Nat} {n : Nat} (h : YomiMatch Y (k :: l :: rest) n) :
    Y.kanji k = true ∧ Y.left.contains l = true ∧ 1 ≤ n ∧ n ≤ min (rest.takeWhile Y.kana).length Y.max ∧
    ∃ b tl, rest.drop n = b :: tl ∧ Y.right.contains b = true := by
  obtain ⟨k', l', rd, b, tl, hs, hk, hl, hlen, hkana, h1, h2, hb⟩ := h
  injection hs with e1 hs; injection hs with e2 hs
  subst e1 e2 hs hlen
  refine ⟨hk, hl, h1, ?_, b, tl, by simp, hb⟩
  have : rd.length ≤ ((rd ++ b :: tl).takeWhile Y.kana).length :=
    le_takeWhile_of_all Y.kana _ _ (by simp) (by simpa using hkana)
  omega

theorem yomiAt_none {Y : Yomi} {s : List Nat} (h : yomiAt Y s = none) : ∀ n, ¬ YomiMatch Y s n := by
  intro n hm
  obtain ⟨k, l, rd, b, tl, hs, _⟩ := id hm
  subst hs
  obtain ⟨hk, hl, h1, h2, b', tl', hd, hb⟩ := yomiMatch_data hm
  simp only [yomiAt, hk, hl, Bool.and_self, if_true] at h
  have := backtrack_none h n h1 h2 b' tl' hd
  rw [hb] at this; cases this

theorem yomiAt_longest {Y : Yomi} {s : List Nat} {n : Nat} (h : yomiAt Y s = some n) :
    ∀ n', YomiMatch Y s n' → n' ≤ n := by
  intro n' hm
  obtain ⟨k, l, rd, b, tl, hs, _⟩ := id hm
  subst hs
  obtain ⟨hk, hl, h1, h2, b', tl', hd, hb⟩ := yomiMatch_data hm
  simp only [yomiAt, hk, hl, Bool.and_self, if_true] at h
  by_cases hlt : n < n'
  · have := backtrack_max h n' hlt h2 b' tl' hd
    rw [hb] at this; cases this
  · omega

/-- The plugin's definition as a relation, full strength: scanning left to right, a character is
copied only where no described span starts; where one starts, the span with the longest admissible
reading is taken, its kanji is kept, its bracketed group deleted, and scanning resumes after the
right bracket (leftmost, longest, non-overlapping). -/
inductive YomiSpec (Y : Yomi) : List Nat → List Nat → Prop
  | nil : YomiSpec Y [] []
  | copy (c : Nat) (s t : List Nat) : (∀ n, ¬ YomiMatch Y (c :: s) n) → YomiSpec Y s t →
      YomiSpec Y (c :: s) (c :: t)
  | span (k l b : Nat) (rd s t : List Nat) : YomiMatch Y (k :: l :: (rd ++ b :: s)) rd.length →
      (∀ n, YomiMatch Y (k :: l :: (rd ++ b :: s)) n → n ≤ rd.length) →
      YomiSpec Y s t → YomiSpec Y (k :: l :: (rd ++ b :: s)) (k :: t)

theorem yomiGo_spec (Y : Yomi) (pos : Nat) (s : List Nat) :
    ∃ out, applyGo pos (yomiGo Y pos s) s = some out ∧ YomiSpec Y s out := by
  fun_induction yomiGo Y pos s with
  | case1 pos => exact ⟨[], by simp [applyGo], YomiSpec.nil⟩
  | case2 pos c cs k h ih =>
    obtain ⟨out, h1, h2⟩ := ih
    have hm := yomiAt_sound h
    have hmax := yomiAt_longest h
    obtain ⟨k', l, rd, b, rest, hs, hk, hl, hlen, hkana, hn1, hn2, hb⟩ := id hm
    have hlen3 : k + 3 ≤ (c :: cs).length := by
      rw [hs]; simp only [List.length_cons, List.length_append]; omega
    have hdrop : (c :: cs).drop (k + 3) = rest := by
      rw [hs, show k + 3 = (k + 1) + 1 + 1 by omega, List.drop_succ_cons, List.drop_succ_cons]
      rw [show rd ++ b :: rest = (rd ++ [b]) ++ rest by simp]
      rw [List.drop_left' (by simp only [List.length_append, List.length_cons, List.length_nil]; omega)]
    refine ⟨c :: out, ?_, ?_⟩
    · rw [applyGo_cons_ok pos _ _ (c :: cs) (by simp only; omega) (by simp only; omega) (by simp only; omega)]
      simp only [show pos + 1 - pos = 1 by omega, show pos + k + 3 - pos = k + 3 by omega, List.take_succ_cons,
        List.take_zero, List.append_nil]
      rw [h1]; rfl
    · have hc : c = k' := (List.cons.inj hs).1
      rw [hdrop] at h2
      rw [hs] at hm hmax
      rw [hs, ← hc]
      rw [← hc, ← hlen] at hm
      rw [← hc, ← hlen] at hmax
      exact YomiSpec.span c l b rd rest out hm hmax h2
  | case3 pos c cs h ih =>
    obtain ⟨out, h1, h2⟩ := ih
    refine ⟨c :: out, ?_, YomiSpec.copy c cs out (yomiAt_none h) h2⟩
    rw [applyGo_shift (pos + 1 + cs.length) pos _ c cs (yomiGo_edits_ok Y (pos + 1) cs), h1]; rfl

/-! byte offsets -/

/-- byte offset of code-point index `i` for the width function `w` -/
def off (w : Nat → Nat) (s : List Nat) (i : Nat) : Nat := ((s.take i).map w).sum

theorem off_mono (w : Nat → Nat) : ∀ (s : List Nat) (i j : Nat), i ≤ j → off w s i ≤ off w s j := by
  intro s
  induction s with
  | nil => intro i j _; simp [off]
  | cons c cs ih =>
    intro i j hij
    cases i with
    | zero => simp [off]
    | succ i =>
      cases j with
      | zero => omega
      | succ j =>
        have := ih i j (by omega)
        simp only [off, List.take_succ_cons, List.map_cons, List.sum_cons] at this ⊢
        omega

def Edit.toBytes (w : Nat → Nat) (s : List Nat) (e : Edit) : Edit := ⟨off w s e.s, off w s e.e, e.rep⟩

theorem EditsOk.bytes (w : Nat → Nat) (s : List Nat) : ∀ (es : List Edit) (start : Nat),
    EditsOk s.length start es →
    EditsOk (off w s s.length) (off w s start) (es.map (Edit.toBytes w s)) := by
  intro es
  induction es with
  | nil => intro start h; exact off_mono w s _ _ h
  | cons e es ih =>
    intro start h
    obtain ⟨h1, h2, h3, h4⟩ := h
    exact ⟨off_mono w s _ _ h1, off_mono w s _ _ h2, off_mono w s _ _ h3, ih e.e h4⟩


end Normalize
