import Sudachi.Proofs.Normalize
/-!
# The recycled `InputBuffer` of the input-text plugins (C07, clause "a pure function of the input")

`RBuf` (`Model/Normalize.lean`) transcribes `reset`, `start_build`, `refresh_chars`, `commit`, `build` and the
tokenizer/list buffer swap.  Here: why the rewrite does not depend on what the buffer held before.
-/
namespace Normalize

/-- everything but the scratch pair `modified_2` / `m2o_2` (no accessor reads them between `reset` and `build`) -/
def RBuf.view (b : RBuf) : RBuf := { b with modified2 := [], m2o2 := [] }

theorem RBuf.view_eq_iff {b b' : RBuf} : b.view = b'.view ↔
    b.original = b'.original ∧ b.modified = b'.modified ∧ b.m2o = b'.m2o ∧ b.chars = b'.chars ∧ b.state = b'.state := by
  cases b; cases b'
  simp [RBuf.view]

/-- two buffers that agree outside the scratch pair are one buffer with two scratch pairs -/
theorem RBuf.view_eq_elim {b b' : RBuf} (h : b.view = b'.view) :
    b' = { b with modified2 := b'.modified2, m2o2 := b'.m2o2 } := by
  obtain ⟨h1, h2, h3, h4, h5⟩ := RBuf.view_eq_iff.mp h
  cases b; cases b'
  simp only at h1 h2 h3 h4 h5
  subst h1 h2 h3 h4 h5
  rfl

/-- `reset` makes every buffer look new: the fields it clears are all the fields a later operation reads
before writing -/
theorem RBuf.reset_view (b : RBuf) : (b.reset .cur).view = RBuf.new := rfl

theorem RBuf.fill_congr {b b' : RBuf} (h : b.view = b'.view) (t : List Nat) : (b.fill t).view = (b'.fill t).view := by
  rw [RBuf.view_eq_elim h]; rfl

theorem RBuf.startBuild_congr {b b' : RBuf} (h : b.view = b'.view) :
    (∀ f, b.startBuild = .error f → b'.startBuild = .error f) ∧
    (∀ c, b.startBuild = .ok c → ∃ c', b'.startBuild = .ok c' ∧ c.view = c'.view) := by
  rw [RBuf.view_eq_elim h]
  unfold RBuf.startBuild
  simp only
  constructor
  · intro f hf
    split at hf
    · rename_i hc; rw [if_pos hc]; exact hf
    · rename_i hc; rw [if_neg hc]
      split at hf
      · rename_i hs; rw [if_pos hs]; exact hf
      · cases hf
  · intro c hc
    split at hc
    · cases hc
    · rename_i hl; rw [if_neg hl]
      split at hc
      · cases hc
      · rename_i hs; rw [if_neg hs]
        injection hc with hc; subst hc
        exact ⟨_, rfl, rfl⟩

theorem RBuf.refresh_congr {b b' : RBuf} (h : b.view = b'.view) : b.refreshChars.view = b'.refreshChars.view := by
  rw [RBuf.view_eq_elim h]
  unfold RBuf.refreshChars
  simp only
  split <;> rfl

theorem RBuf.commit_congr {b b' : RBuf} (h : b.view = b'.view) (es : List Edit) :
    (b.commit es).1.view = (b'.commit es).1.view ∧ (b.commit es).2 = (b'.commit es).2 := by
  rw [RBuf.view_eq_elim h]
  unfold RBuf.commit
  simp only
  split
  · exact ⟨rfl, rfl⟩
  · split
    · exact ⟨rfl, rfl⟩
    · split
      · exact ⟨rfl, rfl⟩
      · split
        · exact ⟨rfl, rfl⟩
        · exact ⟨rfl, rfl⟩

theorem RBuf.rewrite_congr (p : Plug) {b b' : RBuf} (h : b.view = b'.view) :
    (b.rewrite p).1.view = (b'.rewrite p).1.view ∧ (b.rewrite p).2 = (b'.rewrite p).2 := by
  unfold RBuf.rewrite
  have hr : (if p.usesChars then b.refreshChars else b).view = (if p.usesChars then b'.refreshChars else b').view := by
    split
    · exact RBuf.refresh_congr h
    · exact h
  obtain ⟨h1, h2, h3, h4, _⟩ := RBuf.view_eq_iff.mp hr
  simp only
  rw [h1, h2, h3, h4]
  exact RBuf.commit_congr hr _

theorem RBuf.rewriteAll_congr (ps : List Plug) : ∀ {b b' : RBuf}, b.view = b'.view → ∀ acc,
    (RBuf.rewriteAll ps b acc).1.view = (RBuf.rewriteAll ps b' acc).1.view ∧
    (RBuf.rewriteAll ps b acc).2 = (RBuf.rewriteAll ps b' acc).2 := by
  induction ps with
  | nil => intro b b' h acc; exact ⟨h, rfl⟩
  | cons p ps ih =>
    intro b b' h acc
    obtain ⟨h1, h2⟩ := RBuf.rewrite_congr p h
    unfold RBuf.rewriteAll
    cases hr : b.rewrite p with
    | mk c f =>
      cases hr' : b'.rewrite p with
      | mk c' f' =>
        rw [hr, hr'] at h1 h2
        simp only at h1 h2
        subst h2
        cases f with
        | some f => exact ⟨h1, rfl⟩
        | none =>
          simp only
          obtain ⟨_, g2, g3, _, _⟩ := RBuf.view_eq_iff.mp h1
          rw [g2, g3]
          exact ih h1 _

theorem RBuf.build_congr {b b' : RBuf} (h : b.view = b'.view) : b.build.view = b'.build.view := by
  rw [RBuf.view_eq_elim h]; rfl

/-- one analysis started on two buffers that agree outside the scratch pair -/
theorem RBuf.analyse_congr (v : ResetV) (ps : List Plug) {b b' : RBuf} (h : (b.reset v).view = (b'.reset v).view)
    (t : List Nat) :
    (b.analyse v ps t).1.view = (b'.analyse v ps t).1.view ∧ (b.analyse v ps t).2 = (b'.analyse v ps t).2 := by
  unfold RBuf.analyse
  have hf := RBuf.fill_congr h t
  obtain ⟨he, ho⟩ := RBuf.startBuild_congr hf
  simp only
  cases hs : ((b.reset v).fill t).startBuild with
  | error f => rw [he f hs]; exact ⟨hf, rfl⟩
  | ok c =>
    obtain ⟨c', hc', hv⟩ := ho c hs
    rw [hc']
    simp only
    obtain ⟨g1, g2⟩ := RBuf.rewriteAll_congr ps hv []
    cases hr : RBuf.rewriteAll ps c [] with
    | mk d r =>
      cases hr' : RBuf.rewriteAll ps c' [] with
      | mk d' r' =>
        rw [hr, hr'] at g1 g2
        simp only at g1 g2
        subst g2
        obtain ⟨st, f⟩ := r
        cases f with
        | some f => exact ⟨g1, rfl⟩
        | none => exact ⟨RBuf.build_congr g1, rfl⟩

/-- **History freedom at the buffer.**  For EVERY state of the buffer — whatever it analysed before, also
after analyses that were rejected half way — `reset`, `push_str(t)`, `start_build`, the plugins and `build`
give the stages, the outcome and the final buffer (scratch pair aside) that a new buffer gives. -/
theorem RBuf.analyse_eq_new (ps : List Plug) (b : RBuf) (t : List Nat) :
    (b.analyse .cur ps t).1.view = (RBuf.new.analyse .cur ps t).1.view ∧
    (b.analyse .cur ps t).2 = (RBuf.new.analyse .cur ps t).2 :=
  RBuf.analyse_congr .cur ps (by rw [RBuf.reset_view, RBuf.reset_view]) t

/-! ## the character cache is coherent

`refresh_chars` recomputes `mod_chars` only when it is empty; that is sound because every operation that
changes `modified` (`reset`, a non-empty `commit`) empties the cache and `start_build` happens on an empty one. -/

/-- `mod_chars` is empty or holds the characters of `modified` -/
def RBuf.Coherent (b : RBuf) : Prop := b.chars = [] ∨ b.chars = b.modified

theorem RBuf.coherent_after_start {b c : RBuf} {t : List Nat} (h : ((b.reset .cur).fill t).startBuild = .ok c) :
    c.Coherent ∧ c.original = t ∧ c.modified = t ∧ c.m2o = identMap t := by
  unfold RBuf.startBuild at h
  split at h
  · cases h
  · split at h
    · cases h
    · injection h with h; subst h
      exact ⟨Or.inl rfl, by simp [RBuf.reset, RBuf.fill], by simp [RBuf.reset, RBuf.fill], by simp [RBuf.reset, RBuf.fill]⟩

theorem RBuf.refresh_chars_eq {b : RBuf} (h : b.Coherent) : b.refreshChars.chars = b.modified := by
  unfold RBuf.refreshChars
  split
  · rfl
  · rename_i hne
    rcases h with h | h
    · simp [h] at hne
    · exact h

theorem RBuf.commit_coherent {b : RBuf} (h : b.Coherent) (es : List Edit) : (b.commit es).1.Coherent := by
  unfold RBuf.commit
  split
  · exact h
  · simp only
    split
    · exact Or.inl rfl
    · split
      · exact Or.inl rfl
      · split
        · exact Or.inl rfl
        · exact Or.inl rfl

theorem RBuf.refresh_coherent {b : RBuf} (h : b.Coherent) : b.refreshChars.Coherent := by
  right
  rw [RBuf.refresh_chars_eq h]
  unfold RBuf.refreshChars
  split <;> rfl

theorem RBuf.rewrite_coherent (p : Plug) {b : RBuf} (h : b.Coherent) : (b.rewrite p).1.Coherent := by
  unfold RBuf.rewrite
  split
  · exact RBuf.commit_coherent (RBuf.refresh_coherent h) _
  · exact RBuf.commit_coherent h _

/-- on a coherent buffer the default plugin chooses its path from the CURRENT text: its edits are
`defaultEdits` of `current()` -/
theorem RBuf.rewrite_default {b : RBuf} (h : b.Coherent) (U : Uni) (T : Table) (e : Bool) :
    b.rewrite (defaultPlug U T e) = b.refreshChars.commit (defaultEdits U T e b.modified) := by
  have hm : b.refreshChars.modified = b.modified := by unfold RBuf.refreshChars; split <;> rfl
  simp only [RBuf.rewrite, defaultPlug, if_true, defaultEditsOn, defaultEdits, RBuf.refresh_chars_eq h, hm]

/-! ## from the buffer to the specification -/

theorem initGo_text : ∀ (s : List Nat) (off : Nat), (initGo off s).1.map (·.1) = s := by
  intro s
  induction s with
  | nil => intro off; rfl
  | cons c cs ih => intro off; simp [initGo, ih]

theorem pair_initGo : ∀ (s : List Nat) (off : Nat),
    pair? s ((initGo off s).1.map (·.2) ++ [(initGo off s).2]) = some ((initGo off s).1, (initGo off s).2) := by
  intro s
  induction s with
  | nil => intro off; rfl
  | cons c cs ih => intro off; simp [initGo, pair?, ih]

theorem replP_text (o1 o2 : Nat) (r : List Nat) : (replP o1 o2 r).map (·.1) = r := by
  cases r with
  | nil => rfl
  | cons x xs => simp [replP, Function.comp_def]

theorem applyGoP_text (endOff : Nat) : ∀ (es : List Edit) (pos : Nat) (l : List (Nat × Nat)),
    (applyGoP endOff pos es l).map (·.map (·.1)) = applyGo pos es (l.map (·.1)) := by
  intro es
  induction es with
  | nil => intro pos l; rfl
  | cons e es ih =>
    intro pos l
    simp only [applyGoP, applyGo]
    have hl : lenLt (l.map (·.1)) (e.e - pos) = lenLt l (e.e - pos) := by
      rw [Bool.eq_iff_iff, lenLt_iff, lenLt_iff, List.length_map]
    rw [hl]
    split
    · rfl
    · rw [← List.map_drop, ← ih, Option.map_map, Option.map_map]
      congr 1
      funext t
      simp [replP_text, List.map_take]

theorem force0_text (b : Buf) : (force0 b).text = b.text := by
  unfold force0 Buf.text
  cases hb : b.body with
  | nil => rfl
  | cons p r => cases p; simp [hb]

theorem RBuf.analyse_of_start {v : ResetV} {ps : List Plug} {b c : RBuf} {t : List Nat}
    (h : ((b.reset v).fill t).startBuild = .ok c) :
    b.analyse v ps t = (match RBuf.rewriteAll ps c [] with
      | (b', st, some f) => (b', st, some f)
      | (b', st, none) => (b'.build, st, none)) := by
  simp only [RBuf.analyse, h]
  cases RBuf.rewriteAll ps c [] with
  | mk b' r => obtain ⟨st, f⟩ := r; cases f <;> rfl

theorem RBuf.rewriteAll_single (p : Plug) (c : RBuf) :
    RBuf.rewriteAll [p] c [] = (match c.rewrite p with
      | (b', some f) => (b', [], some f)
      | (b', none) => (b', [(b'.modified, b'.m2o)], none)) := by
  simp only [RBuf.rewriteAll]
  cases c.rewrite p with
  | mk b' f => cases f <;> rfl

/-- a non-failing `commit` of the edits `es` on a freshly started buffer leaves `applyEdits es t` -/
theorem RBuf.commit_started {c : RBuf} {t : List Nat} (hm : c.modified = t) (ho : c.m2o = identMap t)
    (es : List Edit) (out : List Nat) (happ : applyEdits es t = some out) (hlen : newLen t es ≤ 65535) :
    (c.commit es).2 = none ∧ (c.commit es).1.modified = out := by
  unfold RBuf.commit
  split
  · rename_i hemp
    have : es = [] := by simpa using hemp
    subst this
    simp only [applyEdits, applyGo, Option.some.injEq] at happ
    exact ⟨rfl, by rw [hm, happ]⟩
  · simp only
    rw [hm, ho, if_neg (by omega)]
    unfold identMap
    rw [pair_initGo]
    simp only
    have htext := applyGoP_text (initGo 0 t).2 es 0 (initGo 0 t).1
    rw [initGo_text] at htext
    unfold applyEdits at happ
    rw [happ] at htext
    cases ha : applyGoP (initGo 0 t).2 0 es (initGo 0 t).1 with
    | none => rw [ha] at htext; cases htext
    | some l =>
      rw [ha] at htext
      simp only [Option.map_some, Option.some.injEq] at htext
      have hf : (force0 ⟨l, (initGo 0 t).2⟩).text = out := by rw [force0_text]; exact htext
      exact ⟨rfl, by simp only [List.nil_append]; exact hf⟩

/-- **The default plugin on ANY recycled buffer is the specification.**  Whatever the buffer held before
(`b` arbitrary), after `reset` / `push_str(t)` the input part of the analysis — `start_build`, `refresh_chars`,
path choice from the cached characters, `resolve_edits`, swap, `build` — leaves exactly `normSpec` of `t` as
the text used for lookup, provided the text and its rewrite are within the two length limits. -/
theorem RBuf.default_on_recycled_eq_spec (U : Uni) (hC : CharOk U) (T : Table) (b : RBuf) (t : List Nat)
    (h1 : bytes t ≤ 49149) (h2 : newLen t (defaultEdits U T false t) ≤ 65535) :
    ∃ m, (b.analyse .cur [defaultPlug U T false] t).2 = ([(normSpec U T t, m)], none) ∧
         (b.analyse .cur [defaultPlug U T false] t).1.modified = normSpec U T t := by
  obtain ⟨hv, hr⟩ := RBuf.analyse_eq_new [defaultPlug U T false] b t
  have hmod : (b.analyse .cur [defaultPlug U T false] t).1.modified =
      (RBuf.new.analyse .cur [defaultPlug U T false] t).1.modified := (RBuf.view_eq_iff.mp hv).2.1
  rw [hr, hmod]
  -- the new buffer
  have hsb : ∃ c, ((RBuf.new.reset .cur).fill t).startBuild = .ok c := by
    unfold RBuf.startBuild
    have : ¬ bytes ((RBuf.new.reset .cur).fill t).original > 49149 := by
      simp only [RBuf.reset, RBuf.fill, RBuf.new, List.nil_append]; omega
    rw [if_neg this]
    simp [RBuf.reset, RBuf.fill, RBuf.new]
  obtain ⟨c, hc⟩ := hsb
  obtain ⟨hcc, _, hcm, hco⟩ := RBuf.coherent_after_start hc
  rw [RBuf.analyse_of_start hc, RBuf.rewriteAll_single, RBuf.rewrite_default hcc, hcm]
  have hrm : c.refreshChars.modified = t := by unfold RBuf.refreshChars; split <;> simp [hcm]
  have hro : c.refreshChars.m2o = identMap t := by unfold RBuf.refreshChars; split <;> simp [hco]
  obtain ⟨g1, g2⟩ := RBuf.commit_started hrm hro _ _ (defaultEdits_spec U hC T t) h2
  cases hcm' : c.refreshChars.commit (defaultEdits U T false t) with
  | mk b' f =>
    rw [hcm'] at g1 g2
    simp only at g1 g2
    subst g1
    simp only
    exact ⟨_, by rw [g2], by simp only [RBuf.build]; exact g2⟩

/-! ## the seeded change C07b (index tables cleared in `build()` instead of `reset()`) -/

theorem fastGo_nil_table (pos : Nat) (s : List Nat) : fastGo [] pos s = [] := by
  fun_induction fastGo [] pos s with
  | case1 pos => rfl
  | case2 pos c cs p h ih => simp [longestAt] at h
  | case3 pos c cs h ih => exact ih

end Normalize
