import Sudachi.Model.Rewrite
/-!
# Specification and lemmas for the path-rewrite model (property C14)

`Coarsens R p q`: the path `q` is obtained from `p` by replacing disjoint contiguous non-empty
blocks by one node each; the replacing node `m` of a block `blk` *spans* it (`Spans blk m`: begins
where the first node begins, ends where the last node ends, in characters and in bytes, and its
dictionary-side surface is the concatenation of the surfaces) and satisfies the plugin-specific
relation `R blk m` (part of speech etc.); every other node is kept identically (`keep`).
-/
namespace Rewrite

def firstB (l : List Node) : Option (Nat × Nat) := l.head?.map (fun n => (n.b, n.bb))
def lastE (l : List Node) : Option (Nat × Nat) := l.getLast?.map (fun n => (n.e, n.eb))

structure Spans (blk : List Node) (m : Node) : Prop where
  first : firstB blk = some (m.b, m.bb)
  last : lastE blk = some (m.e, m.eb)
  surf : catSurface blk = m.surface

theorem Spans.ne_nil {blk : List Node} {m : Node} (h : Spans blk m) : blk ≠ [] := by
  intro hn
  have := h.first
  simp [hn, firstB] at this

inductive Coarsens (R : List Node → Node → Prop) : List Node → List Node → Prop
  | nil : Coarsens R [] []
  | keep (n : Node) {p q : List Node} : Coarsens R p q → Coarsens R (n :: p) (n :: q)
  | merge (blk : List Node) (m : Node) {p q : List Node} :
      Spans blk m → R blk m → Coarsens R p q → Coarsens R (blk ++ p) (m :: q)

variable {R : List Node → Node → Prop}

theorem Coarsens.refl (p : List Node) : Coarsens R p p := by
  induction p with
  | nil => exact .nil
  | cons n p ih => exact .keep n ih

theorem Coarsens.append {p q p' q' : List Node} (h : Coarsens R p q) (h' : Coarsens R p' q') :
    Coarsens R (p ++ p') (q ++ q') := by
  induction h with
  | nil => simpa using h'
  | keep n _ ih => exact .keep n ih
  | merge blk m hs hr _ ih =>
    rw [List.append_assoc]
    exact .merge blk m hs hr ih

theorem Coarsens.mono {R' : List Node → Node → Prop} (hrr : ∀ blk m, R blk m → R' blk m)
    {p q : List Node} (h : Coarsens R p q) : Coarsens R' p q := by
  induction h with
  | nil => exact .nil
  | keep n _ ih => exact .keep n ih
  | merge blk m hs hr _ ih => exact .merge blk m hs (hrr _ _ hr) ih

theorem Coarsens.nil_iff {p q : List Node} (h : Coarsens R p q) : p = [] ↔ q = [] := by
  cases h with
  | nil => simp
  | keep n _ => simp
  | merge blk m hs _ _ =>
    have := hs.ne_nil
    simp [this]

theorem Coarsens.of_nil_right {p : List Node} (h : Coarsens R p []) : p = [] := by
  cases h
  rfl

theorem Coarsens.length_le {p q : List Node} (h : Coarsens R p q) : q.length ≤ p.length := by
  induction h with
  | nil => exact Nat.le_refl _
  | keep n _ ih => simp only [List.length_cons]; omega
  | merge blk m hs _ _ ih =>
    have : blk ≠ [] := hs.ne_nil
    have : 0 < blk.length := List.length_pos_iff.mpr this
    simp only [List.length_cons, List.length_append]; omega

theorem catSurface_append (a b : List Node) : catSurface (a ++ b) = catSurface a ++ catSurface b := by
  simp [catSurface]

theorem catSurface_cons (a : Node) (b : List Node) : catSurface (a :: b) = a.surface ++ catSurface b := by
  simp [catSurface]

theorem firstB_append_of_ne_nil {a : List Node} (b : List Node) (h : a ≠ []) :
    firstB (a ++ b) = firstB a := by
  cases a with
  | nil => exact absurd rfl h
  | cons x xs => simp [firstB]

theorem lastE_append_of_ne_nil (a : List Node) {b : List Node} (h : b ≠ []) :
    lastE (a ++ b) = lastE b := by
  unfold lastE
  rw [List.getLast?_append]
  cases hb : b.getLast? with
  | none => exact absurd (List.getLast?_eq_none_iff.mp hb) h
  | some x => simp

/-- a coarsening preserves where the path begins, where it ends, and its text -/
theorem Coarsens.summary {p q : List Node} (h : Coarsens R p q) :
    firstB p = firstB q ∧ lastE p = lastE q ∧ catSurface p = catSurface q := by
  induction h with
  | nil => simp
  | @keep n p q hpq ih =>
    obtain ⟨_, h2, h3⟩ := ih
    refine ⟨by simp [firstB], ?_, by simp [catSurface_cons, h3]⟩
    by_cases hp : p = []
    · have hq : q = [] := hpq.nil_iff.mp hp
      simp [hp, hq]
    · have hq : q ≠ [] := fun hq => hp (hpq.nil_iff.mpr hq)
      have e1 := lastE_append_of_ne_nil [n] hp
      have e2 := lastE_append_of_ne_nil [n] hq
      simp only [List.singleton_append] at e1 e2
      rw [e1, e2, h2]
  | @merge blk m p q hs hr hpq ih =>
    obtain ⟨_, h2, h3⟩ := ih
    refine ⟨?_, ?_, ?_⟩
    · rw [firstB_append_of_ne_nil _ hs.ne_nil, hs.first]
      simp [firstB]
    · by_cases hp : p = []
      · have hq : q = [] := hpq.nil_iff.mp hp
        subst hp; subst hq
        simp only [List.append_nil]
        rw [hs.last]
        simp [lastE]
      · have hq : q ≠ [] := fun hq => hp (hpq.nil_iff.mpr hq)
        have e2 := lastE_append_of_ne_nil [m] hq
        simp only [List.singleton_append] at e2
        rw [lastE_append_of_ne_nil _ hp, e2, h2]
    · rw [catSurface_append, catSurface_cons, hs.surf, h3]

/-- a coarsening of `a ++ b` splits into a coarsening of `a` and one of `b` -/
theorem Coarsens.split_right {a b : List Node} : ∀ {p : List Node}, Coarsens R p (a ++ b) →
    ∃ p1 p2, p = p1 ++ p2 ∧ Coarsens R p1 a ∧ Coarsens R p2 b := by
  induction a with
  | nil =>
    intro p h
    exact ⟨[], p, rfl, .nil, by simpa using h⟩
  | cons x a ih =>
    intro p h
    rw [List.cons_append] at h
    cases h with
    | keep _ h' =>
      obtain ⟨p1, p2, e, h1, h2⟩ := ih h'
      exact ⟨x :: p1, p2, by simp [e], .keep x h1, h2⟩
    | merge blk _ hs hr h' =>
      obtain ⟨p1, p2, e, h1, h2⟩ := ih h'
      exact ⟨blk ++ p1, p2, by simp [e], .merge blk x hs hr h1, h2⟩

/-- the plugin-specific relation survives refining the block -/
def Compositional (R : List Node → Node → Prop) : Prop :=
  ∀ p blk m, Coarsens R p blk → Spans blk m → R blk m → R p m

theorem Spans.of_coarsens {p blk : List Node} {m : Node} (h : Coarsens R p blk) (hs : Spans blk m) :
    Spans p m := by
  obtain ⟨h1, h2, h3⟩ := h.summary
  exact ⟨h1.trans hs.first, h2.trans hs.last, h3.trans hs.surf⟩

theorem Coarsens.trans (hR : Compositional R) {q r : List Node} (h2 : Coarsens R q r) :
    ∀ {p : List Node}, Coarsens R p q → Coarsens R p r := by
  induction h2 with
  | nil => intro p h1; rw [h1.of_nil_right]; exact .nil
  | keep n _ ih =>
    intro p h1
    cases h1 with
    | keep _ h' => exact .keep n (ih h')
    | merge blk _ hs hr h' => exact .merge blk n hs hr (ih h')
  | merge blk m hs hr _ ih =>
    intro p h1
    obtain ⟨p1, p2, e, c1, c2⟩ := h1.split_right
    subst e
    exact .merge p1 m (hs.of_coarsens c1) (hR _ _ _ c1 hs hr) (ih c2)

/-! ## observable consequences of `Coarsens` -/

/-- every output token is an input token (kept identically) or replaces a contiguous block of input
tokens which it spans -/
theorem Coarsens.classify {p q : List Node} (h : Coarsens R p q) :
    ∀ m ∈ q, m ∈ p ∨ ∃ pre blk post, p = pre ++ blk ++ post ∧ Spans blk m ∧ R blk m := by
  induction h with
  | nil => intro m hm; cases hm
  | @keep n p q _ ih =>
    intro m hm
    rcases List.mem_cons.mp hm with rfl | hm
    · exact .inl (List.mem_cons_self ..)
    · rcases ih m hm with h | ⟨pre, blk, post, e, hs, hr⟩
      · exact .inl (List.mem_cons_of_mem _ h)
      · exact .inr ⟨n :: pre, blk, post, by simp [e], hs, hr⟩
  | @merge blk0 m0 p q hs0 hr0 _ ih =>
    intro m hm
    rcases List.mem_cons.mp hm with rfl | hm
    · exact .inr ⟨[], blk0, p, by simp, hs0, hr0⟩
    · rcases ih m hm with h | ⟨pre, blk, post, e, hs, hr⟩
      · exact .inl (List.mem_append_right _ h)
      · exact .inr ⟨blk0 ++ pre, blk, post, by simp [e], hs, hr⟩

theorem firstB_mem {blk : List Node} {x : Nat × Nat} (h : firstB blk = some x) :
    ∃ n ∈ blk, (n.b, n.bb) = x := by
  cases blk with
  | nil => simp [firstB] at h
  | cons a l =>
    simp [firstB] at h
    exact ⟨a, List.mem_cons_self .., h⟩

theorem lastE_mem {blk : List Node} {x : Nat × Nat} (h : lastE blk = some x) :
    ∃ n ∈ blk, (n.e, n.eb) = x := by
  unfold lastE at h
  cases hl : blk.getLast? with
  | none => simp [hl] at h
  | some a =>
    simp [hl] at h
    exact ⟨a, List.mem_of_getLast? hl, h⟩

/-- boundary subset: every begin (end) of an output token is the begin (end) of an input token -/
theorem Coarsens.boundaries {p q : List Node} (h : Coarsens R p q) :
    ∀ m ∈ q, (∃ n ∈ p, n.b = m.b ∧ n.bb = m.bb) ∧ (∃ n ∈ p, n.e = m.e ∧ n.eb = m.eb) := by
  intro m hm
  rcases h.classify m hm with h | ⟨pre, blk, post, e, hs, _⟩
  · exact ⟨⟨m, h, rfl, rfl⟩, ⟨m, h, rfl, rfl⟩⟩
  · obtain ⟨f, hf, ef⟩ := firstB_mem hs.first
    obtain ⟨l, hl, el⟩ := lastE_mem hs.last
    have hfp : f ∈ p := by rw [e]; simp [hf]
    have hlp : l ∈ p := by rw [e]; simp [hl]
    simp only [Prod.mk.injEq] at ef el
    exact ⟨⟨f, hfp, ef.1, ef.2⟩, ⟨l, hlp, el.1, el.2⟩⟩

/-- adjacent tokens touch (characters and bytes) -/
def Contig : List Node → Prop
  | [] => True
  | [_] => True
  | a :: b :: rest => a.e = b.b ∧ a.eb = b.bb ∧ Contig (b :: rest)

theorem Contig.tail {a : Node} {l : List Node} (h : Contig (a :: l)) : Contig l := by
  cases l with
  | nil => trivial
  | cons b r => exact h.2.2

theorem contig_cons_iff (a : Node) (l : List Node) :
    Contig (a :: l) ↔ (∀ x, firstB l = some x → x = (a.e, a.eb)) ∧ Contig l := by
  cases l with
  | nil => simp [Contig, firstB]
  | cons b r =>
    simp only [Contig, firstB, List.head?_cons, Option.map_some, Option.some.injEq]
    constructor
    · rintro ⟨h1, h2, h3⟩
      exact ⟨fun x hx => by rw [← hx, h1, h2], h3⟩
    · rintro ⟨h1, h3⟩
      have := h1 _ rfl
      simp only [Prod.mk.injEq] at this
      exact ⟨this.1.symm, this.2.symm, h3⟩

theorem contig_append_iff (a : List Node) (b : List Node) :
    Contig (a ++ b) ↔ Contig a ∧ Contig b ∧
      (∀ x y, lastE a = some x → firstB b = some y → x = y) := by
  induction a with
  | nil => simp [Contig, lastE]
  | cons n a ih =>
    rw [List.cons_append, contig_cons_iff, contig_cons_iff, ih]
    by_cases ha : a = []
    · subst ha
      simp only [List.nil_append, Contig, lastE, List.getLast?_singleton, Option.map_some, firstB,
        List.head?_nil, Option.map_none, reduceCtorEq, false_implies, implies_true, true_and,
        Option.some.injEq]
      constructor
      · rintro ⟨h1, h2, _⟩
        exact ⟨h2, fun x y hx hy => by rw [← hx]; exact (h1 y hy).symm⟩
      · rintro ⟨h2, h3⟩
        exact ⟨fun x hx => (h3 _ _ rfl hx).symm, h2, by intro x y hx; cases hx⟩
    · have e1 : firstB (a ++ b) = firstB a := firstB_append_of_ne_nil b ha
      have e2 : lastE (n :: a) = lastE a := by
        have := lastE_append_of_ne_nil [n] ha
        simpa using this
      rw [e1, e2]
      constructor
      · rintro ⟨h1, h2, h3, h4⟩
        exact ⟨⟨h1, h2⟩, h3, h4⟩
      · rintro ⟨⟨h1, h2⟩, h3, h4⟩
        exact ⟨h1, h2, h3, h4⟩

/-- a coarsening of a contiguous path is contiguous: merged ranges are unions of adjacent ranges
and nothing is moved -/
theorem Coarsens.contig {p q : List Node} (h : Coarsens R p q) (hp : Contig p) : Contig q := by
  induction h with
  | nil => trivial
  | @keep n p q hpq ih =>
    rw [contig_cons_iff] at hp ⊢
    exact ⟨by rw [← hpq.summary.1]; exact hp.1, ih hp.2⟩
  | @merge blk m p q hs hr hpq ih =>
    rw [contig_append_iff] at hp
    rw [contig_cons_iff]
    refine ⟨?_, ih hp.2.1⟩
    intro x hx
    rw [← hpq.summary.1] at hx
    exact (hp.2.2 _ _ hs.last hx).symm

/-! ## the two concatenation functions -/

theorem block_decomp (path : List Node) (b e : Nat) (hbe : b ≤ e) (_he : e ≤ path.length) :
    path = path.take b ++ block path b e ++ path.drop e := by
  unfold block
  have h1 : (path.drop b).take (e - b) ++ path.drop e = path.drop b := by
    have : path.drop e = (path.drop b).drop (e - b) := by
      rw [List.drop_drop]; congr 1; omega
    rw [this, List.take_append_drop]
  rw [List.append_assoc, h1, List.take_append_drop]

theorem block_first (path : List Node) (b e : Nat) (hbe : b < e) (f : Node) (hf : path[b]? = some f) :
    firstB (block path b e) = some (f.b, f.bb) := by
  unfold firstB block
  rw [List.head?_take, if_neg (by omega), List.head?_drop, hf]
  rfl

theorem block_last (path : List Node) (b e : Nat) (hbe : b < e) (l : Node) (hl : path[e - 1]? = some l) :
    lastE (block path b e) = some (l.e, l.eb) := by
  have hlen : e - 1 < path.length := by
    rcases Nat.lt_or_ge (e - 1) path.length with h | h
    · exact h
    · rw [List.getElem?_eq_none h] at hl; cases hl
  unfold lastE block
  rw [List.getLast?_eq_getElem?, List.length_take, List.length_drop,
    List.getElem?_take, if_pos (by omega), List.getElem?_drop]
  have : b + (min (e - b) (path.length - b) - 1) = e - 1 := by omega
  rw [this, hl]
  rfl

/-- shape of a successful `concat_nodes` -/
theorem concatNodes_ok {path : List Node} {b e : Nat} {nf : Option (List Char)} {q : List Node}
    (h : concatNodes path b e nf = .ok q) :
    ∃ f l, b < e ∧ e ≤ path.length ∧ path[b]? = some f ∧ path[e - 1]? = some l ∧
      q = path.take b ++ mergedNode f l (block path b e) nf :: path.drop e := by
  unfold concatNodes at h
  split at h
  · cases h
  · rename_i hbe
    split at h
    · rename_i l f hl hf
      split at h
      · cases h
      · dsimp only at h
        split at h
        · cases h
        · have hlen : e - 1 < path.length := by
            rcases Nat.lt_or_ge (e - 1) path.length with h' | h'
            · exact h'
            · rw [List.getElem?_eq_none h'] at hl; cases hl
          refine ⟨f, l, by omega, by omega, hf, hl, ?_⟩
          cases h
          rfl
    · cases h

theorem concatOovNodes_ok {path : List Node} {b e posId : Nat} {q : List Node}
    (h : concatOovNodes path b e posId = .ok q) :
    ∃ f l, b < e ∧ e ≤ path.length ∧ path[b]? = some f ∧ path[e - 1]? = some l ∧
      q = path.take b ++ mergedOovNode f l (block path b e) posId :: path.drop e := by
  unfold concatOovNodes at h
  split at h
  · cases h
  · rename_i hbe
    split at h
    · rename_i l f hl hf
      split at h
      · cases h
      · dsimp only at h
        split at h
        · cases h
        · have hlen : e - 1 < path.length := by
            rcases Nat.lt_or_ge (e - 1) path.length with h' | h'
            · exact h'
            · rw [List.getElem?_eq_none h'] at hl; cases hl
          refine ⟨f, l, by omega, by omega, hf, hl, ?_⟩
          cases h
          rfl
    · cases h

/-- replacing the block `[b, e)` by a node that spans it is a coarsening -/
theorem coarsens_replace_block (path : List Node) (b e : Nat) (hbe : b < e) (he : e ≤ path.length)
    (m : Node) (hs : Spans (block path b e) m) (hr : R (block path b e) m) :
    Coarsens R path (path.take b ++ m :: path.drop e) := by
  have hd := block_decomp path b e (by omega) he
  have : Coarsens R (path.take b ++ (block path b e ++ path.drop e)) (path.take b ++ m :: path.drop e) :=
    (Coarsens.refl _).append (.merge _ m hs hr (Coarsens.refl _))
  rw [← List.append_assoc, ← hd] at this
  exact this

theorem spans_mergedNode (path : List Node) (b e : Nat) (hbe : b < e) (f l : Node)
    (hf : path[b]? = some f) (hl : path[e - 1]? = some l) (nf : Option (List Char)) :
    Spans (block path b e) (mergedNode f l (block path b e) nf) :=
  ⟨block_first path b e hbe f hf, block_last path b e hbe l hl, rfl⟩

theorem spans_mergedOovNode (path : List Node) (b e : Nat) (hbe : b < e) (f l : Node)
    (hf : path[b]? = some f) (hl : path[e - 1]? = some l) (posId : Nat) :
    Spans (block path b e) (mergedOovNode f l (block path b e) posId) :=
  ⟨block_first path b e hbe f hf, block_last path b e hbe l hl, rfl⟩

theorem block_head (path : List Node) (b e : Nat) (hbe : b < e) (f : Node) (hf : path[b]? = some f) :
    (block path b e).head? = some f := by
  unfold block
  rw [List.head?_take, if_neg (by omega), List.head?_drop, hf]

/-! ## plugin-specific relations -/

/-- a merged node is a NEW word: no A/B units, no word structure, no synonym groups, no dictionary-form
reference, no connection ids (`..Default::default()`, `dictionary_form_word_id: -1`,
`Node::new(.., u16::MAX, u16::MAX, i16::MAX, ..)`) -/
def NewWord (m : Node) : Prop :=
  m.aSplit = [] ∧ m.bSplit = [] ∧ m.wStruct = [] ∧ m.syn = [] ∧ m.dfw = -1 ∧
    m.left = 65535 ∧ m.right = 65535 ∧ m.cost = 32767

/-- katakana joining: configured OOV part of speech; normalised and dictionary form = surface; at
least two tokens are joined; the merged node is a new word -/
def RK (cfg : KCfg) (blk : List Node) (m : Node) : Prop :=
  m.pos = cfg.oovPos ∧ m.norm = m.surface ∧ m.dform = m.surface ∧ 2 ≤ blk.length ∧ NewWord m

/-- numeral joining: numeral part of speech, which is the part of speech of the first joined token;
the merged node has no word id; without `enableNormalize` at least two tokens are joined; the merged
node is a new word -/
def RN (cfg : NCfg) (blk : List Node) (m : Node) : Prop :=
  m.pos = cfg.numPos ∧ (∃ f, blk.head? = some f ∧ f.pos = cfg.numPos) ∧ m.wid = WID_INVALID ∧
    (cfg.enableNormalize = false → 2 ≤ blk.length) ∧ NewWord m

theorem RK_compositional (cfg : KCfg) : Compositional (RK cfg) := by
  intro p blk m hc _ h
  have := hc.length_le
  exact ⟨h.1, h.2.1, h.2.2.1, by have := h.2.2.2.1; omega, h.2.2.2.2⟩

theorem RN_compositional (cfg : NCfg) : Compositional (RN cfg) := by
  intro p blk m hc _ hr
  have hlen := hc.length_le
  refine ⟨hr.1, ?_, hr.2.2.1, fun hn => by have := hr.2.2.2.1 hn; omega, hr.2.2.2.2⟩
  obtain ⟨f, hf, hpos⟩ := hr.2.1
  cases hc with
  | nil => simp at hf
  | keep n _ =>
    simp only [List.head?_cons, Option.some.injEq] at hf
    exact ⟨n, rfl, by rw [hf]; exact hpos⟩
  | merge blk' m' hs' hr' _ =>
    simp only [List.head?_cons, Option.some.injEq] at hf
    subst hf
    obtain ⟨f', hf', hpos'⟩ := hr'.2.1
    refine ⟨f', ?_, hpos'⟩
    cases blk' with
    | nil => simp at hf'
    | cons a l => simpa using hf'

theorem block_length (path : List Node) (b e : Nat) (he : e ≤ path.length) :
    (block path b e).length = e - b := by
  unfold block
  rw [List.length_take, List.length_drop]
  omega

theorem concatOovNodes_coarsens (cfg : KCfg) {path : List Node} {b e : Nat} {q : List Node}
    (h : concatOovNodes path b e cfg.oovPos = .ok q) (h2 : 1 < e - b) : Coarsens (RK cfg) path q := by
  obtain ⟨f, l, hbe, he, hf, hl, rfl⟩ := concatOovNodes_ok h
  exact coarsens_replace_block path b e hbe he _ (spans_mergedOovNode path b e hbe f l hf hl _)
    ⟨rfl, rfl, rfl, by rw [block_length path b e he]; omega, rfl, rfl, rfl, rfl, rfl, rfl, rfl, rfl⟩

theorem concatNodes_coarsens (cfg : NCfg) {path : List Node} {b e : Nat} {nf : Option (List Char)}
    {q : List Node} (h : concatNodes path b e nf = .ok q)
    (hpos : ∀ f, path[b]? = some f → f.pos = cfg.numPos)
    (h2 : cfg.enableNormalize = false → 1 < e - b) : Coarsens (RN cfg) path q := by
  obtain ⟨f, l, hbe, he, hf, hl, rfl⟩ := concatNodes_ok h
  exact coarsens_replace_block path b e hbe he _ (spans_mergedNode path b e hbe f l hf hl _)
    ⟨hpos f hf, ⟨f, block_head path b e hbe f hf, hpos f hf⟩, rfl,
      fun hn => by rw [block_length path b e he]; have := h2 hn; omega,
      rfl, rfl, rfl, rfl, rfl, rfl, rfl, rfl⟩

/-! ## the katakana loop -/

theorem kstep_join_gt (cfg : KCfg) (cat : List Nat) (path : List Node) (i : Nat) (node : Node) (b e : Nat)
    (h : kstep cfg cat path i node = .ok (.join b e)) : 1 < e - b := by
  unfold kstep at h
  simp only [Outcome.bind] at h
  repeat (any_goals (first
    | split at h
    | (cases h <;> assumption)))

theorem kloop_coarsens (cfg : KCfg) (cat : List Nat) :
    ∀ (fuel : Nat) (path : List Node) (i : Nat) (q : List Node),
      kloop cfg cat fuel path i = .ok q → Coarsens (RK cfg) path q := by
  intro fuel
  induction fuel with
  | zero => intro path i q h; simp [kloop] at h
  | succ fuel ih =>
    intro path i q h
    unfold kloop at h
    split at h
    · cases h; exact Coarsens.refl _
    · split at h
      · cases h
      · split at h
        · exact ih _ _ _ h
        · rename_i b e hk
          split at h
          · rename_i p' hc
            exact (ih _ _ _ h).trans (RK_compositional cfg)
              (concatOovNodes_coarsens cfg hc (kstep_join_gt cfg cat path i _ b e hk))
          all_goals cases h
        all_goals cases h

/-! ## the numeric loop -/

theorem nconcat_coarsens (cfg : NCfg) (P : List Char → POut) {path : List Node} {b e : Nat}
    {acc : List Char} {q : List Node} (h : nconcat cfg P path b e acc = .ok q) :
    Coarsens (RN cfg) path q := by
  unfold nconcat at h
  split at h
  · cases h
  · rename_i f hf
    have hpos : f.pos = cfg.numPos → ∀ f', path[b]? = some f' → f'.pos = cfg.numPos := by
      intro hp f' hf'
      rw [hf] at hf'
      cases hf'
      exact hp
    split at h
    · cases h; exact Coarsens.refl _
    · rename_i hne
      have hp : f.pos = cfg.numPos := by simpa using hne
      dsimp only at h
      split at h
      · cases h
      split at h
      · rename_i hen
        split at h
        · exact concatNodes_coarsens cfg h (hpos hp) (fun hn => by rw [hen] at hn; cases hn)
        · cases h; exact Coarsens.refl _
      · split at h
        · rename_i hgt
          exact concatNodes_coarsens cfg h (hpos hp) (fun _ => hgt)
        · cases h; exact Coarsens.refl _

theorem nstep_coarsens (v : NVariant) (cfg : NCfg) (cat : List Nat) (P : List Char → POut)
    {st st' : NState} (h : nstep v cfg cat P st = .ok st') : Coarsens (RN cfg) st.path st'.path := by
  unfold nstep at h
  simp only at h
  repeat (any_goals (first
    | split at h
    | (cases h <;> first
        | exact Coarsens.refl _
        | exact nconcat_coarsens cfg P (by assumption))))

theorem ntail_coarsens (cfg : NCfg) (P : List Char → POut) {st : NState} {q : List Node}
    (h : ntail cfg P st = .ok q) : Coarsens (RN cfg) st.path q := by
  unfold ntail at h
  simp only at h
  repeat (any_goals (first
    | split at h
    | exact nconcat_coarsens cfg P h
    | (cases h <;> exact Coarsens.refl _)))

theorem nloop_coarsens (v : NVariant) (cfg : NCfg) (cat : List Nat) (P : List Char → POut) :
    ∀ (fuel : Nat) (st : NState) (q : List Node),
      nloop v cfg cat P fuel st = .ok q → Coarsens (RN cfg) st.path q := by
  intro fuel
  induction fuel with
  | zero => intro st q h; simp [nloop] at h
  | succ fuel ih =>
    intro st q h
    unfold nloop at h
    split at h
    · split at h
      · rename_i st' hs
        exact (ih _ _ h).trans (RN_compositional cfg) (nstep_coarsens v cfg cat P hs)
      all_goals cases h
    · exact ntail_coarsens cfg P h

/-! ## the plugin stack -/

/-- parts of speech a stack of plugins may give to a merged token -/
def prescribed : List Plugin → List Nat
  | [] => []
  | .numeric cfg :: rest => cfg.numPos :: prescribed rest
  | .katakana cfg :: rest => cfg.oovPos :: prescribed rest

def RS (poses : List Nat) (_blk : List Node) (m : Node) : Prop := m.pos ∈ poses ∧ NewWord m

theorem RS_compositional (poses : List Nat) : Compositional (RS poses) := fun _ _ _ _ _ h => h

theorem applyPlugin_coarsens (v : NVariant) (cat : List Nat) (P : List Char → POut) (pl : Plugin)
    (rest : List Plugin) {path q : List Node} (h : applyPlugin v cat P pl path = .ok q) :
    Coarsens (RS (prescribed (pl :: rest))) path q := by
  cases pl with
  | numeric cfg =>
    have := nloop_coarsens v cfg cat P _ _ _ h
    exact this.mono (fun blk m hr => ⟨by simp [prescribed, hr.1], hr.2.2.2.2⟩)
  | katakana cfg =>
    have := kloop_coarsens cfg cat _ _ _ _ h
    exact this.mono (fun blk m hr => ⟨by simp [prescribed, hr.1], hr.2.2.2.2⟩)

theorem prescribed_tail_subset (pl : Plugin) (rest : List Plugin) :
    ∀ x ∈ prescribed rest, x ∈ prescribed (pl :: rest) := by
  intro x hx
  cases pl <;> simp [prescribed, hx]

theorem rewriteAll_coarsens (v : NVariant) (cat : List Nat) (P : List Char → POut) :
    ∀ (pls : List Plugin) (path q : List Node), rewriteAll v cat P pls path = .ok q →
      Coarsens (RS (prescribed pls)) path q := by
  intro pls
  induction pls with
  | nil => intro path q h; simp [rewriteAll] at h; subst h; exact Coarsens.refl _
  | cons pl rest ih =>
    intro path q h
    unfold rewriteAll at h
    split at h
    · rename_i p' hp
      have h1 := applyPlugin_coarsens v cat P pl rest hp
      have h2 : Coarsens (RS (prescribed (pl :: rest))) p' q :=
        (ih _ _ h).mono (fun blk m hr => ⟨prescribed_tail_subset pl rest _ hr.1, hr.2⟩)
      exact h2.trans (RS_compositional _) h1
    all_goals cases h

/-! ## termination of the katakana loop -/

theorem scanFwdL_ge (cat : List Nat) : ∀ (l : List Node) (e0 e : Nat), scanFwdL cat l e0 = .ok e → e0 ≤ e := by
  intro l
  induction l with
  | nil => intro e0 e h; simp [scanFwdL] at h; omega
  | cons n rest ih =>
    intro e0 e h
    unfold scanFwdL at h
    split at h
    · have := ih _ _ h; omega
    · cases h; omega
    all_goals cases h

theorem kstep_join_lt (cfg : KCfg) (cat : List Nat) (path : List Node) (i : Nat) (node : Node) (b e : Nat)
    (h : kstep cfg cat path i node = .ok (.join b e)) : i < e := by
  unfold kstep at h
  simp only [Outcome.bind] at h
  repeat (any_goals (first
    | split at h
    | (cases h <;> exact scanFwdL_ge cat _ _ _ (by assumption))))

theorem concatOovNodes_ne_fuel (path : List Node) (b e posId : Nat) :
    concatOovNodes path b e posId ≠ .fuel := by
  unfold concatOovNodes
  intro h
  repeat (any_goals (first | split at h | cases h | dsimp only at h))

theorem isKatakana_ne_fuel (cat : List Nat) (n : Node) : isKatakana cat n ≠ .fuel := by
  unfold isKatakana; split <;> (intro h; cases h)

theorem canOovBow_ne_fuel (cat : List Nat) (n : Node) : canOovBow cat n ≠ .fuel := by
  unfold canOovBow; split <;> (intro h; cases h)

theorem isShorter_ne_fuel (cfg : KCfg) (n : Node) : isShorter cfg n ≠ .fuel := by
  unfold isShorter; split <;> (intro h; cases h)

theorem scanBackL_ne_fuel (cat : List Nat) : ∀ (l : List Node) (k : Nat), scanBackL cat l k ≠ .fuel := by
  intro l
  induction l with
  | nil => intro k h; cases h
  | cons n rest ih =>
    intro k h
    unfold scanBackL at h
    split at h
    · exact ih _ h
    · cases h
    · cases h
    · cases h
    · rename_i hf; exact isKatakana_ne_fuel cat n hf

theorem scanFwdL_ne_fuel (cat : List Nat) : ∀ (l : List Node) (k : Nat), scanFwdL cat l k ≠ .fuel := by
  intro l
  induction l with
  | nil => intro k h; cases h
  | cons n rest ih =>
    intro k h
    unfold scanFwdL at h
    split at h
    · exact ih _ h
    · cases h
    · cases h
    · cases h
    · rename_i hf; exact isKatakana_ne_fuel cat n hf

theorem skipBowL_ne_fuel (cat : List Nat) : ∀ (l : List Node) (k : Nat), skipBowL cat l k ≠ .fuel := by
  intro l
  induction l with
  | nil => intro k h; cases h
  | cons n rest ih =>
    intro k h
    unfold skipBowL at h
    split at h
    · exact ih _ h
    · cases h
    · cases h
    · cases h
    · rename_i hf; exact canOovBow_ne_fuel cat n hf

theorem bind_ne_fuel {α β : Type} (x : Outcome α) (f : α → Outcome β) (hx : x ≠ .fuel)
    (hf : ∀ a, f a ≠ .fuel) : x.bind f ≠ .fuel := by
  cases x with
  | ok a => exact hf a
  | err => intro h; cases h
  | panic => intro h; cases h
  | fuel => exact absurd rfl hx

theorem kstep_ne_fuel (cfg : KCfg) (cat : List Nat) (path : List Node) (i : Nat) (node : Node) :
    kstep cfg cat path i node ≠ .fuel := by
  unfold kstep
  apply bind_ne_fuel
  · split
    · intro h; cases h
    · exact isShorter_ne_fuel cfg node
  · intro cand
    split
    · intro h; cases h
    · apply bind_ne_fuel _ _ (isKatakana_ne_fuel cat node)
      intro kt
      split
      · intro h; cases h
      · apply bind_ne_fuel _ _ (scanBackL_ne_fuel cat _ _)
        intro b0
        apply bind_ne_fuel _ _ (scanFwdL_ne_fuel cat _ _)
        intro e
        apply bind_ne_fuel _ _ (skipBowL_ne_fuel cat _ _)
        intro b
        split <;> (intro h; cases h)

theorem kloop_terminates (cfg : KCfg) (cat : List Nat) :
    ∀ (fuel : Nat) (path : List Node) (i : Nat), path.length - i < fuel →
      kloop cfg cat fuel path i ≠ .fuel := by
  intro fuel
  induction fuel with
  | zero => intro path i h; omega
  | succ fuel ih =>
    intro path i hlt
    unfold kloop
    split
    · intro h; cases h
    · rename_i hi
      split
      · intro h; cases h
      · split
        · exact ih _ _ (by omega)
        · rename_i b e hk
          have hie := kstep_join_lt cfg cat path i _ b e hk
          split
          · rename_i p' hc
            obtain ⟨f, l, hbe, he, _, _, rfl⟩ := concatOovNodes_ok hc
            apply ih
            simp only [List.length_append, List.length_take, List.length_cons, List.length_drop]
            omega
          · intro h; cases h
          · intro h; cases h
          · rename_i hc; exact absurd hc (concatOovNodes_ne_fuel _ _ _ _)
        · intro h; cases h
        · intro h; cases h
        · rename_i hk; exact absurd hk (kstep_ne_fuel _ _ _ _ _)

/-! ## merged fields, untouched nodes -/

theorem replaced_untouched_before (path : List Node) (b e : Nat) (m : Node) (hbe : b < e)
    (he : e ≤ path.length) (k : Nat) (hk : k < b) :
    (path.take b ++ m :: path.drop e)[k]? = path[k]? := by
  rw [List.getElem?_append_left (by simp; omega), List.getElem?_take, if_pos hk]

theorem replaced_untouched_after (path : List Node) (b e : Nat) (m : Node) (hbe : b < e)
    (he : e ≤ path.length) (k : Nat) :
    (path.take b ++ m :: path.drop e)[b + 1 + k]? = path[e + k]? := by
  have hl : (path.take b).length = b := by simp; omega
  rw [List.getElem?_append_right (by omega), hl]
  have : b + 1 + k - b = k + 1 := by omega
  rw [this, List.getElem?_cons_succ, List.getElem?_drop]

theorem replaced_at (path : List Node) (b e : Nat) (m : Node) (hbe : b < e) (he : e ≤ path.length) :
    (path.take b ++ m :: path.drop e)[b]? = some m := by
  have hl : (path.take b).length = b := by simp; omega
  rw [List.getElem?_append_right (by omega), hl]
  simp

/-! ## `Coarsens` as an explicit partition into blocks -/

/-- `bs` lists, for every output token, the block of input tokens it stands for: either the token
itself, unchanged, or a block that it spans -/
def Aligned (R : List Node → Node → Prop) : List (List Node) → List Node → Prop
  | [], [] => True
  | blk :: bs, m :: q => (blk = [m] ∨ (Spans blk m ∧ R blk m)) ∧ Aligned R bs q
  | _, _ => False

theorem Coarsens.aligned {p q : List Node} (h : Coarsens R p q) :
    ∃ bs : List (List Node), bs.flatten = p ∧ Aligned R bs q := by
  induction h with
  | nil => exact ⟨[], rfl, trivial⟩
  | keep n _ ih =>
    obtain ⟨bs, e, ha⟩ := ih
    exact ⟨[n] :: bs, by simp [e], .inl rfl, ha⟩
  | merge blk m hs hr _ ih =>
    obtain ⟨bs, e, ha⟩ := ih
    exact ⟨blk :: bs, by simp [e], .inr ⟨hs, hr⟩, ha⟩

theorem coarsens_of_aligned : ∀ (bs : List (List Node)) (q : List Node), Aligned R bs q →
    Coarsens R bs.flatten q := by
  intro bs
  induction bs with
  | nil =>
    intro q h
    cases q with
    | nil => exact .nil
    | cons m q => exact absurd h (by simp [Aligned])
  | cons blk bs ih =>
    intro q h
    cases q with
    | nil => exact absurd h (by simp [Aligned])
    | cons m q =>
      obtain ⟨h1, h2⟩ := h
      rw [List.flatten_cons]
      rcases h1 with rfl | ⟨hs, hr⟩
      · exact .keep m (ih q h2)
      · exact .merge blk m hs hr (ih q h2)

/-! ## termination of the numeric loop after the repair of F2 (variant `fix`)

Every iteration of the repaired loop decreases, lexicographically, the triple
(path length − start of the current run, number of armed separator flags, path length − index):

* a numeric node whose characters the parser accepts keeps run start and flags and advances the index;
* a failing `append` with COMMA/POINT whose flag is still set restarts at the run start (same run
  start) and clears that flag — in the variant `cur` the restart also happens when the flag is
  already clear, which is where the measure fails to decrease (F2);
* every other failing `append` closes the run: the next run starts after the current node;
* a non-numeric node closes the run (and may re-arm the flags): the next run starts at least two
  nodes after the start of the closed one, whatever `concat` did to the path.
-/

theorem concatNodes_ne_fuel (path : List Node) (b e : Nat) (nf : Option (List Char)) :
    concatNodes path b e nf ≠ .fuel := by
  unfold concatNodes
  intro h
  repeat (any_goals (first | split at h | cases h | dsimp only at h))

theorem nconcat_ne_fuel (cfg : NCfg) (P : List Char → POut) (path : List Node) (b e : Nat)
    (acc : List Char) : nconcat cfg P path b e acc ≠ .fuel := by
  unfold nconcat
  intro h
  repeat (any_goals (first
    | exact concatNodes_ne_fuel _ _ _ _ h
    | split at h | cases h | dsimp only at h))

theorem nconcat_length {cfg : NCfg} {P : List Char → POut} {path : List Node} {b e : Nat}
    {acc : List Char} {q : List Node} (h : nconcat cfg P path b e acc = .ok q) :
    q.length = path.length ∨ (b < e ∧ e ≤ path.length ∧ q.length + (e - b) = path.length + 1) := by
  have key : ∀ nf, concatNodes path b e nf = .ok q →
      (b < e ∧ e ≤ path.length ∧ q.length + (e - b) = path.length + 1) := by
    intro nf hc
    obtain ⟨f, l, hbe, he, _, _, rfl⟩ := concatNodes_ok hc
    refine ⟨hbe, he, ?_⟩
    simp only [List.length_append, List.length_take, List.length_cons, List.length_drop]
    omega
  unfold nconcat at h
  repeat (any_goals (first
    | exact .inr (key _ h)
    | (cases h; exact .inl rfl)
    | split at h | cases h | dsimp only at h))

theorem nstep_ne_fuel (v : NVariant) (cfg : NCfg) (cat : List Nat) (P : List Char → POut) (st : NState) :
    nstep v cfg cat P st ≠ .fuel := by
  unfold nstep
  intro h
  simp only at h
  repeat (any_goals (first
    | split at h
    | cases h
    | exact nconcat_ne_fuel _ _ _ _ _ _ (by assumption)))

theorem ntail_ne_fuel (cfg : NCfg) (P : List Char → POut) (st : NState) : ntail cfg P st ≠ .fuel := by
  unfold ntail
  intro h
  simp only at h
  repeat (any_goals (first
    | exact nconcat_ne_fuel _ _ _ _ _ _ h
    | split at h
    | cases h))

/-- loop invariant of `rewrite_gen`: `i ≥ -1`, and a run never starts after the index -/
def NInv (st : NState) : Prop := -1 ≤ st.i ∧ st.beginIdx ≤ st.i

/-- index of the node where the current run started, or of the next node if no run is open -/
def runStart (st : NState) : Int := if st.beginIdx < 0 then st.i + 1 else st.beginIdx

def nDist (st : NState) : Nat := ((st.path.length : Int) - runStart st).toNat
def nFlags (st : NState) : Nat := st.comma.toNat + st.period.toNat
def nRem (st : NState) : Nat := ((st.path.length : Int) - st.i).toNat


def RunStart (st : NState) (s : Int) : Prop :=
  (st.beginIdx < 0 ∧ s = st.i + 1) ∨ (0 ≤ st.beginIdx ∧ s = st.beginIdx)

def NProg (st' st : NState) : Prop :=
  ∀ s s', RunStart st s → RunStart st' s' →
  ((st'.path.length : Int) - s' < (st.path.length : Int) - s ∨
  (st'.path.length = st.path.length ∧ s' = s ∧
    (nFlags st' < nFlags st ∨ (nFlags st' = nFlags st ∧ st'.i = st.i + 1))))


set_option linter.unusedSimpArgs false in
theorem nstep_fix_progress {cfg : NCfg} {cat : List Nat} {P : List Char → POut} {st st' : NState}
    (h : nstep .fix cfg cat P st = .ok st') (hinv : NInv st) :
    NInv st' ∧ st'.path.length ≤ st.path.length ∧ NProg st' st := by
  obtain ⟨hi, hb⟩ := hinv
  unfold nstep at h
  simp only at h
  repeat (any_goals (first
    | split at h
    | (cases h; done)
    | (cases h
       simp only [NInv, NProg, RunStart, nFlags, true_and, and_true, or_true, true_or,
         Bool.toNat_false, Bool.toNat_true]
       refine ⟨by omega, by omega, ?_⟩
       intro s s' hs hs'
       omega)
    | (cases h
       have hf := Bool.and_eq_true_iff.mp (by assumption)
       simp only [NInv, NProg, RunStart, nFlags, hf.2, true_and, and_true, or_true, true_or,
         Bool.toNat_false, Bool.toNat_true]
       refine ⟨by omega, by omega, ?_⟩
       intro s s' hs hs'
       omega)
    | (cases h
       have hc := nconcat_length (cfg := cfg) (P := P) (by assumption)
       simp only [NInv, NProg, RunStart, nFlags, true_and, and_true, or_true, true_or,
         Bool.toNat_false, Bool.toNat_true]
       refine ⟨by omega, by omega, ?_⟩
       intro s s' hs hs'
       omega)))

theorem runStart_spec (st : NState) : RunStart st (runStart st) := by
  unfold RunStart runStart
  split
  · exact .inl ⟨by assumption, rfl⟩
  · exact .inr ⟨by omega, rfl⟩

theorem nFlags_le (st : NState) : nFlags st ≤ 2 := by
  unfold nFlags
  have := Bool.toNat_le st.comma
  have := Bool.toNat_le st.period
  omega

/-- decreasing measure of the repaired loop, for paths of at most `N` nodes: (distance of the run
start from the end of the path, number of armed separator flags, distance of the index from the
end), lexicographically -/
def nMeasure (N : Nat) (st : NState) : Nat :=
  ((st.path.length : Int) - runStart st).toNat * (3 * (N + 2)) + nFlags st * (N + 2) +
    ((st.path.length : Int) - st.i).toNat

theorem nMeasure_decreases {N : Nat} {st st' : NState} (hinv : NInv st) (hinv' : NInv st')
    (hg : st.i < (st.path.length : Int) - 1) (hl : st'.path.length ≤ st.path.length)
    (hN : st.path.length ≤ N) (hp : NProg st' st) : nMeasure N st' < nMeasure N st := by
  have hs := runStart_spec st
  have hs' := runStart_spec st'
  have hp := hp _ _ hs hs'
  unfold nMeasure
  generalize runStart st = s at *
  generalize runStart st' = s' at *
  have hf := nFlags_le st
  have hf' := nFlags_le st'
  generalize nFlags st = f at *
  generalize nFlags st' = f' at *
  unfold RunStart at hs hs'
  unfold NInv at hinv hinv'
  generalize hd : ((st.path.length : Int) - s).toNat = d
  generalize hd' : ((st'.path.length : Int) - s').toNat = d'
  have hfm' : f' * (N + 2) ≤ 2 * (N + 2) := Nat.mul_le_mul_right _ hf'
  rcases hp with hlt | ⟨hL, hss, hlt | ⟨hff, hi⟩⟩
  · have hdd : d' + 1 ≤ d := by omega
    have hm : (d' + 1) * (3 * (N + 2)) ≤ d * (3 * (N + 2)) := Nat.mul_le_mul_right _ hdd
    rw [Nat.succ_mul] at hm
    generalize d' * (3 * (N + 2)) = x' at *
    generalize d * (3 * (N + 2)) = x at *
    generalize f' * (N + 2) = y' at *
    generalize f * (N + 2) = y at *
    omega
  · have hdd : d' = d := by omega
    subst hdd
    have hm : (f' + 1) * (N + 2) ≤ f * (N + 2) := Nat.mul_le_mul_right _ hlt
    rw [Nat.succ_mul] at hm
    generalize d' * (3 * (N + 2)) = x' at *
    generalize f' * (N + 2) = y' at *
    generalize f * (N + 2) = y at *
    omega
  · have hdd : d' = d := by omega
    subst hdd
    subst hff
    omega

theorem fuel_arith (n : Nat) : n * (3 * (n + 2)) + 2 * (n + 2) + (n + 1) < 4 * (n + 1) * (n + 1) + 8 := by
  have h1 : n * (3 * (n + 2)) = 3 * (n * n) + 6 * n := by
    simp only [Nat.mul_add, Nat.mul_left_comm n 3]; omega
  have h2 : 4 * (n + 1) * (n + 1) = 4 * (n * n) + 8 * n + 4 := by
    simp only [Nat.mul_add, Nat.add_mul, Nat.mul_one, Nat.mul_assoc]; omega
  have h3 : n ≤ n * n := Nat.le_mul_self n
  rw [h1, h2]
  generalize n * n = q at *
  omega

theorem nMeasure_init (path : List Node) : nMeasure path.length (nInit path) < nFuel path := by
  have e1 : runStart (nInit path) = 0 := rfl
  have e2 : nFlags (nInit path) = 2 := rfl
  have e3 : (((nInit path).path.length : Int) - 0).toNat = path.length := by simp only [nInit]; omega
  have e4 : (((nInit path).path.length : Int) - (nInit path).i).toNat = path.length + 1 := by
    simp only [nInit]; omega
  unfold nMeasure nFuel
  rw [e1, e2, e3, e4]
  exact fuel_arith path.length

theorem nloop_fix_terminates (cfg : NCfg) (cat : List Nat) (P : List Char → POut) (N : Nat) :
    ∀ (fuel : Nat) (st : NState), NInv st → st.path.length ≤ N → nMeasure N st < fuel →
      nloop .fix cfg cat P fuel st ≠ .fuel := by
  intro fuel
  induction fuel with
  | zero => intro st _ _ h; omega
  | succ fuel ih =>
    intro st hinv hN hf
    unfold nloop
    split
    · rename_i hg
      split
      · rename_i st' hs
        obtain ⟨hinv', hl, hp⟩ := nstep_fix_progress hs hinv
        have := nMeasure_decreases hinv hinv' hg hl hN hp
        exact ih st' hinv' (by omega) (by omega)
      · intro h; cases h
      · intro h; cases h
      · rename_i hs; exact absurd hs (nstep_ne_fuel _ _ _ _ _)
    · exact ntail_ne_fuel cfg P st

theorem nInit_inv (path : List Node) : NInv (nInit path) := by
  simp only [NInv, nInit]; omega

theorem joinNumeric_fix_ne_fuel (cfg : NCfg) (cat : List Nat) (P : List Char → POut) (path : List Node) :
    joinNumeric .fix cfg cat P path ≠ .fuel :=
  nloop_fix_terminates cfg cat P path.length _ _ (nInit_inv path) (Nat.le_refl _) (nMeasure_init path)

theorem rewriteAll_fix_ne_fuel (cat : List Nat) (P : List Char → POut) :
    ∀ (pls : List Plugin) (path : List Node), rewriteAll .fix cat P pls path ≠ .fuel := by
  intro pls
  induction pls with
  | nil => intro path h; cases h
  | cons pl rest ih =>
    intro path
    unfold rewriteAll
    split
    · exact ih _
    · intro h; cases h
    · intro h; cases h
    · rename_i hp
      cases pl with
      | numeric cfg => exact absurd hp (joinNumeric_fix_ne_fuel cfg cat P path)
      | katakana cfg => exact absurd hp (kloop_terminates cfg cat _ path 0 (by simp [kFuel]))

end Rewrite
