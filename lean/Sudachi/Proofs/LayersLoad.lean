import Sudachi.Model.LayersLoad
import Sudachi.Proofs.Layers
/-!
# Lemmas about the order of the load steps (`Model/LayersLoad.lean`, property C12)
-/
namespace Layers

/-- elementwise reading of a successful `mapO` -/
theorem mapO_ok_inv {α β : Type} (f : α → Outcome β) :
    ∀ (l : List α) (r : List β), mapO f l = .ok r →
      r.length = l.length ∧ ∀ (i : Nat) (a : α), l[i]? = some a → ∃ b, f a = .ok b ∧ r[i]? = some b
  | [], r, h => by
    simp [mapO] at h; subst h
    exact ⟨rfl, fun i a hi => by simp at hi⟩
  | a0 :: as, r, h => by
    unfold mapO at h
    split at h
    · rename_i b hb
      split at h
      · rename_i bs hbs
        cases h
        obtain ⟨hl, hall⟩ := mapO_ok_inv f as bs hbs
        refine ⟨by simp [hl], ?_⟩
        intro i a hi
        match i with
        | 0 => simp at hi; subst hi; exact ⟨b, hb, by simp⟩
        | i + 1 => simp at hi; simpa using hall i a hi
      · cases h
      · cases h
    · cases h
    · cases h

theorem clampI16_range (c : Int) : -32768 ≤ clampI16 c ∧ clampI16 c ≤ 32767 := by
  unfold clampI16; omega

theorem clampI16_id (c : Int) (h1 : -32768 ≤ c) (h2 : c ≤ 32767) : clampI16 c = c := by
  unfold clampI16; omega

/-- what `update_cost` leaves in the cost column -/
theorem updateCost_spec (est : Nat → Outcome (Int × Nat)) (ps : List Param) (cs : List Int)
    (h : updateCost est ps = .ok cs) :
    cs.length = ps.length ∧ ∀ (w : Nat) (p : Param), ps[w]? = some p →
      (p.cost ≠ COST_MIN → cs[w]? = some p.cost) ∧
      (p.cost = COST_MIN → ∃ ic n, est p.surface = .ok (ic, n) ∧
        cs[w]? = some (clampI16 (ic + USER_DICT_COST_PER_MORPH * (n : Int)))) := by
  unfold updateCost at h
  obtain ⟨hl, hall⟩ := mapO_ok_inv _ ps cs h
  refine ⟨hl, ?_⟩
  intro w p hp
  obtain ⟨b, hb, hcs⟩ := hall w p hp
  constructor
  · intro hne
    rw [if_pos hne] at hb
    cases hb
    exact hcs
  · intro heq
    rw [if_neg (by simp [heq])] at hb
    split at hb
    · rename_i ic n he
      cases hb
      exact ⟨ic, n, he, hcs⟩
    · cases hb
    · cases hb

/-- the user dictionaries as `Layers.load` sees them -/
def UserDic.proj (u : UserDic) : List Pos × Lexicon := (u.own, u.lex)

theorem mergeAllFull_spec (est : LoadState → Nat → Outcome (Int × Nat)) :
    ∀ (us : List UserDic) (st F : LoadState), mergeAllFull est st us = .ok F →
      mergeAll st.dict (us.map UserDic.proj) = .ok F.dict ∧ F.inhibited = st.inhibited ∧
      ∃ css : List (List Int), css.length = us.length ∧ F.costs = st.costs ++ css
  | [], st, F, h => by
    simp [mergeAllFull] at h; subst h
    exact ⟨rfl, rfl, [], rfl, by simp⟩
  | u :: rest, st, F, h => by
    unfold mergeAllFull at h
    split at h
    · rename_i st1 h1
      unfold mergeUserFull at h1
      split at h1
      · cases h1
      · cases h1
      · rename_i cs hcs
        split at h1
        · cases h1
        · cases h1
        · rename_i d1 hd1
          cases h1
          obtain ⟨r1, r2, css, r3, r4⟩ := mergeAllFull_spec est rest _ F h
          refine ⟨?_, r2, cs :: css, by simp [r3], by rw [r4]; simp⟩
          simp only [List.map_cons, mergeAll, UserDic.proj]
          have : mergeUser st.dict u.own u.lex = .ok d1 := hd1
          rw [this]
          exact r1
    · cases h
    · cases h

/-- the estimate for the (j+1)-th user dictionary is taken on the state reached after merging the first j -/
theorem mergeAllFull_prefix (est : LoadState → Nat → Outcome (Int × Nat)) :
    ∀ (us : List UserDic) (st F : LoadState), mergeAllFull est st us = .ok F →
      ∀ (j : Nat) (u : UserDic), us[j]? = some u →
        ∃ Sj cs, mergeAllFull est st (us.take j) = .ok Sj ∧ updateCost (est Sj) u.params = .ok cs ∧
          F.costs[st.costs.length + j]? = some cs
  | [], st, F, _, j, u, hj => by simp at hj
  | u0 :: rest, st, F, h, j, u, hj => by
    unfold mergeAllFull at h
    split at h
    · rename_i st1 h1
      have h1' := h1
      unfold mergeUserFull at h1
      split at h1
      · cases h1
      · cases h1
      · rename_i cs hcs
        split at h1
        · cases h1
        · cases h1
        · rename_i d1 hd1
          cases h1
          match j with
          | 0 =>
            simp at hj; subst hj
            obtain ⟨_, _, css, _, r4⟩ := mergeAllFull_spec est rest _ F h
            refine ⟨st, cs, by simp [mergeAllFull], hcs, ?_⟩
            rw [r4]
            simp
          | j + 1 =>
            simp at hj
            obtain ⟨Sj, cs', a, b, c⟩ := mergeAllFull_prefix est rest _ F h j u hj
            refine ⟨Sj, cs', ?_, b, ?_⟩
            · simp only [List.take_succ_cons, mergeAllFull, h1']
              exact a
            · simp only [List.length_append, List.length_cons, List.length_nil] at c
              have e : st.costs.length + (j + 1) = st.costs.length + (0 + 1) + j := by omega
              rw [e]; exact c
    · cases h
    · cases h

/-- unfolding of a successful `loadFull` -/
theorem loadFull_inv (est : LoadState → Nat → Outcome (Int × Nat)) (sysPos : List Pos) (sysLex : Lexicon)
    (sysCosts : List Int) (nl nr : Nat) (conn : List (List (Nat × Nat))) (plugs : List (Bool × Pos)) (nOov : Nat)
    (users : List UserDic) (F : LoadState)
    (h : loadFull est sysPos sysLex sysCosts nl nr conn plugs nOov users = .ok F) :
    ∃ set g ids, LexSet.new sysLex sysPos.length = .ok set ∧ conn.all (pairsValid nl nr) = true ∧
      loadPlugins sysPos plugs = .ok (g, ids) ∧ nOov ≠ 0 ∧
      mergeAllFull est ⟨⟨g, set⟩, conn.flatten, [sysCosts]⟩ users = .ok F := by
  unfold loadFull at h
  split at h
  · cases h
  · cases h
  · rename_i set hset
    split at h
    · cases h
    · rename_i hv
      split at h
      · cases h
      · cases h
      · rename_i g ids hpl
        split at h
        · cases h
        · rename_i hn
          exact ⟨set, g, ids, hset, by simpa using hv, hpl, hn, h⟩

/-- ... and the way back: the same prefix steps followed by any successful merge -/
theorem loadFull_of (est : LoadState → Nat → Outcome (Int × Nat)) (sysPos : List Pos) (sysLex : Lexicon)
    (sysCosts : List Int) (nl nr : Nat) (conn : List (List (Nat × Nat))) (plugs : List (Bool × Pos)) (nOov : Nat)
    (users : List UserDic) (set : LexSet) (g : List Pos) (ids : List Nat)
    (h1 : LexSet.new sysLex sysPos.length = .ok set) (h2 : conn.all (pairsValid nl nr) = true)
    (h3 : loadPlugins sysPos plugs = .ok (g, ids)) (h4 : nOov ≠ 0) :
    loadFull est sysPos sysLex sysCosts nl nr conn plugs nOov users =
      mergeAllFull est ⟨⟨g, set⟩, conn.flatten, [sysCosts]⟩ users := by
  unfold loadFull
  rw [h1]
  simp only [h2, h3, Bool.not_true, Bool.false_eq_true, if_false, if_neg h4]

end Layers
