import Sudachi.Proofs.Total
/-!
# The path `fill_top_path` returns costs what `connect_eos` stored (fixed-width lattice of `Model/Total.lean`)

`Proofs/Total.lean` shows that the back-pointer walk is index-safe (`PathInv`, `topPath_ok`).  This file adds the COST side of
the same walk, for the executed model with its casts (`asU16` for the end boundary, `asU32` for the row index — `u32` since the
repair 9fb3dd8 in /repo):

* `connGo_ptrC`: the state of `connect_node`'s loop designates a connected entry of the scanned row AND its minimum is that
  entry's total + connection cost + word cost (for every addition that is exact where it succeeds: `AddExact`, true of the
  checked `i32` addition);
* `CostInv`: every connected entry stored in the lattice has total = (total of the entry its back-pointer designates) +
  connection cost + word cost; row 0 is `[BOS]`; kept by `insert` (needs `PathInv`: fewer than 2^32 entries per row, so the
  stored row index IS the index — exactly what failed with the `u16` index of the pinned tree);
* `topPath_cost`: the list `fill_top_path` returns is a chain from BOS whose entries' totals are the running sums of
  connection and word costs, ending in the entry the walk started from;
* `chosen_path_cost`: after `build_lattice` + `connect_eos`, the cost RECOMPUTED along the returned path from word costs and
  connection costs (BOS and EOS connection included) equals the minimum `connect_eos` stored.
-/
namespace Total
open Oov (Outcome)

/-- an addition that is exact where it succeeds (the checked `i32` addition; not the wrapping one of a release build) -/
def AddExact (add : Int → Int → Option Int) : Prop := ∀ a b c, add a b = some c → c = a + b

theorem addI32_exact : AddExact addI32 := by
  intro a b c h
  unfold addI32 addW at h
  split at h
  · cases h; rfl
  · cases h

section ConnPtrC
variable (add : Int → Int → Option Int) (M : Int) (conn : Nat → Nat → Int)

/-- `Ptr` with the cost: the loop state designates a connected entry `l` of the scanned row and the minimum is
`l.total + conn(l.right, n.left) + n.cost` -/
def PtrC (n : Vit.Node) (full : List Entry) (st : Int × Nat × Nat) : Prop :=
  ∃ j l, full[j]? = some l ∧ l.total ≠ M ∧ st.2.1 = asU16 n.b ∧ st.2.2 = asU32 j ∧
    st.1 = l.total + conn l.node.r n.l + n.c

theorem connGo_ptrC (hadd : AddExact add) (n : Vit.Node) (full : List Entry) :
    ∀ (suffix : List Entry) (i : Nat) (st st' : Int × Nat × Nat), full.drop i = suffix →
      (st.1 = M ∨ PtrC M conn n full st) → connGo add M conn n suffix i st = some st' →
      (st'.1 = M ∨ PtrC M conn n full st')
  | [], _, st, st', _, hst, h => by
    simp only [connGo] at h; cases h; exact hst
  | l :: rest, i, st, st', hd, hst, h => by
    have hl : full[i]? = some l := by
      have := congrArg (fun x => x[0]?) hd
      simpa [List.getElem?_drop] using this
    have hd' : full.drop (i + 1) = rest := by
      have := congrArg (List.drop 1) hd
      simpa [List.drop_drop] using this
    unfold connGo at h
    by_cases hm : l.total = M
    · rw [if_pos hm] at h
      exact connGo_ptrC hadd n full rest (i + 1) st st' hd' hst h
    · rw [if_neg hm] at h
      cases h1 : add l.total (conn l.node.r n.l) with
      | none => rw [h1] at h; cases h
      | some x =>
        rw [h1] at h; simp only [] at h
        cases h2 : add x n.c with
        | none => rw [h2] at h; cases h
        | some nc =>
          rw [h2] at h; simp only [] at h
          have e1 := hadd _ _ _ h1
          have e2 := hadd _ _ _ h2
          by_cases hlt : nc < st.1
          · rw [if_pos hlt] at h
            exact connGo_ptrC hadd n full rest (i + 1) _ st' hd'
              (Or.inr ⟨i, l, hl, hm, rfl, rfl, by simp only []; rw [e2, e1]⟩) h
          · rw [if_neg hlt] at h
            exact connGo_ptrC hadd n full rest (i + 1) st st' hd' hst h

theorem connectNode_ptrC (hadd : AddExact add) (n : Vit.Node) (row : List Entry) (r : Int × Nat × Nat)
    (h : connectNode add M conn row n = some r) : r.1 = M ∨ PtrC M conn n row r :=
  connGo_ptrC add M conn hadd n row row 0 _ r rfl (Or.inl rfl) h

end ConnPtrC

/-- every connected entry's total is the total of the entry its back-pointer designates + connection cost + word cost;
row 0 holds exactly the BOS entry -/
structure CostInv (conn : Nat → Nat → Int) (rows : Rows) : Prop where
  bos : rows[0]? = some [bosEntry]
  ent : ∀ (e : Nat) (row : List Entry) (i : Nat) (x : Entry), 1 ≤ e → rows[e]? = some row → row[i]? = some x →
    x.total ≠ I32_MAX →
    ∃ (row' : List Entry) (p : Entry), rows[x.node.b]? = some row' ∧ row'[x.pi]? = some p ∧ p.total ≠ I32_MAX ∧
      x.total = p.total + conn p.node.r x.node.l + x.node.c

theorem reset_costInv (conn : Nat → Nat → Int) (len : Nat) : CostInv conn (reset len) := by
  have hget : ∀ e row, (reset len)[e]? = some row → 1 ≤ e → row = [] := by
    intro e row h he
    unfold reset at h
    rw [Array.getElem?_setIfInBounds] at h
    split at h
    · omega
    · rw [Array.getElem?_replicate] at h
      split at h
      · cases h; rfl
      · cases h
  refine ⟨?_, ?_⟩
  · unfold reset
    rw [Array.getElem?_setIfInBounds, if_pos rfl, if_pos (by simp)]
  · intro e row i x he hrow hx _
    rw [hget e row hrow he] at hx
    cases hx

theorem insert_costInv (add : Int → Int → Option Int) (hadd : AddExact add) (conn : Nat → Nat → Int) (len : Nat)
    (hlen : len ≤ 65535) (rest : List Vit.Node) (rows : Rows) (n : Vit.Node) (hinv : PathInv len (n :: rest) rows)
    (hcost : CostInv conn rows) (hn : n.b < n.e ∧ n.e ≤ len) (rows' : Rows) (ent : Entry)
    (h : insert add I32_MAX conn rows n = .ok (rows', ent)) : CostInv conn rows' := by
  obtain ⟨hsize, hsmall, _⟩ := hinv
  obtain ⟨hbos, hent⟩ := hcost
  unfold insert at h
  cases hb : rows[n.b]? with
  | none => rw [hb] at h; cases h
  | some rowB =>
    rw [hb] at h; simp only [] at h
    cases hc : connectNode add I32_MAX conn rowB n with
    | none => rw [hc] at h; cases h
    | some r =>
      obtain ⟨c, pe, pi⟩ := r
      rw [hc] at h; simp only [] at h
      cases he : rows[n.e]? with
      | none => rw [he] at h; cases h
      | some rowE =>
        rw [he] at h; simp only [] at h
        cases h
        have hes : n.e < rows.size := by omega
        have grow : ∀ (b : Nat) (row : List Entry), rows[b]? = some row →
            ∃ row'' : List Entry, (rows.setIfInBounds n.e (rowE ++ [⟨n, c, pe, pi⟩]))[b]? = some row'' ∧
            ∀ (j : Nat) (p : Entry), row[j]? = some p → row''[j]? = some p := by
          intro b row hrow
          rw [Array.getElem?_setIfInBounds]
          by_cases hbe : n.e = b
          · subst hbe
            rw [if_pos rfl, if_pos hes]
            rw [he] at hrow; cases hrow
            refine ⟨_, rfl, ?_⟩
            intro j p hj
            have hjl : j < rowE.length := (List.getElem?_eq_some_iff.mp hj).1
            rw [List.getElem?_append_left hjl]; exact hj
          · rw [if_neg hbe]; exact ⟨row, hrow, fun _ _ hj => hj⟩
        have keep : ∀ x : Entry,
            (∃ (row' : List Entry) (p : Entry), rows[x.node.b]? = some row' ∧ row'[x.pi]? = some p ∧ p.total ≠ I32_MAX ∧
              x.total = p.total + conn p.node.r x.node.l + x.node.c) →
            (∃ (row' : List Entry) (p : Entry),
              (rows.setIfInBounds n.e (rowE ++ [⟨n, c, pe, pi⟩]))[x.node.b]? = some row' ∧ row'[x.pi]? = some p ∧
              p.total ≠ I32_MAX ∧ x.total = p.total + conn p.node.r x.node.l + x.node.c) := by
          intro x hx
          obtain ⟨row', p, g1, g2, g3, g4⟩ := hx
          obtain ⟨row'', k1, k2⟩ := grow _ _ g1
          exact ⟨row'', p, k1, k2 _ _ g2, g3, g4⟩
        refine ⟨?_, ?_⟩
        · rw [Array.getElem?_setIfInBounds, if_neg (by omega)]; exact hbos
        · intro e row i x he1 hrow hx hxc
          rw [Array.getElem?_setIfInBounds] at hrow
          by_cases hee : n.e = e
          · subst hee
            rw [if_pos rfl, if_pos hes] at hrow
            cases hrow
            rcases Nat.lt_or_ge i rowE.length with hi | hi
            · rw [List.getElem?_append_left hi] at hx
              exact keep x (hent n.e rowE i x he1 he hx hxc)
            · rw [List.getElem?_append_right hi] at hx
              have hx0 : i - rowE.length = 0 := by
                rcases Nat.eq_zero_or_pos (i - rowE.length) with h0 | h0
                · exact h0
                · rw [List.getElem?_eq_none (by simp; omega)] at hx; cases hx
              rw [hx0] at hx
              simp only [List.getElem?_cons_zero] at hx
              cases hx
              refine keep _ ?_
              rcases connectNode_ptrC add I32_MAX conn hadd n rowB (c, pe, pi) hc with hm | ⟨j, l, g1, g2, _, g4, g5⟩
              · exact absurd hm hxc
              · simp only [] at g4 g5
                have hjl : j < rowB.length := (List.getElem?_eq_some_iff.mp g1).1
                have hsz := hsmall n.b rowB hb
                have e2 : asU32 j = j := asU32_id _ (by omega)
                exact ⟨rowB, l, hb, by simp only []; rw [g4, e2]; exact g1, g2, g5⟩
          · rw [if_neg hee] at hrow
            exact keep x (hent e row i x he1 hrow hx hxc)

theorem buildAll_costInv (add : Int → Int → Option Int) (hadd : AddExact add) (conn : Nat → Nat → Int) (len : Nat)
    (hlen : len ≤ 65535) :
    ∀ (nodes : List Vit.Node) (rows : Rows) (acc : List Entry) (rows' : Rows) (ents : List Entry),
      PathInv len nodes rows → CostInv conn rows → (∀ n ∈ nodes, n.b < n.e ∧ n.e ≤ len) →
      buildAll add I32_MAX conn nodes rows acc = .ok (rows', ents) → CostInv conn rows'
  | [], rows, acc, rows', ents, _, hcost, _, h => by
    simp only [buildAll] at h; cases h; exact hcost
  | n :: ns, rows, acc, rows', ents, hinv, hcost, hns, h => by
    unfold buildAll at h
    cases hi : insert add I32_MAX conn rows n with
    | err k => rw [hi] at h; cases h
    | panic w => rw [hi] at h; cases h
    | ok r =>
      obtain ⟨rows1, e1⟩ := r
      rw [hi] at h; simp only [] at h
      have h1 := insert_pathInv add conn len hlen ns rows n hinv (hns n (List.mem_cons_self ..)) rows1 e1 hi
      have h2 := insert_costInv add hadd conn len hlen ns rows n hinv hcost (hns n (List.mem_cons_self ..)) rows1 e1 hi
      exact buildAll_costInv add hadd conn len hlen ns rows1 (e1 :: acc) rows' ents h1 h2
        (fun m hm => hns m (List.mem_cons_of_mem _ hm)) h

/-- a list of entries is a chain after a node with right id `r` and total `t`: each total is the previous total +
connection cost + word cost -/
def ChainFrom (conn : Nat → Nat → Int) : Nat → Int → List Entry → Prop
  | _, _, [] => True
  | r, t, x :: xs => x.total = t + conn r x.node.l + x.node.c ∧ ChainFrom conn x.node.r x.total xs

/-- right id and total at the end of a chain that starts after `(r, t)` -/
def chainEnd : Nat → Int → List Entry → Nat × Int
  | r, t, [] => (r, t)
  | _, _, x :: xs => chainEnd x.node.r x.total xs

/-- connection and word costs summed along a list of entries that follows a node with right id `r` -/
def pathCostFrom (conn : Nat → Nat → Int) : Nat → List Entry → Int
  | _, [] => 0
  | r, x :: xs => conn r x.node.l + x.node.c + pathCostFrom conn x.node.r xs

theorem chainEnd_total (conn : Nat → Nat → Int) :
    ∀ (xs : List Entry) (r : Nat) (t : Int), ChainFrom conn r t xs →
      (chainEnd r t xs).2 = t + pathCostFrom conn r xs
  | [], r, t, _ => by simp [chainEnd, pathCostFrom]
  | x :: xs, r, t, h => by
    obtain ⟨h1, h2⟩ := h
    have := chainEnd_total conn xs x.node.r x.total h2
    simp only [chainEnd, pathCostFrom]
    rw [this, h1]; omega

/-- **`fill_top_path` returns a cost chain from BOS** that ends where the walk started: the totals stored along the
returned path are the running sums of connection and word costs -/
theorem topPath_cost (conn : Nat → Nat → Int) (len : Nat) (rows : Rows) (hinv : PathInv len [] rows)
    (hcost : CostInv conn rows) :
    ∀ (e fuel i : Nat) (p : Entry) (acc : List Entry) (row : List Entry), 1 ≤ e → e ≤ fuel →
      rows[e]? = some row → row[i]? = some p → p.total ≠ I32_MAX → ChainFrom conn p.node.r p.total acc →
      ∃ ents, topPath rows fuel (e, i) acc = .ok ents ∧ ChainFrom conn Vit.bos.r 0 ents ∧
        chainEnd Vit.bos.r 0 ents = chainEnd p.node.r p.total acc := by
  intro e
  induction e using Nat.strongRecOn with
  | _ e ih =>
    intro fuel i p acc row he hf hrow hp hconn hacc
    obtain ⟨a1, a2, a3⟩ := hinv.ent e row i p he hrow hp
    obtain ⟨row', q, c1, c2, c3, c4⟩ := hcost.ent e row i p he hrow hp hconn
    cases fuel with
    | zero => omega
    | succ f =>
      have hfr : fullRow rows e = some row := by
        unfold fullRow; rw [hrow]; simp only []; rw [if_neg (by omega)]
      rcases a3 with a3 | ⟨b1, _⟩
      · exact absurd a3 hconn
      · by_cases hpe : p.pe ≠ 0
        · have hb0 : p.node.b ≠ 0 := by rw [← b1]; exact hpe
          obtain ⟨ents, g1, g2, g3⟩ := ih p.node.b a2 f p.pi q (p :: acc) row' (by omega) (by omega) c1 c2 c3
            ⟨c4, hacc⟩
          refine ⟨ents, ?_, g2, ?_⟩
          · simp only [topPath, hfr, hp, b1, if_pos hb0]; exact g1
          · rw [g3]; rfl
        · have hb0 : p.node.b = 0 := by
            rw [← b1]; exact Decidable.not_not.mp hpe
          have hq : q = bosEntry := by
            rw [hb0, hcost.bos] at c1
            cases c1
            have hlt := (List.getElem?_eq_some_iff.mp c2).1
            have h0 : p.pi = 0 := by simpa using hlt
            rw [h0] at c2
            simpa using c2.symm
          refine ⟨p :: acc, ?_, ?_, rfl⟩
          · simp only [topPath, hfr, hp, if_neg hpe]
          · refine ⟨?_, hacc⟩
            rw [c4, hq]; rfl

/-- **the cost recomputed along the returned path is the minimum `connect_eos` stored.**  For candidates inside a text of at
most 65535 characters with fewer than 2^32 of them ending at any one boundary: when `build_lattice` and `connect_eos`
succeed with minimum `c` and back-pointer `(pe, pi)`, `fill_top_path` returns a path (entries in text order) that is a cost
chain from BOS, and `c` = (sum of connection costs and word costs along it, BOS connection included) + the connection cost
to EOS.  With the `u16` row index of the pinned tree this is false: the stored minimum belongs to another chain
(`C03.row_index_u16_wraps_counterexample`). -/
theorem chosen_path_cost (conn : Nat → Nat → Int) (len : Nat) (hlen : len ≤ 65535) (nodes : List Vit.Node)
    (hnodes : ∀ n ∈ nodes, n.b < n.e ∧ n.e ≤ len) (hlen0 : 1 ≤ len)
    (hcnt : ∀ e, nodes.countP (fun n => n.e == e) ≤ 4294967295)
    (rows : Rows) (ents : List Entry)
    (hb : buildAll addI32 I32_MAX conn nodes (reset len) [] = .ok (rows, ents))
    (c : Int) (pe pi : Nat) (he : connectEos addI32 I32_MAX conn rows len = .ok (c, pe, pi)) :
    ∃ path, topPath rows (len + 1) (pe, pi) [] = .ok path ∧ ChainFrom conn Vit.bos.r 0 path ∧
      c = pathCostFrom conn Vit.bos.r path + conn (chainEnd Vit.bos.r 0 path).1 0 := by
  have hinv := buildAll_pathInv addI32 conn len hlen nodes (reset len) [] rows ents (reset_pathInv len nodes hcnt) hnodes hb
  have hcost := buildAll_costInv addI32 addI32_exact conn len hlen nodes (reset len) [] rows ents
    (reset_pathInv len nodes hcnt) (reset_costInv conn len) hnodes hb
  have hid : asU16 len = len := asU16_id len hlen
  unfold connectEos eosNode at he
  simp only [hid] at he
  cases hr : rows[len]? with
  | none => rw [hr] at he; cases he
  | some row =>
    rw [hr] at he; simp only [] at he
    cases hc : connectNode addI32 I32_MAX conn row ⟨len, len, 0, 0, 0⟩ with
    | none => rw [hc] at he; cases he
    | some r =>
      obtain ⟨c', pe', pi'⟩ := r
      rw [hc] at he; simp only [] at he
      split at he
      · cases he
      · rename_i hne
        cases he
        rcases connectNode_ptrC addI32 I32_MAX conn addI32_exact ⟨len, len, 0, 0, 0⟩ row (c, pe, pi) hc with hm | ⟨j, l, g1, g2, g3, g4, g5⟩
        · exact absurd hm hne
        · simp only [] at g3 g4 g5
          have hjl : j < row.length := (List.getElem?_eq_some_iff.mp g1).1
          have hsz := hinv.small len row hr
          have e2 : asU32 j = j := asU32_id _ (by simp at hsz; omega)
          rw [hid] at g3
          rw [e2] at g4
          rw [g3, g4]
          obtain ⟨path, p1, p2, p3⟩ := topPath_cost conn len rows hinv hcost len (len + 1) j l [] row hlen0 (by omega) hr g1 g2
            trivial
          refine ⟨path, p1, p2, ?_⟩
          have ht := chainEnd_total conn path Vit.bos.r 0 p2
          rw [p3] at ht ⊢
          simp only [chainEnd] at ht ⊢
          rw [g5, ht]; omega

end Total
