import Sudachi.Proofs.Build
import Sudachi.Proofs.BuildTotal
import Sudachi.Proofs.BuildKept
/-!
# What the parsers guarantee about the TYPES of the builder state (C06, for the bridge to C05's file)

`i16` parameters, `u32` synonym ids, POS ids inside a POS table of at most 32768 rows of six strings,
matrix sizes `0..32767` with one `i16` per cell: facts the Rust types carry and the model (with `Int` /
`Nat` / lists) has to prove from the parsers.  One invariant over any sequence of calls (`runOps_shape`).
-/
namespace Build

def I16 (x : Int) : Prop := -32768 ≤ x ∧ x ≤ 32767

theorem parseI16_range {s : Str} {v : Int} (h : parseI16 s = some v) : I16 v := by
  unfold parseI16 at h
  unfold I16
  split at h <;> (split at h <;> simp at h) <;> omega

theorem eI16_range {s : Str} {v : Int} (h : eI16 s = .ok v) : I16 v := by
  unfold eI16 at h
  split at h
  · rename_i w hw; injection h with h; subst h; exact parseI16_range hw
  · simp at h

theorem parseU32_range {s : Str} {v : Nat} (h : parseU32 s = some v) : v < 4294967296 := by
  unfold parseU32 at h
  split at h <;> (split at h <;> simp at h) <;> omega

theorem eU32_range {s : Str} {v : Nat} (h : eU32 s = .ok v) : v < 4294967296 := by
  unfold eU32 at h
  split at h
  · rename_i w hw; injection h with h; subst h; exact parseU32_range hw
  · simp at h

theorem parseU32List_range {s : Str} {l : List Nat} (h : parseU32List s = .ok l) : ∀ a ∈ l, a < 4294967296 := by
  unfold parseU32List at h
  split at h
  · injection h with h; subst h; simp
  · intro a ha
    obtain ⟨p, hp⟩ := (slashList_mem h).1 a ha
    exact eU32_range hp

theorem mapE_length {α β : Type} {f : α → Except ErrKind β} {l : List α} {r : List β}
    (h : mapE f l = .ok r) : r.length = l.length := by
  induction l generalizing r with
  | nil => simp only [mapE] at h; injection h with h; subst h; rfl
  | cons a as ih =>
    simp only [mapE] at h
    split at h
    · simp at h
    · split at h
      · simp at h
      · rename_i bs hbs
        injection h with h; subst h
        simp [ih hbs]

/-! ## the POS table -/

/-- the table has at least the `n0` rows the builder started from, at most `max n0 32768` rows, and every
row added since has six strings -/
def TabShape (n0 : Nat) (tab : List PosKey) : Prop :=
  n0 ≤ tab.length ∧ tab.length ≤ max n0 32768 ∧ ∀ k ∈ tab.drop n0, k.length = 6

theorem posOf_shape {n0 : Nat} {tab tab' : List PosKey} {k : PosKey} {i : Nat} (h : posOf tab k = .ok (i, tab'))
    (hk : k.length = 6) (ht : TabShape n0 tab) : TabShape n0 tab' ∧ i < tab'.length ∧ tab.length ≤ tab'.length := by
  unfold posOf at h
  split at h
  · rename_i j hj
    injection h with h; injection h with h1 h2; subst h1; subst h2
    have := (List.findIdx?_eq_some_iff_getElem.1 hj).1
    exact ⟨ht, this, Nat.le_refl _⟩
  · split at h
    · simp at h
    · rename_i hlen
      injection h with h; injection h with h1 h2; subst h1; subst h2
      obtain ⟨a, b, c⟩ := ht
      refine ⟨⟨by simp; omega, by simp [MAX_POS_IDS] at hlen ⊢; omega, ?_⟩, by simp, by simp⟩
      intro q hq
      rw [List.drop_append_of_le_length a] at hq
      rcases List.mem_append.1 hq with hq | hq
      · exact c q hq
      · simp at hq; subst hq; exact hk

theorem parseSplit_shape {n0 : Nat} {x : Ext} {tab tab' : List PosKey} {s : Str} {u : SplitUnit}
    (h : parseSplit x tab s = .ok (u, tab')) (ht : TabShape n0 tab) : TabShape n0 tab' ∧ tab.length ≤ tab'.length := by
  unfold parseSplit at h
  split at h
  · split at h
    · injection h with h; injection h with _ h2; subst h2; exact ⟨ht, Nat.le_refl _⟩
    · simp at h
  · split at h
    · split at h
      · simp at h
      · split at h
        · simp at h
        · rename_i ps hps
          split at h
          · simp at h
          · split at h
            · simp at h
            · rename_i p t hp
              injection h with h; injection h with _ h2; subst h2
              have := posOf_shape hp (by rw [mapE_length hps]; rfl) ht
              exact ⟨this.1, this.2.2⟩
    · split at h <;> simp at h

theorem parseSplitList_shape {n0 : Nat} {x : Ext} {tab tab' : List PosKey} {ss : List Str} {us : List SplitUnit}
    (h : parseSplitList x tab ss = .ok (us, tab')) (ht : TabShape n0 tab) :
    TabShape n0 tab' ∧ tab.length ≤ tab'.length := by
  induction ss generalizing tab us with
  | nil => simp only [parseSplitList] at h; injection h with h; injection h with _ h2; subst h2; exact ⟨ht, Nat.le_refl _⟩
  | cons s ss ih =>
    simp only [parseSplitList] at h
    split at h
    · simp at h
    · rename_i u t1 h1
      split at h
      · simp at h
      · rename_i us' t2 h2
        injection h with h; injection h with _ h3; subst h3
        have a := parseSplit_shape h1 ht
        have b := ih h2 a.1
        exact ⟨b.1, Nat.le_trans a.2 b.2⟩

theorem parseSplits_shape {n0 : Nat} {x : Ext} {tab tab' : List PosKey} {s : Str} {us : List SplitUnit}
    (h : parseSplits x tab s = .ok (us, tab')) (ht : TabShape n0 tab) :
    TabShape n0 tab' ∧ tab.length ≤ tab'.length := by
  unfold parseSplits at h
  split at h
  · injection h with h; injection h with _ h2; subst h2; exact ⟨ht, Nat.le_refl _⟩
  · split at h
    · simp at h
    · rename_i us' t1 h1
      split at h
      · simp at h
      · injection h with h; injection h with _ h2; subst h2
        exact parseSplitList_shape h1 ht

theorem splitListTab_shape {n0 : Nat} (x : Ext) (tab : List PosKey) (ss : List Str) (ht : TabShape n0 tab) :
    TabShape n0 (splitListTab x tab ss) ∧ tab.length ≤ (splitListTab x tab ss).length := by
  induction ss generalizing tab with
  | nil => exact ⟨ht, Nat.le_refl _⟩
  | cons s ss ih =>
    simp only [splitListTab]
    split
    · exact ⟨ht, Nat.le_refl _⟩
    · rename_i u t1 h1
      have a := parseSplit_shape h1 ht
      have b := ih t1 a.1
      exact ⟨b.1, Nat.le_trans a.2 b.2⟩

theorem splitsTab_shape {n0 : Nat} (x : Ext) (tab : List PosKey) (s : Str) (ht : TabShape n0 tab) :
    TabShape n0 (splitsTab x tab s) ∧ tab.length ≤ (splitsTab x tab s).length := by
  unfold splitsTab
  split
  · exact ⟨ht, Nat.le_refl _⟩
  · exact splitListTab_shape x tab _ ht

/-! ## entries -/

/-- the fields of an entry that come from `i16` / `u32` parsers have these types' ranges -/
def EntryRange (e : Entry) : Prop :=
  I16 e.left ∧ I16 e.right ∧ I16 e.cost ∧ ∀ s ∈ e.synonyms, s < 4294967296

/-- what every sequence of calls maintains about the reader: the POS table's shape, the ranges of every entry, and
that every entry's POS id names a row of the table -/
def LexShape (n0 : Nat) (st : LexState) : Prop :=
  TabShape n0 st.pos ∧ ∀ e ∈ st.entries, EntryRange e ∧ e.pos < st.pos.length

theorem LexShape.mono {n0 : Nat} {st : LexState} {tab : List PosKey} {u : Nat} (h : LexShape n0 st)
    (ht : TabShape n0 tab) (hl : st.pos.length ≤ tab.length) : LexShape n0 ⟨tab, st.entries, u⟩ :=
  ⟨ht, fun e he => ⟨(h.2 e he).1, Nat.lt_of_lt_of_le (h.2 e he).2 hl⟩⟩

theorem parseRecord_fields {v : Variant} {x : Ext} {st st' : LexState} {fs : List Str}
    (h : parseRecord v x st fs = .ok st') :
    ∃ e tab t0 t1 pk, st' = ⟨tab, st.entries ++ [e], st.unresolved + inlineCount e.splitsA + inlineCount e.splitsB⟩ ∧
      fld fs 1 eI16 = .ok e.left ∧ fld fs 2 eI16 = .ok e.right ∧ fld fs 3 eI16 = .ok e.cost ∧
      fld fs 15 (parseSplits x st.pos) = .ok (e.splitsA, t0) ∧ fld fs 16 (parseSplits x t0) = .ok (e.splitsB, t1) ∧
      (match fs[18]? with | some s => parseU32List s | none => .ok []) = .ok e.synonyms ∧
      posOf t1 pk = .ok (e.pos, tab) ∧ pk.length = 6 := by
  simp only [parseRecord, bind, Except.bind] at h
  repeat' (split at h; try (exact absurd h (by simp)))
  injection h with h
  subst h
  exact ⟨_, _, _, _, _, rfl, by assumption, by assumption, by assumption, by assumption, by assumption, by assumption,
    by assumption, rfl⟩

theorem parseRecord_shape {n0 : Nat} {v : Variant} {x : Ext} {st st' : LexState} {fs : List Str}
    (hi : LexShape n0 st) (h : parseRecord v x st fs = .ok st') : LexShape n0 st' := by
  obtain ⟨e0, tab, t0, t1, pk, rfl, hleft, hright, hcost, hsa, hsb, hsyn, hpos, hpk⟩ := parseRecord_fields h
  obtain ⟨_, _, hl'⟩ := fld_ok hleft
  obtain ⟨_, _, hr'⟩ := fld_ok hright
  obtain ⟨_, _, hc'⟩ := fld_ok hcost
  obtain ⟨_, _, ha'⟩ := fld_ok hsa
  obtain ⟨_, _, hb'⟩ := fld_ok hsb
  have s1 := parseSplits_shape ha' hi.1
  have s2 := parseSplits_shape hb' s1.1
  have s3 := posOf_shape hpos hpk s2.1
  have hsy : ∀ s ∈ e0.synonyms, s < 4294967296 := by
    split at hsyn
    · exact parseU32List_range hsyn
    · injection hsyn with hsyn; rw [← hsyn]; simp
  have hlen : st.pos.length ≤ tab.length := Nat.le_trans s1.2 (Nat.le_trans s2.2 s3.2.2)
  refine ⟨s3.1, ?_⟩
  intro e he
  rcases List.mem_append.1 he with hm | hm
  · exact ⟨(hi.2 e hm).1, Nat.lt_of_lt_of_le (hi.2 e hm).2 hlen⟩
  · simp only [List.mem_singleton] at hm; subst hm
    exact ⟨⟨eI16_range hl', eI16_range hr', eI16_range hc', hsy⟩, s3.2.1⟩

theorem parseRecordLeft_shape {n0 : Nat} (v : Variant) (x : Ext) (st : LexState) (fs : List Str) (hi : LexShape n0 st) :
    LexShape n0 (parseRecordLeft v x st fs) := by
  unfold parseRecordLeft
  split
  · exact hi
  · rename_i pk md hhead
    split
    · exact hi
    · rename_i f15 _
      split
      · have := splitsTab_shape x st.pos f15 hi.1
        exact hi.mono this.1 this.2
      · rename_i sa t1 h1
        have s1 := parseSplits_shape h1 hi.1
        split
        · exact hi.mono s1.1 s1.2
        · rename_i f16 _
          split
          · have := splitsTab_shape x t1 f16 s1.1
            exact hi.mono this.1 (Nat.le_trans s1.2 this.2)
          · rename_i sb t2 h2
            have s2 := parseSplits_shape h2 s1.1
            have l2 := Nat.le_trans s1.2 s2.2
            split
            · exact hi.mono s2.1 l2
            · split
              · exact hi.mono s2.1 l2
              · rename_i p t3 h3
                -- the POS key of the row comes from `parseHead`: six fields
                have hk : ∀ {sf : Str} {pk : PosKey} {m : Mode}, parseHead fs = .ok (sf, pk, m) → pk.length = 6 := by
                  intro sf pk m hh
                  simp only [parseHead, bind, Except.bind] at hh
                  repeat' (split at hh; try (exact absurd hh (by simp)))
                  injection hh with hh
                  injection hh with _ hh
                  injection hh with hh _
                  subst hh; rfl
                have s3 := posOf_shape h3 (hk hhead) s2.1
                have l3 := Nat.le_trans l2 s3.2.2
                split
                · exact hi.mono s3.1 l3
                · exact hi.mono s3.1 l3

theorem readLexicon_shape {n0 : Nat} {v : Variant} {x : Ext} {st st' : LexState} {recs : List (Nat × List Str)}
    (hi : LexShape n0 st) (h : readLexicon v x st recs = .ok st') : LexShape n0 st' := by
  induction recs generalizing st with
  | nil => unfold readLexicon at h; injection h with h; subst h; exact hi
  | cons r rest ih =>
    obtain ⟨line, fs⟩ := r
    unfold readLexicon at h
    split at h
    · simp at h
    · rename_i st1 h1
      exact ih (parseRecord_shape hi h1) h

theorem readLexiconP_shape {n0 : Nat} {v : Variant} {x : Ext} {st : LexState} {recs : List (Nat × List Str)}
    (hi : LexShape n0 st) : LexShape n0 (readLexiconP v x st recs).1 := by
  induction recs generalizing st with
  | nil => exact hi
  | cons r rest ih =>
    obtain ⟨line, fs⟩ := r
    unfold readLexiconP
    split
    · exact parseRecordLeft_shape v x st fs hi
    · rename_i st1 h1
      exact ih (parseRecord_shape hi h1)

theorem resolveEntries_fields {f : Str → Nat → Option Str → Option Nat} {es rs : List Entry} {line n : Nat}
    (h : resolveEntries f es line = .ok (rs, n)) :
    ∀ r ∈ rs, ∃ e ∈ es, r.left = e.left ∧ r.right = e.right ∧ r.cost = e.cost ∧ r.synonyms = e.synonyms ∧ r.pos = e.pos := by
  induction es generalizing rs line n with
  | nil => simp only [resolveEntries] at h; injection h with h; injection h with h1 _; subst h1; simp
  | cons e es ih =>
    simp only [resolveEntries] at h
    split at h
    · simp at h
    · split at h
      · simp at h
      · split at h
        · rename_i rs' n' hr
          injection h with h; injection h with h1 _; subst h1
          intro r hr'
          rcases List.mem_cons.1 hr' with rfl | hm
          · exact ⟨e, List.mem_cons_self, rfl, rfl, rfl, rfl, rfl⟩
          · obtain ⟨e', he', hx⟩ := ih hr r hm
            exact ⟨e', List.mem_cons_of_mem _ he', hx⟩
        · simp at h
        · simp at h

theorem resolve_shape {n0 : Nat} {b b' : Builder} {n : Nat} (hi : LexShape n0 b.lex) (h : resolve b = .ok (b', n)) :
    LexShape n0 b'.lex := by
  unfold resolve at h
  split at h
  · injection h with h; injection h with h1 _; subst h1; exact hi
  · split at h
    · rename_i es m hr
      injection h with h; injection h with h1 _; subst h1
      refine ⟨hi.1, ?_⟩
      intro r hr'
      obtain ⟨e, he, h1, h2, h3, h4, h5⟩ := resolveEntries_fields hr r hr'
      have := hi.2 e he
      unfold EntryRange at this ⊢
      simp only [h1, h2, h3, h4, h5]
      exact this
    · simp at h
    · simp at h

/-! ## the matrix buffer -/

/-- sizes `0..32767` (they were parsed as `i16` and refused when negative), one `i16` per cell -/
def ConnShape (c : Conn) : Prop :=
  0 ≤ c.nl ∧ c.nl ≤ 32767 ∧ 0 ≤ c.nr ∧ c.nr ≤ 32767 ∧ c.bytes = c.nl.toNat * c.nr.toNat * 2

theorem parseHeader_range {line : Str} {l r : Int} (h : parseHeader line = .ok (l, r)) : I16 l ∧ I16 r := by
  unfold parseHeader at h
  split at h
  · simp at h
  · split at h <;> simp at h
  · split at h
    · simp at h
    · rename_i l' hl
      split at h
      · simp at h
      · rename_i r' hr
        injection h with h; injection h with h1 h2; subst h1; subst h2
        exact ⟨eI16_range hl, eI16_range hr⟩

theorem readConn_shape (v : Variant) (buf : ConnBuf) (lines : List (Option Str)) (hi : ConnShape buf.conn) :
    ConnShape (readConn v buf lines).1.conn := by
  unfold readConn
  split
  · exact hi
  · exact hi
  · split
    · exact hi
    · rename_i l r hh
      split
      · exact hi
      · split
        · exact hi
        · have := parseHeader_range hh
          unfold I16 at this
          split
          rename_i cells line res _
          refine ⟨?_, ?_, ?_, ?_, ?_⟩ <;> dsimp only <;> omega

theorem readConnB_shape (v : Variant) (b : Builder) (lines : List (Option Str)) (hi : ConnShape b.conn) :
    ConnShape (readConnB v b lines).1.conn := by
  have hs := readConn_shape v ⟨b.conn, b.connLine⟩ lines hi
  rcases (readConnB_eq v b lines).2 with h | ⟨_, _, h⟩
  · rw [h]; unfold syncSizes; split <;> exact hs
  · rw [h]; exact hs

/-! ## any sequence of calls -/

def BuilderShape (b : Builder) : Prop := LexShape b.base.pos0.length b.lex ∧ ConnShape b.conn

theorem init_shape (v : Variant) (base : Base) : BuilderShape (Builder.init v base) := by
  refine ⟨⟨⟨Nat.le_refl _, ?_, ?_⟩, ?_⟩, ?_⟩
  · simp [Builder.init]; omega
  · simp [Builder.init]
  · simp [Builder.init]
  · simp [Builder.init, ConnShape, Conn.empty]

theorem runOp_shape {v : Variant} {x : Ext} {s s' : Builder × Nat} {op : Op}
    (hi : BuilderShape s.1) (h : runOp v x s op = .ok s') : BuilderShape s'.1 := by
  cases op with
  | conn lines =>
    obtain ⟨_, rfl⟩ := runOp_conn h
    obtain ⟨f1, f2, _⟩ := readConnB_frame v s.1 lines
    exact ⟨by simp only [f1, f2]; exact hi.1, readConnB_shape v s.1 lines hi.2⟩
  | connIgn lines =>
    obtain ⟨_, rfl⟩ := runOp_connIgn h
    obtain ⟨f1, f2, _⟩ := readConnB_frame v s.1 lines
    exact ⟨by simp only [f1, f2]; exact hi.1, readConnB_shape v s.1 lines hi.2⟩
  | lex recs ce =>
    obtain ⟨b, hb, rfl⟩ := runOp_lex h
    obtain ⟨f1, _, _, f4, _⟩ := readLex_frame hb
    refine ⟨?_, by simp only [f1]; exact hi.2⟩
    simp only [f4]
    unfold readLex at hb
    split at hb
    · rename_i st hst
      split at hb
      · simp at hb
      · injection hb with hb; subst hb; exact readLexicon_shape hi.1 hst
    · simp at hb
    · simp at hb
  | lexIgn recs ce =>
    obtain ⟨_, rfl⟩ := runOp_lexIgn h
    obtain ⟨f1, _, _, f4, _⟩ := readLexB_frame v x s.1 recs ce
    refine ⟨?_, by simp only [f1]; exact hi.2⟩
    simp only [f4]
    rcases readLexB_lex v x s.1 recs ce with h | h
    · rw [h]; exact readLexiconP_shape hi.1
    · rw [h]; exact hi.1
  | resolve =>
    obtain ⟨b, n, hb, rfl⟩ := runOp_resolve h
    obtain ⟨f1, _, _, f4, _⟩ := resolve_frame hb
    exact ⟨by simp only [f4]; exact resolve_shape hi.1 hb, by simp only [f1]; exact hi.2⟩

theorem runOps_shape {v : Variant} {x : Ext} {s s' : Builder × Nat} {ops : List Op}
    (hi : BuilderShape s.1) (h : runOps v x s ops = .ok s') : BuilderShape s'.1 := by
  induction ops generalizing s with
  | nil => simp only [runOps, Except.ok.injEq] at h; subst h; exact hi
  | cons op ops ih =>
    obtain ⟨s1, h1, h2⟩ := runOps_cons h
    exact ih (runOp_shape hi h1) h2

theorem prepare_shape {v : Variant} {x : Ext} {inp : Input} {b : Builder} {cnt : Nat}
    (h : prepare v x inp = .ok (b, cnt)) : BuilderShape b ∧ b.base = inp.base := by
  refine ⟨runOps_shape (s := (Builder.init v inp.base, 0)) (init_shape v inp.base) h, ?_⟩
  exact runOps_base (s := (Builder.init v inp.base, 0)) h

end Build
