import Sudachi.Proofs.SentenceTotal
/-!
# The byte-offset functions equal the character-index functions (property C16)

`strSlice` answers `none` exactly when a Rust `&s[a..b]` panics.  `examineB`, `scanB`, `getEosB`,
`splitFuelB` mirror the byte arithmetic of `get_eos` / `SentenceIter::next` and answer `panic` when a
slice does.  They are proved equal to `examine`, `scan`, `getEos`, `splitFuel` (with offsets converted
by `blen (· .take ·)`), for every input: **no slice the code takes is ever off a character boundary or
outside the string**.
-/
namespace Sentence

/-! ## `strSlice` -/

/-- `strSlice` answers a slice exactly for two character boundaries inside the string, in order -/
theorem strSlice_spec {s t : Text} {a b : Nat} (h : strSlice s a b = some t) :
    ∃ pre post, s = pre ++ t ++ post ∧ blen pre = a ∧ blen pre + blen t = b := by
  unfold strSlice at h
  split at h
  · cases h
  · rename_i hab
    split at h
    · rename_i i j hi hj
      cases h
      obtain ⟨w1, p1, hs1, hb1, hl1⟩ := charsToByte_spec _ _ _ hi
      obtain ⟨w2, p2, hs2, hb2, hl2⟩ := charsToByte_spec _ _ _ hj
      -- w1 is a prefix of w2 (both prefixes of s, blen w1 ≤ blen w2)
      have hij : i ≤ j := by
        apply Classical.byContradiction
        intro hn
        have hlt : j < i := by omega
        -- then w2 is a strict prefix of w1, so blen w2 < blen w1
        have h2 : w2 = w1.take j := by
          have : (w2 ++ p2).take j = (w1 ++ p1).take j := by rw [← hs1, ← hs2]
          rw [List.take_left' hl2, List.take_append_of_le_length (by omega)] at this
          exact this
        have h3 : blen w1 = blen (w1.take j) + blen (w1.drop j) := by
          rw [← blen_append, List.take_append_drop]
        have h4 : (w1.drop j) ≠ [] := by
          intro hnil
          have := congrArg List.length hnil
          simp only [List.length_drop, List.length_nil] at this
          omega
        have := blen_pos_of_ne_nil h4
        rw [← h2] at h3
        omega
      refine ⟨w1, s.drop j, ?_, hb1, ?_⟩
      · have hw1 : s.take i = w1 := by rw [hs1]; exact List.take_left' hl1
        have : s.take j = s.take i ++ (s.take j).drop i := by
          have := (List.take_append_drop i (s.take j)).symm
          rw [List.take_take, Nat.min_eq_left hij] at this
          exact this
        rw [← hw1, ← this, List.take_append_drop]
      · have hw1 : s.take i = w1 := by rw [hs1]; exact List.take_left' hl1
        have hw2 : s.take j = w2 := by rw [hs2]; exact List.take_left' hl2
        have : s.take j = s.take i ++ (s.take j).drop i := by
          have := (List.take_append_drop i (s.take j)).symm
          rw [List.take_take, Nat.min_eq_left hij] at this
          exact this
        have hb : blen (s.take j) = blen (s.take i) + blen ((s.take j).drop i) := by
          rw [← blen_append, ← this]
        simp only [hw1, hw2] at hb ⊢
        omega
    · cases h

/-- conversely: the slice between two boundaries is answered -/
theorem strSlice_append3 (a m b : Text) : strSlice (a ++ m ++ b) (blen a) (blen a + blen m) = some m := by
  unfold strSlice
  have h0 : ¬ (blen a + blen m < blen a) := by omega
  simp only [h0, if_false]
  have h1 : charsToByte (a ++ m ++ b) (blen a) = some a.length := by
    rw [List.append_assoc]; exact charsToByte_append a (m ++ b)
  have h2 : charsToByte (a ++ m ++ b) (blen a + blen m) = some (a ++ m).length := by
    rw [← blen_append]; exact charsToByte_append (a ++ m) b
  rw [h1, h2]
  simp only [List.length_append]
  congr 1
  rw [List.take_append_of_le_length (by simp), List.take_of_length_le (by simp)]
  simp

theorem strSlice_iff {s t : Text} {a b : Nat} :
    strSlice s a b = some t ↔ ∃ pre post, s = pre ++ t ++ post ∧ blen pre = a ∧ blen pre + blen t = b := by
  constructor
  · exact strSlice_spec
  · rintro ⟨pre, post, rfl, rfl, rfl⟩
    exact strSlice_append3 pre t post

theorem strSlice_head (s : Text) (e : Nat) : strSlice s 0 (blen (s.take e)) = some (s.take e) := by
  have := strSlice_append3 [] (s.take e) (s.drop e)
  simpa [blen] using this

theorem strSlice_tail (s : Text) (e : Nat) : strSlice s (blen (s.take e)) (blen s) = some (s.drop e) := by
  have := strSlice_append3 (s.take e) (s.drop e) []
  rw [← blen_append] at this
  simpa using this

theorem blen_take_add (s : Text) (k n : Nat) :
    blen (s.take k) + blen ((s.drop k).take n) = blen (s.take (k + n)) := by
  rw [← blen_append, List.take_add]

theorem blen_take_lt {s : Text} {e : Nat} (h : e < s.length) : blen (s.take e) < blen s := by
  have h1 : blen s = blen (s.take e) + blen (s.drop e) := by
    rw [← blen_append, List.take_append_drop]
  have h2 : s.drop e ≠ [] := by
    intro hn
    have := congrArg List.length hn
    simp only [List.length_drop, List.length_nil] at this
    omega
  have := blen_pos_of_ne_nil h2
  omega

theorem blen_take_lt_iff {s : Text} {e : Nat} (h : e ≤ s.length) : blen (s.take e) < blen s ↔ e < s.length := by
  constructor
  · intro hlt
    apply Classical.byContradiction
    intro hn
    have : e = s.length := by omega
    rw [this, List.take_length] at hlt
    omega
  · exact blen_take_lt

/-! ## `is_continuous_phrase` -/

theorem isContinuousPhraseB_eq (s : Text) (eos : Nat) (h : eos ≤ s.length) :
    isContinuousPhraseB s (blen (s.take eos)) = isContinuousPhrase s eos := by
  unfold isContinuousPhraseB isContinuousPhrase
  rw [strSlice_head]
  simp only
  cases eos with
  | zero => simp
  | succ k =>
    have hk : k < s.length := by omega
    have htk : s.take (k + 1) = s.take k ++ [s[k]] := by
      rw [List.take_succ_eq_append_getElem hk]
    have hlast : (s.take (k + 1)).getLast? = some s[k] := by
      rw [htk, List.getLast?_append]; rfl
    rw [hlast]
    simp only
    have hb : blen (s.take (k + 1)) = blen (s.take k) + width s[k] := by
      rw [htk, blen_append]; simp [blen]
    have h1 : ¬ (blen (s.take (k + 1)) < width s[k]) := by omega
    have h2 : blen (s.take (k + 1)) - width s[k] = blen (s.take k) := by omega
    have h3 : ¬ (k + 1 = 0) := by omega
    simp only [h1, if_false, h2, h3, strSlice_tail, Nat.add_sub_cancel]
    split
    · rfl
    · cases s.drop (k + 1) <;> rfl

/-! ## the loop body -/

/-- an outcome of the character-index loop body read in bytes of the window `s` -/
def Cand.toB (s : Text) : Cand → Cand
  | .accept e => .accept (blen (s.take e))
  | r => r

theorem examineB_eq (v : CkVariant) (ck : Option (List (List (List Nat)))) (input s : Text) (e0 : Nat)
    (h0 : e0 ≤ s.length) :
    examineB v ck input s (blen (s.take e0)) = (examine v ck input s e0).toB s := by
  unfold examineB examine
  rw [strSlice_head]
  simp only
  split
  · rfl
  · have hsp := spanLen_le isProhibitedBos (s.drop e0)
    simp only [List.length_drop] at hsp
    have heq : (if blen (s.take e0) < blen s then
          (strSlice s (blen (s.take e0)) (blen s)).map (fun t => blen (s.take e0) + prohibitedBosB t)
        else some (blen (s.take e0))) =
        some (blen (s.take (if e0 < s.length then e0 + prohibitedBos (s.drop e0) else e0))) := by
      by_cases hlt : e0 < s.length
      · simp only [blen_take_lt hlt, hlt, if_true, strSlice_tail, Option.map_some, prohibitedBosB]
        rw [blen_take_add]
      · have : ¬ (blen (s.take e0) < blen s) := by
          rw [blen_take_lt_iff h0]; exact hlt
        simp only [this, hlt, if_false]
    rw [heq]
    simp only
    generalize heos : (if e0 < s.length then e0 + prohibitedBos (s.drop e0) else e0) = eos
    have hle : eos ≤ s.length := by
      unfold prohibitedBos at heos
      split at heos <;> omega
    split
    · rfl
    · have hc : (if blen (s.take eos) < blen s then isContinuousPhraseB s (blen (s.take eos)) else some false) =
          (if eos < s.length then isContinuousPhrase s eos else some false) := by
        by_cases hlt : eos < s.length
        · simp only [blen_take_lt hlt, hlt, if_true]
          exact isContinuousPhraseB_eq s eos hle
        · have : ¬ (blen (s.take eos) < blen s) := by
            rw [blen_take_lt_iff hle]; exact hlt
          simp only [this, hlt, if_false]
      rw [hc]
      split
      · rfl
      · rfl
      · cases ck with
        | none => rfl
        | some lexs =>
          simp only
          split <;> rfl

theorem toB_veto {s : Text} {r : Cand} : Cand.toB s r = .veto ↔ r = .veto := by
  cases r <;> simp [Cand.toB]

/-! ## the scan -/

theorem scanB_eq (v : CkVariant) (ck : Option (List (List (List Nat)))) (input s : Text) :
    ∀ (l : Text) (k : Nat) (prev : Option Nat) (skip : Nat), s.drop k = l →
      scanB v ck input s (blen (s.take k)) prev skip l =
        (scan v ck input s k prev skip l).map (Cand.toB s) := by
  intro l
  induction l with
  | nil => intro k prev skip _; simp [scanB, scan]
  | cons c rest ih =>
    intro k prev skip hs
    have hs' : s.drop (k + 1) = rest := by
      rw [← List.drop_drop, hs]; rfl
    have hk : blen (s.take k) + width c = blen (s.take (k + 1)) := by
      have := blen_take_add s k 1
      rw [hs] at this
      simp only [List.take_succ_cons, List.take_zero, blen] at this
      omega
    cases skip with
    | succ sk =>
      simp only [scanB, scan]
      rw [hk]
      exact ih (k + 1) (some c) sk hs'
    | zero =>
      simp only [scanB, scan]
      cases hb : breakerAt prev (c :: rest) with
      | none =>
        simp only
        rw [hk]
        exact ih (k + 1) (some c) 0 hs'
      | some n =>
        simp only
        have hbd := breakerAt_bounds hb
        have hkn : k + n ≤ s.length := by
          have := congrArg List.length hs
          simp only [List.length_drop, List.length_cons] at this
          have := hbd.2
          simp only [List.length_cons] at this
          omega
        have hbn : blen (s.take k) + blen ((c :: rest).take n) = blen (s.take (k + n)) := by
          rw [← hs]; exact blen_take_add s k n
        rw [hbn, examineB_eq v ck input s (k + n) hkn]
        cases hex : examine v ck input s (k + n) with
        | veto =>
          simp only [Cand.toB]
          rw [hk]
          exact ih (k + 1) (some c) (n - 1) hs'
        | accept e => simp [Cand.toB]
        | panic => simp [Cand.toB]

/-! ## `get_eos` -/

def Res.mapR {α β : Type} (f : α → β) : Res α → Res β
  | .ok a => .ok (f a)
  | .panic => .panic

theorem lastSpaceEnd_le : ∀ (s : Text) (e : Nat), lastSpaceEnd s = some e → e ≤ s.length := by
  intro s
  induction s with
  | nil => intro e h; simp [lastSpaceEnd] at h
  | cons c cs ih =>
    intro e h
    simp only [lastSpaceEnd] at h
    cases hh : lastSpaceEnd cs with
    | none =>
      simp only [hh] at h
      split at h
      · cases h; simp
      · cases h
    | some e' =>
      simp only [hh] at h
      cases h
      have := ih _ hh
      simp; omega

theorem spacesEnd_le : ∀ (s : Text) (e : Nat), spacesEnd s = some e → e ≤ s.length := by
  intro s
  induction s with
  | nil => intro e h; simp [spacesEnd] at h
  | cons c cs ih =>
    intro e h
    simp only [spacesEnd] at h
    split at h
    · cases hh : spacesEnd cs with
      | none => simp [hh] at h
      | some e' =>
        simp [hh] at h
        have := ih _ hh
        simp; omega
    · simp only [spacesFrom] at h
      split at h
      · simp only [Option.some.injEq] at h
        have h1 := spanLen_le isSpace ((c :: cs).drop (spanLen (fun x => x != 0x0A) (c :: cs)))
        have h2 := spanLen_le (fun x => x != 0x0A) (c :: cs)
        simp only [List.length_drop] at h1
        omega
      · cases hh : lastSpaceEnd cs with
        | none => simp [hh] at h
        | some e' =>
          simp [hh] at h
          have := lastSpaceEnd_le _ _ hh
          simp; omega

theorem eosValue_negOf (input : Text) (e : Nat) : eosValue input (negOf e) = - Int.ofNat (blen (input.take e)) := by
  unfold negOf
  split
  · rename_i h; subst h; simp [eosValue, blen]
  · rfl

theorem blen_take_take {input : Text} {limit e : Nat} (h : e ≤ (input.take limit).length) :
    blen ((input.take limit).take e) = blen (input.take e) := by
  rw [List.take_take]
  congr 2
  simp only [List.length_take] at h
  omega

/-- **`get_eos` over byte offsets = `get_eos` over character indices**, for every input, limit and
checker: the byte version's extra `panic` outcomes (a slice off a boundary) never occur. -/
theorem getEosB_eq (v : CkVariant) (limit : Nat) (ck : Option (List (List (List Nat)))) (input : Text) :
    getEosB v limit ck input = (getEos v limit ck input).mapR (eosValue input) := by
  unfold getEosB getEos
  split
  · simp [Res.mapR, eosValue, blen]
  · simp only
    have hsc := scanB_eq v ck input (input.take limit) (input.take limit) 0 none 0 (by simp)
    simp only [List.take_zero, blen] at hsc
    rw [hsc]
    cases hscan : scan v ck input (input.take limit) 0 none 0 (input.take limit) with
    | some r =>
      cases r with
      | accept e =>
        simp only [Option.map_some, Cand.toB, Res.mapR, eosValue]
        obtain ⟨_, j, n, pv, hb, he⟩ := scan_some (input.take limit) 0 none 0 _ (by simp) hscan
        have hbd := breakerAt_bounds hb
        simp only [Nat.zero_add] at hb he hbd
        have hlen : j + n ≤ (input.take limit).length := by
          have := hbd.2; simp only [List.length_drop] at this; omega
        have := (examine_accept hlen he).le
        rw [blen_take_take this]
      | veto => simp [Cand.toB, Res.mapR]
      | panic => simp [Cand.toB, Res.mapR]
    | none =>
      simp only [Option.map_none]
      have hfull : blen (input.take limit) = blen (input.take (input.take limit).length) := by
        rw [← blen_take_take (Nat.le_refl _), List.take_length]
      split
      · split
        · rename_i e hsp
          simp only [Res.mapR, eosValue_negOf]
          rw [blen_take_take (spacesEnd_le _ _ hsp)]
        · simp only [Res.mapR, eosValue_negOf]
          rw [← hfull]
      · simp only [Res.mapR, eosValue_negOf]
        rw [← hfull]

/-! ## the iterator -/

theorem getEos_neg_pos {v : CkVariant} {limit : Nat} {ck : Option (List (List (List Nat)))} {input : Text} {e : Nat}
    (h : getEos v limit ck input = .ok (.neg e)) : 1 ≤ e := by
  have hn : ∀ n, negOf n = .neg e → 1 ≤ e := by
    intro n hn
    unfold negOf at hn
    split at hn
    · cases hn
    · cases hn; omega
  unfold getEos at h
  split at h
  · cases h
  · simp only at h
    split at h
    · cases h
    · cases h
    · cases h
    · split at h
      · split at h
        · simp only [Res.ok.injEq] at h; exact hn _ h
        · simp only [Res.ok.injEq] at h; exact hn _ h
      · simp only [Res.ok.injEq] at h; exact hn _ h

theorem toNat_ofNat' (n : Nat) : (Int.ofNat n).toNat = n := rfl

/-- **`SentenceIter::next` over byte offsets = the character-index iterator**: `data[position..]` and
`data[position..end]` are always slices at character boundaries inside `data`. -/
theorem splitFuelB_eq (v : CkVariant) (limit : Nat) (ck : Option (List (List (List Nat)))) :
    ∀ (fuel : Nat) (pre rest : Text),
      splitFuelB v limit ck (pre ++ rest) fuel (blen pre) = splitFuel v limit ck fuel (blen pre) rest := by
  intro fuel
  induction fuel with
  | zero =>
    intro pre rest
    cases rest with
    | nil => simp [splitFuelB, splitFuel]
    | cons c cs =>
      have : ¬ (blen pre = blen (pre ++ c :: cs)) := by
        rw [blen_append]
        have := blen_pos_of_ne_nil (a := c :: cs) (by simp)
        omega
      simp [splitFuelB, splitFuel, this]
  | succ fuel ih =>
    intro pre rest
    cases rest with
    | nil => simp [splitFuelB, splitFuel]
    | cons c cs =>
      have hpos := blen_pos_of_ne_nil (a := c :: cs) (by simp)
      have hne : ¬ (blen pre = blen (pre ++ c :: cs)) := by
        rw [blen_append]; omega
      have hslice : strSlice (pre ++ c :: cs) (blen pre) (blen (pre ++ c :: cs)) = some (c :: cs) := by
        have := strSlice_append3 pre (c :: cs) []
        rw [← blen_append] at this
        simpa using this
      simp only [splitFuelB, splitFuel, hne, if_false, hslice, getEosB_eq]
      cases hg : getEos v limit ck (c :: cs) with
      | panic => simp [Res.mapR]
      | ok r =>
        cases r with
        | neg e =>
          have he := getEos_neg_pos hg
          have hbe : 1 ≤ blen ((c :: cs).take e) := by
            apply blen_pos_of_ne_nil
            cases e with
            | zero => omega
            | succ e => simp
          have hlt : - Int.ofNat (blen ((c :: cs).take e)) < 0 := by
            have : (0 : Int) < Int.ofNat (blen ((c :: cs).take e)) := by
              simp only [Int.ofNat_eq_natCast]; omega
            omega
          simp only [Res.mapR, eosValue, hlt, if_true, hslice]
          cases fuel <;> simp [splitFuelB, SplitRes.cons, blen_append]
        | pos e =>
          have hge : ¬ (Int.ofNat (blen ((c :: cs).take e)) < 0) := by
            simp only [Int.ofNat_eq_natCast]; omega
          simp only [Res.mapR, eosValue, hge, if_false, toNat_ofNat']
          have hdata : pre ++ c :: cs = pre ++ (c :: cs).take e ++ (c :: cs).drop e := by
            rw [List.append_assoc, List.take_append_drop]
          have hsl : strSlice (pre ++ c :: cs) (blen pre) (blen pre + blen ((c :: cs).take e)) =
              some ((c :: cs).take e) := by
            rw [hdata]; exact strSlice_append3 _ _ _
          rw [hsl]
          simp only
          have := ih (pre ++ (c :: cs).take e) ((c :: cs).drop e)
          rw [← hdata, blen_append] at this
          rw [this]

/-- the whole iteration -/
theorem splitB_eq (v : CkVariant) (limit : Nat) (ck : Option (List (List (List Nat)))) (text : Text) :
    splitB v limit ck text = split v limit ck text := by
  have := splitFuelB_eq v limit ck text.length [] text
  simpa [splitB, split, blen] using this

end Sentence
