import Sudachi.Proofs.Rewrite
/-!
# C14, third round: the numeral joiner's gate (`JoinNumericPlugin::concat`)

`concat` looks at the part of speech of the FIRST node of the run only: another POS leaves the path
as it is, the numeral POS lets `concat_nodes` build the joined token, whose POS is copied from that
first node (`node.rs: let pos_id = path[begin].word_info().pos_id()`).  The two sites cooperate: the
joined token has the numeral POS *because* the gate tested the node the POS is copied from.  Seeded
change C14c tests ANY node of the run instead; `nconcatAny` is that variant, kept here only to show
that the property theorem separates the two.
-/
namespace Rewrite

/-- the gate is closed: a run whose first node does not carry the numeral POS is left as it is,
whatever the parser says and however long the run is -/
theorem nconcat_gate_closed (cfg : NCfg) (P : List Char → POut) (path : List Node) (b e : Nat)
    (acc : List Char) (f : Node) (hf : path[b]? = some f) (hpos : f.pos ≠ cfg.numPos) :
    nconcat cfg P path b e acc = .ok path := by
  unfold nconcat
  rw [hf]
  simp [hpos]

/-- the gate is open: with the numeral POS at the head, `concat` is `concat_nodes` on the whole run
(more than one node), resp. the re-normalisation of a single node -/
theorem nconcat_gate_open (cfg : NCfg) (P : List Char → POut) (path : List Node) (b e : Nat)
    (acc : List Char) (f : Node) (hf : path[b]? = some f) (hpos : f.pos = cfg.numPos) (hlen : 1 < e - b) :
    nconcat cfg P path b e acc =
      concatNodes path b e (if cfg.enableNormalize then some (P acc).norm else none) := by
  unfold nconcat
  rw [hf]
  have hnlt : ¬ e < b := by omega
  cases hen : cfg.enableNormalize <;> simp [hpos, hlen, hnlt]

/-- whatever `concat` returns: the path itself, or the path with `[b, e)` replaced by a token whose POS
is the numeral POS and is the POS of `path[b]` -/
theorem nconcat_result (cfg : NCfg) (P : List Char → POut) {path : List Node} {b e : Nat}
    {acc : List Char} {q : List Node} (h : nconcat cfg P path b e acc = .ok q) :
    q = path ∨ ∃ f l nf, path[b]? = some f ∧ f.pos = cfg.numPos ∧ path[e - 1]? = some l ∧ b < e ∧
      e ≤ path.length ∧ q = path.take b ++ mergedNode f l (block path b e) nf :: path.drop e ∧
      (mergedNode f l (block path b e) nf).pos = cfg.numPos := by
  unfold nconcat at h
  split at h
  · cases h
  · rename_i f hf
    split at h
    · cases h; exact .inl rfl
    · rename_i hne
      have hp : f.pos = cfg.numPos := by simpa using hne
      have key : ∀ nf, concatNodes path b e nf = .ok q → q = path ∨ ∃ f l nf, path[b]? = some f ∧
          f.pos = cfg.numPos ∧ path[e - 1]? = some l ∧ b < e ∧ e ≤ path.length ∧
          q = path.take b ++ mergedNode f l (block path b e) nf :: path.drop e ∧
          (mergedNode f l (block path b e) nf).pos = cfg.numPos := by
        intro nf hc
        obtain ⟨f', l, hbe, he, hf', hl, rfl⟩ := concatNodes_ok hc
        rw [hf] at hf'
        cases hf'
        exact .inr ⟨f, l, nf, hf, hp, hl, hbe, he, rfl, hp⟩
      dsimp only at h
      split at h
      · cases h
      split at h
      · split at h
        · exact key _ h
        · cases h; exact .inl rfl
      · split at h
        · exact key _ h
        · cases h; exact .inl rfl

/-- a coarsening all of whose merged blocks contain a node with property `Q` leaves a path without
such nodes unchanged -/
theorem Coarsens.eq_of_no_witness {R : List Node → Node → Prop} {Q : Node → Prop}
    (hR : ∀ blk m, R blk m → ∃ f ∈ blk, Q f) {p q : List Node} (h : Coarsens R p q)
    (hp : ∀ n ∈ p, ¬ Q n) : q = p := by
  induction h with
  | nil => rfl
  | keep n _ ih => rw [ih (fun x hx => hp x (List.mem_cons_of_mem _ hx))]
  | merge blk m _ hr _ _ =>
    obtain ⟨f, hf, hq⟩ := hR _ _ hr
    exact absurd hq (hp f (List.mem_append_left _ hf))

theorem RN_head_witness (cfg : NCfg) : ∀ blk m, RN cfg blk m → ∃ f ∈ blk, f.pos = cfg.numPos := by
  intro blk m hr
  obtain ⟨f, hf, hpos⟩ := hr.2.1
  exact ⟨f, List.mem_of_mem_head? hf, hpos⟩

/-! ## the seeded variant of the gate (C14c), for contrast -/

/-- `concat` with the gate of seeded change C14c: the run is accepted when ANY of its nodes carries the
numeral POS (`path[begin..end].iter().any(..)`); everything else as in `nconcat` -/
def nconcatAny (cfg : NCfg) (P : List Char → POut) (path : List Node) (b e : Nat) (acc : List Char) :
    Outcome (List Node) :=
  match path[b]? with
  | none => .panic
  | some f =>
    if !(block path b e).any (fun n => n.pos == cfg.numPos) then .ok path
    else if cfg.enableNormalize then
      let nf := (P acc).norm
      if e - b > 1 || nf != normForm f then concatNodes path b e (some nf) else .ok path
    else if e - b > 1 then concatNodes path b e none
    else .ok path

end Rewrite
