import Sudachi.Proofs.CharCat
/-!
# The definition-file reader (C17, depth round)

* `parseLine_ok_wf`: what the loop body lets through is a proper range of scalar values
  (`begin < end ≤ char::MAX`), which is the hypothesis of `compile_correct` and of the `iter()` theorems.
* `parseLinesFrom_ok` / `parseLinesFrom_error` / `parseLinesFrom_total`: the loop is total; it succeeds iff no
  line is refused and then yields the ranges of the well-formed lines in file order; otherwise it reports the
  FIRST refused line with its 0-based line number.
* `readFrom_eq_parseLinesFrom`: on a file whose segments are all UTF-8 the byte-level reader is that loop on
  the decoded lines.
* `radixGo_spec` / `u32FromStrRadix16_spec`: `u32::from_str_radix(_, 16)` succeeds exactly on non-empty strings
  of hex digits (after one optional `+`) whose positional value fits `u32`, and returns that value.
-/
namespace CharCat

theorem parseLine_ok_wf (line : List Char) (r : CatRange) (h : parseLine line = .ok (some r)) :
    r.b < r.e ∧ isScalar r.b = true ∧ isScalar r.e = true ∧ r.e ≤ 0x10FFFF := by
  unfold parseLine at h
  simp only at h
  split at h
  · cases h
  · split at h
    · cases h
    · cases h
    · split at h
      · cases h
      · split at h
        · cases h
        · split at h
          · cases h
          · split at h
            · cases h
            · split at h
              · cases h
              · split at h
                · cases h
                · split at h
                  · cases h
                  · split at h
                    · cases h
                    · rename_i hov hbe hsb hse _ _ _
                      simp only [Except.ok.injEq, Option.some.injEq] at h
                      subst h
                      have hb' := hsb
                      have he' := hse
                      simp at hb' he'
                      dsimp only
                      refine ⟨by omega, hb', he', ?_⟩
                      simp [isScalar] at he'
                      omega

/-- the result of a line that is not refused -/
def lineRange (l : List Char) : Option CatRange :=
  match parseLine l with
  | .ok o => o
  | .error _ => none

def lineOk (l : List Char) : Prop := ∃ o, parseLine l = .ok o

/-- every line is accepted: the loop yields the ranges of the well-formed lines, in file order -/
theorem parseLinesFrom_ok (ls : List (List Char)) (i : Nat) (h : ∀ l ∈ ls, lineOk l) :
    parseLinesFrom i ls = .ok (ls.filterMap lineRange) := by
  induction ls generalizing i with
  | nil => rfl
  | cons l ls ih =>
    obtain ⟨o, ho⟩ := h l (by simp)
    have ih' := ih (i + 1) (fun l' hl' => h l' (by simp [hl']))
    cases o with
    | none => simp [parseLinesFrom, ho, ih', lineRange]
    | some r => simp [parseLinesFrom, ho, ih', lineRange]

/-- the first refused line decides, and is reported with its line number -/
theorem parseLinesFrom_error (pre : List (List Char)) (l : List Char) (post : List (List Char)) (i : Nat) (e : LoadErr)
    (hpre : ∀ l' ∈ pre, lineOk l') (hl : parseLine l = .error e) :
    parseLinesFrom i (pre ++ l :: post) = .error (i + pre.length, e) := by
  induction pre generalizing i with
  | nil => simp [parseLinesFrom, hl]
  | cons p pre ih =>
    obtain ⟨o, ho⟩ := hpre p (by simp)
    have ih' := ih (i + 1) (fun l' hl' => hpre l' (by simp [hl']))
    have harith : i + 1 + pre.length = i + (pre.length + 1) := by omega
    cases o with
    | none => simp [parseLinesFrom, ho, ih', harith]
    | some r => simp [parseLinesFrom, ho, ih', harith]

/-- totality: the loop always ends in one of the two ways above -/
theorem parseLinesFrom_total (ls : List (List Char)) (i : Nat) :
    ((∀ l ∈ ls, lineOk l) ∧ parseLinesFrom i ls = .ok (ls.filterMap lineRange)) ∨
    (∃ pre l post e, ls = pre ++ l :: post ∧ (∀ l' ∈ pre, lineOk l') ∧ parseLine l = .error e ∧
      parseLinesFrom i ls = .error (i + pre.length, e)) := by
  induction ls generalizing i with
  | nil => left; exact ⟨by simp, rfl⟩
  | cons l ls ih =>
    cases hl : parseLine l with
    | error e => right; exact ⟨[], l, ls, e, rfl, by simp, hl, by simp [parseLinesFrom, hl]⟩
    | ok o =>
      rcases ih (i + 1) with ⟨hall, _⟩ | ⟨pre, l', post, e, heq, hpre, hl', _⟩
      · left
        have : ∀ l' ∈ l :: ls, lineOk l' := by
          intro l' h'; simp at h'; rcases h' with rfl | h'
          · exact ⟨o, hl⟩
          · exact hall l' h'
        exact ⟨this, parseLinesFrom_ok _ i this⟩
      · right
        have hp : ∀ x ∈ l :: pre, lineOk x := by
          intro x hx; simp at hx; rcases hx with rfl | hx
          · exact ⟨o, hl⟩
          · exact hpre x hx
        refine ⟨l :: pre, l', post, e, by simp [heq], hp, hl', ?_⟩
        have := parseLinesFrom_error (l :: pre) l' post i e hp hl'
        simpa [heq] using this

/-- files made of UTF-8 segments: the byte-level reader is the line loop on the decoded lines -/
theorem readFrom_eq_parseLinesFrom (segs : List (List Nat × Bool)) (ls : List (List Char)) (i : Nat)
    (h : segs.map decodeSegment = ls.map some) : readFrom i segs = parseLinesFrom i ls := by
  induction segs generalizing ls i with
  | nil =>
    cases ls with
    | nil => rfl
    | cons _ _ => simp at h
  | cons seg segs ih =>
    cases ls with
    | nil => simp at h
    | cons l ls =>
      simp only [List.map_cons, List.cons.injEq] at h
      obtain ⟨h1, h2⟩ := h
      simp only [readFrom, parseLinesFrom, h1]
      cases parseLine l with
      | error e => rfl
      | ok o =>
        cases o with
        | none => exact ih ls (i + 1) h2
        | some r => simp only; rw [ih ls (i + 1) h2]

/-- a segment that is not UTF-8 stops the reader there (when everything before it was accepted) -/
theorem readFrom_io (pre : List (List Nat × Bool)) (seg : List Nat × Bool) (post : List (List Nat × Bool)) (i : Nat)
    (hpre : ∀ s ∈ pre, ∃ l, decodeSegment s = some l ∧ lineOk l) (hseg : decodeSegment seg = none) :
    readFrom i (pre ++ seg :: post) = .error (i + pre.length, .io) := by
  induction pre generalizing i with
  | nil => simp [readFrom, hseg]
  | cons p pre ih =>
    obtain ⟨l, hl, o, ho⟩ := hpre p (by simp)
    have ih' := ih (i + 1) (fun s hs => hpre s (by simp [hs]))
    have harith : i + 1 + pre.length = i + (pre.length + 1) := by omega
    cases o with
    | none => simp [readFrom, hl, ho, ih', harith]
    | some r => simp [readFrom, hl, ho, ih', harith]

/-- every range the reader returns comes from a line of the file -/
theorem readFrom_ok_mem : ∀ (segs : List (List Nat × Bool)) (i : Nat) (rs : List CatRange), readFrom i segs = .ok rs →
    ∀ r ∈ rs, ∃ line, parseLine line = .ok (some r) := by
  intro segs
  induction segs with
  | nil => intro i rs h r hr; simp [readFrom] at h; subst h; cases hr
  | cons seg segs ih =>
    intro i rs h r hr
    simp only [readFrom] at h
    split at h
    · cases h
    · rename_i l _
      split at h
      · cases h
      · exact ih _ _ h r hr
      · rename_i r0 hl
        split at h
        · cases h
        · rename_i rs' hrs
          simp only [Except.ok.injEq] at h
          subst h
          cases hr with
          | head => exact ⟨l, hl⟩
          | tail _ hr' => exact ih _ _ hrs r hr'

/-- every range of a loaded file is a proper range of scalar values -/
theorem readDef_ok_wf (bytes : List Nat) (rs : List CatRange) (h : readDef bytes = .ok rs) :
    ∀ r ∈ rs, r.b < r.e ∧ isScalar r.b = true ∧ isScalar r.e = true ∧ r.e ≤ 0x10FFFF := by
  intro r hr
  obtain ⟨line, hl⟩ := readFrom_ok_mem _ _ _ h r hr
  exact parseLine_ok_wf line r hl

/-! ### the two `unwrap`/index sites of the loop body cannot fail -/

theorem splitDotDot_go_ne_nil (s cur : List Char) (acc : List (List Char)) : splitDotDot.go s cur acc ≠ [] := by
  fun_induction splitDotDot.go s cur acc <;> simp_all

/-- `cols[0].split("..")` has a first element: `r[0]` cannot panic -/
theorem splitDotDot_ne_nil (s : List Char) : splitDotDot s ≠ [] := by
  unfold splitDotDot
  intro h
  exact splitDotDot_go_ne_nil s [] [] (List.reverse_eq_nil_iff.mp h)

theorem splitWhitespace_go_nonempty (s cur : List Char) (acc : List (List Char)) (hacc : ∀ w ∈ acc, w ≠ []) :
    ∀ w ∈ splitWhitespace.go s cur acc, w ≠ [] := by
  fun_induction splitWhitespace.go s cur acc <;> simp_all

/-- `split_whitespace` yields no empty column: `elem.chars().next().unwrap()` cannot panic -/
theorem splitWhitespace_nonempty (s : List Char) : ∀ w ∈ splitWhitespace s, w ≠ [] := by
  unfold splitWhitespace
  intro w hw
  exact splitWhitespace_go_nonempty s [] [] (by simp) w (List.mem_reverse.mp hw)

theorem parseCats_reachable : ∀ (ws : List (List Char)) (acc : Nat), (∀ w ∈ ws, w ≠ []) →
    parseCats ws acc ≠ .error .panicUnreachable := by
  intro ws
  induction ws with
  | nil => intro acc _; simp [parseCats]
  | cons w ws ih =>
    intro acc h
    have hw := h w (by simp)
    unfold parseCats
    split
    · exact absurd rfl hw
    · simp
    · split
      · exact ih _ (fun w' hw' => h w' (by simp [hw']))
      · simp

/-- the model's `panicUnreachable` outcome (index / `unwrap` on something empty) never occurs -/
theorem parseLine_reachable (line : List Char) : parseLine line ≠ .error .panicUnreachable := by
  unfold parseLine
  simp only
  split
  · simp
  · split
    · simp
    · simp
    · rename_i c0 rest _ hsw
      have hne : ∀ w ∈ rest, w ≠ [] := by
        intro w hw
        apply splitWhitespace_nonempty (trim line) w
        rw [hsw]; simp [hw]
      split
      · rename_i hsd; exact absurd hsd (splitDotDot_ne_nil c0)
      · split
        · rename_i er he
          unfold parseHexField at he
          split at he
          · simp at he; rw [← he]; simp
          · cases he
        · split
          · rename_i er he
            split at he
            · cases he
            · split at he
              · rename_i er' he'
                unfold parseHexField at he'
                split at he'
                · simp at he' he; rw [← he, ← he']; simp
                · cases he'
              · cases he
          · split
            · simp
            · split
              · simp
              · split
                · simp
                · split
                  · simp
                  · split
                    · rename_i er he
                      intro h
                      simp at h
                      subst h
                      exact parseCats_reachable rest 0 hne he
                    · simp

/-! ### `u32::from_str_radix(_, 16)` -/

/-- positional value of a string of hex digits (`none` when some character is not a hex digit) -/
def hexValue : List Char → Nat → Option Nat
  | [], acc => some acc
  | c :: cs, acc =>
    match Wire.hexDigitVal? c with
    | none => none
    | some d => hexValue cs (acc * 16 + d)

theorem hexValue_ge : ∀ (cs : List Char) (acc n : Nat), hexValue cs acc = some n → acc ≤ n := by
  intro cs
  induction cs with
  | nil => intro acc n h; simp [hexValue] at h; omega
  | cons c cs ih =>
    intro acc n h
    simp only [hexValue] at h
    split at h
    · cases h
    · have := ih _ _ h; omega

/-- the digit loop succeeds exactly when all characters are hex digits and the value fits `u32` -/
theorem radixGo_spec : ∀ (cs : List Char) (acc n : Nat), acc < 4294967296 →
    (radixGo cs acc = .ok n ↔ hexValue cs acc = some n ∧ n < 4294967296) := by
  intro cs
  induction cs with
  | nil => intro acc n hacc; simp [radixGo, hexValue]; intro h; omega
  | cons c cs ih =>
    intro acc n hacc
    simp only [radixGo, hexValue]
    cases hd : Wire.hexDigitVal? c with
    | none => simp
    | some d =>
      simp only
      by_cases h1 : acc * 16 ≥ 4294967296
      · simp only [h1, if_true]
        constructor
        · intro h; cases h
        · rintro ⟨hv, hn⟩
          have := hexValue_ge _ _ _ hv
          omega
      · simp only [h1, if_false]
        by_cases h2 : acc * 16 + d ≥ 4294967296
        · simp only [h2, if_true]
          constructor
          · intro h; cases h
          · rintro ⟨hv, hn⟩
            have := hexValue_ge _ _ _ hv
            omega
        · simp only [h2, if_false]
          exact ih _ _ (by omega)

/-- which error: a non-digit anywhere before the overflow point is `InvalidDigit`, otherwise `PosOverflow` -/
theorem radixGo_error : ∀ (cs : List Char) (acc : Nat) (k : IntErr), radixGo cs acc = .error k →
    k = .invalidDigit ∨ k = .posOverflow := by
  intro cs
  induction cs with
  | nil => intro acc k h; simp [radixGo] at h
  | cons c cs ih =>
    intro acc k h
    simp only [radixGo] at h
    split at h
    · simp at h; exact Or.inl h.symm
    · split at h
      · simp at h; exact Or.inr h.symm
      · split at h
        · simp at h; exact Or.inr h.symm
        · exact ih _ _ h

/-- the string after the optional sign -/
def afterSign : List Char → List Char
  | '+' :: rest => rest
  | s => s

/-- `u32::from_str_radix(s, 16) = Ok(n)` iff, after one optional `+`, `s` is a non-empty string of hex
digits whose value is `n < 2³²` -/
theorem u32FromStrRadix16_spec (s : List Char) (n : Nat) :
    u32FromStrRadix16 s = .ok n ↔ afterSign s ≠ [] ∧ hexValue (afterSign s) 0 = some n ∧ n < 4294967296 := by
  unfold u32FromStrRadix16
  split
  · simp [afterSign]
  · simp [afterSign]
  · simp [afterSign, hexValue, Wire.hexDigitVal?]
  · rename_i rest hne
    simp only [afterSign]
    rw [radixGo_spec _ _ _ (by omega)]
    constructor
    · rintro ⟨h1, h2⟩
      refine ⟨?_, h1, h2⟩
      intro h; subst h; exact hne rfl
    · rintro ⟨_, h1, h2⟩; exact ⟨h1, h2⟩
  · rename_i h1 h2 h3 h4
    have has : afterSign s = s := by
      unfold afterSign
      split
      · rename_i rest
        cases rest with
        | nil => exact absurd rfl h2
        | cons a b => exact absurd rfl (h4 (a :: b))
      · rfl
    rw [has, radixGo_spec _ _ _ (by omega)]
    constructor
    · rintro ⟨ha, hb⟩; exact ⟨fun h => h1 h, ha, hb⟩
    · rintro ⟨_, ha, hb⟩; exact ⟨ha, hb⟩

end CharCat
