import Sudachi.Model.OovIO
import Sudachi.Proofs.Oov
/-!
# C13: the definition-file readers of the MeCab provider against a declarative description of the files

`read_character_property` (behaviour lines of char.def) and `read_oov` (unk.def) are line loops with early `Err`
exits.  Here every line is classified on its own (`classifyProp`, `classifyUnk`: skipped / malformed / one entry) and
the readers are shown to be TOTAL (they return a table or `Err`, nothing else) and to return exactly
* char.def: the entries of the file in file order, provided no line is malformed and no class key occurs twice;
* unk.def: for every class key the definitions of exactly the lines of that key, in file order, the keys in order of
  first occurrence, provided no line is malformed.
The column splitters are characterised too (`words_spec`, `splitOn_spec`).
-/
namespace Oov

/-! ## columns -/

theorem words_go_spec (ws : Char → Bool) (s cur : List Char) (acc : List (List Char))
    (hcur : ∀ c ∈ cur, ws c = false) (hacc : ∀ w ∈ acc, w ≠ [] ∧ ∀ c ∈ w, ws c = false) :
    (∀ w ∈ wordsW.go ws s cur acc, w ≠ [] ∧ ∀ c ∈ w, ws c = false) ∧
    (wordsW.go ws s cur acc).reverse.flatten = acc.reverse.flatten ++ cur.reverse ++ s.filter (fun c => !ws c) := by
  induction s generalizing cur acc with
  | nil =>
    simp only [wordsW.go]
    split
    · rename_i h
      have : cur = [] := by simpa using h
      subst this
      exact ⟨hacc, by simp⟩
    · rename_i h
      have hne : cur ≠ [] := by simpa using h
      refine ⟨?_, by simp⟩
      intro w hw
      rcases List.mem_cons.mp hw with rfl | hw
      · exact ⟨by simpa using hne, fun c hc => hcur c (by simpa using hc)⟩
      · exact hacc w hw
  | cons c cs ih =>
    simp only [wordsW.go]
    by_cases hws : ws c = true
    · simp only [hws, if_true]
      split
      · rename_i h
        have : cur = [] := by simpa using h
        subst this
        have := ih [] acc (by simp) hacc
        refine ⟨this.1, ?_⟩
        rw [this.2]; simp [hws]
      · rename_i h
        have hne : cur ≠ [] := by simpa using h
        have hacc' : ∀ w ∈ cur.reverse :: acc, w ≠ [] ∧ ∀ c ∈ w, ws c = false := by
          intro w hw
          rcases List.mem_cons.mp hw with rfl | hw
          · exact ⟨by simpa using hne, fun c hc => hcur c (by simpa using hc)⟩
          · exact hacc w hw
        have := ih [] (cur.reverse :: acc) (by simp) hacc'
        refine ⟨this.1, ?_⟩
        rw [this.2]; simp [hws]
    · have hws' : ws c = false := by simpa using hws
      simp only [hws', Bool.false_eq_true, if_false]
      have hcur' : ∀ x ∈ c :: cur, ws x = false := by
        intro x hx
        rcases List.mem_cons.mp hx with rfl | hx
        · exact hws'
        · exact hcur x hx
      have := ih (c :: cur) acc hcur' hacc
      refine ⟨this.1, ?_⟩
      rw [this.2]; simp [hws']

/-- `split_whitespace` (for any white-space predicate): every column is non-empty and free of white space, and the columns
concatenated are the line without its white space -/
theorem words_spec (ws : Char → Bool) (line : List Char) :
    (∀ w ∈ wordsW ws line, w ≠ [] ∧ ∀ c ∈ w, ws c = false) ∧
    (wordsW ws line).flatten = line.filter (fun c => !ws c) := by
  have := words_go_spec ws line [] [] (by simp) (by simp)
  unfold wordsW
  refine ⟨fun w hw => this.1 w (by simpa using hw), ?_⟩
  rw [this.2]; simp

/-- the pieces of `split(sep)` joined by `sep` again -/
def joinSep (sep : Char) : List (List Char) → List Char
  | [] => []
  | [w] => w
  | w :: ws => w ++ sep :: joinSep sep ws

/-- `str::split(sep)`: at least one piece, no piece contains the separator, and the pieces joined by the separator
are the input -/
theorem splitOn_spec (sep : Char) (s : List Char) :
    Wire.splitOn sep s ≠ [] ∧ (∀ w ∈ Wire.splitOn sep s, sep ∉ w) ∧ joinSep sep (Wire.splitOn sep s) = s := by
  induction s with
  | nil => simp [Wire.splitOn, joinSep]
  | cons c cs ih =>
    obtain ⟨h1, h2, h3⟩ := ih
    simp only [Wire.splitOn]
    cases hs : Wire.splitOn sep cs with
    | nil => exact absurd hs h1
    | cons w ws =>
      rw [hs] at h2 h3
      simp only []
      by_cases hc : c = sep
      · simp only [hc, if_true]
        refine ⟨by simp, ?_, ?_⟩
        · intro x hx
          rcases List.mem_cons.mp hx with rfl | hx
          · simp
          · exact h2 x hx
        · simp only [joinSep, List.nil_append]; rw [h3]
      · simp only [hc, if_false]
        refine ⟨by simp, ?_, ?_⟩
        · intro x hx
          rcases List.mem_cons.mp hx with rfl | hx
          · have := h2 w List.mem_cons_self
            intro hm
            rcases List.mem_cons.mp hm with rfl | hm
            · exact hc rfl
            · exact this hm
          · exact h2 x (List.mem_cons_of_mem _ hx)
        · cases ws with
          | nil => simp only [joinSep] at h3 ⊢; rw [h3]
          | cons w2 ws2 => simp only [joinSep, List.cons_append] at h3 ⊢; rw [h3]

/-! ## keys -/

theorem findKey_isSome_iff {α : Type} (k : Nat) (l : List (Nat × α)) : (findKey k l).isSome = true ↔ k ∈ l.map (·.1) := by
  induction l with
  | nil => simp [findKey]
  | cons kv rest ih =>
    obtain ⟨k', v⟩ := kv
    simp only [findKey, List.map_cons, List.mem_cons]
    by_cases h : k' = k
    · simp [h]
    · simp only [h, if_false, ih]
      constructor
      · intro hm; exact Or.inr hm
      · rintro (e | hm)
        · exact absurd e.symm h
        · exact hm

/-! ## `read_character_property` -/

/-- what one line of char.def is for the MeCab provider -/
inductive PLine where
  /-- blank, comment (`#`), or a code-point range line (`0x…`, read by the grammar, C17) -/
  | skip
  /-- fewer than four columns, unknown class name, LENGTH that is not a `u32` -/
  | bad
  /-- `CLASS INVOKE GROUP LENGTH [anything]` -/
  | entry (k : Nat) (ci : CatInfo)
deriving DecidableEq

/-- declarative reading of ONE line: trimmed; blank / `#…` / `0x…` are skipped; otherwise the first four white-space
separated columns are a class expression (names or hex literals joined by `|`), two flags that are set iff the column
is exactly `1`, and a `u32`; further columns are ignored -/
def classifyProp (ws : Char → Bool) (line : List Char) : PLine :=
  let line := trimW ws line
  if line.isEmpty || line.head? == some '#' || line.take 2 == ['0', 'x'] then .skip
  else
    match wordsW ws line with
    | c0 :: c1 :: c2 :: c3 :: _ =>
      match parseCatTypeW ws c0, parseU32 c3 with
      | some ct, some len => .entry ct ⟨ct, c1 == ['1'], c2 == ['1'], len⟩
      | _, _ => .bad
    | _ => .bad

def entryOfProp (ws : Char → Bool) (line : List Char) : Option (Nat × CatInfo) :=
  match classifyProp ws line with
  | .entry k ci => some (k, ci)
  | _ => none

/-- the loop body in terms of the classification -/
theorem readCharProp_cons (ws : Char → Bool) (line : List Char) (rest : List (List Char)) (acc : List (Nat × CatInfo)) :
    readCharPropW ws (line :: rest) acc =
      match classifyProp ws line with
      | .skip => readCharPropW ws rest acc
      | .bad => none
      | .entry k ci => if (findKey k acc).isSome then none else readCharPropW ws rest (acc ++ [(k, ci)]) := by
  simp only [readCharPropW, classifyProp]
  split
  · rfl
  · generalize wordsW ws (trimW ws line) = cols
    rcases cols with _ | ⟨c0, _ | ⟨c1, _ | ⟨c2, _ | ⟨c3, more⟩⟩⟩⟩
    · rfl
    · rfl
    · rfl
    · rfl
    · simp only []
      cases h0 : parseCatTypeW ws c0 with
      | none => rfl
      | some ct =>
        cases h3 : parseU32 c3 with
        | none => simp only []; split <;> rfl
        | some len => rfl

/-- **`read_character_property` is total and is the declarative description**: it returns `Some` table iff no line is
malformed and no class key occurs twice, and then the table is exactly the entries of the file in file order. -/
theorem readCharProp_iff (ws : Char → Bool) (lines : List (List Char)) (acc T : List (Nat × CatInfo)) (hacc : (acc.map (·.1)).Nodup) :
    readCharPropW ws lines acc = some T ↔
      (∀ l ∈ lines, classifyProp ws l ≠ .bad) ∧ T = acc ++ lines.filterMap (entryOfProp ws) ∧ (T.map (·.1)).Nodup := by
  induction lines generalizing acc with
  | nil =>
    simp only [readCharPropW, List.filterMap_nil, List.append_nil, List.not_mem_nil, false_imp_iff, implies_true, true_and]
    constructor
    · intro h; cases h; exact ⟨rfl, hacc⟩
    · rintro ⟨rfl, _⟩; rfl
  | cons line rest ih =>
    rw [readCharProp_cons]
    cases hcl : classifyProp ws line with
    | skip =>
      simp only []
      rw [ih acc hacc]
      have he : entryOfProp ws line = none := by simp [entryOfProp, hcl]
      simp only [List.mem_cons, forall_eq_or_imp, hcl, List.filterMap_cons, he]
      simp
    | bad =>
      simp only []
      constructor
      · intro h; cases h
      · rintro ⟨h, _⟩; exact absurd hcl (h line List.mem_cons_self)
    | entry k ci =>
      have he : entryOfProp ws line = some (k, ci) := by simp [entryOfProp, hcl]
      simp only [List.mem_cons, forall_eq_or_imp, hcl, List.filterMap_cons, he]
      by_cases hd : (findKey k acc).isSome = true
      · simp only [hd, if_true]
        constructor
        · intro h; cases h
        · rintro ⟨_, rfl, hn⟩
          exfalso
          have hk : k ∈ acc.map (·.1) := (findKey_isSome_iff k acc).mp hd
          rw [List.map_append, List.nodup_append] at hn
          exact hn.2.2 k hk k (by simp) rfl
      · simp only [hd, Bool.false_eq_true, if_false]
        have hk : k ∉ acc.map (·.1) := fun h => hd ((findKey_isSome_iff k acc).mpr h)
        have hacc' : ((acc ++ [(k, ci)]).map (·.1)).Nodup := by
          rw [List.map_append, List.nodup_append]
          refine ⟨hacc, by simp, ?_⟩
          intro a ha b hb
          have : b = k := by simpa using hb
          subst this
          intro e; subst e; exact hk ha
        rw [ih (acc ++ [(k, ci)]) hacc']
        simp [List.append_assoc]

/-! ## `read_oov` -/

inductive ULine where
  /-- blank or comment -/
  | skip
  /-- fewer than ten columns, unknown / undeclared class, ids or cost that are not `i16`, unknown POS, id out of range -/
  | bad
  /-- `CLASS,LEFT,RIGHT,COST,POS1,…,POS6[,anything]` -/
  | entry (k : Nat) (d : OovDef)
deriving DecidableEq

/-- the range test of one connection id as written: `id as usize > n` in the pinned tree, `>=` after the repair of D15b
(`ge`); a negative `i16` becomes a huge `usize` -/
def idBad (ge : Bool) (n : Nat) (x : Int) : Bool := x < 0 || x.toNat > n || (ge && x.toNat == n)

/-- declarative reading of ONE line of unk.def: trimmed; blank / `#…` skipped; otherwise at least ten comma separated
columns (NOT trimmed): a class expression that has a behaviour line in char.def, three `i16`, six POS components that
are a part of speech of the dictionary; both ids inside the connection matrix -/
def classifyUnk (ws : Char → Bool) (ge : Bool) (cats : List (Nat × CatInfo)) (pos : List (List (List Char))) (numLeft numRight : Nat)
    (line : List Char) : ULine :=
  let line := trimW ws line
  if line.isEmpty || line.head? == some '#' then .skip
  else
    let cols := Wire.splitOn ',' line
    if cols.length < 10 then .bad else
    match cols with
    | c0 :: c1 :: c2 :: c3 :: more =>
      match parseCatTypeW ws c0, parseI16 c1, parseI16 c2, parseI16 c3, posIndex pos (more.take 6) with
      | some ct, some l, some r, some c, some p =>
        if (findKey ct cats).isNone || idBad ge numLeft l || idBad ge numRight r then .bad
        else .entry ct ⟨l.toNat, r.toNat, c, p⟩
      | _, _, _, _, _ => .bad
    | _ => .bad

def entryOfUnk (ws : Char → Bool) (ge : Bool) (cats : List (Nat × CatInfo)) (pos : List (List (List Char))) (numLeft numRight : Nat)
    (line : List Char) : Option (Nat × OovDef) :=
  match classifyUnk ws ge cats pos numLeft numRight line with
  | .entry k d => some (k, d)
  | _ => none

theorem readOov_cons (ws : Char → Bool) (ge : Bool) (cats : List (Nat × CatInfo)) (pos : List (List (List Char))) (nl nr : Nat)
    (line : List Char) (rest : List (List Char)) (acc : List (Nat × List OovDef)) :
    readOov ws ge cats pos nl nr (line :: rest) acc =
      match classifyUnk ws ge cats pos nl nr line with
      | .skip => readOov ws ge cats pos nl nr rest acc
      | .bad => none
      | .entry k d => readOov ws ge cats pos nl nr rest (pushOov k d acc) := by
  simp only [readOov, classifyUnk]
  split
  · rfl
  · generalize Wire.splitOn ',' (trimW ws line) = cols
    split
    · rfl
    · rcases cols with _ | ⟨c0, _ | ⟨c1, _ | ⟨c2, _ | ⟨c3, more⟩⟩⟩⟩
      · rfl
      · rfl
      · rfl
      · rfl
      · simp only []
        cases h0 : parseCatTypeW ws c0 with
        | none => rfl
        | some ct =>
          simp only []
          by_cases hk : (findKey ct cats).isNone = true
          · simp only [hk, if_true]
            cases parseI16 c1 <;> cases parseI16 c2 <;> cases parseI16 c3 <;> cases posIndex pos (more.take 6) <;> simp [hk]
          · have hk' : (findKey ct cats).isNone = false := by
              cases hf : (findKey ct cats).isNone with
              | true => exact absurd hf hk
              | false => rfl
            simp only [hk', Bool.false_eq_true, if_false]
            cases h1 : parseI16 c1 with
            | none => rfl
            | some l =>
            cases h2 : parseI16 c2 with
            | none => rfl
            | some r =>
            cases h3 : parseI16 c3 with
            | none => rfl
            | some c =>
            cases h4 : posIndex pos (more.take 6) with
            | none => rfl
            | some p =>
              simp only []
              change (if idBad ge nl l = true then none else if idBad ge nr r = true then none
                else readOov ws ge cats pos nl nr rest (pushOov ct ⟨l.toNat, r.toNat, c, p⟩ acc)) = _
              cases idBad ge nl l <;> cases idBad ge nr r <;> simp [hk']

/-- the table `read_oov` builds from a list of entries: `get_mut(cat).push(oov)` / insert, in order -/
def pushAll (es : List (Nat × OovDef)) (acc : List (Nat × List OovDef)) : List (Nat × List OovDef) :=
  es.foldl (fun a e => pushOov e.1 e.2 a) acc

/-- **`read_oov` is total and is the declarative description, part 1**: it returns `Some` table iff no line is malformed,
and then the table is the entries of the file pushed in file order. -/
theorem readOov_iff (ws : Char → Bool) (ge : Bool) (cats : List (Nat × CatInfo)) (pos : List (List (List Char))) (nl nr : Nat)
    (lines : List (List Char)) (acc T : List (Nat × List OovDef)) :
    readOov ws ge cats pos nl nr lines acc = some T ↔
      (∀ l ∈ lines, classifyUnk ws ge cats pos nl nr l ≠ .bad) ∧
      T = pushAll (lines.filterMap (entryOfUnk ws ge cats pos nl nr)) acc := by
  induction lines generalizing acc with
  | nil =>
    simp only [readOov, pushAll, List.filterMap_nil, List.foldl_nil, List.not_mem_nil, false_imp_iff, implies_true, true_and]
    constructor
    · intro h; cases h; rfl
    · rintro rfl; rfl
  | cons line rest ih =>
    rw [readOov_cons]
    cases hcl : classifyUnk ws ge cats pos nl nr line with
    | skip =>
      have he : entryOfUnk ws ge cats pos nl nr line = none := by simp [entryOfUnk, hcl]
      simp only [ih, List.mem_cons, forall_eq_or_imp, hcl, List.filterMap_cons, he]
      simp
    | bad =>
      simp only []
      constructor
      · intro h; cases h
      · rintro ⟨h, _⟩; exact absurd hcl (h line List.mem_cons_self)
    | entry k d =>
      have he : entryOfUnk ws ge cats pos nl nr line = some (k, d) := by simp [entryOfUnk, hcl]
      simp only [ih, List.mem_cons, forall_eq_or_imp, hcl, List.filterMap_cons, he, pushAll, List.foldl_cons]
      simp

/-- looking a key up after one push -/
theorem findKey_pushOov (k k' : Nat) (d : OovDef) (acc : List (Nat × List OovDef)) :
    findKey k (pushOov k' d acc) =
      if k = k' then some ((findKey k acc).getD [] ++ [d]) else findKey k acc := by
  induction acc with
  | nil =>
    simp only [pushOov, findKey]
    by_cases h : k = k'
    · subst h; simp
    · have : ¬ k' = k := fun e => h e.symm
      simp [h, this]
  | cons kv rest ih =>
    obtain ⟨k2, ds⟩ := kv
    simp only [pushOov]
    by_cases h2 : k2 = k'
    · subst h2
      simp only [if_true, findKey]
      by_cases h : k2 = k
      · subst h; simp
      · have : ¬ k = k2 := fun e => h e.symm
        simp [h, this]
    · simp only [h2, if_false, findKey]
      by_cases h : k2 = k
      · subst h
        have : ¬ k2 = k' := h2
        simp [this]
      · simp only [h, if_false, ih]

/-- **part 2: what the table holds**.  For every class key: the definitions of exactly the entries with that key, in
file order (after whatever the table held before); a key without entry keeps its old value. -/
theorem findKey_pushAll (k : Nat) (es : List (Nat × OovDef)) (acc : List (Nat × List OovDef)) :
    findKey k (pushAll es acc) =
      if (es.filter (fun e => e.1 == k)) = [] then findKey k acc
      else some ((findKey k acc).getD [] ++ (es.filter (fun e => e.1 == k)).map (·.2)) := by
  induction es generalizing acc with
  | nil => simp [pushAll]
  | cons e rest ih =>
    obtain ⟨k', d⟩ := e
    have hp : pushAll ((k', d) :: rest) acc = pushAll rest (pushOov k' d acc) := by simp [pushAll]
    rw [hp, ih, findKey_pushOov]
    by_cases h : k = k'
    · subst h
      simp only [if_true, List.filter_cons, beq_self_eq_true, Option.getD_some]
      split
      · rename_i hnil
        simp [hnil]
      · simp [List.append_assoc]
    · have hb : (k' == k) = false := by simpa using fun e => h e.symm
      simp only [h, if_false, List.filter_cons, hb, Bool.false_eq_true]

/-- the keys of the table are pairwise different, so `findKey` sees every row -/
theorem keys_pushOov (k : Nat) (d : OovDef) (acc : List (Nat × List OovDef)) :
    (pushOov k d acc).map (·.1) = if k ∈ acc.map (·.1) then acc.map (·.1) else acc.map (·.1) ++ [k] := by
  induction acc with
  | nil => simp [pushOov]
  | cons kv rest ih =>
    obtain ⟨k2, ds⟩ := kv
    simp only [pushOov]
    by_cases h2 : k2 = k
    · subst h2; simp
    · have : ¬ k = k2 := fun e => h2 e.symm
      simp only [h2, if_false, List.map_cons, ih, List.mem_cons, this, false_or]
      split <;> simp

theorem nodup_keys_pushAll (es : List (Nat × OovDef)) (acc : List (Nat × List OovDef)) (h : (acc.map (·.1)).Nodup) :
    ((pushAll es acc).map (·.1)).Nodup := by
  induction es generalizing acc with
  | nil => simpa [pushAll] using h
  | cons e rest ih =>
    have hp : pushAll (e :: rest) acc = pushAll rest (pushOov e.1 e.2 acc) := by simp [pushAll]
    rw [hp]
    apply ih
    rw [keys_pushOov]
    split
    · exact h
    · rename_i hk
      rw [List.nodup_append]
      refine ⟨h, by simp, ?_⟩
      intro a ha b hb
      have : b = e.1 := by simpa using hb
      subst this
      intro e'; subst e'; exact hk ha


/-- what an accepted unk.def line guarantees: its class has a behaviour line and (after the repair of D15b, `ge`) both
connection ids are inside the matrix -/
theorem classifyUnk_entry (ws : Char → Bool) (ge : Bool) (cats : List (Nat × CatInfo)) (pos : List (List (List Char))) (nl nr : Nat)
    (line : List Char) (k : Nat) (d : OovDef) (h : classifyUnk ws ge cats pos nl nr line = .entry k d) :
    (findKey k cats).isSome = true ∧ d.l ≤ nl ∧ d.r ≤ nr ∧ (ge = true → d.l < nl ∧ d.r < nr) ∧ d.pos < pos.length := by
  simp only [classifyUnk] at h
  split at h
  · cases h
  · generalize Wire.splitOn ',' (trimW ws line) = cols at h
    split at h
    · cases h
    · rcases cols with _ | ⟨c0, _ | ⟨c1, _ | ⟨c2, _ | ⟨c3, more⟩⟩⟩⟩
      · cases h
      · cases h
      · cases h
      · cases h
      · simp only [] at h
        cases h0 : parseCatTypeW ws c0 with
        | none => simp [h0] at h
        | some ct =>
        cases h1 : parseI16 c1 with
        | none => simp [h0, h1] at h
        | some l =>
        cases h2 : parseI16 c2 with
        | none => simp [h0, h1, h2] at h
        | some r =>
        cases h3 : parseI16 c3 with
        | none => simp [h0, h1, h2, h3] at h
        | some c =>
        cases h4 : posIndex pos (more.take 6) with
        | none => simp [h0, h1, h2, h3, h4] at h
        | some p =>
          simp only [h0, h1, h2, h3, h4] at h
          split at h
          · cases h
          · rename_i hcond
            simp only [ULine.entry.injEq] at h
            obtain ⟨hk, hd⟩ := h
            subst hk hd
            simp only [Bool.or_eq_true, not_or, idBad, decide_eq_true_eq, Bool.and_eq_true, beq_iff_eq] at hcond
            obtain ⟨⟨hn, hl⟩, hr⟩ := hcond
            have hp : p < pos.length := by
              unfold posIndex at h4
              simp only [] at h4
              split at h4
              · cases h4; assumption
              · cases h4
            refine ⟨?_, ?_, ?_, ?_, hp⟩
            · cases hf : findKey ct cats with
              | none => simp [hf] at hn
              | some _ => rfl
            · show l.toNat ≤ nl
              omega
            · show r.toNat ≤ nr
              omega
            · intro hge; subst hge
              show l.toNat < nl ∧ r.toNat < nr
              simp only [true_and] at hl hr
              omega

end Oov
