import Sudachi.Proofs.TotalPathCost
/-!
# ROW-WRAP end to end: with a narrow row index the returned path is not the cheapest one

`Total.connGo` stores the row index of the best previous node as `i as u32` (`asU32`; the tree since the repair 9fb3dd8 in
/repo).  The pinned tree stored `i as u16`.  `latticeW W` is the lattice of `Model/Total.lean` with the index stored as
`i % W` (`insertW`, `buildAllW`, `connectEosW` are literal copies of `insert`, `buildAll`, `connectEos` over `connGoW`), and
`buildAllW_u32` shows that `W = 2^32` IS the model.  On a lattice whose row 1 holds five candidates, width `W = 4`
(standing for 65536) stores the right minimum and a back-pointer into the wrong entry: `fill_top_path` returns a path whose
recomputed cost is not the stored minimum - the kernel-checked witness that `C02.chosen_path_cost_is_stored_minimum` needs
the row bound, and the small-width image of what the real tokenizer did on 16400 letters before the repair.
-/
namespace Total
open Oov (Outcome)

/-- `Total.connGo` with the row index stored as `i % W` -/
def connGoW (W : Nat) (add : Int → Int → Option Int) (M : Int) (conn : Nat → Nat → Int) (n : Vit.Node) :
    List Entry → Nat → Int × Nat × Nat → Option (Int × Nat × Nat)
  | [], _, st => some st
  | l :: rest, i, st =>
    if l.total = M then connGoW W add M conn n rest (i + 1) st
    else match add l.total (conn l.node.r n.l) with
      | none => none
      | some x => match add x n.c with
        | none => none
        | some nc =>
          if nc < st.1 then connGoW W add M conn n rest (i + 1) (nc, asU16 n.b, i % W)
          else connGoW W add M conn n rest (i + 1) st

theorem connGoW_u32 (add : Int → Int → Option Int) (M : Int) (conn : Nat → Nat → Int) (n : Vit.Node) :
    ∀ (row : List Entry) (i : Nat) (st : Int × Nat × Nat),
      connGoW 4294967296 add M conn n row i st = connGo add M conn n row i st := by
  intro row
  induction row with
  | nil => intro i st; rfl
  | cons l rest ih =>
    intro i st
    simp only [connGoW, connGo, ih, asU32]
    split
    · rfl
    · cases add l.total (conn l.node.r n.l) with
      | none => rfl
      | some x =>
        cases add x n.c with
        | none => rfl
        | some nc => rfl

variable (W : Nat) (add : Int → Int → Option Int) (M : Int) (conn : Nat → Nat → Int)

def connectNodeW (row : List Entry) (n : Vit.Node) : Option (Int × Nat × Nat) :=
  connGoW W add M conn n row 0 (M, 65535, idxNone)

def insertW (rows : Rows) (n : Vit.Node) : Outcome (Rows × Entry) :=
  match rows[n.b]? with
  | none => .panic "index"
  | some row =>
    match connectNodeW W add M conn row n with
    | none => .panic "overflow"
    | some (c, pe, pi) =>
      match rows[n.e]? with
      | none => .panic "index"
      | some rowE => .ok (rows.setIfInBounds n.e (rowE ++ [⟨n, c, pe, pi⟩]), ⟨n, c, pe, pi⟩)

def buildAllW : List Vit.Node → Rows → List Entry → Outcome (Rows × List Entry)
  | [], rows, acc => .ok (rows, acc.reverse)
  | n :: ns, rows, acc =>
    match insertW W add M conn rows n with
    | .ok (rows', e) => buildAllW ns rows' (e :: acc)
    | .err k => .err k
    | .panic w => .panic w

def connectEosW (rows : Rows) (nchars : Nat) : Outcome (Int × Nat × Nat) :=
  match rows[(eosNode nchars).b]? with
  | none => .panic "index"
  | some row =>
    match connectNodeW W add M conn row (eosNode nchars) with
    | none => .panic "overflow"
    | some (c, pe, pi) => if c = M then .err "Disconnect" else .ok (c, pe, pi)

theorem connectNodeW_u32 (row : List Entry) (n : Vit.Node) :
    connectNodeW 4294967296 add M conn row n = connectNode add M conn row n := by
  unfold connectNodeW connectNode; exact connGoW_u32 add M conn n row 0 _

theorem insertW_u32 (rows : Rows) (n : Vit.Node) : insertW 4294967296 add M conn rows n = insert add M conn rows n := by
  unfold insertW insert; simp only [connectNodeW_u32]
  cases rows[n.b]? with
  | none => rfl
  | some row =>
    simp only []
    cases connectNode add M conn row n with
    | none => rfl
    | some r =>
      obtain ⟨c, pe, pi⟩ := r
      simp only []
      cases rows[n.e]? <;> rfl

theorem buildAllW_u32 : ∀ (ns : List Vit.Node) (rows : Rows) (acc : List Entry),
    buildAllW 4294967296 add M conn ns rows acc = buildAll add M conn ns rows acc
  | [], rows, acc => rfl
  | n :: ns, rows, acc => by
    unfold buildAllW buildAll
    rw [insertW_u32]
    cases insert add M conn rows n with
    | ok r => obtain ⟨rows', e⟩ := r; exact buildAllW_u32 ns rows' (e :: acc)
    | err k => rfl
    | panic w => rfl

theorem connectEosW_u32 (rows : Rows) (nchars : Nat) :
    connectEosW 4294967296 add M conn rows nchars = connectEos add M conn rows nchars := by
  unfold connectEosW connectEos; simp only [connectNodeW_u32]
  cases rows[(eosNode nchars).b]? with
  | none => rfl
  | some row =>
    simp only []
    cases connectNode add M conn row (eosNode nchars) with
    | none => rfl
    | some r => obtain ⟨c, pe, pi⟩ := r; rfl

/-- the witness lattice: a text of 2 characters; five candidates over the first character with costs 50, 40, 30, 20, 10
(the LAST is the cheapest), one candidate of cost 0 over the second; all connection costs 0 -/
def wrapNodes : List Vit.Node :=
  [⟨0, 1, 0, 0, 50⟩, ⟨0, 1, 0, 0, 40⟩, ⟨0, 1, 0, 0, 30⟩, ⟨0, 1, 0, 0, 20⟩, ⟨0, 1, 0, 0, 10⟩, ⟨1, 2, 0, 0, 0⟩]

/-- what comes out of the lattice with index width `W`: the minimum `connect_eos` stores and the cost recomputed along the
path `fill_top_path` returns (`none` when anything fails) -/
def wrapOutcome (W : Nat) : Option (Int × Int) :=
  match buildAllW W addI32 I32_MAX (fun _ _ => 0) wrapNodes (reset 2) [] with
  | .ok (rows, _) =>
    match connectEosW W addI32 I32_MAX (fun _ _ => 0) rows 2 with
    | .ok (c, pe, pi) =>
      match topPath rows 3 (pe, pi) [] with
      | .ok path => some (c, pathCostFrom (fun _ _ => 0) Vit.bos.r path)
      | _ => none
    | _ => none
  | _ => none

/-- **ROW-WRAP, end to end (small-width instance).**  Width 4: the stored minimum is 10 (the chain through the fifth
candidate), the returned path costs 50 (index `4 % 4 = 0` names the first candidate).  Width 2^32 (the model of the tree):
both are 10. -/
theorem row_wrap_returns_dearer_path :
    wrapOutcome 4 = some (10, 50) ∧ wrapOutcome 4294967296 = some (10, 10) := by
  decide

end Total
