import Sudachi.Proofs.ParamsCfg
/-!
# C20: the POS list through the whole load

`handle_user_pos` either leaves the POS list alone or appends ONE entry at the end (`register_pos`
pushes), `read_oov` threads the list through its lines, `Plugins::load` threads it through the
providers, `Grammar::merge` appends the POS of the user dictionaries.  Hence the list only ever
grows at its end: the ids of the dictionary's own POS never shift, an id handed to a provider keeps
denoting the POS it was resolved to, and with `userPOS: forbid` everywhere nothing is registered.
-/
namespace Params
open Outcome

/-- every entry has `POS_DEPTH` components: what `Grammar::parse` delivers and `register_pos` keeps -/
def PosWF (pl : List Pos) : Prop := ∀ q ∈ pl, q.length = 6

theorem getPosId_len {pl : List Pos} {p : Pos} {id : Nat} (h : getPosId pl p = some id) : p.length = 6 := by
  unfold getPosId at h
  split at h
  · cases h
  · rename_i hlen; simpa using hlen

theorem getPosId_none_of_len {pl : List Pos} {p : Pos} (h : p.length ≠ 6) : getPosId pl p = none := by
  simp [getPosId, h]

/-- a six-component POS that is an entry of a well-formed list is found -/
theorem getPosId_of_mem {pl : List Pos} {p : Pos} (hlen : p.length = 6) (hmem : p ∈ pl) :
    ∃ id, getPosId pl p = some id := by
  cases hg : getPosId pl p with
  | some id => exact ⟨id, rfl⟩
  | none =>
    have := getPosId_none hg hlen p hmem
    rw [(posMatch_iff_eq p p rfl).mpr rfl] at this
    cases this

/-- what one call of `handle_user_pos` does to the list -/
theorem handleUserPos_cases {pl pl' : List Pos} {p : Pos} {mode : Mode} {id : Nat}
    (h : handleUserPos pl p mode = ok (pl', id)) :
    p.length = 6 ∧
    ((pl' = pl ∧ getPosId pl p = some id) ∨
     (mode = .allow ∧ pl' = pl ++ [p] ∧ getPosId pl p = none ∧ pl.length ≤ 65535 ∧ id = pl.length)) := by
  unfold handleUserPos at h
  split at h
  · rename_i id' hg
    injection h with h
    simp only [Prod.mk.injEq] at h
    obtain ⟨h1, h2⟩ := h
    subst h1 h2
    exact ⟨getPosId_len hg, Or.inl ⟨rfl, hg⟩⟩
  · rename_i hg
    split at h
    · unfold registerPos at h
      split at h
      · cases h
      · rename_i hlen
        simp only [hg] at h
        split at h
        · cases h
        · rename_i hsz
          injection h with h
          simp only [Prod.mk.injEq] at h
          obtain ⟨h1, h2⟩ := h
          have hl : p.length = 6 := by simpa using hlen
          refine ⟨hl, Or.inr ⟨rfl, h1.symm, hg, by omega, ?_⟩⟩
          omega
    · cases h

/-- the id `handle_user_pos` returns denotes the POS it was given, in the list it returns -/
theorem handleUserPos_resolved {pl pl' : List Pos} {p : Pos} {mode : Mode} {id : Nat}
    (hwf : PosWF pl) (hsz : pl.length ≤ 65536) (h : handleUserPos pl p mode = ok (pl', id)) :
    pl'[id]? = some p := by
  obtain ⟨hlen, hc⟩ := handleUserPos_cases h
  rcases hc with ⟨e, hg⟩ | ⟨_, e, _, _, hid⟩
  · subst e
    obtain ⟨_, hlt, hm, _⟩ := getPosId_some hg hsz
    have := (posMatch_iff_eq p pl'[id] (by rw [hlen, hwf _ (List.getElem_mem hlt)])).mp hm
    rw [List.getElem?_eq_getElem hlt, ← this]
  · subst e hid
    simp

/-- one step of the POS list: it grows at the end only, stays well formed and addressable by `u16`,
and does not change at all unless user-defined POS are allowed -/
structure PosStep (allow : Bool) (pl pl' : List Pos) : Prop where
  ext : ∃ e, pl' = pl ++ e ∧ ∀ q ∈ e, q.length = 6
  sz : pl.length ≤ 65536 → pl'.length ≤ 65536
  forbid : allow = false → pl' = pl

theorem PosStep.pre {a : Bool} {pl pl' : List Pos} (h : PosStep a pl pl') : pl <+: pl' := by
  obtain ⟨e, he, _⟩ := h.ext
  exact ⟨e, he.symm⟩

theorem PosStep.wf {a : Bool} {pl pl' : List Pos} (h : PosStep a pl pl') : PosWF pl → PosWF pl' := by
  obtain ⟨e, he, hw⟩ := h.ext
  intro hwf q hq
  rw [he, List.mem_append] at hq
  rcases hq with hq | hq
  · exact hwf q hq
  · exact hw q hq

theorem PosStep.refl (a : Bool) (pl : List Pos) : PosStep a pl pl :=
  ⟨⟨[], by simp, fun q hq => by cases hq⟩, id, fun _ => rfl⟩

theorem PosStep.trans {a b : Bool} {p1 p2 p3 : List Pos} (h1 : PosStep a p1 p2) (h2 : PosStep b p2 p3) :
    PosStep (a || b) p1 p3 := by
  obtain ⟨e1, he1, hw1⟩ := h1.ext
  obtain ⟨e2, he2, hw2⟩ := h2.ext
  refine ⟨⟨e1 ++ e2, by rw [he2, he1, List.append_assoc], fun q hq => ?_⟩, fun h => h2.sz (h1.sz h), fun h => ?_⟩
  · rw [List.mem_append] at hq
    rcases hq with hq | hq
    · exact hw1 q hq
    · exact hw2 q hq
  · simp only [Bool.or_eq_false_iff] at h
    rw [h2.forbid h.2, h1.forbid h.1]

theorem PosStep.mono {a b : Bool} {p1 p2 : List Pos} (h : PosStep a p1 p2) (hab : a = true → b = true) :
    PosStep b p1 p2 :=
  ⟨h.ext, h.sz, fun hb => h.forbid (by cases a <;> simp_all)⟩

def Mode.allows : Mode → Bool
  | .allow => true
  | .forbid => false

theorem handleUserPos_step {pl pl' : List Pos} {p : Pos} {mode : Mode} {id : Nat}
    (h : handleUserPos pl p mode = ok (pl', id)) : PosStep mode.allows pl pl' := by
  obtain ⟨hlen, hc⟩ := handleUserPos_cases h
  rcases hc with ⟨e, _⟩ | ⟨hm, e, _, hsz, _⟩
  · subst e; exact PosStep.refl _ _
  · subst e hm
    refine ⟨⟨[p], rfl, ?_⟩, ?_, ?_⟩
    · intro q hq
      simp only [List.mem_singleton] at hq
      subst hq; exact hlen
    · intro _; simp only [List.length_append, List.length_singleton]; omega
    · intro hf; cases hf

theorem getElem?_of_prefix {α : Type} {l l' : List α} (h : l <+: l') {i : Nat} {x : α} (hx : l[i]? = some x) :
    l'[i]? = some x := by
  obtain ⟨t, rfl⟩ := h
  have hi : i < l.length := by
    cases hlt : decide (i < l.length) with
    | true => simpa using hlt
    | false =>
      have : l.length ≤ i := by simpa using hlt
      rw [List.getElem?_eq_none this] at hx
      cases hx
  rw [List.getElem?_append_left hi]
  exact hx

/-! ## `read_oov` -/

theorem lt_of_getElem?_some {α : Type} {l : List α} {i : Nat} {x : α} (h : l[i]? = some x) : i < l.length := by
  cases hlt : decide (i < l.length) with
  | true => simpa using hlt
  | false =>
    have hge := of_decide_eq_false hlt
    rw [List.getElem?_eq_none (by omega)] at h
    cases h


theorem readOovLine_step {v : Variant} {cats : List (Nat × Oov.CatInfo)} {conn : Matrix} {mode : Mode}
    {line : List Char} {pl pl' : List Pos} {ct : Nat} {d : RawOov}
    (h : readOovLine v cats conn mode line pl = ok (some (pl', ct, d))) :
    PosStep mode.allows pl pl' ∧ (PosWF pl → pl.length ≤ 65536 → d.p < pl'.length) := by
  unfold readOovLine at h
  simp only at h
  split at h
  · cases h
  · split at h
    · cases h
    · split at h
      · split at h
        · cases h
        · split at h
          · cases h
          · split at h
            · cases h
            · split at h
              · cases h
              · split at h
                · cases h
                · split at h
                  · rename_i hh
                    split at h
                    · cases h
                    · split at h
                      · cases h
                      · injection h with h
                        injection h with h
                        simp only [Prod.mk.injEq] at h
                        obtain ⟨h1, _, h3⟩ := h
                        subst h1 h3
                        refine ⟨handleUserPos_step hh, fun hwf hsz => ?_⟩
                        have := handleUserPos_resolved hwf hsz hh
                        simp only
                        exact lt_of_getElem?_some this
                  all_goals cases h
      · cases h

theorem readOov_step {v : Variant} {cats : List (Nat × Oov.CatInfo)} {conn : Matrix} {mode : Mode}
    (lines : List (List Char)) : ∀ {pl pl' : List Pos} {acc acc' : List (Nat × List RawOov)},
    readOov v cats conn mode lines pl acc = ok (pl', acc') →
    PosStep mode.allows pl pl' ∧
    (PosWF pl → pl.length ≤ 65536 → AccOk (fun d => d.p < pl.length) acc → AccOk (fun d => d.p < pl'.length) acc') := by
  induction lines with
  | nil =>
    intro pl pl' acc acc' h
    simp only [readOov] at h
    injection h with h
    simp only [Prod.mk.injEq] at h
    obtain ⟨h1, h2⟩ := h
    subst h1 h2
    exact ⟨PosStep.refl _ _, fun _ _ ha => ha⟩
  | cons line rest ih =>
    intro pl pl' acc acc' h
    simp only [readOov] at h
    split at h
    · exact ih h
    · rename_i pl1 ct d hline
      obtain ⟨s1, hd⟩ := readOovLine_step hline
      obtain ⟨s2, ha⟩ := ih h
      refine ⟨(s1.trans s2).mono (by simp), fun hwf hsz hacc => ?_⟩
      apply ha (s1.wf hwf) (s1.sz hsz)
      apply pushRaw_ok (P := fun d => d.p < pl1.length) (hd hwf hsz)
      intro kv hkv d' hd'
      have := hacc kv hkv d' hd'
      have hle := s1.pre.length_le
      simp only at this ⊢
      omega
    all_goals cases h

/-! ## providers -/

def ProvCfg.allows : ProvCfg → Bool
  | .simple _ _ _ _ m => m.allows
  | .regex _ _ _ _ m => m.allows
  | .mecab _ m => m.allows

/-- the POS ids of a loaded provider index `pl`; for Simple/Regex the entry is the configured POS -/
def ProvPos (pl : List Pos) (c : ProvCfg) (p : Prov) : Prop :=
  (∀ e ∈ provNodes p, e.p < pl.length) ∧
  match c, p with
  | .simple pos _ _ _ _, .simple e => pl[e.p]? = some pos
  | .regex pos _ _ _ _, .regex e => pl[e.p]? = some pos
  | .mecab _ _, .mecab _ => True
  | _, _ => False

theorem ProvPos.mono {pl pl' : List Pos} {c : ProvCfg} {p : Prov} (hpre : pl <+: pl') (h : ProvPos pl c p) :
    ProvPos pl' c p := by
  refine ⟨fun e he => Nat.lt_of_lt_of_le (h.1 e he) hpre.length_le, ?_⟩
  have h2 := h.2
  cases c <;> cases p <;> simp only at h2 ⊢ <;> first | exact getElem?_of_prefix hpre h2 | exact h2

theorem setUpSimple_pos {v : Variant} {g g' : Grammar} {pos : Pos} {l r c : Int} {mode : Mode} {p : Prov}
    (h : setUpSimple v g pos l r c mode = ok (g', p)) :
    PosStep mode.allows g.pos g'.pos ∧ pos.length = 6 ∧
    (PosWF g.pos → g.pos.length ≤ 65536 → ProvPos g'.pos (.simple pos l r c mode) p) := by
  unfold setUpSimple at h
  split at h
  · rename_i pl pid hh
    split at h
    · split at h
      · split at h
        · injection h with h
          simp only [Prod.mk.injEq] at h
          obtain ⟨hg, hp⟩ := h
          subst hg hp
          refine ⟨handleUserPos_step hh, (handleUserPos_cases hh).1, fun hwf hsz => ?_⟩
          have hr := handleUserPos_resolved hwf hsz hh
          refine ⟨fun e he => ?_, hr⟩
          simp only [provNodes, List.mem_singleton] at he
          subst he
          exact lt_of_getElem?_some hr
        all_goals cases h
      all_goals cases h
    all_goals cases h
  all_goals cases h

theorem setUpRegex_pos {v : Variant} {g g' : Grammar} {pos : Pos} {l r c : Int} {mode : Mode} {p : Prov}
    (h : setUpRegex v g pos l r c mode = ok (g', p)) :
    PosStep mode.allows g.pos g'.pos ∧ pos.length = 6 ∧
    (PosWF g.pos → g.pos.length ≤ 65536 → ProvPos g'.pos (.regex pos l r c mode) p) := by
  unfold setUpRegex at h
  split at h
  · split at h
    · split at h
      · split at h
        · rename_i pl pid hh
          injection h with h
          simp only [Prod.mk.injEq] at h
          obtain ⟨hg, hp⟩ := h
          subst hg hp
          refine ⟨handleUserPos_step hh, (handleUserPos_cases hh).1, fun hwf hsz => ?_⟩
          have hr := handleUserPos_resolved hwf hsz hh
          refine ⟨fun e he => ?_, hr⟩
          simp only [provNodes, List.mem_singleton] at he
          subst he
          exact lt_of_getElem?_some hr
        all_goals cases h
      all_goals cases h
    all_goals cases h
  all_goals cases h

theorem setUpMecab_pos {v : Variant} {cdef : List (List Char)} {g g' : Grammar} {unk : List (List Char)} {mode : Mode}
    {p : Prov} (h : setUpMecab v cdef g unk mode = ok (g', p)) :
    PosStep mode.allows g.pos g'.pos ∧
    (PosWF g.pos → g.pos.length ≤ 65536 → ProvPos g'.pos (.mecab unk mode) p) := by
  unfold setUpMecab at h
  split at h
  · cases h
  · split at h
    · rename_i hro
      injection h with h
      simp only [Prod.mk.injEq] at h
      obtain ⟨hg, hp⟩ := h
      subst hg hp
      obtain ⟨s, ha⟩ := readOov_step unk hro
      refine ⟨s, fun hwf hsz => ⟨fun e he => ?_, trivial⟩⟩
      have hacc := ha hwf hsz (by intro kv hkv; cases hkv)
      simp only [provNodes, List.mem_flatten, List.mem_map] at he
      obtain ⟨ds, ⟨kv, hkv, hds⟩, hed⟩ := he
      subst hds
      simp only [List.mem_map] at hed
      obtain ⟨d, hd, hde⟩ := hed
      subst hde
      exact hacc kv hkv d hd
    all_goals cases h

theorem setUpProv_pos {v : Variant} {cdef : List (List Char)} {g g' : Grammar} {c : ProvCfg} {p : Prov}
    (h : setUpProv v cdef g c = ok (g', p)) :
    PosStep c.allows g.pos g'.pos ∧ (PosWF g.pos → g.pos.length ≤ 65536 → ProvPos g'.pos c p) := by
  cases c with
  | simple pos l r c mode => have := setUpSimple_pos h; exact ⟨this.1, this.2.2⟩
  | regex pos l r c mode => have := setUpRegex_pos h; exact ⟨this.1, this.2.2⟩
  | mecab unk mode => exact setUpMecab_pos h

/-- a Simple/Regex provider that loads was given a six-component POS -/
theorem setUpProv_arity {v : Variant} {cdef : List (List Char)} {g g' : Grammar} {c : ProvCfg} {p : Prov}
    (h : setUpProv v cdef g c = ok (g', p)) :
    match c with
    | .simple pos _ _ _ _ => pos.length = 6
    | .regex pos _ _ _ _ => pos.length = 6
    | .mecab _ _ => True := by
  cases c with
  | simple pos l r c mode => exact (setUpSimple_pos h).2.1
  | regex pos l r c mode => exact (setUpRegex_pos h).2.1
  | mecab unk mode => trivial

theorem setUpProvs_pos {v : Variant} {cdef : List (List Char)} (cs : List ProvCfg) :
    ∀ {g g' : Grammar} {ps : List Prov}, setUpProvs v cdef g cs = ok (g', ps) →
    PosStep (cs.any ProvCfg.allows) g.pos g'.pos ∧ ps.length = cs.length ∧
    (PosWF g.pos → g.pos.length ≤ 65536 → ∀ cp ∈ cs.zip ps, ProvPos g'.pos cp.1 cp.2) := by
  induction cs with
  | nil =>
    intro g g' ps h
    simp only [setUpProvs] at h
    injection h with h
    simp only [Prod.mk.injEq] at h
    obtain ⟨h1, h2⟩ := h
    subst h1 h2
    exact ⟨PosStep.refl _ _, rfl, fun _ _ cp hcp => by simp at hcp⟩
  | cons c rest ih =>
    intro g g' ps h
    simp only [setUpProvs] at h
    split at h
    · rename_i g1 p1 h1
      split at h
      · rename_i g2 ps2 h2
        injection h with h
        simp only [Prod.mk.injEq] at h
        obtain ⟨hg, hp⟩ := h
        subst hg hp
        obtain ⟨s1, r1⟩ := setUpProv_pos h1
        obtain ⟨s2, l2, r2⟩ := ih h2
        refine ⟨by simpa [List.any_cons] using s1.trans s2, by simp [l2], fun hwf hsz cp hcp => ?_⟩
        simp only [List.zip_cons_cons, List.mem_cons] at hcp
        rcases hcp with hcp | hcp
        · subst hcp
          exact (r1 hwf hsz).mono s2.pre
        · exact r2 (s1.wf hwf) (s1.sz hsz) cp hcp
      all_goals cases h
    all_goals cases h

/-! ## the whole load -/

/-- the POS list after a successful load: the dictionary's own list, then what the providers
registered, then the POS of the user dictionaries -/
theorem load_pos {v : Variant} {cdef : List (List Char)} {g : Grammar} {cfg : Cfg} {ld : Loaded}
    (h : load v cdef g cfg = ok ld) :
    ∃ reg, ld.g.pos = g.pos ++ reg ++ cfg.userPos.flatten ∧ (∀ q ∈ reg, q.length = 6) ∧
      PosStep (cfg.oov.any ProvCfg.allows) g.pos (g.pos ++ reg) ∧ ld.provs.length = cfg.oov.length ∧
      (PosWF g.pos → g.pos.length ≤ 65536 → ∀ cp ∈ cfg.oov.zip ld.provs, ProvPos (g.pos ++ reg) cp.1 cp.2) := by
  unfold load at h
  split at h
  · split at h
    · rename_i g1 provs hprov
      split at h
      · cases h
      · split at h
        · injection h with h
          subst h
          obtain ⟨s, l, r⟩ := setUpProvs_pos cfg.oov hprov
          obtain ⟨reg, hreg, hw⟩ := s.ext
          refine ⟨reg, by simp only [hreg], hw, by rw [← hreg]; exact s, l, by rw [← hreg]; exact r⟩
        all_goals cases h
    all_goals cases h
  all_goals cases h

/-! ## the lookup without the arity guard (seeded C20c) -/

/-- `zip` semantics: a POS that is a prefix of an entry matches it -/
theorem posMatch_of_prefix : ∀ {p q : Pos}, p <+: q → posMatch p q = true
  | [], q, _ => by simp [posMatch]
  | a :: p, [], h => by
    have := h.length_le
    simp at this
  | a :: p, b :: q, h => by
    have hab : a = b ∧ p <+: q := by
      obtain ⟨t, ht⟩ := h
      simp only [List.cons_append, List.cons.injEq] at ht
      exact ⟨ht.1, ⟨t, ht.2⟩⟩
    have ih := posMatch_of_prefix hab.2
    simp only [posMatch, List.zip_cons_cons, List.all_cons, Bool.and_eq_true, beq_iff_eq] at ih ⊢
    exact ⟨hab.1, ih⟩

theorem getPosIdU_of_prefix {pl : List Pos} {p q : Pos} (hq : q ∈ pl) (hp : p <+: q) :
    ∃ id, getPosIdU pl p = some id := by
  unfold getPosIdU
  have : pl.findIdx (posMatch p) < pl.length := List.findIdx_lt_length_of_exists ⟨q, hq, posMatch_of_prefix hp⟩
  simp only [this, if_true]
  exact ⟨_, rfl⟩

end Params
