import Sudachi.Proofs.Layers
/-!
# The references a compiled dictionary stores (`validate_entries`, `resolve_inline`), property C12
-/
namespace Layers

theorem allO_ok_inv {α : Type} (f : α → Outcome Unit) :
    ∀ (l : List α), allO f l = .ok () → ∀ a ∈ l, f a = .ok ()
  | [], _, a, ha => by cases ha
  | x :: xs, h, a, ha => by
    unfold allO at h
    split at h
    · rename_i u hx
      rcases List.mem_cons.1 ha with rfl | hm
      · cases u; exact hx
      · exact allO_ok_inv f xs h a hm
    · cases h
    · cases h

/-- a stored reference points into the prebuilt (system) dictionary or into the dictionary being compiled -/
def RefInRange (t max0 max1 : Nat) : Prop :=
  (dicOf t = 0 ∧ wordOf t < max0) ∨ (dicOf t = 1 ∧ wordOf t < max1)

theorem validateWid_ok (w m0 m1 : Nat) (h : validateWid w m0 m1 = .ok ()) : RefInRange w m0 m1 := by
  unfold validateWid at h
  split at h
  · rename_i h0
    split at h
    · cases h
    · exact Or.inl ⟨h0, by omega⟩
  · split at h
    · rename_i h1
      split at h
      · cases h
      · exact Or.inr ⟨h1, by omega⟩
    · cases h

theorem validateUnit_ok (u : SUnit) (m0 m1 : Nat) (h : validateUnit m0 m1 u = .ok ()) :
    RefInRange (unitWid u) m0 m1 := by
  cases u with
  | ref w => exact validateWid_ok w m0 m1 h
  | inline s p r => simp [validateUnit] at h

theorem validateEntries_ok (ns : Nat) (es : List Entry) (h : validateEntries (some ns) es = .ok ()) :
    ∀ e ∈ es, ∀ t ∈ (entryWord e).a ++ (entryWord e).b ++ (entryWord e).w, RefInRange t ns es.length := by
  intro e he t ht
  unfold validateEntries at h
  have h1 := allO_ok_inv _ es h e he
  simp only at h1
  split at h1
  · cases h1
  · cases h1
  · rename_i ha
    split at h1
    · cases h1
    · cases h1
    · rename_i hb
      simp only [entryWord, List.mem_append, List.mem_map] at ht
      rcases ht with (⟨u, hu, rfl⟩ | ⟨u, hu, rfl⟩) | hw
      · exact validateUnit_ok u _ _ (allO_ok_inv _ e.a ha u hu)
      · exact validateUnit_ok u _ _ (allO_ok_inv _ e.b hb u hu)
      · exact validateWid_ok t _ _ (allO_ok_inv _ e.w h1 t hw)

theorem readRow_entries_length (r r' : Reader) (row : Row) (h : readRow r row = .ok r') :
    r'.entries.length = r.entries.length + 1 := by
  unfold readRow at h
  split at h
  · cases h
  · cases h
  · split at h
    · cases h
    · cases h
    · split at h
      · cases h
      · cases h
      · split at h
        · cases h
        · cases h
        · split at h
          · cases h
          · cases h; simp

theorem readRows_entries_length : ∀ (rows : List Row) (r r' : Reader), readRows r rows = .ok r' →
    r'.entries.length = r.entries.length + rows.length
  | [], r, r', h => by simp [readRows] at h; subst h; simp
  | row :: rows, r, r', h => by
    unfold readRows at h
    split at h
    · rename_i r1 h1
      rw [readRows_entries_length rows r1 r' h, readRow_entries_length r r1 row h1]
      simp; omega
    · cases h
    · cases h

theorem resolveEntries_length : ∀ (es es' : List Entry) (own sys : List IdxLine),
    resolveEntries own sys es = .ok es' → es'.length = es.length
  | [], es', own, sys, h => by simp [resolveEntries] at h; subst h; rfl
  | e :: es, es', own, sys, h => by
    unfold resolveEntries at h
    split at h
    · cases h
    · cases h
    · split at h
      · cases h
      · cases h
      · split at h
        · cases h
        · cases h
        · rename_i rest hrest
          cases h
          simp [resolveEntries_length es rest own sys hrest]

theorem preloadPos_entries (g : List Pos) : (preloadPos g).entries = [] := rfl

/-- `validate_entries` at work: every reference a successfully compiled USER dictionary stores (A split, B split, word
structure; written as `U<n>`, `<n>` or inline) is either `(0, n)` with `n` below the number of words of the dictionary it
was compiled against, or `(1, n)` with `n` below its own number of rows; and there is one word per row. -/
theorem build_refs_in_range (g : List Pos) (sw : List SysWord) (rows : List Row) (b : Built)
    (h : build (some (g, sw)) rows = .ok b) :
    b.words.length = rows.length ∧
    ∀ wd ∈ b.words, ∀ t ∈ wd.a ++ wd.b ++ wd.w, RefInRange t sw.length rows.length := by
  unfold build at h
  simp only at h
  split at h
  · cases h
  · cases h
  · rename_i r hr
    have hlen := readRows_entries_length rows (preloadPos g) r hr
    rw [preloadPos_entries] at hlen
    simp only [List.length_nil, Nat.zero_add] at hlen
    split at h
    · cases h
    · cases h
    · rename_i es' hres
      have hlen' : es'.length = rows.length := by
        split at hres
        · rw [resolveEntries_length _ _ _ _ hres, hlen]
        · cases hres; exact hlen
      split at h
      · cases h
      · cases h
      · rename_i hval
        cases h
        refine ⟨by simp [hlen'], ?_⟩
        intro wd hwd t ht
        simp only [List.mem_map] at hwd
        obtain ⟨e, he, rfl⟩ := hwd
        have := validateEntries_ok sw.length es' (by simpa using hval) e he t ht
        rw [hlen'] at this
        exact this

/-! ## inline references -/

theorem resolveIn_sound (idx : List IdxLine) (s p : Nat) (r : Option Nat) (w : Nat)
    (h : resolveIn idx s p r = some w) : ∃ l ∈ idx, l.surface = s ∧ l.pos = p ∧ l.reading = r ∧ l.wid = w := by
  unfold resolveIn at h
  split at h
  · rename_i l hl
    cases h
    have hm := List.mem_of_find?_eq_some hl
    have hp := List.find?_some hl
    simp only [Bool.and_eq_true, beq_iff_eq] at hp
    exact ⟨l, hm, hp.1.1, hp.1.2, hp.2, rfl⟩
  · cases h

theorem resolveIn_none (idx : List IdxLine) (s p : Nat) (r : Option Nat) (h : resolveIn idx s p r = none) :
    ∀ l ∈ idx, ¬ (l.surface = s ∧ l.pos = p ∧ l.reading = r) := by
  unfold resolveIn at h
  split at h
  · cases h
  · rename_i hn
    intro l hl hm
    have := List.find?_eq_none.1 hn l hl
    simp [hm.1, hm.2.1, hm.2.2] at this

theorem mem_rawIndexGo (dic : Nat) : ∀ (es : List Entry) (n : Nat) (l : IdxLine), l ∈ rawIndexGo dic es n →
    ∃ i e, es[i]? = some e ∧ l = ⟨e.surface, e.pos, noneIfEqual e.surface e.reading, mkRaw dic (n + i)⟩
  | [], n, l, h => by simp [rawIndexGo] at h
  | e :: es, n, l, h => by
    simp only [rawIndexGo, List.mem_cons] at h
    rcases h with rfl | h
    · exact ⟨0, e, by simp, by simp⟩
    · obtain ⟨i, e', hi, hl⟩ := mem_rawIndexGo dic es (n + 1) l h
      exact ⟨i + 1, e', by simpa using hi, by rw [hl]; congr 2; omega⟩

theorem mem_binIndexGo : ∀ (ws : List SysWord) (n : Nat) (l : IdxLine), l ∈ binIndexGo ws n →
    ∃ i e, ws[i]? = some e ∧ l = ⟨e.headword, e.pos, noneIfEqual e.headword e.reading, mkRaw 0 (n + i)⟩
  | [], n, l, h => by simp [binIndexGo] at h
  | e :: es, n, l, h => by
    simp only [binIndexGo, List.mem_cons] at h
    rcases h with rfl | h
    · exact ⟨0, e, by simp, by simp⟩
    · obtain ⟨i, e', hi, hl⟩ := mem_binIndexGo es (n + 1) l h
      exact ⟨i + 1, e', by simpa using hi, by rw [hl]; congr 2; omega⟩

theorem rawIndexGo_complete (dic : Nat) : ∀ (es : List Entry) (n : Nat) (e : Entry), e ∈ es →
    ∃ l ∈ rawIndexGo dic es n, l.surface = e.surface ∧ l.pos = e.pos ∧ l.reading = noneIfEqual e.surface e.reading
  | [], _, e, h => by cases h
  | x :: xs, n, e, h => by
    rcases List.mem_cons.1 h with rfl | hm
    · exact ⟨⟨e.surface, e.pos, noneIfEqual e.surface e.reading, mkRaw dic n⟩, by simp [rawIndexGo], rfl, rfl, rfl⟩
    · obtain ⟨l, hl, hp⟩ := rawIndexGo_complete dic xs (n + 1) e hm
      exact ⟨l, by simp [rawIndexGo, hl], hp⟩

/-- `ChainedResolver::resolve_inline`: the word an inline reference `surface,POS,reading` resolves to is an entry with
exactly that surface, POS id and reading (readings equal to the surface compare as `None`) — an own entry if ANY own entry
matches (the first such), otherwise the first matching word of the prebuilt dictionary (compared on its headword). -/
theorem resolveChained_sound (es : List Entry) (ws : List SysWord) (user : Bool) (s p : Nat) (r : Option Nat) (w : Nat)
    (h : resolveChained (rawIndex es user) (binIndex ws) s p r = some w) :
    (∃ i e, es[i]? = some e ∧ e.surface = s ∧ e.pos = p ∧ noneIfEqual e.surface e.reading = r ∧
      w = mkRaw (if user then 1 else 0) i) ∨
    ((∀ e ∈ es, ¬ (e.surface = s ∧ e.pos = p ∧ noneIfEqual e.surface e.reading = r)) ∧
      ∃ i x, ws[i]? = some x ∧ x.headword = s ∧ x.pos = p ∧ noneIfEqual x.headword x.reading = r ∧ w = mkRaw 0 i) := by
  unfold resolveChained at h
  split at h
  · rename_i w' hw'
    cases h
    obtain ⟨l, hl, h1, h2, h3, h4⟩ := resolveIn_sound _ s p r w hw'
    obtain ⟨i, e, hi, rfl⟩ := mem_rawIndexGo _ es 0 l hl
    exact Or.inl ⟨i, e, hi, h1, h2, h3, by simpa using h4.symm⟩
  · rename_i hnone
    obtain ⟨l, hl, h1, h2, h3, h4⟩ := resolveIn_sound _ s p r w h
    obtain ⟨i, x, hi, rfl⟩ := mem_binIndexGo ws 0 l hl
    refine Or.inr ⟨?_, i, x, hi, h1, h2, h3, by simpa using h4.symm⟩
    intro e he hm
    have hn : resolveIn (rawIndex es user) s p r = none := hnone
    obtain ⟨l', hl', q1, q2, q3⟩ := rawIndexGo_complete (if user then 1 else 0) es 0 e he
    exact resolveIn_none _ s p r hn l' hl' ⟨by rw [q1]; exact hm.1, by rw [q2]; exact hm.2.1, by rw [q3]; exact hm.2.2⟩

end Layers
