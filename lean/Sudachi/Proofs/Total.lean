import Sudachi.Model.Total
import Sudachi.Proofs.Edit
import Sudachi.Proofs.Oov
/-!
# Proofs about the fixed-width lattice, the casts and the stages of `do_tokenize` (C03)
-/
namespace Total
open Oov (Outcome)

theorem i32max_eq : I32_MAX = 2147483647 := rfl

/-- a checked `i32` addition succeeds when the sum is in range -/
theorem addI32_some (a b : Int) (h1 : -2147483648 ≤ a + b) (h2 : a + b ≤ 2147483647) :
    addI32 a b = some (a + b) := by
  unfold addI32 addW
  rw [i32max_eq, if_pos]
  constructor <;> omega

/-- connection costs come out of an `i16` matrix (`conn.cost(..) as i32`) -/
def I16Conn (conn : Nat → Nat → Int) : Prop := ∀ a b, -32768 ≤ conn a b ∧ conn a b ≤ 32767

/-- entries of a row: not connected (sentinel) or within `±B` -/
def RowBound (B : Int) (row : List Entry) : Prop :=
  ∀ x ∈ row, x.total = I32_MAX ∨ (-B ≤ x.total ∧ x.total ≤ B)

/-- **the loop of `connect_node` does not overflow** when the left neighbours are within `±B`, the
node cost within `±D` and `B + 32768 + D < 2^31`; the minimum it returns is the sentinel or within
`±(B + 32768 + D)` -/
theorem connGo_ok (conn : Nat → Nat → Int) (hconn : I16Conn conn) (n : Vit.Node) (B D : Int)
    (hc : -D ≤ n.c ∧ n.c ≤ D) (hB : B + 32768 + D ≤ 2147483647) :
    ∀ (row : List Entry) (i : Nat) (st : Int × Nat × Nat), RowBound B row →
      (st.1 = I32_MAX ∨ (-(B + 32768 + D) ≤ st.1 ∧ st.1 ≤ B + 32768 + D)) →
      ∃ st', connGo addI32 I32_MAX conn n row i st = some st' ∧
        (st'.1 = I32_MAX ∨ (-(B + 32768 + D) ≤ st'.1 ∧ st'.1 ≤ B + 32768 + D)) := by
  intro row
  induction row with
  | nil => intro i st _ hst; exact ⟨st, rfl, hst⟩
  | cons l rest ih =>
    intro i st hrow hst
    have hrest : RowBound B rest := fun x hx => hrow x (List.mem_cons_of_mem _ hx)
    have hl := hrow l (List.mem_cons_self ..)
    unfold connGo
    by_cases hm : l.total = I32_MAX
    · rw [if_pos hm]; exact ih _ _ hrest hst
    · rw [if_neg hm]
      have hb := hl.resolve_left hm
      have hcc := hconn l.node.r n.l
      rw [addI32_some _ _ (by omega) (by omega)]
      simp only []
      rw [addI32_some _ _ (by omega) (by omega)]
      simp only []
      split
      · exact ih _ _ hrest (Or.inr ⟨by simp only []; omega, by simp only []; omega⟩)
      · exact ih _ _ hrest hst

theorem connectNode_ok (conn : Nat → Nat → Int) (hconn : I16Conn conn) (n : Vit.Node) (B D : Int)
    (hc : -D ≤ n.c ∧ n.c ≤ D) (hB : B + 32768 + D ≤ 2147483647) (row : List Entry) (hrow : RowBound B row) :
    ∃ r, connectNode addI32 I32_MAX conn row n = some r ∧
      (r.1 = I32_MAX ∨ (-(B + 32768 + D) ≤ r.1 ∧ r.1 ≤ B + 32768 + D)) :=
  connGo_ok conn hconn n B D hc hB row 0 _ hrow (Or.inl rfl)

/-- what every stored total satisfies: the sentinel, or within `± 65536 · (end position)` -/
def RowsInv (len : Nat) (rows : Rows) : Prop :=
  rows.size = len + 1 ∧
  ∀ (e : Nat) (row : List Entry), rows[e]? = some row → RowBound ((e : Int) * 65536) row

/-- a candidate as the builder creates it: non-empty, inside the text, `i16` cost -/
def NodeOk (len : Nat) (n : Vit.Node) : Prop :=
  n.b < n.e ∧ n.e ≤ len ∧ -32768 ≤ n.c ∧ n.c ≤ 32767

theorem reset_inv (len : Nat) : RowsInv len (reset len) := by
  refine ⟨by simp [reset], ?_⟩
  intro e row h
  unfold reset at h
  rw [Array.getElem?_setIfInBounds] at h
  split at h
  · rename_i h0
    subst h0
    split at h
    · cases h
      intro x hx
      simp only [List.mem_singleton] at hx
      subst hx
      right; simp [bosEntry]
    · cases h
  · rw [Array.getElem?_replicate] at h
    split at h
    · cases h; intro x hx; cases hx
    · cases h

theorem insert_ok (conn : Nat → Nat → Int) (hconn : I16Conn conn) (len : Nat) (hlen : len ≤ 32767)
    (rows : Rows) (hinv : RowsInv len rows) (n : Vit.Node) (hn : NodeOk len n) :
    ∃ rows' ent, insert addI32 I32_MAX conn rows n = .ok (rows', ent) ∧ RowsInv len rows' := by
  obtain ⟨hsize, hb⟩ := hinv
  obtain ⟨h1, h2, h3, h4⟩ := hn
  have hbs : n.b < rows.size := by omega
  have hes : n.e < rows.size := by omega
  unfold insert
  rw [Array.getElem?_eq_getElem hbs]
  simp only []
  have hrow := hb n.b rows[n.b] (Array.getElem?_eq_getElem hbs)
  obtain ⟨r, hr, hrb⟩ := connectNode_ok conn hconn n ((n.b : Int) * 65536) 32768 ⟨by omega, by omega⟩
    (by omega) rows[n.b] hrow
  obtain ⟨c, pe, pi⟩ := r
  rw [hr]
  simp only []
  rw [Array.getElem?_eq_getElem hes]
  simp only []
  refine ⟨_, _, rfl, ?_, ?_⟩
  · rw [Array.size_setIfInBounds]; exact hsize
  · intro e row h
    rw [Array.getElem?_setIfInBounds] at h
    by_cases he : n.e = e
    · subst he
      rw [if_pos rfl, if_pos hes] at h
      cases h
      intro x hx
      rw [List.mem_append] at hx
      rcases hx with hx | hx
      · exact hb n.e rows[n.e] (Array.getElem?_eq_getElem hes) x hx
      · simp only [List.mem_singleton] at hx
        subst hx
        simp only []
        simp only [] at hrb
        rcases hrb with hrb | hrb
        · exact Or.inl hrb
        · right; constructor <;> omega
    · rw [if_neg he] at h
      exact hb e row h

theorem buildAll_ok (conn : Nat → Nat → Int) (hconn : I16Conn conn) (len : Nat) (hlen : len ≤ 32767) :
    ∀ (nodes : List Vit.Node) (rows : Rows) (acc : List Entry), RowsInv len rows →
      (∀ n ∈ nodes, NodeOk len n) →
      ∃ rows' ents, buildAll addI32 I32_MAX conn nodes rows acc = .ok (rows', ents) ∧ RowsInv len rows' := by
  intro nodes
  induction nodes with
  | nil => intro rows acc hinv _; exact ⟨rows, acc.reverse, rfl, hinv⟩
  | cons n ns ih =>
    intro rows acc hinv hns
    obtain ⟨rows', ent, h1, h2⟩ := insert_ok conn hconn len hlen rows hinv n (hns n (List.mem_cons_self ..))
    unfold buildAll
    rw [h1]
    exact ih rows' (ent :: acc) h2 (fun m hm => hns m (List.mem_cons_of_mem _ hm))

theorem asU16_id (n : Nat) (h : n ≤ 65535) : asU16 n = n := by
  unfold asU16; omega

theorem asU32_id (n : Nat) (h : n ≤ 4294967295) : asU32 n = n := by
  unfold asU32; omega

theorem connectEos_ok (conn : Nat → Nat → Int) (hconn : I16Conn conn) (len : Nat) (hlen : len ≤ 32767)
    (rows : Rows) (hinv : RowsInv len rows) :
    (∃ r, connectEos addI32 I32_MAX conn rows len = .ok r) ∨
      connectEos addI32 I32_MAX conn rows len = .err "Disconnect" := by
  obtain ⟨hsize, hb⟩ := hinv
  have hid : asU16 len = len := asU16_id len (by omega)
  have hls : len < rows.size := by omega
  unfold connectEos eosNode
  simp only [hid]
  rw [Array.getElem?_eq_getElem hls]
  simp only []
  have hrow := hb len rows[len] (Array.getElem?_eq_getElem hls)
  obtain ⟨r, hr, _⟩ := connectNode_ok conn hconn ⟨len, len, 0, 0, 0⟩ ((len : Int) * 65536) 0
    ⟨by simp, by simp⟩ (by omega) rows[len] hrow
  obtain ⟨c, pe, pi⟩ := r
  rw [hr]
  simp only []
  split
  · exact Or.inr rfl
  · exact Or.inl ⟨_, rfl⟩

/-! ## the split iterator (`NodeSplitIterator::next`), repaired variant -/

/-- the only facts the repaired step needs **not to index out of range**: every `mod_b2c` entry up to
byte `nb` exists and is itself an index of `mod_c2b`.  A built buffer has `mod_b2c.len() = bytes + 1`,
`mod_c2b.len() = chars + 1` and `mod_b2c[i] ≤ chars` (`tables_of_text`). -/
def TablesRange (b2c c2b : List Nat) (nb : Nat) : Prop :=
  ∀ i, i ≤ nb → ∃ c : Nat, b2c[i]? = some c ∧ ∃ b : Nat, c2b[c]? = some b

/-- the table invariants of a built `InputBuffer` with `nb` bytes and `nc` characters: `mod_b2c` maps a byte
to the character containing it (sentinel `nc` at `nb`), `mod_c2b` a character to its first byte (sentinel
`nb` at `nc`); both are non-decreasing, `mod_c2b[mod_b2c[i]] ≤ i` (the start of the character containing
byte `i`), and `mod_b2c[mod_c2b[k]] = k`. -/
structure TablesOk (b2c c2b : List Nat) (nb nc : Nat) : Prop where
  b2c_def : ∀ i, i ≤ nb → ∃ c : Nat, b2c[i]? = some c ∧ c ≤ nc
  c2b_def : ∀ k, k ≤ nc → ∃ b : Nat, c2b[k]? = some b ∧ b ≤ nb
  b2c_mono : ∀ i j ci cj : Nat, i ≤ j → b2c[i]? = some ci → b2c[j]? = some cj → ci ≤ cj
  c2b_mono : ∀ i j bi bj : Nat, i ≤ j → c2b[i]? = some bi → c2b[j]? = some bj → bi ≤ bj
  snap_le : ∀ i c b : Nat, b2c[i]? = some c → c2b[c]? = some b → b ≤ i
  b2c_c2b : ∀ k b : Nat, c2b[k]? = some b → b2c[b]? = some k

theorem TablesOk.range {b2c c2b : List Nat} {nb nc : Nat} (h : TablesOk b2c c2b nb nc) :
    TablesRange b2c c2b nb := by
  intro i hi
  obtain ⟨c, hc, hcn⟩ := h.b2c_def i hi
  obtain ⟨b, hb, _⟩ := h.c2b_def c hcn
  exact ⟨c, hc, b, hb⟩

/-- the pair (character offset, byte offset) is the start of a character -/
def At (b2c c2b : List Nat) (c b : Nat) : Prop := b2c[b]? = some c ∧ c2b[c]? = some b

/-- **the repaired step never indexes out of range**, whatever the unit's key length `h` and wherever the
iterator stands (`bs` arbitrary): the clamp keeps the `mod_b2c` index at or below the parent's end. -/
theorem unitEnd_d6fix_ok (b2c c2b : List Nat) (nb : Nat) (hr : TablesRange b2c c2b nb)
    (byteEnd : Nat) (he : byteEnd ≤ nb) (bs h : Nat) :
    ∃ ce be, unitEnd .d6fix b2c c2b byteEnd bs h = .ok (ce, be) := by
  have hm : min (bs + h) byteEnd ≤ nb := Nat.le_trans (Nat.min_le_right _ _) he
  obtain ⟨c, hc, b, hb⟩ := hr _ hm
  exact ⟨asU16 c, asU16 b, by simp only [unitEnd, hc, hb]⟩

theorem splitGo_d6fix_ok (b2c c2b : List Nat) (nb : Nat) (hr : TablesRange b2c c2b nb)
    (charEnd byteEnd : Nat) (he : byteEnd ≤ nb) :
    ∀ (units : List Nat) (cs bs : Nat), ∃ us, splitGo .d6fix b2c c2b charEnd byteEnd units cs bs = .ok us
  | [], _, _ => ⟨[], rfl⟩
  | [_], cs, bs => ⟨[⟨cs, charEnd, bs, byteEnd⟩], rfl⟩
  | h :: u :: rest, cs, bs => by
    obtain ⟨ce, be, hue⟩ := unitEnd_d6fix_ok b2c c2b nb hr byteEnd he bs h
    obtain ⟨us, hus⟩ := splitGo_d6fix_ok b2c c2b nb hr charEnd byteEnd he (u :: rest) ce be
    exact ⟨⟨cs, ce, bs, be⟩ :: us, by simp only [splitGo, hue, hus]⟩

theorem splitPath_d6fix_ok (b2c c2b : List Nat) (nb : Nat) (hr : TablesRange b2c c2b nb) :
    ∀ (path : List (NodeRange × List Nat)), (∀ p ∈ path, p.1.eb ≤ nb) →
      ∃ ms, splitPath .d6fix b2c c2b path = .ok ms
  | [], _ => ⟨[], rfl⟩
  | (n, units) :: rest, hp => by
    obtain ⟨ms, hms⟩ := splitPath_d6fix_ok b2c c2b nb hr rest (fun p h => hp p (List.mem_cons_of_mem _ h))
    have hn : n.eb ≤ nb := hp (n, units) (List.mem_cons_self ..)
    by_cases hl : units.length ≤ 1
    · exact ⟨[n] ++ ms, by simp only [splitPath, if_pos hl, hms]⟩
    · obtain ⟨us, hus⟩ := splitGo_d6fix_ok b2c c2b nb hr n.ec n.eb hn units n.bc n.bb
      exact ⟨us ++ ms, by simp only [splitPath, if_neg hl, split, hus, hms]⟩

/-- a unit lies inside its parent, runs forward, and both its ends are character starts -/
def UnitOk (b2c c2b : List Nat) (n u : NodeRange) : Prop :=
  n.bb ≤ u.bb ∧ u.bb ≤ u.eb ∧ u.eb ≤ n.eb ∧ n.bc ≤ u.bc ∧ u.bc ≤ u.ec ∧ u.ec ≤ n.ec ∧
    At b2c c2b u.bc u.bb ∧ At b2c c2b u.ec u.eb

/-- the units are laid end to end from `(cs, bs)` to `(ce, be)` -/
def Tiles : List NodeRange → Nat → Nat → Nat → Nat → Prop
  | [], cs, bs, ce, be => cs = ce ∧ bs = be
  | u :: us, cs, bs, ce, be => u.bc = cs ∧ u.bb = bs ∧ Tiles us u.ec u.eb ce be

/-- one repaired step from a character start inside the parent: the new position is again a character
start, not before the old one and not after the parent's end; the casts are the identity -/
theorem unitEnd_d6fix_spec (b2c c2b : List Nat) (nb nc : Nat) (ht : TablesOk b2c c2b nb nc)
    (hnb : nb ≤ 65535) (hnc : nc ≤ 65535) (charEnd byteEnd : Nat) (he : byteEnd ≤ nb)
    (hpe : At b2c c2b charEnd byteEnd) (cs bs h : Nat) (hat : At b2c c2b cs bs) (hbs : bs ≤ byteEnd) :
    ∃ ce be, unitEnd .d6fix b2c c2b byteEnd bs h = .ok (ce, be) ∧ At b2c c2b ce be ∧
      bs ≤ be ∧ be ≤ byteEnd ∧ cs ≤ ce ∧ ce ≤ charEnd := by
  have hmle : min (bs + h) byteEnd ≤ byteEnd := Nat.min_le_right _ _
  have hbm : bs ≤ min (bs + h) byteEnd := Nat.le_min.mpr ⟨Nat.le_add_right _ _, hbs⟩
  obtain ⟨c, hc, hcn⟩ := ht.b2c_def _ (Nat.le_trans hmle he)
  obtain ⟨b, hb, hbn⟩ := ht.c2b_def c hcn
  have h1 : cs ≤ c := ht.b2c_mono _ _ _ _ hbm hat.1 hc
  have h2 : bs ≤ b := ht.c2b_mono _ _ _ _ h1 hat.2 hb
  have h3 : b ≤ min (bs + h) byteEnd := ht.snap_le _ _ _ hc hb
  have h4 : c ≤ charEnd := ht.b2c_mono _ _ _ _ hmle hc hpe.1
  refine ⟨c, b, ?_, ⟨ht.b2c_c2b _ _ hb, hb⟩, h2, Nat.le_trans h3 hmle, h1, h4⟩
  simp only [unitEnd, hc, hb, asU16_id c (by omega), asU16_id b (by omega)]

theorem splitGo_d6fix_spec (b2c c2b : List Nat) (nb nc : Nat) (ht : TablesOk b2c c2b nb nc)
    (hnb : nb ≤ 65535) (hnc : nc ≤ 65535) (n : NodeRange) (he : n.eb ≤ nb)
    (hpe : At b2c c2b n.ec n.eb) :
    ∀ (units : List Nat) (cs bs : Nat), units ≠ [] → At b2c c2b cs bs → n.bb ≤ bs → bs ≤ n.eb → n.bc ≤ cs →
      ∃ us, splitGo .d6fix b2c c2b n.ec n.eb units cs bs = .ok us ∧ Tiles us cs bs n.ec n.eb ∧
        ∀ u ∈ us, UnitOk b2c c2b n u
  | [], _, _, hne, _, _, _, _ => absurd rfl hne
  | [_], cs, bs, _, hat, h1, h2, h3 => by
    have hce : cs ≤ n.ec := ht.b2c_mono _ _ _ _ h2 hat.1 hpe.1
    refine ⟨[⟨cs, n.ec, bs, n.eb⟩], rfl, ⟨rfl, rfl, rfl, rfl⟩, ?_⟩
    intro u hu
    simp only [List.mem_singleton] at hu
    subst hu
    exact ⟨h1, h2, Nat.le_refl _, h3, hce, Nat.le_refl _, hat, hpe⟩
  | h :: u :: rest, cs, bs, _, hat, h1, h2, h3 => by
    obtain ⟨ce, be, hue, hat', g1, g2, g3, g4⟩ :=
      unitEnd_d6fix_spec b2c c2b nb nc ht hnb hnc n.ec n.eb he hpe cs bs h hat h2
    obtain ⟨us, hus, htile, hall⟩ := splitGo_d6fix_spec b2c c2b nb nc ht hnb hnc n he hpe (u :: rest) ce be
      (by simp) hat' (Nat.le_trans h1 g1) g2 (Nat.le_trans h3 g3)
    refine ⟨⟨cs, ce, bs, be⟩ :: us, by simp only [splitGo, hue, hus], ⟨rfl, rfl, htile⟩, ?_⟩
    intro x hx
    rcases List.mem_cons.mp hx with hx | hx
    · subst hx
      exact ⟨h1, g1, g2, h3, g3, g4, hat, hat'⟩
    · exact hall x hx

/-! ### the tables of a text satisfy the range facts -/

theorem b2cFrom_length : ∀ (t : List Nat) (cnt : Nat), (EditM.b2cFrom cnt t).length = t.length
  | [], _ => rfl
  | b :: bs, cnt => by simp [EditM.b2cFrom, b2cFrom_length bs]

theorem b2cFrom_le : ∀ (t : List Nat) (cnt : Nat), ∀ x ∈ EditM.b2cFrom cnt t, x + 1 ≤ cnt + EditM.nchars t ∨ x = 0
  | [], _, x, hx => by simp [EditM.b2cFrom] at hx
  | b :: bs, cnt, x, hx => by
    simp only [EditM.b2cFrom, List.mem_cons] at hx
    have hn : EditM.nchars (b :: bs) = (if EditM.isStart b then 1 else 0) + EditM.nchars bs := by
      unfold EditM.nchars
      by_cases hb : EditM.isStart b = true
      · simp [List.filter, hb]; omega
      · simp [List.filter, hb]
    rcases hx with hx | hx
    · by_cases hb : EditM.isStart b = true
      · simp only [hb, if_true] at hx hn; left; omega
      · simp only [hb] at hx hn
        by_cases h0 : cnt = 0
        · right; subst h0; simpa using hx
        · left; simp at hx; omega
    · rcases b2cFrom_le bs _ x hx with h | h
      · left
        by_cases hb : EditM.isStart b = true
        · simp only [hb, if_true] at h hn; omega
        · simp only [hb] at h hn; simp at h; omega
      · exact Or.inr h

/-- `mod_b2c`/`mod_c2b` of a text with at least one character start: every `mod_b2c` entry exists up to the
text length and is an index of `mod_c2b` -/
theorem tables_of_text (t : List Nat) (h1 : 1 ≤ EditM.nchars t) :
    TablesRange (EditM.b2c t) (EditM.c2b t) t.length := by
  intro i hi
  have hlen : (EditM.b2c t).length = t.length + 1 := by simp [EditM.b2c, b2cFrom_length]
  have hi' : i < (EditM.b2c t).length := by omega
  obtain ⟨x, hx⟩ : ∃ x, (EditM.b2c t)[i]? = some x := ⟨_, List.getElem?_eq_getElem hi'⟩
  refine ⟨x, hx, ?_⟩
  have hc : x ≤ EditM.nchars t := by
    have hm : x ∈ EditM.b2c t := List.mem_of_getElem? hx
    unfold EditM.b2c at hm
    rw [List.mem_append] at hm
    rcases hm with hm | hm
    · rcases b2cFrom_le t 0 _ hm with h | h <;> omega
    · simp only [List.mem_singleton] at hm
      rw [hm]; split <;> omega
  have hcl := EditM.c2b_length t
  exact ⟨_, List.getElem?_eq_getElem (by omega)⟩

/-! ### the tables of a text satisfy the full invariants -/

theorem nchars_cons (b : Nat) (bs : List Nat) :
    EditM.nchars (b :: bs) = (if EditM.isStart b = true then 1 else 0) + EditM.nchars bs := by
  unfold EditM.nchars
  by_cases hb : EditM.isStart b = true
  · simp [List.filter, hb]; omega
  · simp [List.filter, hb]

/-- number of character starts among the first `i` bytes is non-decreasing in `i` -/
theorem nchars_take_mono (t : List Nat) (i j : Nat) (h : i ≤ j) :
    EditM.nchars (t.take i) ≤ EditM.nchars (t.take j) := by
  have e : t.take i = (t.take j).take i := by rw [List.take_take, Nat.min_eq_left h]
  unfold EditM.nchars
  rw [e]
  exact ((List.take_sublist i (t.take j)).filter _).length_le

theorem nchars_take_all (t : List Nat) : EditM.nchars (t.take t.length) = EditM.nchars t := by
  rw [List.take_length]

/-- `mod_b2c[i]` (without the sentinel) = number of character starts among the bytes `0..=i`, minus one -/
theorem b2cFrom_getElem : ∀ (t : List Nat) (cnt i : Nat), i < t.length →
    (EditM.b2cFrom cnt t)[i]? = some (cnt + EditM.nchars (t.take (i + 1)) - 1)
  | [], _, i, h => by simp at h
  | b :: bs, cnt, 0, _ => by
    simp only [EditM.b2cFrom, List.getElem?_cons_zero, List.take_succ_cons, List.take_zero, nchars_cons]
    by_cases hb : EditM.isStart b = true <;> simp [hb, EditM.nchars]
  | b :: bs, cnt, i + 1, h => by
    have hi : i < bs.length := by simpa using h
    simp only [EditM.b2cFrom, List.getElem?_cons_succ, List.take_succ_cons, nchars_cons]
    rw [b2cFrom_getElem bs _ i hi]
    by_cases hb : EditM.isStart b = true
    · simp only [hb, if_true]; congr 1; omega
    · simp only [hb]; congr 1; simp

/-- `mod_c2b[k]` (without the sentinel) = the byte `b` with exactly `k` character starts before it that is itself
a character start -/
theorem c2bFrom_getElem : ∀ (t : List Nat) (o k : Nat), k < EditM.nchars t →
    ∃ b, (EditM.c2bFrom o t)[k]? = some (o + b) ∧ b < t.length ∧ EditM.nchars (t.take b) = k ∧
      EditM.nchars (t.take (b + 1)) = k + 1
  | [], _, k, h => by simp [EditM.nchars] at h
  | b0 :: bs, o, k, h => by
    rw [nchars_cons] at h
    by_cases hb : EditM.isStart b0 = true
    · simp only [hb, if_true] at h
      cases k with
      | zero =>
        refine ⟨0, by simp [EditM.c2bFrom, hb], by simp, by simp [EditM.nchars], ?_⟩
        simp [List.take_succ_cons, hb, EditM.nchars]
      | succ k' =>
        obtain ⟨b, h1, h2, h3, h4⟩ := c2bFrom_getElem bs (o + 1) k' (by omega)
        refine ⟨b + 1, ?_, by simp; omega, ?_, ?_⟩
        · simp only [EditM.c2bFrom, hb, if_true, List.getElem?_cons_succ, h1]; congr 1; omega
        · simp only [List.take_succ_cons, nchars_cons, hb, if_true, h3]; omega
        · simp only [List.take_succ_cons, nchars_cons, hb, if_true, h4]; omega
    · have hb' : EditM.isStart b0 = false := by simpa using hb
      simp only [hb'] at h
      obtain ⟨b, h1, h2, h3, h4⟩ := c2bFrom_getElem bs (o + 1) k (by simpa using h)
      refine ⟨b + 1, ?_, by simp; omega, ?_, ?_⟩
      · have e : o + 1 + b = o + (b + 1) := by omega
        simp [EditM.c2bFrom, hb', h1, e]
      · simp [List.take_succ_cons, nchars_cons, hb', h3]
      · simp [List.take_succ_cons, nchars_cons, hb', h4]

/-- **the tables `InputBuffer::build` fills (`mod_b2c`, `mod_c2b` as modelled in `Model/Edit.lean`) satisfy
`TablesOk`** for every text whose first byte is a character start (every non-empty UTF-8 text:
`nchars_pos_of_utf8`) -/
theorem tablesOk_of_text (t : List Nat) (b0 : Nat) (rest : List Nat) (ht : t = b0 :: rest)
    (hs : EditM.isStart b0 = true) :
    TablesOk (EditM.b2c t) (EditM.c2b t) t.length (EditM.nchars t) := by
  have hN : 1 ≤ EditM.nchars t := by rw [ht, nchars_cons, hs]; simp
  have hsb1 : ∀ j, 1 ≤ j → 1 ≤ EditM.nchars (t.take j) := by
    intro j hj
    have := nchars_take_mono t 1 j hj
    have e : EditM.nchars (t.take 1) = 1 := by rw [ht]; simp [List.take_succ_cons, hs, EditM.nchars]
    omega
  have hsbN : ∀ j, EditM.nchars (t.take j) ≤ EditM.nchars t := by
    intro j
    unfold EditM.nchars
    exact ((List.take_sublist j t).filter _).length_le
  have hbl : (EditM.b2cFrom 0 t).length = t.length := b2cFrom_length t 0
  have hcl : (EditM.c2bFrom 0 t).length = EditM.nchars t := EditM.c2bFrom_length t 0
  have hsent : (if EditM.nchars t = 0 then 1 else EditM.nchars t) = EditM.nchars t := by
    rw [if_neg (by omega)]
  -- getters
  have gb_lt : ∀ i, i < t.length → (EditM.b2c t)[i]? = some (EditM.nchars (t.take (i + 1)) - 1) := by
    intro i hi
    unfold EditM.b2c
    rw [List.getElem?_append_left (by omega), b2cFrom_getElem t 0 i hi]; simp
  have gb_L : (EditM.b2c t)[t.length]? = some (EditM.nchars t) := by
    unfold EditM.b2c
    rw [List.getElem?_append_right (by omega), hbl, hsent]; simp
  have gb_dom : ∀ i c, (EditM.b2c t)[i]? = some c → i ≤ t.length := by
    intro i c h
    have := (List.getElem?_eq_some_iff.mp h).1
    simp [EditM.b2c, hbl] at this; omega
  have gc_lt : ∀ k, k < EditM.nchars t → ∃ b, (EditM.c2b t)[k]? = some b ∧ b < t.length ∧
      EditM.nchars (t.take b) = k ∧ EditM.nchars (t.take (b + 1)) = k + 1 := by
    intro k hk
    obtain ⟨b, h1, h2, h3, h4⟩ := c2bFrom_getElem t 0 k hk
    refine ⟨b, ?_, h2, h3, h4⟩
    unfold EditM.c2b
    rw [List.getElem?_append_left (by omega), h1]; simp
  have gc_N : (EditM.c2b t)[EditM.nchars t]? = some t.length := EditM.c2b_last t
  have gc_dom : ∀ k b, (EditM.c2b t)[k]? = some b → k ≤ EditM.nchars t := by
    intro k b h
    have := (List.getElem?_eq_some_iff.mp h).1
    rw [EditM.c2b_length] at this; omega
  -- value of `mod_b2c` at any defined index
  have gb_val : ∀ i c, (EditM.b2c t)[i]? = some c →
      (i < t.length ∧ c = EditM.nchars (t.take (i + 1)) - 1) ∨ (i = t.length ∧ c = EditM.nchars t) := by
    intro i c h
    have hd := gb_dom i c h
    rcases Nat.lt_or_ge i t.length with hi | hi
    · left; rw [gb_lt i hi] at h; exact ⟨hi, (Option.some.inj h).symm⟩
    · right
      have : i = t.length := by omega
      subst this; rw [gb_L] at h; exact ⟨rfl, (Option.some.inj h).symm⟩
  refine ⟨?_, ?_, ?_, ?_, ?_, ?_⟩
  · intro i hi
    rcases Nat.lt_or_ge i t.length with h | h
    · exact ⟨_, gb_lt i h, by have := hsbN (i + 1); omega⟩
    · have : i = t.length := by omega
      subst this; exact ⟨_, gb_L, Nat.le_refl _⟩
  · intro k hk
    rcases Nat.lt_or_ge k (EditM.nchars t) with h | h
    · obtain ⟨b, h1, h2, _⟩ := gc_lt k h; exact ⟨b, h1, by omega⟩
    · have : k = EditM.nchars t := by omega
      subst this; exact ⟨_, gc_N, Nat.le_refl _⟩
  · intro i j ci cj hij h1 h2
    have m := nchars_take_mono t (i + 1) (j + 1) (by omega)
    have n1 := hsbN (i + 1)
    have n2 := hsbN (j + 1)
    rcases gb_val i ci h1 with ⟨a1, a2⟩ | ⟨a1, a2⟩ <;> rcases gb_val j cj h2 with ⟨b1, b2⟩ | ⟨b1, b2⟩ <;> omega
  · intro i j bi bj hij h1 h2
    rcases Nat.eq_or_lt_of_le hij with h | h
    · subst h; rw [h1] at h2; cases h2; exact Nat.le_refl _
    · obtain ⟨hi, e1⟩ := List.getElem?_eq_some_iff.mp h1
      obtain ⟨hj, e2⟩ := List.getElem?_eq_some_iff.mp h2
      have := (List.pairwise_iff_getElem.mp (EditM.c2b_spec t).1) i j hi hj h
      omega
  · intro i c b h1 h2
    rcases gb_val i c h1 with ⟨a1, a2⟩ | ⟨a1, a2⟩
    · have p1 := hsb1 (i + 1) (by omega)
      have p2 := hsbN (i + 1)
      obtain ⟨b', g1, g2, g3, _⟩ := gc_lt c (by omega)
      rw [g1] at h2; cases h2
      rcases Nat.lt_or_ge i b with hlt | hge
      · have := nchars_take_mono t (i + 1) b hlt; omega
      · exact hge
    · subst a1; subst a2; rw [gc_N] at h2; cases h2; exact Nat.le_refl _
  · intro k b h
    have hk := gc_dom k b h
    rcases Nat.lt_or_ge k (EditM.nchars t) with hlt | hge
    · obtain ⟨b', g1, g2, _, g4⟩ := gc_lt k hlt
      rw [g1] at h; cases h
      rw [gb_lt b g2, g4]; simp
    · have : k = EditM.nchars t := by omega
      subst this; rw [gc_N] at h; cases h; exact gb_L

/-- a non-empty text that decodes as UTF-8 begins with a character start -/
theorem nchars_pos_of_utf8 (t : List Nat) (chars : List Nat) (hd : Wire.utf8Decode t = some chars)
    (hne : chars.isEmpty = false) : 1 ≤ EditM.nchars t := by
  cases t with
  | nil => simp [Wire.utf8Decode] at hd; subst hd; simp at hne
  | cons b0 rest =>
    have hs : EditM.isStart b0 = true := by
      unfold EditM.isStart
      by_cases h1 : b0 < 0x80
      · simp; omega
      · by_cases h2 : b0 < 0xC0
        · rw [Wire.utf8Decode.eq_def] at hd; simp only [] at hd; rw [if_neg h1, if_pos h2] at hd; cases hd
        · simp; omega
    unfold EditM.nchars
    simp [List.filter, hs]

/-- `mod_c2b` entries never exceed the text length (sentinel included), so neither do their `as u16` casts -/
theorem asU16_le (n : Nat) : asU16 n ≤ n := Nat.mod_le _ _

/-! ## outcomes -/

def NoPanic {α : Type} (o : Outcome α) : Prop := ∀ w, o ≠ .panic w

theorem rewriteInput_noPanic (lv : EditM.LenV) :
    ∀ (ps : List (List Nat → Outcome (List (EditM.Edit Nat)))) (l : List (EditM.P Nat)),
      (∀ p ∈ ps, ∀ t, NoPanic (p t)) → NoPanic (rewriteInput lv ps l) := by
  intro ps
  induction ps with
  | nil => intro l _ w h; simp [rewriteInput] at h
  | cons p ps ih =>
    intro l hp w h
    unfold rewriteInput at h
    have h1 := hp p (List.mem_cons_self ..) (EditM.textOf l)
    cases hq : p (EditM.textOf l) with
    | ok es =>
      rw [hq] at h
      simp only [] at h
      cases hc : EditM.commitV lv l es with
      | none => rw [hc] at h; simp at h
      | some l' =>
        rw [hc] at h
        exact ih l' (fun q hq' => hp q (List.mem_cons_of_mem _ hq')) w h
    | err k => rw [hq] at h; simp at h
    | panic w' => exact h1 w' hq

/-- `rewrite_input` fails only with the input-too-long error when the plugins themselves do not fail -/
theorem rewriteInput_err (lv : EditM.LenV) :
    ∀ (ps : List (List Nat → Outcome (List (EditM.Edit Nat)))) (l : List (EditM.P Nat)),
      (∀ p ∈ ps, ∀ t, ∃ es, p t = .ok es) → ∀ k, rewriteInput lv ps l = .err k → k = "TooLong" := by
  intro ps
  induction ps with
  | nil => intro l _ k h; simp [rewriteInput] at h
  | cons p ps ih =>
    intro l hp k h
    unfold rewriteInput at h
    obtain ⟨es, hes⟩ := hp p (List.mem_cons_self ..) (EditM.textOf l)
    rw [hes] at h
    simp only [] at h
    cases hc : EditM.commitV lv l es with
    | none => rw [hc] at h; simp at h; exact h.symm
    | some l' =>
      rw [hc] at h
      exact ih l' (fun q hq' => hp q (List.mem_cons_of_mem _ hq')) k h

/-! ## `morphRangeC` / `morphRangeB` are defined for nodes inside the text -/

theorem c2b_getElem_le (t : List Nat) (i x : Nat) (h : (EditM.c2b t)[i]? = some x) : x ≤ t.length := by
  have hm : x ∈ EditM.c2b t := List.mem_of_getElem? h
  rcases (EditM.c2b_spec t).2 x hm with h1 | ⟨h1, _⟩
  · omega
  · omega

theorem c2b_getElem_some (t : List Nat) (i : Nat) (h : i ≤ EditM.nchars t) : ∃ x, (EditM.c2b t)[i]? = some x := by
  have := EditM.c2b_length t
  have hi : i < (EditM.c2b t).length := by omega
  exact ⟨_, List.getElem?_eq_getElem hi⟩

theorem toOrigByteIdx_some {st : Nat → Bool} {Bo : Nat → Prop} {N : Nat} (l : List (EditM.P Nat))
    (hinv : EditM.Inv st Bo N l) (ci : Nat) (h : ci ≤ EditM.nchars (EditM.textOf l)) :
    ∃ ob, EditM.toOrigByteIdx l ci = some ob ∧ ob ≤ N := by
  obtain ⟨x, hx⟩ := c2b_getElem_some (EditM.textOf l) ci h
  have hxl := c2b_getElem_le _ _ _ hx
  have hlen := EditM.shape_length hinv.shape
  have hlt : x < l.length := by omega
  refine ⟨EditM.valAt l x, ?_, EditM.inv_le_last hinv x hxl⟩
  unfold EditM.toOrigByteIdx
  rw [hx]
  exact EditM.snds_getElem? l x hlt

/-! ## `resolve_best_path`: byte ends are inside the text -/

theorem mapM_mem {α β : Type} (f : α → Outcome β) : ∀ (as : List α) (bs : List β), mapM f as = .ok bs →
    ∀ b ∈ bs, ∃ a ∈ as, f a = .ok b
  | [], bs, h, b, hb => by simp [mapM] at h; subst h; cases hb
  | a :: as, bs, h, b, hb => by
    unfold mapM at h
    cases h1 : f a with
    | err k => rw [h1] at h; cases h
    | panic w => rw [h1] at h; cases h
    | ok b1 =>
      rw [h1] at h; simp only [] at h
      cases h2 : mapM f as with
      | err k => rw [h2] at h; cases h
      | panic w => rw [h2] at h; cases h
      | ok bs1 =>
        rw [h2] at h; simp only [] at h
        cases h
        rcases List.mem_cons.mp hb with hb | hb
        · subst hb; exact ⟨a, List.mem_cons_self .., h1⟩
        · obtain ⟨a', ha', hf⟩ := mapM_mem f as bs1 h2 b hb
          exact ⟨a', List.mem_cons_of_mem _ ha', hf⟩

/-- `to_curr_byte_idx(end) as u16` of a node of the path is at most the length of the text -/
theorem resultNode_eb_le (t : List Nat) (ent : Entry) (r : NodeRange)
    (h : resultNode (EditM.c2b t) ent = .ok r) : r.bb ≤ t.length ∧ r.eb ≤ t.length := by
  unfold resultNode at h
  cases h1 : (EditM.c2b t)[ent.node.b]? with
  | none => rw [h1] at h; simp at h
  | some bb =>
    cases h2 : (EditM.c2b t)[ent.node.e]? with
    | none => rw [h1, h2] at h; simp at h
    | some eb =>
      rw [h1, h2] at h; simp only [] at h
      cases h
      have a1 := c2b_getElem_le t _ _ h1
      have a2 := c2b_getElem_le t _ _ h2
      have b1 := asU16_le bb
      have b2 := asU16_le eb
      simp only []
      omega

/-! ## `lattice_index_in_range`: back-pointers and `mod_c2b` indices of the nodes on the best path -/

section ConnPtr
variable (add : Int → Int → Option Int) (M : Int) (conn : Nat → Nat → Int)

/-- the state of `connect_node`'s loop points at a connected entry of the row it scans -/
def Ptr (M : Int) (n : Vit.Node) (full : List Entry) (st : Int × Nat × Nat) : Prop :=
  ∃ j l, full[j]? = some l ∧ l.total ≠ M ∧ st.2.1 = asU16 n.b ∧ st.2.2 = asU32 j

/-- the loop of `connect_node` keeps "the minimum is still the sentinel, or the back-pointer designates an entry
of the scanned row that is connected to BOS" (`i` = the enumerate counter = position of the suffix in the row) -/
theorem connGo_ptr (n : Vit.Node) (full : List Entry) :
    ∀ (suffix : List Entry) (i : Nat) (st st' : Int × Nat × Nat), full.drop i = suffix →
      (st.1 = M ∨ Ptr M n full st) → connGo add M conn n suffix i st = some st' →
      (st'.1 = M ∨ Ptr M n full st')
  | [], _, st, st', _, hst, h => by
    simp only [connGo] at h; cases h; exact hst
  | l :: rest, i, st, st', hd, hst, h => by
    have hl : full[i]? = some l := by
      have := congrArg (fun x => x[0]?) hd
      simpa [List.getElem?_drop] using this
    have hd' : full.drop (i + 1) = rest := by
      have := congrArg (List.drop 1) hd
      simpa [List.drop_drop] using this
    unfold connGo at h
    by_cases hm : l.total = M
    · rw [if_pos hm] at h
      exact connGo_ptr n full rest (i + 1) st st' hd' hst h
    · rw [if_neg hm] at h
      cases h1 : add l.total (conn l.node.r n.l) with
      | none => rw [h1] at h; cases h
      | some x =>
        rw [h1] at h; simp only [] at h
        cases h2 : add x n.c with
        | none => rw [h2] at h; cases h
        | some nc =>
          rw [h2] at h; simp only [] at h
          by_cases hlt : nc < st.1
          · rw [if_pos hlt] at h
            exact connGo_ptr n full rest (i + 1) _ st' hd' (Or.inr ⟨i, l, hl, hm, rfl, rfl⟩) h
          · rw [if_neg hlt] at h
            exact connGo_ptr n full rest (i + 1) st st' hd' hst h

theorem connectNode_ptr (n : Vit.Node) (row : List Entry) (r : Int × Nat × Nat)
    (h : connectNode add M conn row n = some r) : r.1 = M ∨ Ptr M n row r :=
  connGo_ptr add M conn n row row 0 _ r rfl (Or.inl rfl) h

end ConnPtr

/-- an entry is stored in the row of its end, begins before it, and is either not connected to BOS (sentinel) or
its back-pointer is `(begin, index of a connected entry of row begin)`; `rows` as in `Lattice`: row 0 holds the
BOS entry.  `rest` = the candidates still to be inserted: no row ever exceeds 2^32 entries (the width of `NodeIdx.index`; 65536 before the repair 9fb3dd8). -/
structure PathInv (len : Nat) (rest : List Vit.Node) (rows : Rows) : Prop where
  size : rows.size = len + 1
  small : ∀ (e : Nat) (row : List Entry), rows[e]? = some row → row.length + rest.countP (fun n => n.e == e) ≤ 4294967296
  ent : ∀ (e : Nat) (row : List Entry) (i : Nat) (x : Entry), 1 ≤ e → rows[e]? = some row → row[i]? = some x →
    x.node.e = e ∧ x.node.b < e ∧
    (x.total = I32_MAX ∨ (x.pe = x.node.b ∧
      (x.node.b = 0 ∨ ∃ (row' : List Entry) (p : Entry), rows[x.node.b]? = some row' ∧ row'[x.pi]? = some p ∧ p.total ≠ I32_MAX)))

theorem reset_pathInv (len : Nat) (nodes : List Vit.Node)
    (hcnt : ∀ e, nodes.countP (fun n => n.e == e) ≤ 4294967295) : PathInv len nodes (reset len) := by
  have hget : ∀ e row, (reset len)[e]? = some row → row.length ≤ 1 ∧ (1 ≤ e → row = []) := by
    intro e row h
    unfold reset at h
    rw [Array.getElem?_setIfInBounds] at h
    split at h
    · rename_i h0
      subst h0
      split at h
      · cases h; exact ⟨by simp, fun h1 => absurd h1 (by omega)⟩
      · cases h
    · rw [Array.getElem?_replicate] at h
      split at h
      · cases h; exact ⟨by simp, fun _ => rfl⟩
      · cases h
  refine ⟨by simp [reset], ?_, ?_⟩
  · intro e row h
    have := (hget e row h).1
    have := hcnt e
    omega
  · intro e row i x he h hx
    rw [(hget e row h).2 he] at hx
    simp at hx

/-- one `insert` keeps the path invariant (no arithmetic involved: whatever the costs are) -/
theorem insert_pathInv (add : Int → Int → Option Int) (conn : Nat → Nat → Int) (len : Nat) (hlen : len ≤ 65535)
    (rest : List Vit.Node) (rows : Rows) (n : Vit.Node) (hinv : PathInv len (n :: rest) rows)
    (hn : n.b < n.e ∧ n.e ≤ len) (rows' : Rows) (ent : Entry)
    (h : insert add I32_MAX conn rows n = .ok (rows', ent)) : PathInv len rest rows' := by
  obtain ⟨hsize, hsmall, hent⟩ := hinv
  unfold insert at h
  cases hb : rows[n.b]? with
  | none => rw [hb] at h; cases h
  | some rowB =>
    rw [hb] at h; simp only [] at h
    cases hc : connectNode add I32_MAX conn rowB n with
    | none => rw [hc] at h; cases h
    | some r =>
      obtain ⟨c, pe, pi⟩ := r
      rw [hc] at h; simp only [] at h
      cases he : rows[n.e]? with
      | none => rw [he] at h; cases h
      | some rowE =>
        rw [he] at h; simp only [] at h
        cases h
        have hes : n.e < rows.size := by omega
        -- rows only grow
        have grow : ∀ (b : Nat) (row : List Entry), rows[b]? = some row →
            ∃ row'' : List Entry, (rows.setIfInBounds n.e (rowE ++ [⟨n, c, pe, pi⟩]))[b]? = some row'' ∧
            ∀ (j : Nat) (p : Entry), row[j]? = some p → row''[j]? = some p := by
          intro b row hrow
          rw [Array.getElem?_setIfInBounds]
          by_cases hbe : n.e = b
          · subst hbe
            rw [if_pos rfl, if_pos hes]
            rw [he] at hrow; cases hrow
            refine ⟨_, rfl, ?_⟩
            intro j p hj
            have hjl : j < rowE.length := (List.getElem?_eq_some_iff.mp hj).1
            rw [List.getElem?_append_left hjl]; exact hj
          · rw [if_neg hbe]; exact ⟨row, hrow, fun _ _ hj => hj⟩
        have keep : ∀ x : Entry, (x.total = I32_MAX ∨ (x.pe = x.node.b ∧
              (x.node.b = 0 ∨ ∃ row' p, rows[x.node.b]? = some row' ∧ row'[x.pi]? = some p ∧ p.total ≠ I32_MAX))) →
            (x.total = I32_MAX ∨ (x.pe = x.node.b ∧
              (x.node.b = 0 ∨ ∃ row' p, (rows.setIfInBounds n.e (rowE ++ [⟨n, c, pe, pi⟩]))[x.node.b]? = some row' ∧
                row'[x.pi]? = some p ∧ p.total ≠ I32_MAX))) := by
          intro x hx
          rcases hx with hx | ⟨h1, h2⟩
          · exact Or.inl hx
          · refine Or.inr ⟨h1, ?_⟩
            rcases h2 with h2 | ⟨row', p, g1, g2, g3⟩
            · exact Or.inl h2
            · obtain ⟨row'', k1, k2⟩ := grow _ _ g1
              exact Or.inr ⟨row'', p, k1, k2 _ _ g2, g3⟩
        refine ⟨by rw [Array.size_setIfInBounds]; exact hsize, ?_, ?_⟩
        · intro e row hrow
          rw [Array.getElem?_setIfInBounds] at hrow
          by_cases hee : n.e = e
          · subst hee
            rw [if_pos rfl, if_pos hes] at hrow
            cases hrow
            have := hsmall n.e rowE he
            simp only [List.countP_cons, beq_self_eq_true, if_true] at this
            simp only [List.length_append, List.length_singleton]
            omega
          · rw [if_neg hee] at hrow
            have := hsmall e row hrow
            have hne : (n.e == e) = false := by simpa using hee
            simp only [List.countP_cons, hne] at this
            simpa using this
        · intro e row i x he1 hrow hx
          rw [Array.getElem?_setIfInBounds] at hrow
          by_cases hee : n.e = e
          · subst hee
            rw [if_pos rfl, if_pos hes] at hrow
            cases hrow
            rcases Nat.lt_or_ge i rowE.length with hi | hi
            · rw [List.getElem?_append_left hi] at hx
              obtain ⟨a1, a2, a3⟩ := hent n.e rowE i x he1 he hx
              exact ⟨a1, a2, keep x a3⟩
            · rw [List.getElem?_append_right hi] at hx
              have hx0 : i - rowE.length = 0 := by
                rcases Nat.eq_zero_or_pos (i - rowE.length) with h0 | h0
                · exact h0
                · rw [List.getElem?_eq_none (by simp; omega)] at hx; cases hx
              rw [hx0] at hx
              simp only [List.getElem?_cons_zero] at hx
              cases hx
              refine ⟨rfl, hn.1, keep _ ?_⟩
              rcases connectNode_ptr add I32_MAX conn n rowB (c, pe, pi) hc with hm | ⟨j, l, g1, g2, g3, g4⟩
              · exact Or.inl hm
              · simp only [] at g3 g4
                have hjl : j < rowB.length := (List.getElem?_eq_some_iff.mp g1).1
                have hsz := hsmall n.b rowB hb
                have e1 : asU16 n.b = n.b := asU16_id _ (by omega)
                have e2 : asU32 j = j := asU32_id _ (by omega)
                refine Or.inr ⟨by simp only []; rw [g3, e1], ?_⟩
                by_cases hb0 : n.b = 0
                · exact Or.inl hb0
                · exact Or.inr ⟨rowB, l, hb, by simp only []; rw [g4, e2]; exact g1, g2⟩
          · rw [if_neg hee] at hrow
            obtain ⟨a1, a2, a3⟩ := hent e row i x he1 hrow hx
            exact ⟨a1, a2, keep x a3⟩

theorem buildAll_pathInv (add : Int → Int → Option Int) (conn : Nat → Nat → Int) (len : Nat) (hlen : len ≤ 65535) :
    ∀ (nodes : List Vit.Node) (rows : Rows) (acc : List Entry) (rows' : Rows) (ents : List Entry),
      PathInv len nodes rows → (∀ n ∈ nodes, n.b < n.e ∧ n.e ≤ len) →
      buildAll add I32_MAX conn nodes rows acc = .ok (rows', ents) → PathInv len [] rows'
  | [], rows, acc, rows', ents, hinv, _, h => by
    simp only [buildAll] at h; cases h; exact hinv
  | n :: ns, rows, acc, rows', ents, hinv, hns, h => by
    unfold buildAll at h
    cases hi : insert add I32_MAX conn rows n with
    | err k => rw [hi] at h; cases h
    | panic w => rw [hi] at h; cases h
    | ok r =>
      obtain ⟨rows1, e1⟩ := r
      rw [hi] at h; simp only [] at h
      have h1 := insert_pathInv add conn len hlen ns rows n hinv (hns n (List.mem_cons_self ..)) rows1 e1 hi
      exact buildAll_pathInv add conn len hlen ns rows1 (e1 :: acc) rows' ents h1
        (fun m hm => hns m (List.mem_cons_of_mem _ hm)) h

/-- `fill_top_path` from a connected entry: the walk follows the back-pointers through strictly decreasing rows,
never indexes out of range, ends at a node that begins at 0 within `e` steps, and visits only nodes inside the text -/
theorem topPath_ok (len : Nat) (rows : Rows) (hinv : PathInv len [] rows) :
    ∀ (e fuel i : Nat) (p : Entry) (acc : List Entry) (row : List Entry), 1 ≤ e → e ≤ fuel →
      rows[e]? = some row → row[i]? = some p → p.total ≠ I32_MAX →
      ∃ ents, topPath rows fuel (e, i) acc = .ok ents ∧
        ∀ x ∈ ents, x ∈ acc ∨ (x.node.b < x.node.e ∧ x.node.e ≤ len) := by
  intro e
  induction e using Nat.strongRecOn with
  | _ e ih =>
    intro fuel i p acc row he hf hrow hp hconn
    obtain ⟨a1, a2, a3⟩ := hinv.ent e row i p he hrow hp
    have hel : e ≤ len := by
      have := (Array.getElem?_eq_some_iff.mp hrow).1
      have := hinv.size
      omega
    cases fuel with
    | zero => omega
    | succ f =>
      have hfr : fullRow rows e = some row := by
        unfold fullRow; rw [hrow]; simp only []; rw [if_neg (by omega)]
      rcases a3 with a3 | ⟨b1, b2⟩
      · exact absurd a3 hconn
      · by_cases hpe : p.pe ≠ 0
        · have hb0 : p.node.b ≠ 0 := by rw [← b1]; exact hpe
          rcases b2 with b2 | ⟨row', q, c1, c2, c3⟩
          · exact absurd b2 hb0
          · obtain ⟨ents, g1, g2⟩ := ih p.node.b a2 f p.pi q (p :: acc) row' (by omega) (by omega) c1 c2 c3
            refine ⟨ents, ?_, ?_⟩
            · simp only [topPath, hfr, hp, b1, if_pos hb0]; exact g1
            · intro x hx
              rcases g2 x hx with g | g
              · rcases List.mem_cons.mp g with g | g
                · subst g; exact Or.inr ⟨by omega, by omega⟩
                · exact Or.inl g
              · exact Or.inr g
        · refine ⟨p :: acc, ?_, ?_⟩
          · simp only [topPath, hfr, hp, if_neg hpe]
          · intro x hx
            rcases List.mem_cons.mp hx with g | g
            · subst g; exact Or.inr ⟨by omega, by omega⟩
            · exact Or.inl g

/-- `connect_eos` that succeeds designates a connected entry of the last row -/
theorem connectEos_ptr (add : Int → Int → Option Int) (conn : Nat → Nat → Int) (len : Nat) (hlen : len ≤ 65535)
    (rows : Rows) (hinv : PathInv len [] rows) (c : Int) (pe pi : Nat)
    (h : connectEos add I32_MAX conn rows len = .ok (c, pe, pi)) :
    pe = len ∧ ∃ row p, rows[len]? = some row ∧ row[pi]? = some p ∧ p.total ≠ I32_MAX := by
  have hid : asU16 len = len := asU16_id len hlen
  unfold connectEos eosNode at h
  simp only [hid] at h
  cases hr : rows[len]? with
  | none => rw [hr] at h; cases h
  | some row =>
    rw [hr] at h; simp only [] at h
    cases hc : connectNode add I32_MAX conn row ⟨len, len, 0, 0, 0⟩ with
    | none => rw [hc] at h; cases h
    | some r =>
      obtain ⟨c', pe', pi'⟩ := r
      rw [hc] at h; simp only [] at h
      split at h
      · cases h
      · rename_i hne
        cases h
        rcases connectNode_ptr add I32_MAX conn _ row _ hc with hm | ⟨j, l, g1, g2, g3, g4⟩
        · exact absurd hm hne
        · simp only [] at g3 g4
          have hjl : j < row.length := (List.getElem?_eq_some_iff.mp g1).1
          have hsz := hinv.small len row hr
          simp only [List.countP_nil] at hsz
          have e2 : asU32 j = j := asU32_id _ (by omega)
          exact ⟨by rw [g3, hid], row, l, rfl, by rw [g4, e2]; exact g1, g2⟩

theorem mapM_ok {α β : Type} (f : α → Outcome β) : ∀ (as : List α), (∀ a ∈ as, ∃ b, f a = .ok b) →
    ∃ bs, mapM f as = .ok bs
  | [], _ => ⟨[], rfl⟩
  | a :: as, h => by
    obtain ⟨b, hb⟩ := h a (List.mem_cons_self ..)
    obtain ⟨bs, hbs⟩ := mapM_ok f as (fun x hx => h x (List.mem_cons_of_mem _ hx))
    exact ⟨b :: bs, by simp only [mapM, hb, hbs]⟩

/-- every scalar value of a decoded text costs at least one character start -/
theorem utf8Decode_length_le : ∀ (n : Nat) (t cs : List Nat), t.length ≤ n → Wire.utf8Decode t = some cs →
    cs.length ≤ EditM.nchars t := by
  intro n
  induction n with
  | zero =>
    intro t cs hl h
    have : t = [] := List.length_eq_zero_iff.mp (by omega)
    subst this
    simp [Wire.utf8Decode] at h; subst h; simp
  | succ n ih =>
    intro t cs hl h
    cases t with
    | nil => simp [Wire.utf8Decode] at h; subst h; simp
    | cons b0 rest =>
      have key : ∀ (r : List Nat) (x : Nat), r.length ≤ n → (Wire.utf8Decode r).map (x :: ·) = some cs →
          EditM.isStart b0 = true → EditM.nchars r ≤ EditM.nchars rest → cs.length ≤ EditM.nchars (b0 :: rest) := by
        intro r x hr hm hs hle
        cases hd : Wire.utf8Decode r with
        | none => rw [hd] at hm; cases hm
        | some cs' =>
          rw [hd] at hm; simp only [Option.map_some] at hm
          cases hm
          have := ih r cs' hr hd
          rw [nchars_cons, hs]; simp only [if_true, List.length_cons]; omega
      have hlr : rest.length ≤ n := by simpa using hl
      rw [Wire.utf8Decode.eq_def] at h; simp only [] at h
      by_cases h1 : b0 < 0x80
      · rw [if_pos h1] at h
        exact key rest b0 hlr h (by unfold EditM.isStart; simp; omega) (Nat.le_refl _)
      · rw [if_neg h1] at h
        by_cases h2 : b0 < 0xC0
        · rw [if_pos h2] at h; cases h
        · rw [if_neg h2] at h
          have hs : EditM.isStart b0 = true := by unfold EditM.isStart; simp; omega
          by_cases h3 : b0 < 0xE0
          · rw [if_pos h3] at h
            cases rest with
            | nil => cases h
            | cons b1 r =>
              simp only [] at h
              exact key r _ (by simp at hlr; omega) h hs (by rw [nchars_cons]; omega)
          · rw [if_neg h3] at h
            by_cases h4 : b0 < 0xF0
            · rw [if_pos h4] at h
              cases rest with
              | nil => cases h
              | cons b1 r1 =>
                cases r1 with
                | nil => cases h
                | cons b2 r =>
                  simp only [] at h
                  exact key r _ (by simp at hlr; omega) h hs (by rw [nchars_cons, nchars_cons]; omega)
            · rw [if_neg h4] at h
              cases rest with
              | nil => cases h
              | cons b1 r1 =>
                cases r1 with
                | nil => cases h
                | cons b2 r2 =>
                  cases r2 with
                  | nil => cases h
                  | cons b3 r =>
                    simp only [] at h
                    exact key r _ (by simp at hlr; omega) h hs (by rw [nchars_cons, nchars_cons, nchars_cons]; omega)

/-! ## candidates of `build_lattice` are non-empty and inside the text (`b < e ≤ n`) -/

/-- the shape of a built `InputBuffer` the providers rely on: one class word and one word-start flag per character,
and every run of `mod_cat_continuity` ends inside the text -/
structure BufOk (buf : Oov.Buf) : Prop where
  cats : buf.cats.length = buf.chars.length
  bow : buf.bow.length = buf.chars.length
  cont : ∀ (o c : Nat), buf.cont[o]? = some c → o + c ≤ buf.chars.length

/-- a candidate created at `o`: begins there, is non-empty, ends inside the text -/
def CandOk (n o : Nat) (x : Oov.Node) : Prop := x.b = o ∧ o < x.e ∧ x.e ≤ n

theorem isPrefix_length : ∀ (a b : List Nat), Oov.isPrefix a b = true → a.length ≤ b.length
  | [], _, _ => by simp
  | _ :: _, [], h => by simp [Oov.isPrefix] at h
  | x :: as, y :: bs, h => by
    simp only [Oov.isPrefix, Bool.and_eq_true] at h
    have := isPrefix_length as bs h.2
    simp; omega

theorem lexNodes_cand (lex : List Oov.Word) (buf : Oov.Buf) (o : Nat) :
    ∀ x ∈ Oov.lexNodes lex buf o, CandOk buf.chars.length o x := by
  intro x hx
  unfold Oov.lexNodes at hx
  simp only [List.mem_filterMap, List.mem_filter, Bool.and_eq_true] at hx
  obtain ⟨w, ⟨_, hne, hpre⟩, hw⟩ := hx
  have h1 := isPrefix_length _ _ hpre
  simp only [List.length_drop] at h1
  have h2 : 1 ≤ w.surface.length := by
    cases hs : w.surface with
    | nil => simp [hs] at hne
    | cons _ _ => simp
  have hx : x = ⟨o, o + w.surface.length, w.l, w.r, w.c, false, 0⟩ := by
    split at hw
    · split at hw
      · cases hw
      · cases hw; rfl
    · cases hw; rfl
  subst hx
  exact ⟨rfl, by simp only []; omega, by simp only []; omega⟩

theorem mecabProvide_cand (cfg : Oov.MecabCfg) (buf : Oov.Buf) (hb : BufOk buf) (o created : Nat)
    (ho : o < buf.chars.length) (nodes : List Oov.Node) (h : Oov.mecabProvide cfg buf o created = .ok nodes) :
    ∀ x ∈ nodes, CandOk buf.chars.length o x := by
  obtain ⟨charLen, cat, h1, _, hspec⟩ := Oov.mecabProvide_spec cfg buf o created nodes h
  intro x hx
  obtain ⟨h0, ct, _, ci, oovs, d, _, _, _, _, hsh⟩ := (hspec x).mp hx
  have hc := hb.cont o charLen h1
  rcases hsh with ⟨_, rfl⟩ | ⟨i, hi1, _, _, rfl⟩
  · exact ⟨rfl, by simp only [Oov.mkNode]; omega, by simp only [Oov.mkNode]; omega⟩
  · exact ⟨rfl, by simp only [Oov.mkNode]; omega, by simp only [Oov.mkNode]; omega⟩

theorem simpleProvide_cand (cfg : Oov.SimpleCfg) (buf : Oov.Buf) (hb : BufOk buf) (o created : Nat)
    (ho : o < buf.chars.length) (nodes : List Oov.Node) (h : Oov.simpleProvide cfg buf o created = .ok nodes) :
    ∀ x ∈ nodes, CandOk buf.chars.length o x := by
  have hob : o < buf.bow.length := by rw [hb.bow]; exact ho
  obtain ⟨s1, s2⟩ := Oov.simpleProvide_spec cfg buf o created hob
  by_cases hc : created = 0
  · obtain ⟨k, ⟨k1, k2, _⟩, hk⟩ := s2 hc
    rw [hk] at h; cases h
    intro x hx
    simp only [List.mem_singleton] at hx
    subst hx
    rw [hb.bow] at k2
    exact ⟨rfl, by simp only []; omega, by simp only []; omega⟩
  · rw [s1 hc] at h; cases h
    intro x hx; cases hx

theorem greedy_le (set : List Nat) : ∀ (s : List Nat) (mx : Option Nat), Oov.greedy set mx s ≤ s.length
  | [], mx => by
    cases mx with
    | none => simp [Oov.greedy]
    | some m => cases m <;> simp [Oov.greedy]
  | c :: rest, mx => by
    have ih := fun m => greedy_le set rest m
    cases mx with
    | none =>
      simp only [Oov.greedy]
      split
      · have := ih (Option.map (· - 1) none); simp only [List.length_cons]; omega
      · omega
    | some m =>
      cases m with
      | zero => simp [Oov.greedy]
      | succ m' =>
        simp only [Oov.greedy]
        split
        · have := ih (Option.map (· - 1) (some (m' + 1))); simp only [List.length_cons]; omega
        · omega

theorem regexFind_le (alts : List Oov.Alt) (s : List Nat) (k : Nat) (h : Oov.regexFind alts s = some k) :
    k ≤ s.length := by
  unfold Oov.regexFind at h
  obtain ⟨a, _, ha⟩ := List.exists_of_findSome?_eq_some h
  unfold Oov.altMatch at ha
  simp only [] at ha
  split at ha
  · cases ha; exact greedy_le a.set s a.max
  · cases ha

theorem regexProvide_cand (cfg : Oov.RegexCfg) (buf : Oov.Buf) (o created : Nat) (existing : List Oov.Node)
    (nodes : List Oov.Node) (h : Oov.regexProvide cfg buf o created existing = .ok nodes) :
    ∀ x ∈ nodes, CandOk buf.chars.length o x := by
  unfold Oov.regexProvide at h
  split at h
  · cases h
  · cases h; intro x hx; cases hx
  · unfold Oov.regexCore at h
    split at h
    · cases h
    · rename_i hle
      split at h
      · cases h; intro x hx; cases hx
      · rename_i k hk
        have hkl := regexFind_le _ _ _ hk
        simp only [List.length_drop, List.length_take] at hkl
        split at h
        · split at h
          · cases h; intro x hx; cases hx
          · cases h
        · rename_i hk0
          have hc : CandOk buf.chars.length o (Oov.regexNode cfg o k) :=
            ⟨rfl, by simp only [Oov.regexNode]; omega, by simp only [Oov.regexNode]; omega⟩
          split at h
          · cases h; intro x hx; cases hx
          · cases h; intro x hx; simp only [List.mem_singleton] at hx; subst hx; exact hc
          · split at h
            · cases h; intro x hx; cases hx
            · cases h; intro x hx; simp only [List.mem_singleton] at hx; subst hx; exact hc

/-- the repaired regex provider (`skipEmpty`) does not panic at all at a position inside a buffer that has a run
length per character: the two `cat_continuous_len` reads are in range, the slice start is inside the text, and an
empty match returns before `CreatedWords::single` is reached -/
theorem regexProvide_fix_noPanic (cfg : Oov.RegexCfg) (hfix : cfg.skipEmpty = true) (buf : Oov.Buf)
    (hcont : buf.cont.length = buf.chars.length) (o : Nat) (ho : o < buf.chars.length) (created : Nat)
    (existing : List Oov.Node) : NoPanic (Oov.regexProvide cfg buf o created existing) := by
  intro w h
  unfold Oov.regexProvide at h
  split at h
  · rename_i hb
    unfold Oov.regexAtBoundary at hb
    split at hb
    · have h1 : buf.cont[o]? = some buf.cont[o] := List.getElem?_eq_getElem (by omega)
      have h2 : buf.cont[o - 1]? = some buf.cont[o - 1] := List.getElem?_eq_getElem (by omega)
      rw [h1, h2] at hb
      cases hb
    · cases hb
  · cases h
  · unfold Oov.regexCore at h
    simp only [hfix, ↓reduceIte] at h
    split at h
    · omega
    · split at h
      · cases h
      · split at h
        · cases h
        · split at h
          · cases h
          · cases h
          · split at h <;> cases h

theorem provideOovs_cand (p : Oov.Provider) (buf : Oov.Buf) (hb : BufOk buf) (o : Nat) (ho : o < buf.chars.length)
    (st st' : Nat × List Oov.Node) (h : Oov.provideOovs p buf o st = .ok st')
    (hst : ∀ x ∈ st.2, CandOk buf.chars.length o x) : ∀ x ∈ st'.2, CandOk buf.chars.length o x := by
  unfold Oov.provideOovs at h
  split at h
  · rename_i new hnew
    cases h
    intro x hx
    rcases List.mem_append.mp hx with hx | hx
    · exact hst x hx
    · unfold Oov.provide at hnew
      cases p with
      | mecab cfg => exact mecabProvide_cand cfg buf hb o _ ho new hnew x hx
      | simple cfg => exact simpleProvide_cand cfg buf hb o _ ho new hnew x hx
      | regex cfg => exact regexProvide_cand cfg buf o _ _ new hnew x hx
  · cases h
  · cases h

theorem provideAll_cand (buf : Oov.Buf) (hb : BufOk buf) (o : Nat) (ho : o < buf.chars.length) :
    ∀ (ps : List Oov.Provider) (st st' : Nat × List Oov.Node), Oov.provideAll ps buf o st = .ok st' →
      (∀ x ∈ st.2, CandOk buf.chars.length o x) → ∀ x ∈ st'.2, CandOk buf.chars.length o x
  | [], st, st', h, hst => by simp only [Oov.provideAll] at h; cases h; exact hst
  | p :: rest, st, st', h, hst => by
    simp only [Oov.provideAll] at h
    split at h
    · rename_i st1 h1
      exact provideAll_cand buf hb o ho rest st1 st' h (provideOovs_cand p buf hb o ho st st1 h1 hst)
    · cases h
    · cases h

theorem stepAt_cand (ps : List Oov.Provider) (lex : List Oov.Word) (buf : Oov.Buf) (hb : BufOk buf) (o : Nat)
    (nodes : List Oov.Node) (h : Oov.stepAt ps lex buf o = .ok nodes) :
    ∀ x ∈ nodes, CandOk buf.chars.length o x := by
  unfold Oov.stepAt at h
  split at h
  · cases h
  · rename_i cat hcat
    have ho : o < buf.chars.length := by
      have := (List.getElem?_eq_some_iff.mp hcat).1
      rw [hb.cats] at this; exact this
    obtain ⟨st1, h1, h⟩ := Oov.bind_eq_ok _ _ _ h
    obtain ⟨st2, h2, h⟩ := Oov.bind_eq_ok _ _ _ h
    have c1 : ∀ x ∈ st1.2, CandOk buf.chars.length o x := by
      unfold Oov.afterLoop at h1
      split at h1
      · exact provideAll_cand buf hb o ho ps _ st1 h1 (lexNodes_cand lex buf o)
      · cases h1; exact lexNodes_cand lex buf o
    have c2 : ∀ x ∈ st2.2, CandOk buf.chars.length o x := by
      unfold Oov.fallback at h2
      split at h2
      · split at h2
        · cases h2
        · exact provideOovs_cand _ buf hb o ho st1 st2 h2 c1
      · cases h2; exact c1
    unfold Oov.finish at h
    split at h
    · cases h
    · cases h; exact c2

theorem buildFrom_cand (ps : List Oov.Provider) (lex : List Oov.Word) (buf : Oov.Buf) (hb : BufOk buf) :
    ∀ (pos : List Nat) (acc nodes : List Oov.Node), Oov.buildFrom ps lex buf pos acc = .ok nodes →
      (∀ x ∈ acc, x.b < x.e ∧ x.e ≤ buf.chars.length) → ∀ x ∈ nodes, x.b < x.e ∧ x.e ≤ buf.chars.length
  | [], acc, nodes, h, hacc => by simp only [Oov.buildFrom] at h; cases h; exact hacc
  | p :: rest, acc, nodes, h, hacc => by
    simp only [Oov.buildFrom] at h
    split at h
    · exact buildFrom_cand ps lex buf hb rest acc nodes h hacc
    · split at h
      · rename_i new hnew
        refine buildFrom_cand ps lex buf hb rest (acc ++ new) nodes h ?_
        intro x hx
        rcases List.mem_append.mp hx with hx | hx
        · exact hacc x hx
        · obtain ⟨a1, a2, a3⟩ := stepAt_cand ps lex buf hb p new hnew x hx
          exact ⟨by omega, a3⟩
      · cases h
      · cases h

/-- **every candidate `build_lattice` inserts is non-empty and ends inside the text** (`b < e ≤ n`), for the
dictionary look-up and all three OOV providers, given the shape of a built buffer (`BufOk`) -/
theorem buildLattice_cand (ps : List Oov.Provider) (lex : List Oov.Word) (buf : Oov.Buf) (hb : BufOk buf)
    (nodes : List Oov.Node) (h : Oov.buildLattice ps lex buf = .ok nodes) :
    ∀ x ∈ nodes, x.b < x.e ∧ x.e ≤ buf.chars.length := by
  unfold Oov.buildLattice at h
  split at h
  · rename_i ns hns
    split at h
    · cases h
      exact buildFrom_cand ps lex buf hb _ [] _ hns (fun x hx => by cases hx)
    · cases h
  · cases h
  · cases h

/-! ### the buffer of `Model/Oov.lean` built with the left-to-right run table (the tree after `fix: compute
character-class runs left to right`) has the shape `BufOk` -/

theorem allSome_length {α : Type} : ∀ (l : List (Option α)) (r : List α), Wire.allSome l = some r → r.length = l.length
  | [], r, h => by simp [Wire.allSome] at h; subst h; rfl
  | none :: _, r, h => by simp [Wire.allSome] at h
  | some a :: rest, r, h => by
    simp only [Wire.allSome] at h
    cases h1 : Wire.allSome rest with
    | none => rw [h1] at h; cases h
    | some r' =>
      rw [h1] at h; simp only [Option.map_some] at h; cases h
      simp [allSome_length rest r' h1]

theorem bowGoV_length (cb : Bool) : ∀ (cats : List Nat) (nb : Bool) (prev : Nat), (Oov.bowGoV cb cats nb prev).length = cats.length
  | [], _, _ => rfl
  | cat :: rest, nb, prev => by
    simp only [Oov.bowGoV]
    split
    · simp [bowGoV_length cb rest]
    · split
      · simp [bowGoV_length cb rest]
      · split
        · simp [bowGoV_length cb rest]
        · split <;> simp [bowGoV_length cb rest]

/-- every run of the left-to-right run table ends inside the text -/
theorem forward_run_inside : ∀ (n : Nat) (cats : List Nat), cats.length ≤ n → ∀ (o c : Nat),
    (Oov.fillCatContinuityForward cats)[o]? = some c → o + c ≤ cats.length := by
  intro n
  induction n with
  | zero =>
    intro cats hl o c h
    have : cats = [] := List.length_eq_zero_iff.mp (by omega)
    subst this
    rw [Oov.fillCatContinuityForward] at h; simp at h
  | succ n ih =>
    intro cats hl o c h
    cases cats with
    | nil => rw [Oov.fillCatContinuityForward] at h; simp at h
    | cons c0 rest =>
      rw [Oov.fillCatContinuityForward] at h
      have hk := Oov.scan_le c0 rest
      rcases Nat.lt_or_ge o (Oov.scan c0 rest + 1) with ho | ho
      · rw [List.getElem?_append_left (by rw [Oov.countdown_length]; exact ho), Oov.countdown_getElem?, if_pos ho] at h
        cases h
        simp only [List.length_cons]; omega
      · rw [List.getElem?_append_right (by rw [Oov.countdown_length]; exact ho), Oov.countdown_length] at h
        have := ih (rest.drop (Oov.scan c0 rest)) (by simp only [List.length_drop]; simp at hl; omega) _ c h
        simp only [List.length_drop] at this
        simp only [List.length_cons]; omega

/-- `Oov.mkBufV .forward` (the buffer the C13 correspondence ties to `InputBuffer::build` of the current tree) is `BufOk` -/
theorem mkBufV_forward_ok (bowFix : Bool) (tab : List (Nat × Nat)) (chars : List Nat) (buf : Oov.Buf)
    (h : Oov.mkBufV .forward bowFix tab chars = some buf) : BufOk buf ∧ buf.chars = chars := by
  unfold Oov.mkBufV at h
  cases hc : Wire.allSome (chars.map (CharCat.lookup tab)) with
  | none => rw [hc] at h; cases h
  | some cats =>
    rw [hc] at h; simp only [Option.some.injEq] at h
    subst h
    have hl : cats.length = chars.length := by rw [allSome_length _ _ hc, List.length_map]
    refine ⟨⟨hl, ?_, ?_⟩, rfl⟩
    · simp only []
      split
      · rw [Oov.bowTableFix, bowGoV_length, hl]
      · rw [Oov.bowTable, Oov.bowGo, bowGoV_length, hl]
    · intro o c hoc
      simp only [Oov.fillCatContinuity] at hoc
      have := forward_run_inside cats.length cats (Nat.le_refl _) o c hoc
      simp only []; omega

end Total
