import Sudachi.Model.Total
import Sudachi.Proofs.Edit
/-!
# Proofs about the fixed-width lattice, the casts and the stages of `do_tokenize` (C03)
-/
namespace Total
open Oov (Outcome)

theorem i32max_eq : I32_MAX = 2147483647 := rfl

/-- a checked `i32` addition succeeds when the sum is in range -/
theorem addI32_some (a b : Int) (h1 : -2147483648 ≤ a + b) (h2 : a + b ≤ 2147483647) :
    addI32 a b = some (a + b) := by
  unfold addI32 addW
  rw [i32max_eq, if_pos]
  constructor <;> omega

/-- connection costs come out of an `i16` matrix (`conn.cost(..) as i32`) -/
def I16Conn (conn : Nat → Nat → Int) : Prop := ∀ a b, -32768 ≤ conn a b ∧ conn a b ≤ 32767

/-- entries of a row: not connected (sentinel) or within `±B` -/
def RowBound (B : Int) (row : List Entry) : Prop :=
  ∀ x ∈ row, x.total = I32_MAX ∨ (-B ≤ x.total ∧ x.total ≤ B)

/-- **the loop of `connect_node` does not overflow** when the left neighbours are within `±B`, the
node cost within `±D` and `B + 32768 + D < 2^31`; the minimum it returns is the sentinel or within
`±(B + 32768 + D)` -/
theorem connGo_ok (conn : Nat → Nat → Int) (hconn : I16Conn conn) (n : Vit.Node) (B D : Int)
    (hc : -D ≤ n.c ∧ n.c ≤ D) (hB : B + 32768 + D ≤ 2147483647) :
    ∀ (row : List Entry) (i : Nat) (st : Int × Nat × Nat), RowBound B row →
      (st.1 = I32_MAX ∨ (-(B + 32768 + D) ≤ st.1 ∧ st.1 ≤ B + 32768 + D)) →
      ∃ st', connGo addI32 I32_MAX conn n row i st = some st' ∧
        (st'.1 = I32_MAX ∨ (-(B + 32768 + D) ≤ st'.1 ∧ st'.1 ≤ B + 32768 + D)) := by
  intro row
  induction row with
  | nil => intro i st _ hst; exact ⟨st, rfl, hst⟩
  | cons l rest ih =>
    intro i st hrow hst
    have hrest : RowBound B rest := fun x hx => hrow x (List.mem_cons_of_mem _ hx)
    have hl := hrow l (List.mem_cons_self ..)
    unfold connGo
    by_cases hm : l.total = I32_MAX
    · rw [if_pos hm]; exact ih _ _ hrest hst
    · rw [if_neg hm]
      have hb := hl.resolve_left hm
      have hcc := hconn l.node.r n.l
      rw [addI32_some _ _ (by omega) (by omega)]
      simp only []
      rw [addI32_some _ _ (by omega) (by omega)]
      simp only []
      split
      · exact ih _ _ hrest (Or.inr ⟨by simp only []; omega, by simp only []; omega⟩)
      · exact ih _ _ hrest hst

theorem connectNode_ok (conn : Nat → Nat → Int) (hconn : I16Conn conn) (n : Vit.Node) (B D : Int)
    (hc : -D ≤ n.c ∧ n.c ≤ D) (hB : B + 32768 + D ≤ 2147483647) (row : List Entry) (hrow : RowBound B row) :
    ∃ r, connectNode addI32 I32_MAX conn row n = some r ∧
      (r.1 = I32_MAX ∨ (-(B + 32768 + D) ≤ r.1 ∧ r.1 ≤ B + 32768 + D)) :=
  connGo_ok conn hconn n B D hc hB row 0 _ hrow (Or.inl rfl)

/-- what every stored total satisfies: the sentinel, or within `± 65536 · (end position)` -/
def RowsInv (len : Nat) (rows : Rows) : Prop :=
  rows.size = len + 1 ∧
  ∀ (e : Nat) (row : List Entry), rows[e]? = some row → RowBound ((e : Int) * 65536) row

/-- a candidate as the builder creates it: non-empty, inside the text, `i16` cost -/
def NodeOk (len : Nat) (n : Vit.Node) : Prop :=
  n.b < n.e ∧ n.e ≤ len ∧ -32768 ≤ n.c ∧ n.c ≤ 32767

theorem reset_inv (len : Nat) : RowsInv len (reset len) := by
  refine ⟨by simp [reset], ?_⟩
  intro e row h
  unfold reset at h
  rw [Array.getElem?_setIfInBounds] at h
  split at h
  · rename_i h0
    subst h0
    split at h
    · cases h
      intro x hx
      simp only [List.mem_singleton] at hx
      subst hx
      right; simp [bosEntry]
    · cases h
  · rw [Array.getElem?_replicate] at h
    split at h
    · cases h; intro x hx; cases hx
    · cases h

theorem insert_ok (conn : Nat → Nat → Int) (hconn : I16Conn conn) (len : Nat) (hlen : len ≤ 32767)
    (rows : Rows) (hinv : RowsInv len rows) (n : Vit.Node) (hn : NodeOk len n) :
    ∃ rows' ent, insert addI32 I32_MAX conn rows n = .ok (rows', ent) ∧ RowsInv len rows' := by
  obtain ⟨hsize, hb⟩ := hinv
  obtain ⟨h1, h2, h3, h4⟩ := hn
  have hbs : n.b < rows.size := by omega
  have hes : n.e < rows.size := by omega
  unfold insert
  rw [Array.getElem?_eq_getElem hbs]
  simp only []
  have hrow := hb n.b rows[n.b] (Array.getElem?_eq_getElem hbs)
  obtain ⟨r, hr, hrb⟩ := connectNode_ok conn hconn n ((n.b : Int) * 65536) 32768 ⟨by omega, by omega⟩
    (by omega) rows[n.b] hrow
  obtain ⟨c, pe, pi⟩ := r
  rw [hr]
  simp only []
  rw [Array.getElem?_eq_getElem hes]
  simp only []
  refine ⟨_, _, rfl, ?_, ?_⟩
  · rw [Array.size_setIfInBounds]; exact hsize
  · intro e row h
    rw [Array.getElem?_setIfInBounds] at h
    by_cases he : n.e = e
    · subst he
      rw [if_pos rfl, if_pos hes] at h
      cases h
      intro x hx
      rw [List.mem_append] at hx
      rcases hx with hx | hx
      · exact hb n.e rows[n.e] (Array.getElem?_eq_getElem hes) x hx
      · simp only [List.mem_singleton] at hx
        subst hx
        simp only []
        simp only [] at hrb
        rcases hrb with hrb | hrb
        · exact Or.inl hrb
        · right; constructor <;> omega
    · rw [if_neg he] at h
      exact hb e row h

theorem buildAll_ok (conn : Nat → Nat → Int) (hconn : I16Conn conn) (len : Nat) (hlen : len ≤ 32767) :
    ∀ (nodes : List Vit.Node) (rows : Rows) (acc : List Entry), RowsInv len rows →
      (∀ n ∈ nodes, NodeOk len n) →
      ∃ rows' ents, buildAll addI32 I32_MAX conn nodes rows acc = .ok (rows', ents) ∧ RowsInv len rows' := by
  intro nodes
  induction nodes with
  | nil => intro rows acc hinv _; exact ⟨rows, acc.reverse, rfl, hinv⟩
  | cons n ns ih =>
    intro rows acc hinv hns
    obtain ⟨rows', ent, h1, h2⟩ := insert_ok conn hconn len hlen rows hinv n (hns n (List.mem_cons_self ..))
    unfold buildAll
    rw [h1]
    exact ih rows' (ent :: acc) h2 (fun m hm => hns m (List.mem_cons_of_mem _ hm))

theorem asU16_id (n : Nat) (h : n ≤ 65535) : asU16 n = n := by
  unfold asU16; omega

theorem connectEos_ok (conn : Nat → Nat → Int) (hconn : I16Conn conn) (len : Nat) (hlen : len ≤ 32767)
    (rows : Rows) (hinv : RowsInv len rows) :
    (∃ r, connectEos addI32 I32_MAX conn rows len = .ok r) ∨
      connectEos addI32 I32_MAX conn rows len = .err "Disconnect" := by
  obtain ⟨hsize, hb⟩ := hinv
  have hid : asU16 len = len := asU16_id len (by omega)
  have hls : len < rows.size := by omega
  unfold connectEos eosNode
  simp only [hid]
  rw [Array.getElem?_eq_getElem hls]
  simp only []
  have hrow := hb len rows[len] (Array.getElem?_eq_getElem hls)
  obtain ⟨r, hr, _⟩ := connectNode_ok conn hconn ⟨len, len, 0, 0, 0⟩ ((len : Int) * 65536) 0
    ⟨by simp, by simp⟩ (by omega) rows[len] hrow
  obtain ⟨c, pe, pi⟩ := r
  rw [hr]
  simp only []
  split
  · exact Or.inr rfl
  · exact Or.inl ⟨_, rfl⟩

/-! ## outcomes -/

def NoPanic {α : Type} (o : Outcome α) : Prop := ∀ w, o ≠ .panic w

theorem rewriteInput_noPanic :
    ∀ (ps : List (List Nat → Outcome (List (EditM.Edit Nat)))) (l : List (EditM.P Nat)),
      (∀ p ∈ ps, ∀ t, NoPanic (p t)) → NoPanic (rewriteInput ps l) := by
  intro ps
  induction ps with
  | nil => intro l _ w h; simp [rewriteInput] at h
  | cons p ps ih =>
    intro l hp w h
    unfold rewriteInput at h
    have h1 := hp p (List.mem_cons_self ..) (EditM.textOf l)
    cases hq : p (EditM.textOf l) with
    | ok es =>
      rw [hq] at h
      simp only [] at h
      cases hc : EditM.commit l es with
      | none => rw [hc] at h; simp at h
      | some l' =>
        rw [hc] at h
        exact ih l' (fun q hq' => hp q (List.mem_cons_of_mem _ hq')) w h
    | err k => rw [hq] at h; simp at h
    | panic w' => exact h1 w' hq

/-- `rewrite_input` fails only with the input-too-long error when the plugins themselves do not fail -/
theorem rewriteInput_err :
    ∀ (ps : List (List Nat → Outcome (List (EditM.Edit Nat)))) (l : List (EditM.P Nat)),
      (∀ p ∈ ps, ∀ t, ∃ es, p t = .ok es) → ∀ k, rewriteInput ps l = .err k → k = "TooLong" := by
  intro ps
  induction ps with
  | nil => intro l _ k h; simp [rewriteInput] at h
  | cons p ps ih =>
    intro l hp k h
    unfold rewriteInput at h
    obtain ⟨es, hes⟩ := hp p (List.mem_cons_self ..) (EditM.textOf l)
    rw [hes] at h
    simp only [] at h
    cases hc : EditM.commit l es with
    | none => rw [hc] at h; simp at h; exact h.symm
    | some l' =>
      rw [hc] at h
      exact ih l' (fun q hq' => hp q (List.mem_cons_of_mem _ hq')) k h

/-! ## `morphRangeC` / `morphRangeB` are defined for nodes inside the text -/

theorem c2b_getElem_le (t : List Nat) (i x : Nat) (h : (EditM.c2b t)[i]? = some x) : x ≤ t.length := by
  have hm : x ∈ EditM.c2b t := List.mem_of_getElem? h
  rcases (EditM.c2b_spec t).2 x hm with h1 | ⟨h1, _⟩
  · omega
  · omega

theorem c2b_getElem_some (t : List Nat) (i : Nat) (h : i ≤ EditM.nchars t) : ∃ x, (EditM.c2b t)[i]? = some x := by
  have := EditM.c2b_length t
  have hi : i < (EditM.c2b t).length := by omega
  exact ⟨_, List.getElem?_eq_getElem hi⟩

theorem toOrigByteIdx_some {st : Nat → Bool} {Bo : Nat → Prop} {N : Nat} (l : List (EditM.P Nat))
    (hinv : EditM.Inv st Bo N l) (ci : Nat) (h : ci ≤ EditM.nchars (EditM.textOf l)) :
    ∃ ob, EditM.toOrigByteIdx l ci = some ob ∧ ob ≤ N := by
  obtain ⟨x, hx⟩ := c2b_getElem_some (EditM.textOf l) ci h
  have hxl := c2b_getElem_le _ _ _ hx
  have hlen := EditM.shape_length hinv.shape
  have hlt : x < l.length := by omega
  refine ⟨EditM.valAt l x, ?_, EditM.inv_le_last hinv x hxl⟩
  unfold EditM.toOrigByteIdx
  rw [hx]
  exact EditM.snds_getElem? l x hlt

end Total
