import Sudachi.Model.Cli
/-! # Proofs about the CLI glue (C19) -/
namespace Cli

theorem getLast?_append_single (l : Bytes) (x : Nat) : (l ++ [x]).getLast? = some x := by
  simp

theorem dropLast_append_single (l : Bytes) (x : Nat) : (l ++ [x]).dropLast = l := by
  simp

theorem linesGo_flatten : ∀ (file cur : Bytes), (linesGo file cur).flatten = cur.reverse ++ file := by
  intro file
  induction file with
  | nil => intro cur; simp only [linesGo]; split <;> simp_all
  | cons b rest ih =>
    intro cur
    simp only [linesGo]
    split
    · simp [ih]
    · rw [ih]; simp

theorem linesGo_nonempty : ∀ (file cur : Bytes), ∀ l ∈ linesGo file cur, l ≠ [] := by
  intro file
  induction file with
  | nil =>
    intro cur l hl
    simp only [linesGo] at hl
    split at hl
    · cases hl
    · simp at hl; subst hl; rename_i h; simpa using h
  | cons b rest ih =>
    intro cur l hl
    simp only [linesGo] at hl
    split at hl
    · simp only [List.mem_cons] at hl
      rcases hl with rfl | hl
      · simp
      · exact ih [] l hl
    · exact ih _ l hl

/-- every line either ends with `\n` and has no other `\n`, or is the last line and has none -/
theorem linesGo_shape : ∀ (file cur : Bytes), (∀ b ∈ cur, b ≠ 10) →
    ∀ l ∈ linesGo file cur, (∃ body, l = body ++ [10] ∧ ∀ b ∈ body, b ≠ 10) ∨ (∀ b ∈ l, b ≠ 10) := by
  intro file
  induction file with
  | nil =>
    intro cur hc l hl
    simp only [linesGo] at hl
    split at hl
    · cases hl
    · simp at hl; subst hl; right; intro b hb; exact hc b (by simpa using hb)
  | cons x rest ih =>
    intro cur hc l hl
    simp only [linesGo] at hl
    split at hl
    · rename_i hx
      simp only [List.mem_cons] at hl
      rcases hl with rfl | hl
      · left; refine ⟨cur.reverse, by simp [hx], ?_⟩
        intro b hb; exact hc b (by simpa using hb)
      · exact ih [] (by intro b hb; cases hb) l hl
    · rename_i hx
      apply ih (x :: cur) _ l hl
      intro b hb
      simp only [List.mem_cons] at hb
      rcases hb with rfl | hb
      · exact hx
      · exact hc b hb

end Cli
