import Sudachi.Model.Cli
import Sudachi.Model.PyGlue
import Sudachi.Proofs.Edit
/-! # Proofs about the CLI glue (C19) -/
namespace Cli

theorem getLast?_append_single (l : Bytes) (x : Nat) : (l ++ [x]).getLast? = some x := by
  simp

theorem dropLast_append_single (l : Bytes) (x : Nat) : (l ++ [x]).dropLast = l := by
  simp

theorem linesGo_flatten : ∀ (file cur : Bytes), (linesGo file cur).flatten = cur.reverse ++ file := by
  intro file
  induction file with
  | nil => intro cur; simp only [linesGo]; split <;> simp_all
  | cons b rest ih =>
    intro cur
    simp only [linesGo]
    split
    · simp [ih]
    · rw [ih]; simp

theorem linesGo_nonempty : ∀ (file cur : Bytes), ∀ l ∈ linesGo file cur, l ≠ [] := by
  intro file
  induction file with
  | nil =>
    intro cur l hl
    simp only [linesGo] at hl
    split at hl
    · cases hl
    · simp at hl; subst hl; rename_i h; simpa using h
  | cons b rest ih =>
    intro cur l hl
    simp only [linesGo] at hl
    split at hl
    · simp only [List.mem_cons] at hl
      rcases hl with rfl | hl
      · simp
      · exact ih [] l hl
    · exact ih _ l hl

/-- every line either ends with `\n` and has no other `\n`, or is the last line and has none -/
theorem linesGo_shape : ∀ (file cur : Bytes), (∀ b ∈ cur, b ≠ 10) →
    ∀ l ∈ linesGo file cur, (∃ body, l = body ++ [10] ∧ ∀ b ∈ body, b ≠ 10) ∨ (∀ b ∈ l, b ≠ 10) := by
  intro file
  induction file with
  | nil =>
    intro cur hc l hl
    simp only [linesGo] at hl
    split at hl
    · cases hl
    · simp at hl; subst hl; right; intro b hb; exact hc b (by simpa using hb)
  | cons x rest ih =>
    intro cur hc l hl
    simp only [linesGo] at hl
    split at hl
    · rename_i hx
      simp only [List.mem_cons] at hl
      rcases hl with rfl | hl
      · left; refine ⟨cur.reverse, by simp [hx], ?_⟩
        intro b hb; exact hc b (by simpa using hb)
      · exact ih [] (by intro b hb; cases hb) l hl
    · rename_i hx
      apply ih (x :: cur) _ l hl
      intro b hb
      simp only [List.mem_cons] at hb
      rcases hb with rfl | hb
      · exact hx
      · exact hc b hb

/-! ## the whole run -/

/-- the texts handed to the tokenizer for one stripped line -/
def unitsOf (lib : Lib) (f : Flags) (text : Bytes) : List Bytes :=
  match f.split with | .only => [] | .none => [text] | .default => lib.split text

def fmtRes (f : Flags) : TokRes → Bytes | .ok ms _ => format f ms | _ => []
def dumpRes : TokRes → Bytes | .ok _ d => d | .err d => d | .missing => []

/-- the library accepts the text (analysed with ALL fields) -/
def Accepts (lib : Lib) (s : Bytes) : Prop := ∃ ms d, lib.tokenize subsetAll s = .ok ms d

/-- specification of what the writer receives for one stripped line -/
def specLine (lib : Lib) (f : Flags) (text : Bytes) : Bytes :=
  match f.split with
  | .only => (lib.split text).flatten
  | _ => ((unitsOf lib f text).map (fun s => fmtRes f (lib.tokenize subsetAll s))).flatten

/-- specification of what the debug tokenizer prints for one stripped line -/
def dumpsLine (lib : Lib) (f : Flags) (text : Bytes) : Bytes :=
  if f.debug then ((unitsOf lib f text).map (fun s => dumpRes (lib.tokenize subsetAll s))).flatten else []

theorem analyzeOne_ok (lib : Lib) (f : Flags) (s : Bytes) (h : Accepts lib s) :
    analyzeOne lib f s = ⟨if f.debug then dumpRes (lib.tokenize subsetAll s) else [], fmtRes f (lib.tokenize subsetAll s), .ok⟩ := by
  obtain ⟨ms, d, h⟩ := h
  simp [analyzeOne, cliSubset, h, fmtRes, dumpRes]

theorem analyzeOne_err (lib : Lib) (f : Flags) (s d : Bytes) (h : lib.tokenize subsetAll s = .err d) :
    analyzeOne lib f s = ⟨if f.debug then d else [], [], .panic⟩ := by
  simp [analyzeOne, cliSubset, h]

theorem analyzeSents_ok (lib : Lib) (f : Flags) : ∀ (ss : List Bytes), (∀ s ∈ ss, Accepts lib s) →
    analyzeSents lib f ss =
      ⟨if f.debug then (ss.map (fun s => dumpRes (lib.tokenize subsetAll s))).flatten else [],
       (ss.map (fun s => fmtRes f (lib.tokenize subsetAll s))).flatten, .ok⟩ := by
  intro ss
  induction ss with
  | nil => intro _; simp [analyzeSents]
  | cons s rest ih =>
    intro h
    have hs := analyzeOne_ok lib f s (h s (by simp))
    have hr := ih (fun x hx => h x (by simp [hx]))
    simp only [analyzeSents, hs, hr]
    cases f.debug <;> simp

/-- sentences `us1` accepted, then `s` rejected: the results of `us1`, then a panic; what follows is not looked at -/
theorem analyzeSents_err (lib : Lib) (f : Flags) (s d : Bytes) (us2 : List Bytes)
    (hs : lib.tokenize subsetAll s = .err d) : ∀ (us1 : List Bytes), (∀ x ∈ us1, Accepts lib x) →
    (analyzeSents lib f (us1 ++ s :: us2)).outs = (us1.map (fun x => fmtRes f (lib.tokenize subsetAll x))).flatten ∧
    (analyzeSents lib f (us1 ++ s :: us2)).exit = .panic := by
  intro us1
  induction us1 with
  | nil => intro _; simp [analyzeSents, analyzeOne_err lib f s d hs]
  | cons x rest ih =>
    intro h
    have hx := analyzeOne_ok lib f x (h x (by simp))
    have hr := ih (fun y hy => h y (by simp [hy]))
    simp only [List.cons_append, analyzeSents, hx]
    simp [hr.1, hr.2]

theorem analyzeLine_ok (lib : Lib) (f : Flags) (text : Bytes) (h : ∀ s ∈ unitsOf lib f text, Accepts lib s) :
    analyzeLine lib f text = ⟨dumpsLine lib f text, specLine lib f text, .ok⟩ := by
  unfold analyzeLine specLine dumpsLine
  cases hsp : f.split with
  | only => simp [unitsOf, hsp]
  | none =>
    have := analyzeOne_ok lib f text (h text (by simp [unitsOf, hsp]))
    simp only [this, unitsOf, hsp]
    cases f.debug <;> simp
  | default =>
    have := analyzeSents_ok lib f (lib.split text) (by simpa [unitsOf, hsp] using h)
    simp only [this, unitsOf, hsp]

theorem runLines_ok (lib : Lib) (f : Flags) : ∀ (ls : List Bytes),
    (∀ l ∈ ls, ∀ s ∈ unitsOf lib f (stripEol f.strip l), Accepts lib s) →
    runLines lib f ls = ls.map (fun l => ⟨dumpsLine lib f (stripEol f.strip l), specLine lib f (stripEol f.strip l), .ok⟩) := by
  intro ls
  induction ls with
  | nil => intro _; rfl
  | cons l rest ih =>
    intro h
    have hl := analyzeLine_ok lib f (stripEol f.strip l) (h l (by simp))
    have hr := ih (fun x hx => h x (by simp [hx]))
    simp [runLines, hl, hr]

theorem exitOf_all_ok : ∀ (evs : List Emit), (∀ e ∈ evs, e.exit = .ok) → exitOf evs = .ok := by
  intro evs
  induction evs with
  | nil => intro _; rfl
  | cons e rest ih =>
    intro h
    cases rest with
    | nil => simpa [exitOf] using h e (by simp)
    | cons e2 r2 =>
      simp only [exitOf]
      exact ih (fun x hx => h x (by simp [hx]))

/-- lines `pre` accepted, then a line whose analysis panics: the events of `pre`, then that line's, nothing of `post` -/
theorem runLines_err (lib : Lib) (f : Flags) (l : Bytes) (post : List Bytes)
    (hl : (analyzeLine lib f (stripEol f.strip l)).exit ≠ .ok) : ∀ (pre : List Bytes),
    (∀ x ∈ pre, ∀ s ∈ unitsOf lib f (stripEol f.strip x), Accepts lib s) →
    runLines lib f (pre ++ l :: post) =
      pre.map (fun x => ⟨dumpsLine lib f (stripEol f.strip x), specLine lib f (stripEol f.strip x), .ok⟩) ++
        [analyzeLine lib f (stripEol f.strip l)] := by
  intro pre
  induction pre with
  | nil => intro _; simp [runLines, hl]
  | cons x rest ih =>
    intro h
    have hx := analyzeLine_ok lib f (stripEol f.strip x) (h x (by simp))
    have hr := ih (fun y hy => h y (by simp [hy]))
    simp [runLines, hx, hr]

theorem exitOf_append_single : ∀ (evs : List Emit) (e : Emit), exitOf (evs ++ [e]) = e.exit := by
  intro evs
  induction evs with
  | nil => intro e; rfl
  | cons a rest ih =>
    intro e
    cases rest with
    | nil => rfl
    | cons b r => simpa [exitOf] using ih e

/-! ### the debug flag and the library's answers for other subsets do not reach the writer -/

theorem analyzeOne_congr (lib lib' : Lib) (f f' : Flags) (hw : f.wakati = f'.wakati) (ha : f.all = f'.all)
    (ht : ∀ t, lib.tokenize subsetAll t = lib'.tokenize subsetAll t) (s : Bytes) :
    (analyzeOne lib f s).outs = (analyzeOne lib' f' s).outs ∧ (analyzeOne lib f s).exit = (analyzeOne lib' f' s).exit ∧
    (f.debug = f'.debug → (analyzeOne lib f s).dumps = (analyzeOne lib' f' s).dumps) := by
  unfold analyzeOne cliSubset
  rw [ht s]
  cases lib'.tokenize subsetAll s <;> simp [format, hw, ha] <;> intro h <;> simp [h]

theorem analyzeSents_congr (lib lib' : Lib) (f f' : Flags) (hw : f.wakati = f'.wakati) (ha : f.all = f'.all)
    (ht : ∀ t, lib.tokenize subsetAll t = lib'.tokenize subsetAll t) : ∀ (ss : List Bytes),
    (analyzeSents lib f ss).outs = (analyzeSents lib' f' ss).outs ∧ (analyzeSents lib f ss).exit = (analyzeSents lib' f' ss).exit ∧
    (f.debug = f'.debug → (analyzeSents lib f ss).dumps = (analyzeSents lib' f' ss).dumps) := by
  intro ss
  induction ss with
  | nil => simp [analyzeSents]
  | cons s rest ih =>
    obtain ⟨h1, h2, h3⟩ := analyzeOne_congr lib lib' f f' hw ha ht s
    obtain ⟨i1, i2, i3⟩ := ih
    simp only [analyzeSents]
    rw [h2]
    by_cases hok : (analyzeOne lib' f' s).exit = .ok
    · simp only [hok, if_true]
      refine ⟨by rw [h1, i1], i2, ?_⟩
      intro hd; rw [h3 hd, i3 hd]
    · simp only [hok, if_false]
      exact ⟨h1, h2, h3⟩

theorem analyzeLine_congr (lib lib' : Lib) (f f' : Flags) (hw : f.wakati = f'.wakati) (ha : f.all = f'.all) (hs : f.split = f'.split)
    (ht : ∀ t, lib.tokenize subsetAll t = lib'.tokenize subsetAll t) (hsp : ∀ t, lib.split t = lib'.split t) (text : Bytes) :
    (analyzeLine lib f text).outs = (analyzeLine lib' f' text).outs ∧ (analyzeLine lib f text).exit = (analyzeLine lib' f' text).exit ∧
    (f.debug = f'.debug → (analyzeLine lib f text).dumps = (analyzeLine lib' f' text).dumps) := by
  unfold analyzeLine
  rw [← hs, hsp text]
  cases f.split with
  | only => simp
  | none => exact analyzeOne_congr lib lib' f f' hw ha ht text
  | default => exact analyzeSents_congr lib lib' f f' hw ha ht (lib'.split text)

theorem runLines_congr (lib lib' : Lib) (f f' : Flags) (hw : f.wakati = f'.wakati) (ha : f.all = f'.all) (hs : f.split = f'.split)
    (hst : f.strip = f'.strip)
    (ht : ∀ t, lib.tokenize subsetAll t = lib'.tokenize subsetAll t) (hsp : ∀ t, lib.split t = lib'.split t) : ∀ (ls : List Bytes),
    (runLines lib f ls).map (·.outs) = (runLines lib' f' ls).map (·.outs) ∧ exitOf (runLines lib f ls) = exitOf (runLines lib' f' ls) ∧
    (f.debug = f'.debug → runLines lib f ls = runLines lib' f' ls) := by
  intro ls
  induction ls with
  | nil => simp [runLines]
  | cons l rest ih =>
    obtain ⟨h1, h2, h3⟩ := analyzeLine_congr lib lib' f f' hw ha hs ht hsp (stripEol f.strip l)
    obtain ⟨i1, i2, i3⟩ := ih
    simp only [runLines]
    rw [← hst, h2]
    by_cases hok : (analyzeLine lib' f' (stripEol f.strip l)).exit = .ok
    · simp only [hok, if_true, List.map_cons]
      refine ⟨by rw [h1, i1], ?_, ?_⟩
      · cases hr : runLines lib f rest with
        | nil =>
          have : (runLines lib' f' rest).map (·.outs) = [] := by rw [← i1, hr]; rfl
          have h' : runLines lib' f' rest = [] := by simpa using this
          simp [exitOf, h', h2, hok]
        | cons a r =>
          have : (runLines lib' f' rest).map (·.outs) = a.outs :: r.map (·.outs) := by rw [← i1, hr]; rfl
          cases hr' : runLines lib' f' rest with
          | nil => rw [hr'] at this; cases this
          | cons a' r' => simp only [exitOf]; rw [← hr, ← hr']; exact i2
      · intro hd
        have e : analyzeLine lib f (stripEol f.strip l) = analyzeLine lib' f' (stripEol f.strip l) := by
          have := h3 hd
          cases ha : analyzeLine lib f (stripEol f.strip l); cases hb : analyzeLine lib' f' (stripEol f.strip l)
          simp_all
        rw [e, i3 hd]
    · simp only [hok, if_false, List.map_cons, List.map_nil, exitOf]
      refine ⟨by rw [h1], h2, ?_⟩
      intro hd
      have := h3 hd
      cases ha : analyzeLine lib f (stripEol f.strip l); cases hb : analyzeLine lib' f' (stripEol f.strip l)
      simp_all

/-- without `-d` no event carries a dump -/
theorem runLines_nodebug_dumps (lib : Lib) (f : Flags) (hdb : f.debug = false) : ∀ (ls : List Bytes), ∀ e ∈ runLines lib f ls, e.dumps = [] := by
  have h1 : ∀ u, (analyzeOne lib f u).dumps = [] := by
    intro u; unfold analyzeOne; cases lib.tokenize (cliSubset f) u <;> simp [hdb]
  have h2 : ∀ ss, (analyzeSents lib f ss).dumps = [] := by
    intro ss; induction ss with
    | nil => rfl
    | cons a rest ih => simp only [analyzeSents]; split <;> simp [h1, ih]
  have h3 : ∀ t, (analyzeLine lib f t).dumps = [] := by
    intro t; unfold analyzeLine; cases f.split <;> simp [h1, h2]
  intro ls
  induction ls with
  | nil => intro e he; cases he
  | cons l rest ih =>
    intro e he
    simp only [runLines] at he
    split at he
    · simp only [List.mem_cons] at he
      rcases he with rfl | he
      · exact h3 _
      · exact ih e he
    · simp only [List.mem_singleton] at he; subst he; exact h3 _

theorem flatten_map_nil {α β : Type} (l : List α) (g : α → List β) (h : ∀ a ∈ l, g a = []) : (l.map g).flatten = [] := by
  induction l with
  | nil => rfl
  | cons a rest ih => simp [h a (by simp), ih (fun x hx => h x (by simp [hx]))]

end Cli
