import Sudachi.Proofs.Oov
set_option linter.unusedSimpArgs false
/-!
# Lemmas for C13, second part: the lattice builder as a whole (core Lean only)

* the builder with recorded provider calls (`stepAtT`, `buildLatticeT`) is the builder (`stepAtT_nodes`, `buildLatticeT_nodes`);
* the provider list: order of the calls, mask and node buffer each provider sees (`provideAllT_spec`, `provideAllT_idx`);
* what a successful step is made of (`stepAtT_spec`), the extra call of the last provider is redundant when the
  character let the loop run (`fallback_redundant_when_asked`);
* buffers built by the model are well formed (`mkBufV_wf`), every candidate is non-empty and inside the text
  (`provide_ok`, `stepAt_ok`), invariant of the position loop (`buildFrom_inv`);
* `CategoryType::iter`: a named single class is visited iff the character has it (`flagsIter_named_bit`).
-/
namespace Oov
/-! ## the recorded builder is the builder -/

def Outcome.mapO {α β : Type} (f : α → β) : Outcome α → Outcome β
  | .ok a => .ok (f a)
  | .err k => .err k
  | .panic w => .panic w

theorem provideOovsT_fst (i : Nat) (p : Provider) (buf : Buf) (o : Nat) (st : Nat × List Node) :
    (provideOovsT i p buf o st).mapO Prod.fst = provideOovs p buf o st := by
  unfold provideOovsT provideOovs
  cases provide p buf o st.1 st.2 <;> rfl

theorem provideAllT_fst (ps : List Provider) (i : Nat) (buf : Buf) (o : Nat) (st : Nat × List Node) :
    (provideAllT ps i buf o st).mapO Prod.fst = provideAll ps buf o st := by
  induction ps generalizing i st with
  | nil => rfl
  | cons p rest ih =>
    simp only [provideAllT, provideAll]
    rw [← provideOovsT_fst i p buf o st]
    cases h : provideOovsT i p buf o st with
    | ok r =>
      obtain ⟨st', c⟩ := r
      simp only [Outcome.mapO]
      rw [← ih (i + 1) st']
      cases provideAllT rest (i + 1) buf o st' with
      | ok r2 => obtain ⟨a, b⟩ := r2; rfl
      | err k => rfl
      | panic w => rfl
    | err k => rfl
    | panic w => rfl

theorem asksProviders_iff (cat : Nat) : asksProviders cat = true ↔ cat &&& (NOOOVBOW ||| NOOOVBOW2) = 0 := by
  simp [asksProviders]

theorem stepAtT_nodes (ps : List Provider) (lex : List Word) (buf : Buf) (o : Nat) :
    (stepAtT ps lex buf o).mapO (·.nodes) = stepAt ps lex buf o := by
  unfold stepAtT stepAt
  cases hc : buf.cats[o]? with
  | none => rfl
  | some cat =>
    simp only
    unfold afterLoop
    by_cases ha : cat &&& (NOOOVBOW ||| NOOOVBOW2) = 0
    · have ha' : asksProviders cat = true := (asksProviders_iff cat).mpr ha
      simp only [ha, ha', if_true]
      rw [← provideAllT_fst ps 0 buf o]
      cases provideAllT ps 0 buf o (addAll 0 (lexNodes lex buf o), lexNodes lex buf o) with
      | err k => rfl
      | panic w => rfl
      | ok r =>
        obtain ⟨st1, calls⟩ := r
        simp only [Outcome.mapO, Outcome.bind, fallback]
        by_cases h0 : st1.1 = 0
        · simp only [h0, if_true]
          cases ps.getLast? with
          | none => rfl
          | some p =>
            simp only
            rw [← provideOovsT_fst (ps.length - 1) p buf o st1]
            cases provideOovsT (ps.length - 1) p buf o st1 with
            | err k => rfl
            | panic w => rfl
            | ok r2 =>
              obtain ⟨st2, c⟩ := r2
              simp only [Outcome.mapO, Outcome.bind, finish]
              by_cases h2 : st2.1 = 0 <;> simp [h2, Outcome.mapO]
        · simp only [h0, if_false, Outcome.bind, finish, Outcome.mapO]
    · have ha' : asksProviders cat = false := by
        cases h : asksProviders cat with
        | false => rfl
        | true => exact absurd ((asksProviders_iff cat).mp h) ha
      simp only [ha, ha', if_false, Bool.false_eq_true]
      simp only [Outcome.bind, fallback]
      by_cases h0 : addAll 0 (lexNodes lex buf o) = 0
      · simp only [h0, if_true]
        cases ps.getLast? with
        | none => rfl
        | some p =>
          simp only
          rw [← provideOovsT_fst (ps.length - 1) p buf o]
          cases provideOovsT (ps.length - 1) p buf o (0, lexNodes lex buf o) with
          | err k => rfl
          | panic w => rfl
          | ok r2 =>
            obtain ⟨st2, c⟩ := r2
            simp only [Outcome.mapO, Outcome.bind, finish]
            by_cases h2 : st2.1 = 0 <;> simp [h2, Outcome.mapO]
      · simp only [h0, if_false, Outcome.bind, finish, Outcome.mapO]

theorem buildFromT_nodes (ps : List Provider) (lex : List Word) (buf : Buf) (todo : List Nat) (nodes : List Node)
    (tr : List PosTrace) :
    (buildFromT ps lex buf todo nodes tr).mapO Prod.fst = buildFrom ps lex buf todo nodes := by
  induction todo generalizing nodes tr with
  | nil => rfl
  | cons p rest ih =>
    simp only [buildFromT, buildFrom]
    by_cases hr : (!reachable nodes p) = true
    · simp only [hr, if_true]; exact ih nodes tr
    · simp only [hr, if_false, Bool.false_eq_true]
      rw [← stepAtT_nodes ps lex buf p]
      cases stepAtT ps lex buf p with
      | ok t => simp only [Outcome.mapO]; exact ih _ _
      | err k => rfl
      | panic w => rfl

theorem buildLatticeT_nodes (ps : List Provider) (lex : List Word) (buf : Buf) :
    (buildLatticeT ps lex buf).mapO Prod.fst = buildLattice ps lex buf := by
  unfold buildLatticeT buildLattice
  rw [← buildFromT_nodes ps lex buf _ [] []]
  cases buildFromT ps lex buf (List.range buf.chars.length) [] [] with
  | ok r =>
    obtain ⟨nodes, tr⟩ := r
    simp only [Outcome.mapO]
    by_cases h : reachable nodes buf.chars.length = true <;> simp [h, Outcome.mapO]
  | err k => rfl
  | panic w => rfl

/-! ## the provider list: order, masks, buffers -/

def outsOf (cs : List Call) : List Node := cs.flatMap (·.out)

theorem provideOovsT_ok (i : Nat) (p : Provider) (buf : Buf) (o : Nat) (st st' : Nat × List Node) (c : Call)
    (h : provideOovsT i p buf o st = .ok (st', c)) :
    provide p buf o st.1 st.2 = .ok c.out ∧ c.idx = i ∧ c.offset = o ∧ c.created = st.1 ∧ c.pre = st.2.length ∧
    st' = (addAll st.1 c.out, st.2 ++ c.out) := by
  unfold provideOovsT at h
  cases hp : provide p buf o st.1 st.2 with
  | ok new => simp only [hp, Outcome.ok.injEq, Prod.mk.injEq] at h; obtain ⟨h1, h2⟩ := h; subst h1 h2; simp
  | err k => simp [hp] at h
  | panic w => simp [hp] at h

/-- Running the provider list from state `st` (mask, node buffer): the `j`-th call is made to the `j`-th provider
with the mask and the buffer extended by everything the earlier providers pushed. -/

theorem provideAllT_spec (ps : List Provider) (i : Nat) (buf : Buf) (o : Nat) (st st' : Nat × List Node) (calls : List Call)
    (h : provideAllT ps i buf o st = .ok (st', calls)) :
    calls.length = ps.length ∧
    st' = (addAll st.1 (outsOf calls), st.2 ++ outsOf calls) ∧
    ∀ before c after, calls = before ++ c :: after →
      ∃ p, ps[before.length]? = some p ∧ c.idx = i + before.length ∧ c.offset = o ∧
        c.created = addAll st.1 (outsOf before) ∧ c.pre = (st.2 ++ outsOf before).length ∧
        provide p buf o (addAll st.1 (outsOf before)) (st.2 ++ outsOf before) = .ok c.out := by
  induction ps generalizing i st calls with
  | nil =>
    simp only [provideAllT, Outcome.ok.injEq, Prod.mk.injEq] at h
    obtain ⟨h1, h2⟩ := h; subst h1 h2
    refine ⟨rfl, by simp [outsOf, addAll], ?_⟩
    intro before c after hc
    cases before <;> simp at hc
  | cons p rest ih =>
    simp only [provideAllT] at h
    cases h1 : provideOovsT i p buf o st with
    | err k => simp [h1] at h
    | panic w => simp [h1] at h
    | ok r =>
      obtain ⟨st1, c0⟩ := r
      simp only [h1] at h
      cases h2 : provideAllT rest (i + 1) buf o st1 with
      | err k => simp [h2] at h
      | panic w => simp [h2] at h
      | ok r2 =>
        obtain ⟨st2, cs⟩ := r2
        simp only [h2, Outcome.ok.injEq, Prod.mk.injEq] at h
        obtain ⟨e1, e2⟩ := h; subst e1 e2
        obtain ⟨hp, hidx, hoff, hcr, hpre, hst1⟩ := provideOovsT_ok i p buf o st st1 c0 h1
        obtain ⟨ihl, ihst, ihc⟩ := ih (i + 1) st1 cs h2
        subst hst1
        refine ⟨by simp [ihl], ?_, ?_⟩
        · rw [ihst]; simp [outsOf, addAll_append, List.append_assoc]
        · intro before c after hc
          cases before with
          | nil =>
            simp only [List.nil_append, List.cons.injEq] at hc
            obtain ⟨hc1, _⟩ := hc; subst hc1
            exact ⟨p, by simp, by simpa using hidx, hoff, by simpa [outsOf, addAll] using hcr, by simpa [outsOf] using hpre,
              by simpa [outsOf, addAll] using hp⟩
          | cons b0 before' =>
            simp only [List.cons_append, List.cons.injEq] at hc
            obtain ⟨hb, hcs⟩ := hc; subst hb
            obtain ⟨q, hq, hi2, ho2, hc2, hp2, hpr2⟩ := ihc before' c after hcs
            refine ⟨q, by simpa using hq, by simp only [List.length_cons]; omega, ho2, ?_, ?_, ?_⟩
            · rw [hc2]; simp [outsOf, addAll_append]
            · rw [hp2]; simp [outsOf, List.append_assoc]
            · have : outsOf (c0 :: before') = c0.out ++ outsOf before' := by simp [outsOf]
              rw [this, addAll_append, ← List.append_assoc]; exact hpr2

theorem addAll_zero_iff (l : List Node) : addAll 0 l = 0 ↔ l = [] := by
  cases l with
  | nil => simp [addAll]
  | cons x rest => simp [addAll_ne_zero_of_cons]

theorem provideAllT_idx (ps : List Provider) (i : Nat) (buf : Buf) (o : Nat) (st st' : Nat × List Node) (calls : List Call)
    (h : provideAllT ps i buf o st = .ok (st', calls)) : calls.map (·.idx) = List.range' i ps.length := by
  induction ps generalizing i st st' calls with
  | nil =>
    simp only [provideAllT, Outcome.ok.injEq, Prod.mk.injEq] at h
    obtain ⟨_, h2⟩ := h; subst h2; rfl
  | cons p rest ih =>
    simp only [provideAllT] at h
    cases h1 : provideOovsT i p buf o st with
    | err k => simp [h1] at h
    | panic w => simp [h1] at h
    | ok r =>
      obtain ⟨st1, c0⟩ := r
      simp only [h1] at h
      cases h2 : provideAllT rest (i + 1) buf o st1 with
      | err k => simp [h2] at h
      | panic w => simp [h2] at h
      | ok r2 =>
        obtain ⟨st2, cs⟩ := r2
        simp only [h2, Outcome.ok.injEq, Prod.mk.injEq] at h
        obtain ⟨_, e2⟩ := h; subst e2
        have := (provideOovsT_ok i p buf o st st1 c0 h1).2.1
        simp [List.range'_succ, this, ih (i + 1) st1 st2 cs h2]

/-- `MecabSpec` looks at the mask only through "is anything there" -/

theorem MecabSpec_created_congr (cfg : MecabCfg) (n o cl c1 c2 ct : Nat) (x : Node) (h : c1 = 0 ↔ c2 = 0) :
    MecabSpec cfg n o cl c1 ct x ↔ MecabSpec cfg n o cl c2 ct x := by
  unfold MecabSpec
  constructor
  · rintro ⟨ci, oovs, d, h1, h2, h3⟩
    exact ⟨ci, oovs, d, h1, h2.imp id h.mp, h3⟩
  · rintro ⟨ci, oovs, d, h1, h2, h3⟩
    exact ⟨ci, oovs, d, h1, h2.imp id h.mpr, h3⟩

/-- what a successful step is made of -/

theorem stepAtT_spec (ps : List Provider) (lex : List Word) (buf : Buf) (o : Nat) (t : PosTrace)
    (h : stepAtT ps lex buf o = .ok t) :
    ∃ cat, buf.cats[o]? = some cat ∧ t.pos = o ∧ t.asked = asksProviders cat ∧ t.lexN = lexNodes lex buf o ∧
      (t.asked = true → ∃ st', provideAllT ps 0 buf o (addAll 0 t.lexN, t.lexN) = .ok (st', t.calls)) ∧
      (t.asked = false → t.calls = []) ∧
      (t.lexN ++ outsOf t.calls ≠ [] → t.fb = none ∧ t.nodes = t.lexN ++ outsOf t.calls) ∧
      (t.lexN ++ outsOf t.calls = [] → ∃ p c, ps.getLast? = some p ∧ t.fb = some c ∧ c.idx = ps.length - 1 ∧
        c.offset = o ∧ c.created = 0 ∧ c.pre = 0 ∧ provide p buf o 0 [] = .ok c.out ∧ c.out ≠ [] ∧ t.nodes = c.out) := by
  unfold stepAtT at h
  cases hc : buf.cats[o]? with
  | none => simp [hc] at h
  | some cat =>
    simp only [hc] at h
    refine ⟨cat, rfl, ?_⟩
    -- the loop result
    generalize hloop : (if asksProviders cat = true then provideAllT ps 0 buf o (addAll 0 (lexNodes lex buf o), lexNodes lex buf o)
        else Outcome.ok ((addAll 0 (lexNodes lex buf o), lexNodes lex buf o), [])) = loop at h
    cases loop with
    | err k => simp at h
    | panic w => simp at h
    | ok r =>
      obtain ⟨st1, calls⟩ := r
      simp only at h
      -- the state after the loop is (mask of lexN ++ outs, lexN ++ outs)
      have hst1 : st1 = (addAll 0 (lexNodes lex buf o ++ outsOf calls), lexNodes lex buf o ++ outsOf calls) ∧
          (asksProviders cat = true → provideAllT ps 0 buf o (addAll 0 (lexNodes lex buf o), lexNodes lex buf o) = .ok (st1, calls)) ∧
          (asksProviders cat = false → calls = []) := by
        by_cases ha : asksProviders cat = true
        · simp only [ha, if_true] at hloop
          obtain ⟨_, hs, _⟩ := provideAllT_spec ps 0 buf o _ st1 calls hloop
          exact ⟨by rw [hs, addAll_append], fun _ => hloop, fun hf => by rw [ha] at hf; cases hf⟩
        · simp only [ha, if_false, Outcome.ok.injEq, Prod.mk.injEq, Bool.false_eq_true] at hloop
          obtain ⟨h1, h2⟩ := hloop; subst h1 h2
          exact ⟨by simp [outsOf], fun hf => absurd hf ha, fun _ => rfl⟩
      obtain ⟨hs1, hasked, hnot⟩ := hst1
      by_cases h0 : st1.1 = 0
      · simp only [h0, if_true] at h
        have hnil : lexNodes lex buf o ++ outsOf calls = [] := by
          rw [hs1] at h0; exact (addAll_zero_iff _).mp h0
        cases hl : ps.getLast? with
        | none => simp [hl] at h
        | some p =>
          simp only [hl] at h
          cases h2 : provideOovsT (ps.length - 1) p buf o st1 with
          | err k => simp [h2] at h
          | panic w => simp [h2] at h
          | ok r2 =>
            obtain ⟨st2, c⟩ := r2
            simp only [h2] at h
            by_cases h3 : st2.1 = 0
            · simp [h3] at h
            · simp only [h3, if_false, Outcome.ok.injEq] at h
              subst h
              obtain ⟨hp, hidx, hoff, hcr, hpre, hst2⟩ := provideOovsT_ok _ p buf o st1 st2 c h2
              rw [hs1, hnil] at hp hcr hpre hst2
              simp only [addAll, List.foldl_nil, List.length_nil, List.nil_append] at hp hcr hpre hst2
              refine ⟨rfl, rfl, rfl, fun ha => ⟨st1, hasked ha⟩, hnot, fun hne => absurd hnil hne, fun _ => ?_⟩
              refine ⟨p, c, rfl, rfl, hidx, hoff, hcr, hpre, hp, ?_, by rw [hst2]⟩
              intro he
              apply h3; rw [hst2, he]; rfl
      · simp only [h0, if_false, Outcome.ok.injEq] at h
        subst h
        have hne : lexNodes lex buf o ++ outsOf calls ≠ [] := by
          intro he; apply h0; rw [hs1, he]; rfl
        refine ⟨rfl, rfl, rfl, fun ha => ⟨st1, hasked ha⟩, hnot, fun _ => ⟨rfl, by rw [hs1]⟩, fun he => absurd he hne⟩

/-- When the character's class lets the provider loop run, the extra call of the last provider can never help:
it repeats a call that has just returned nothing. -/

theorem fallback_redundant_when_asked (ps : List Provider) (lex : List Word) (buf : Buf) (o : Nat) (t : PosTrace)
    (h : stepAtT ps lex buf o = .ok t) (ha : t.asked = true) : t.fb = none ∧ t.nodes = t.lexN ++ outsOf t.calls := by
  obtain ⟨cat, _, _, _, _, hloop, _, hne, hnil⟩ := stepAtT_spec ps lex buf o t h
  by_cases he : t.lexN ++ outsOf t.calls = []
  · exfalso
    obtain ⟨p, c, hl, _, _, _, _, _, hp, hout, _⟩ := hnil he
    obtain ⟨st', hall⟩ := hloop ha
    obtain ⟨hlen, _, hsplit⟩ := provideAllT_spec ps 0 buf o _ st' t.calls hall
    have hlex : t.lexN = [] := (List.append_eq_nil_iff.mp he).1
    have houts : outsOf t.calls = [] := (List.append_eq_nil_iff.mp he).2
    have hps : ps ≠ [] := by intro hh; rw [hh] at hl; simp at hl
    have hcalls : t.calls ≠ [] := by
      intro hh; rw [hh] at hlen; simp at hlen; exact hps (List.eq_nil_of_length_eq_zero hlen.symm)
    have hdec := (List.dropLast_concat_getLast hcalls).symm
    obtain ⟨q, hq, _, _, _, _, hprov⟩ := hsplit t.calls.dropLast (t.calls.getLast hcalls) [] hdec
    -- the last call is a call of the last provider
    have hq' : q = p := by
      rw [List.getLast?_eq_getElem?] at hl
      have : t.calls.dropLast.length = ps.length - 1 := by simp [hlen]
      rw [this, hl] at hq; exact (Option.some.inj hq).symm
    subst hq'
    -- everything before it is empty, and so is its own output
    have hall_empty : ∀ c ∈ t.calls, c.out = [] := by
      intro c hc
      have := List.flatMap_eq_nil_iff.mp houts c hc
      exact this
    have hbefore : outsOf t.calls.dropLast = [] := by
      apply List.flatMap_eq_nil_iff.mpr
      intro c hc; exact hall_empty c ((List.dropLast_sublist _).subset hc)
    have hlast : (t.calls.getLast hcalls).out = [] := hall_empty _ (List.getLast_mem hcalls)
    rw [hlex, hbefore, hlast] at hprov
    simp only [addAll, List.foldl_nil, List.append_nil] at hprov
    rw [hprov] at hp
    exact hout (Outcome.ok.inj hp).symm
  · exact hne he

/-! ## well-formed buffers: what `InputBuffer::build` guarantees about its tables -/

/-- the tables of a built buffer have one entry per character and every run stays inside the text -/

structure Buf.WF (buf : Buf) : Prop where
  cats_len : buf.cats.length = buf.chars.length
  cont_len : buf.cont.length = buf.chars.length
  bow_len : buf.bow.length = buf.chars.length
  cont_bound : ∀ i c, buf.cont[i]? = some c → 1 ≤ c ∧ i + c ≤ buf.chars.length

/-- a run table for a text of `n` characters: right length, every entry at least 1 and inside the text -/

def ContOk (cont : List Nat) (n : Nat) : Prop :=
  cont.length = n ∧ ∀ i c, cont[i]? = some c → 1 ≤ c ∧ i + c ≤ n

theorem allSome_length {α : Type} (l : List (Option α)) (r : List α) (h : Wire.allSome l = some r) : r.length = l.length := by
  induction l generalizing r with
  | nil => simp [Wire.allSome] at h; subst h; rfl
  | cons x rest ih =>
    cases x with
    | none => simp [Wire.allSome] at h
    | some a =>
      simp only [Wire.allSome, Option.map_eq_some_iff] at h
      obtain ⟨r', hr, rfl⟩ := h
      simp [ih r' hr]

theorem bowGoV_length (cb : Bool) (cats : List Nat) (nb : Bool) (prev : Nat) : (bowGoV cb cats nb prev).length = cats.length := by
  induction cats generalizing nb prev with
  | nil => rfl
  | cons c rest ih =>
    simp only [bowGoV]
    split
    · simp [ih]
    · split
      · simp [ih]
      · split
        · simp [ih]
        · split <;> simp [ih]

theorem countdown_contOk (k : Nat) (rest : List Nat) (m : Nat) (h : ContOk rest m) : ContOk (countdown k ++ rest) (k + m) := by
  obtain ⟨hl, hb⟩ := h
  refine ⟨by simp [countdown_length, hl], ?_⟩
  intro i c hc
  by_cases hi : i < k
  · rw [List.getElem?_append_left (by rw [countdown_length]; exact hi), countdown_getElem?] at hc
    simp only [hi, if_true, Option.some.injEq] at hc
    omega
  · rw [List.getElem?_append_right (by rw [countdown_length]; omega), countdown_length] at hc
    have := hb _ _ hc
    omega

theorem forward_contOk (cats : List Nat) : ContOk (fillCatContinuityForward cats) cats.length := by
  fun_induction fillCatContinuityForward cats with
  | case1 => exact ⟨rfl, by intro i c h; simp at h⟩
  | case2 c rest ih =>
    have hle := scan_le c rest
    have := countdown_contOk (scan c rest + 1) _ _ ih
    have e : scan c rest + 1 + (rest.drop (scan c rest)).length = (c :: rest).length := by
      simp only [List.length_drop, List.length_cons]; omega
    rw [e] at this; exact this

/-- the backward loop: `acc` is a run table for its own length whose head is `k` -/

theorem bwdLoop_contOk (more : List Nat) (cat k : Nat) (acc : List Nat) (h : ContOk acc acc.length)
    (hk : acc[0]? = some k) : ContOk (bwdLoop more cat k acc) (more.length + acc.length) := by
  induction more generalizing cat k acc with
  | nil => simpa [bwdLoop] using h
  | cons cur more ih =>
    have hk1 := (h.2 0 k hk)
    have step : ∀ v, 1 ≤ v → v ≤ acc.length + 1 → ContOk (v :: acc) (v :: acc).length := by
      intro v h1 h2
      refine ⟨rfl, ?_⟩
      intro i c hc
      cases i with
      | zero => simp at hc; subst hc; simp; omega
      | succ j =>
        simp only [List.getElem?_cons_succ] at hc
        have := h.2 j c hc
        simp only [List.length_cons]; omega
    simp only [bwdLoop]
    split
    · have := ih (cur &&& cat) (k + 1) ((k + 1) :: acc) (step (k + 1) (by omega) (by omega)) (by simp)
      simp only [List.length_cons] at this ⊢
      have e : more.length + (acc.length + 1) = more.length + 1 + acc.length := by omega
      rw [e] at this; exact this
    · have := ih cur 1 (1 :: acc) (step 1 (by omega) (by omega)) (by simp)
      simp only [List.length_cons] at this ⊢
      have e : more.length + (acc.length + 1) = more.length + 1 + acc.length := by omega
      rw [e] at this; exact this

theorem backward_contOk (cats : List Nat) : ContOk (fillCatContinuityBackward cats) cats.length := by
  unfold fillCatContinuityBackward
  cases h : cats.reverse with
  | nil =>
    have : cats = [] := by simpa using h
    subst this; exact ⟨rfl, by intro i c h; simp at h⟩
  | cons last revRest =>
    have hl : cats.length = revRest.length + 1 := by
      have := congrArg List.length h; simpa using this
    have := bwdLoop_contOk revRest last 1 [1] ⟨rfl, by intro i c hc; cases i <;> simp at hc; subst hc; simp⟩ (by simp)
    simp only [List.length_cons, List.length_nil] at this
    rw [hl]; exact this

theorem fillCatContinuity_contOk (v : Variant) (cats : List Nat) : ContOk (fillCatContinuity v cats) cats.length := by
  cases v with
  | backward => exact backward_contOk cats
  | forward => exact forward_contOk cats
  | spec => simp only [fillCatContinuity]; rw [← forward_eq_spec]; exact forward_contOk cats

/-- every buffer the model builds (all three run computations, both word-start variants) is well formed -/

theorem mkBufV_wf (v : Variant) (bf : Bool) (tab : List (Nat × Nat)) (chars : List Nat) (buf : Buf)
    (h : mkBufV v bf tab chars = some buf) : buf.WF := by
  unfold mkBufV at h
  cases hc : Wire.allSome (chars.map (CharCat.lookup tab)) with
  | none => simp [hc] at h
  | some cats =>
    simp only [hc, Option.some.injEq] at h
    subst h
    have hl : cats.length = chars.length := by
      have := allSome_length _ _ hc; simpa using this
    have hco := fillCatContinuity_contOk v cats
    refine ⟨hl, by rw [hco.1, hl], ?_, ?_⟩
    · simp only
      split <;> simp [bowTableFix, bowTable, bowGo, bowGoV_length, hl]
    · intro i c hic
      have := hco.2 i c hic
      rw [hl] at this; exact this

/-! ## every candidate starts at its position, is non-empty and ends inside the text -/

/-- a candidate produced at position `o` of a text of `n` characters -/

def NodeOk (o n : Nat) (x : Node) : Prop := x.b = o ∧ o < x.e ∧ x.e ≤ n

theorem isPrefix_length (a b : List Nat) (h : isPrefix a b = true) : a.length ≤ b.length := by
  induction a generalizing b with
  | nil => simp
  | cons x xs ih =>
    cases b with
    | nil => simp [isPrefix] at h
    | cons y ys =>
      simp only [isPrefix, Bool.and_eq_true] at h
      have := ih ys h.2
      simp only [List.length_cons]; omega

theorem lexNodes_ok (lex : List Word) (buf : Buf) (o : Nat) (x : Node) (hx : x ∈ lexNodes lex buf o) :
    NodeOk o buf.chars.length x := by
  unfold lexNodes at hx
  simp only [List.mem_filterMap, List.mem_filter, Bool.and_eq_true, Bool.not_eq_true'] at hx
  obtain ⟨w, ⟨_, hne, hpre⟩, hw⟩ := hx
  have hlen := isPrefix_length _ _ hpre
  have hpos : 0 < w.surface.length := by
    cases hs : w.surface with
    | nil => simp [hs] at hne
    | cons a r => simp
  simp only [List.length_drop] at hlen
  have hb : x.b = o ∧ x.e = o + w.surface.length := by
    split at hw
    · split at hw
      · cases hw
      · cases hw; exact ⟨rfl, rfl⟩
    · cases hw; exact ⟨rfl, rfl⟩
  refine ⟨hb.1, by omega, by omega⟩

theorem lexNodes_end_bow (lex : List Word) (buf : Buf) (o : Nat) (x : Node) (hx : x ∈ lexNodes lex buf o)
    (hbl : buf.bow.length = buf.chars.length) : x.e = buf.chars.length ∨ buf.bow[x.e]? = some true := by
  have hok := lexNodes_ok lex buf o x hx
  unfold lexNodes at hx
  simp only [List.mem_filterMap, List.mem_filter, Bool.and_eq_true, Bool.not_eq_true'] at hx
  obtain ⟨w, _, hw⟩ := hx
  by_cases hlt : o + w.surface.length < buf.chars.length
  · simp only [hlt, if_true] at hw
    right
    have hin : o + w.surface.length < buf.bow.length := by omega
    cases hb : buf.bow[o + w.surface.length]? with
    | none => rw [List.getElem?_eq_none_iff] at hb; omega
    | some v =>
      cases v with
      | false => simp [hb] at hw
      | true =>
        simp only [hb] at hw
        cases hw; exact hb
  · simp only [hlt, if_false] at hw
    cases hw
    left
    have := hok.2.2
    simp only at this ⊢; omega

theorem simpleProvide_ok (cfg : SimpleCfg) (buf : Buf) (o created : Nat) (nodes : List Node) (hwf : buf.WF)
    (ho : o < buf.chars.length) (h : simpleProvide cfg buf o created = .ok nodes) :
    ∀ x ∈ nodes, NodeOk o buf.chars.length x ∧ (x.e = buf.chars.length ∨ buf.bow[x.e]? = some true) := by
  have hob : o < buf.bow.length := by rw [hwf.bow_len]; exact ho
  obtain ⟨h1, h2⟩ := simpleProvide_spec cfg buf o created hob
  by_cases hc : created = 0
  · obtain ⟨k, ⟨hk1, hk2, _, hk4⟩, hs⟩ := h2 hc
    rw [hs] at h; cases h
    intro x hx
    simp only [List.mem_singleton] at hx; subst hx
    rw [hwf.bow_len] at hk2 hk4
    exact ⟨⟨rfl, by simp only; omega, hk2⟩, hk4⟩
  · rw [h1 hc] at h; cases h; intro x hx; cases hx

theorem greedy_le (set : List Nat) (mx : Option Nat) (s : List Nat) : greedy set mx s ≤ s.length := by
  induction s generalizing mx with
  | nil => cases mx with
    | none => simp [greedy]
    | some m => cases m <;> simp [greedy]
  | cons c rest ih =>
    cases mx with
    | none =>
      simp only [greedy]; split
      · have := ih (Option.map (· - 1) none); simp only [List.length_cons]; omega
      · omega
    | some m =>
      cases m with
      | zero => simp [greedy]
      | succ m' =>
        simp only [greedy]; split
        · have := ih (Option.map (· - 1) (some (m' + 1))); simp only [List.length_cons]; omega
        · omega

theorem regexFind_le (alts : List Alt) (s : List Nat) (k : Nat) (h : regexFind alts s = some k) : k ≤ s.length := by
  unfold regexFind at h
  obtain ⟨a, _, ha⟩ := List.exists_of_findSome?_eq_some h
  unfold altMatch at ha
  simp only at ha
  split at ha
  · cases ha; exact greedy_le _ _ _
  · cases ha

theorem regexProvide_ok (cfg : RegexCfg) (buf : Buf) (o created : Nat) (ex nodes : List Node)
    (h : regexProvide cfg buf o created ex = .ok nodes) : ∀ x ∈ nodes, NodeOk o buf.chars.length x := by
  -- every node is `regexNode cfg o k` for a match of `k ≥ 1` characters inside the slice
  have key : ∀ k, k ≠ 0 → o ≤ buf.chars.length →
      regexFind cfg.alts ((buf.chars.take (min buf.chars.length (o + cfg.maxLength))).drop o) = some k →
      NodeOk o buf.chars.length (regexNode cfg o k) := by
    intro k hk ho hf
    have := regexFind_le _ _ _ hf
    simp only [List.length_drop, List.length_take] at this
    refine ⟨rfl, by simp only [regexNode]; omega, by simp only [regexNode]; omega⟩
  unfold regexProvide at h
  split at h
  · cases h
  · cases h; intro x hx; cases hx
  · unfold regexCore at h
    split at h
    · cases h
    · rename_i hle
      split at h
      · cases h; intro x hx; cases hx
      · rename_i k hf
        split at h
        · split at h
          · cases h; intro x hx; cases hx
          · cases h
        · rename_i hk
          have hok := key k hk (by omega) hf
          split at h
          · cases h; intro x hx; cases hx
          · cases h; intro x hx; simp only [List.mem_singleton] at hx; subst hx; exact hok
          · split at h
            · cases h; intro x hx; cases hx
            · cases h; intro x hx; simp only [List.mem_singleton] at hx; subst hx; exact hok

theorem mecabProvide_ok (cfg : MecabCfg) (buf : Buf) (o created : Nat) (nodes : List Node) (hwf : buf.WF)
    (ho : o < buf.chars.length) (h : mecabProvide cfg buf o created = .ok nodes) :
    ∀ x ∈ nodes, NodeOk o buf.chars.length x := by
  obtain ⟨charLen, cat, hcl, _, hspec⟩ := mecabProvide_spec cfg buf o created nodes h
  have hb := hwf.cont_bound o charLen hcl
  intro x hx
  obtain ⟨_, ct, _, ci, oovs, d, _, _, _, _, hcase⟩ := (hspec x).mp hx
  rcases hcase with ⟨_, rfl⟩ | ⟨i, hi1, _, _, rfl⟩
  · exact ⟨rfl, by simp only [mkNode]; omega, by simp only [mkNode]; omega⟩
  · exact ⟨rfl, by simp only [mkNode]; omega, by simp only [mkNode]; omega⟩

theorem provide_ok (p : Provider) (buf : Buf) (o created : Nat) (ex nodes : List Node) (hwf : buf.WF)
    (ho : o < buf.chars.length) (h : provide p buf o created ex = .ok nodes) :
    ∀ x ∈ nodes, NodeOk o buf.chars.length x := by
  cases p with
  | mecab cfg => exact mecabProvide_ok cfg buf o created nodes hwf ho h
  | simple cfg => exact fun x hx => (simpleProvide_ok cfg buf o created nodes hwf ho h x hx).1
  | regex cfg => exact regexProvide_ok cfg buf o created ex nodes h

/-! ## a property of all nodes of a step / of the lattice -/

/-- a step only inserts dictionary words and what providers return: a property that holds for the dictionary
words of the position and for everything a configured provider can return there holds for every inserted node -/

theorem stepAt_forall (P : Node → Prop) (ps : List Provider) (lex : List Word) (buf : Buf) (o : Nat) (nodes : List Node)
    (hlex : ∀ x ∈ lexNodes lex buf o, P x)
    (hprov : ∀ p ∈ ps, ∀ c ex out, provide p buf o c ex = .ok out → ∀ x ∈ out, P x)
    (h : stepAt ps lex buf o = .ok nodes) : ∀ x ∈ nodes, P x := by
  have one : ∀ p ∈ ps, ∀ st st', (∀ x ∈ st.2, P x) → provideOovs p buf o st = .ok st' → ∀ x ∈ st'.2, P x := by
    intro p hp st st' hst hpo
    unfold provideOovs at hpo
    split at hpo
    · rename_i new hnew
      cases hpo
      intro x hx
      rcases List.mem_append.mp hx with h1 | h1
      · exact hst x h1
      · exact hprov p hp _ _ _ hnew x h1
    · cases hpo
    · cases hpo
  have all : ∀ (qs : List Provider), (∀ p ∈ qs, p ∈ ps) → ∀ st st', (∀ x ∈ st.2, P x) →
      provideAll qs buf o st = .ok st' → ∀ x ∈ st'.2, P x := by
    intro qs
    induction qs with
    | nil => intro _ st st' hst hpa; simp only [provideAll] at hpa; cases hpa; exact hst
    | cons q rest ih =>
      intro hsub st st' hst hpa
      simp only [provideAll] at hpa
      split at hpa
      · rename_i st1 h1
        exact ih (fun p hp => hsub p (List.mem_cons_of_mem _ hp)) st1 st' (one q (hsub q List.mem_cons_self) st st1 hst h1) hpa
      · cases hpa
      · cases hpa
  unfold stepAt at h
  split at h
  · cases h
  · rename_i cat hcat
    obtain ⟨st1, h1, h⟩ := bind_eq_ok _ _ _ h
    obtain ⟨st2, h2, h⟩ := bind_eq_ok _ _ _ h
    have i1 : ∀ x ∈ st1.2, P x := by
      unfold afterLoop at h1
      split at h1
      · exact all ps (fun p hp => hp) _ st1 hlex h1
      · cases h1; exact hlex
    have i2 : ∀ x ∈ st2.2, P x := by
      unfold fallback at h2
      split at h2
      · split at h2
        · cases h2
        · rename_i p hl
          exact one p (List.mem_of_getLast? hl) st1 st2 i1 h2
      · cases h2; exact i1
    unfold finish at h
    split at h
    · cases h
    · cases h; exact i2

theorem stepAt_index (ps : List Provider) (lex : List Word) (buf : Buf) (o : Nat) (nodes : List Node)
    (h : stepAt ps lex buf o = .ok nodes) : o < buf.cats.length := by
  unfold stepAt at h
  split at h
  · cases h
  · rename_i cat hcat
    cases hlt : decide (o < buf.cats.length) with
    | true => simpa using hlt
    | false =>
      have : buf.cats.length ≤ o := by simpa using hlt
      rw [List.getElem?_eq_none_iff.mpr this] at hcat; cases hcat

/-- every node a step inserts starts at the position, is non-empty and ends inside the text -/

theorem stepAt_ok (ps : List Provider) (lex : List Word) (buf : Buf) (o : Nat) (nodes : List Node) (hwf : buf.WF)
    (h : stepAt ps lex buf o = .ok nodes) : nodes ≠ [] ∧ ∀ x ∈ nodes, NodeOk o buf.chars.length x := by
  have ho : o < buf.chars.length := by rw [← hwf.cats_len]; exact stepAt_index ps lex buf o nodes h
  refine ⟨stepAt_nonempty ps lex buf o nodes h, ?_⟩
  exact stepAt_forall _ ps lex buf o nodes (lexNodes_ok lex buf o)
    (fun p _ c ex out hp => provide_ok p buf o c ex out hwf ho hp) h

/-! ## the lattice as a whole -/

theorem reachable_mono (nodes new : List Node) (q : Nat) (h : reachable nodes q = true) : reachable (nodes ++ new) q = true := by
  unfold reachable at *
  simp only [Bool.or_eq_true, List.any_append] at *
  rcases h with h | h
  · exact Or.inl h
  · exact Or.inr (Or.inl h)

theorem reachable_of_append (nodes new : List Node) (q : Nat) (hnew : ∀ x ∈ new, q < x.e)
    (h : reachable (nodes ++ new) q = true) : reachable nodes q = true := by
  unfold reachable at *
  simp only [Bool.or_eq_true, List.any_append, List.any_eq_true, beq_iff_eq] at *
  rcases h with h | h | ⟨x, hx, he⟩
  · exact Or.inl h
  · exact Or.inr h
  · have := hnew x hx; omega

theorem reachable_end (nodes : List Node) (x : Node) (hx : x ∈ nodes) : reachable nodes x.e = true := by
  unfold reachable
  simp only [Bool.or_eq_true, List.any_eq_true, beq_iff_eq]
  exact Or.inr ⟨x, hx, rfl⟩

/-- invariant of the position loop when it is about to look at position `p` of `n` -/

structure LatInv (n : Nat) (nodes : List Node) (p : Nat) : Prop where
  node_ok : ∀ x ∈ nodes, x.b < p ∧ x.b < x.e ∧ x.e ≤ n ∧ reachable nodes x.b = true
  covered : ∀ q, q < p → reachable nodes q = true → ∃ x ∈ nodes, x.b = q
  frontier : ∃ q, p ≤ q ∧ q ≤ n ∧ reachable nodes q = true

theorem latInv_init (n : Nat) : LatInv n [] 0 := by
  refine ⟨?_, ?_, ⟨0, Nat.le_refl _, Nat.zero_le _, rfl⟩⟩
  · intro x hx; cases hx
  · intro q hq; omega

theorem buildFrom_inv (ps : List Provider) (lex : List Word) (buf : Buf) (hwf : buf.WF) (m p : Nat) (nodes nodes' : List Node)
    (hpm : p + m = buf.chars.length) (hinv : LatInv buf.chars.length nodes p)
    (h : buildFrom ps lex buf (List.range' p m) nodes = .ok nodes') : LatInv buf.chars.length nodes' buf.chars.length := by
  induction m generalizing p nodes with
  | zero =>
    simp only [List.range'_zero, buildFrom, Outcome.ok.injEq] at h
    subst h
    have : p = buf.chars.length := by omega
    subst this; exact hinv
  | succ m ih =>
    rw [List.range'_succ] at h
    simp only [buildFrom] at h
    obtain ⟨hok, hcov, q, hq1, hq2, hq3⟩ := hinv
    by_cases hr : reachable nodes p = true
    · simp only [hr, Bool.not_true, Bool.false_eq_true, if_false] at h
      cases hs : stepAt ps lex buf p with
      | err k => simp [hs] at h
      | panic w => simp [hs] at h
      | ok new =>
        simp only [hs] at h
        obtain ⟨hne, hnew⟩ := stepAt_ok ps lex buf p new hwf hs
        apply ih (p + 1) (nodes ++ new) (by omega) ?_ h
        refine ⟨?_, ?_, ?_⟩
        · intro x hx
          rcases List.mem_append.mp hx with h1 | h1
          · obtain ⟨a, b, c, d⟩ := hok x h1
            exact ⟨by omega, b, c, reachable_mono _ _ _ d⟩
          · obtain ⟨a, b, c⟩ := hnew x h1
            exact ⟨by omega, by omega, c, by rw [a]; exact reachable_mono _ _ _ hr⟩
        · intro q' hq' hrq
          by_cases hqp : q' = p
          · subst hqp
            cases new with
            | nil => exact absurd rfl hne
            | cons x rest => exact ⟨x, by simp, (hnew x (by simp)).1⟩
          · have : reachable nodes q' = true :=
              reachable_of_append nodes new q' (fun x hx => by have := (hnew x hx).2.1; omega) hrq
            obtain ⟨x, hx, hb⟩ := hcov q' (by omega) this
            exact ⟨x, List.mem_append_left _ hx, hb⟩
        · cases new with
          | nil => exact absurd rfl hne
          | cons x rest =>
            obtain ⟨_, b, c⟩ := hnew x (by simp)
            exact ⟨x.e, by omega, c, reachable_end _ x (by simp)⟩
    · have hr' : reachable nodes p = false := by simpa using hr
      simp only [hr', Bool.not_false, if_true] at h
      apply ih (p + 1) nodes (by omega) ?_ h
      refine ⟨?_, ?_, ?_⟩
      · intro x hx
        obtain ⟨a, b, c, d⟩ := hok x hx
        exact ⟨by omega, b, c, d⟩
      · intro q' hq' hrq
        by_cases hqp : q' = p
        · subst hqp; rw [hr'] at hrq; cases hrq
        · exact hcov q' (by omega) hrq
      · refine ⟨q, ?_, hq2, hq3⟩
        by_cases hqp : q = p
        · subst hqp; rw [hr'] at hq3; cases hq3
        · omega

theorem buildFrom_forall (P : Node → Prop) (ps : List Provider) (lex : List Word) (buf : Buf) (todo : List Nat)
    (nodes nodes' : List Node)
    (hstep : ∀ p new, stepAt ps lex buf p = .ok new → ∀ x ∈ new, P x) (hn : ∀ x ∈ nodes, P x)
    (h : buildFrom ps lex buf todo nodes = .ok nodes') : ∀ x ∈ nodes', P x := by
  induction todo generalizing nodes with
  | nil => simp only [buildFrom, Outcome.ok.injEq] at h; subst h; exact hn
  | cons p rest ih =>
    simp only [buildFrom] at h
    split at h
    · exact ih nodes hn h
    · split at h
      · rename_i new hs
        apply ih (nodes ++ new) ?_ h
        intro x hx
        rcases List.mem_append.mp hx with h1 | h1
        · exact hn x h1
        · exact hstep p new hs x h1
      · cases h
      · cases h

/-! ## `CategoryType::iter` (bitflags 2.5): which named flags are visited -/

theorem testBit_clear (r g i : Nat) : (r ^^^ (r &&& g)).testBit i = (r.testBit i && !g.testBit i) := by
  rw [Nat.testBit_xor, Nat.testBit_and]
  cases r.testBit i <;> cases g.testBit i <;> rfl

theorem and_two_pow_ne_zero_iff (m k : Nat) : m &&& 2 ^ k ≠ 0 ↔ m.testBit k = true := by
  rw [Ne, and_two_pow_eq_zero_iff]; simp

theorem and_two_pow_eq_self (m k : Nat) (h : m.testBit k = true) : m &&& 2 ^ k = 2 ^ k := by
  apply Nat.eq_of_testBit_eq
  intro j
  rw [Nat.testBit_and, Nat.testBit_two_pow]
  by_cases hkj : k = j
  · subst hkj; simp [h]
  · simp [hkj]

theorem iterGo_zero (source : Nat) (fs : List Nat) : iterGo source fs 0 = [] := by
  cases fs <;> simp [iterGo]

/-- once bit `i` is gone from `rem`, the single-bit flag `2^i` is not produced by flags different from it
(nor as the left-over value) -/
theorem iterGo_not_mem (source i : Nat) (fs : List Nat) (rem : Nat) (hfs : ∀ g ∈ fs, g ≠ 2 ^ i)
    (hrem : rem.testBit i = false) : 2 ^ i ∉ iterGo source fs rem := by
  induction fs generalizing rem with
  | nil =>
    simp only [iterGo]
    split
    · intro h
      simp only [List.mem_singleton] at h
      rw [← h, Nat.testBit_two_pow_self] at hrem; cases hrem
    · simp
  | cons g rest ih =>
    have hg : g ≠ 2 ^ i := hfs g List.mem_cons_self
    have hrest : ∀ g ∈ rest, g ≠ 2 ^ i := fun x hx => hfs x (List.mem_cons_of_mem _ hx)
    simp only [iterGo]
    split
    · simp
    · split
      · intro h
        rcases List.mem_cons.mp h with h1 | h1
        · exact hg h1.symm
        · exact ih _ hrest (by rw [testBit_clear, hrem]; rfl) h1
      · exact ih rem hrest hrem

/-- a single-bit flag `2^i` preceded only by flags without bit `i` and followed only by flags different from
it is visited iff the bit is (still) set -/
theorem iterGo_mem_bit (source i : Nat) (pre post : List Nat) (rem : Nat)
    (hpre : ∀ g ∈ pre, g.testBit i = false) (hpost : ∀ g ∈ post, g ≠ 2 ^ i)
    (hsub : rem.testBit i = true → source.testBit i = true) :
    2 ^ i ∈ iterGo source (pre ++ 2 ^ i :: post) rem ↔ rem.testBit i = true := by
  induction pre generalizing rem with
  | nil =>
    simp only [List.nil_append, iterGo]
    split
    · rename_i h0; subst h0; simp
    · split
      · rename_i hy
        have := (and_two_pow_ne_zero_iff rem i).mp hy.2
        simp [this]
      · rename_i hn
        have hf : rem.testBit i = false := by
          cases hb : rem.testBit i with
          | false => rfl
          | true =>
            exfalso; apply hn
            exact ⟨and_two_pow_eq_self _ _ (hsub hb), (and_two_pow_ne_zero_iff rem i).mpr hb⟩
        have := iterGo_not_mem source i post rem hpost hf
        simp [this, hf]
  | cons g rest ih =>
    have hg : g.testBit i = false := hpre g List.mem_cons_self
    have hrest : ∀ g ∈ rest, g.testBit i = false := fun x hx => hpre x (List.mem_cons_of_mem _ hx)
    have hne : 2 ^ i ≠ g := by
      intro h; rw [← h, Nat.testBit_two_pow_self] at hg; cases hg
    simp only [List.cons_append, iterGo]
    split
    · rename_i h0; subst h0; simp
    · split
      · have hb : (rem ^^^ (rem &&& g)).testBit i = rem.testBit i := by rw [testBit_clear, hg]; simp
        rw [List.mem_cons]
        constructor
        · rintro (h | h)
          · exact absurd h hne
          · rw [← hb]; exact (ih _ hrest (by rw [hb]; exact hsub)).mp h
        · intro h
          right
          exact (ih _ hrest (by rw [hb]; exact hsub)).mpr (by rw [hb]; exact h)
      · exact ih rem hrest hsub

/-- position of the single-bit flag `2^i` in `Flags::FLAGS` -/
def flagIndex (i : Nat) : Nat := if i = 30 then 15 else if i = 31 then 16 else i

theorem flagDefs_split : ∀ i ∈ [0, 1, 2, 3, 4, 5, 6, 7, 8, 9, 10, 11, 12, 13, 14, 30, 31],
    flagDefs = flagDefs.take (flagIndex i) ++ 2 ^ i :: flagDefs.drop (flagIndex i + 1) ∧
    (∀ g ∈ flagDefs.take (flagIndex i), g.testBit i = false) ∧
    (∀ g ∈ flagDefs.drop (flagIndex i + 1), g ≠ 2 ^ i) := by
  decide

/-- **`CategoryType::iter` visits a named single class exactly when the character has it**: for the fifteen class
bits (DEFAULT … USER4 = bits 0–14) and for NOOOVBOW (bit 30), NOOOVBOW2 (bit 31), and for every class set `cat`. -/
theorem flagsIter_named_bit (cat i : Nat) (hi : i < 15 ∨ i = 30 ∨ i = 31) :
    2 ^ i ∈ flagsIter cat ↔ cat.testBit i = true := by
  have hmem : i ∈ [0, 1, 2, 3, 4, 5, 6, 7, 8, 9, 10, 11, 12, 13, 14, 30, 31] := by
    simp only [List.mem_cons, List.not_mem_nil, or_false]; omega
  obtain ⟨h1, h2, h3⟩ := flagDefs_split i hmem
  unfold flagsIter
  rw [h1]
  exact iterGo_mem_bit cat i _ _ cat h2 h3 id

end Oov
