import Sudachi.Proofs.Rewrite
/-!
# C14, second round: split stage after the plugins, order of the plugins, the katakana joiner's
decisions (start-of-run rule, NOOOVBOW, `minLength`)
-/
namespace Rewrite

variable {R : List Node → Node → Prop}

/-! ## `split_path` after the plugin loop -/

theorem splitNode_of_newWord (U : Mode → Node → List Node) (md : Mode) {m : Node} (h : NewWord m) :
    splitNode U md m = [m] := by
  unfold splitNode numSplits
  cases md <;> simp [h.1, h.2.1]

theorem splitPath_cons (U : Mode → Node → List Node) (md : Mode) (n : Node) (p : List Node) :
    splitPath U md (n :: p) = (if md = .C then [n] else splitNode U md n) ++ splitPath U md p := by
  cases md <;> simp [splitPath]

theorem splitPath_eq_flatMap (U : Mode → Node → List Node) (md : Mode) (p : List Node) :
    splitPath U md p = p.flatMap (fun n => if md = .C then [n] else splitNode U md n) := by
  cases md <;> simp [splitPath]

/-- the split of the rewritten path, block by block: a kept token is split exactly as in the
un-rewritten path, a merged token stays whole -/
def splitAligned (U : Mode → Node → List Node) (md : Mode) : List (List Node) → List Node → List Node
  | blk :: bs, m :: q =>
    (if blk = [m] then (if md = .C then [m] else splitNode U md m) else [m]) ++ splitAligned U md bs q
  | _, _ => []

theorem splitPath_of_aligned (U : Mode → Node → List Node) (md : Mode)
    (hR : ∀ blk m, R blk m → NewWord m) :
    ∀ (bs : List (List Node)) (q : List Node), Aligned R bs q →
      splitPath U md q = splitAligned U md bs q := by
  intro bs
  induction bs with
  | nil =>
    intro q h
    cases q with
    | nil => cases md <;> rfl
    | cons m q => exact absurd h (by simp [Aligned])
  | cons blk bs ih =>
    intro q h
    cases q with
    | nil => exact absurd h (by simp [Aligned])
    | cons m q =>
      obtain ⟨h1, h2⟩ := h
      rw [splitPath_cons, splitAligned, ih q h2]
      congr 1
      rcases h1 with rfl | ⟨_, hr⟩
      · simp
      · have hw := splitNode_of_newWord U md (hR _ _ hr)
        by_cases hb : blk = [m]
        · rw [if_pos hb]
        · rw [if_neg hb]
          by_cases hm : md = .C
          · rw [if_pos hm]
          · rw [if_neg hm, hw]

/-- membership form: a token of the split result is a token of the rewritten path or a unit of a
word of the un-rewritten path -/
theorem splitPath_mem_of_coarsens (U : Mode → Node → List Node) (md : Mode)
    (hR : ∀ blk m, R blk m → NewWord m) {p q : List Node} (h : Coarsens R p q) :
    ∀ t ∈ splitPath U md q, t ∈ q ∨ (t ∈ splitPath U md p ∧ ∃ n ∈ p, n ∈ q ∧ t ∈ splitNode U md n) := by
  induction h with
  | nil => intro t ht; cases md <;> simp [splitPath] at ht
  | keep n _ ih =>
    intro t ht
    rw [splitPath_cons, List.mem_append] at ht
    rcases ht with ht | ht
    · by_cases hm : md = .C
      · rw [if_pos hm] at ht
        left
        simp only [List.mem_singleton] at ht
        simp [ht]
      · rw [if_neg hm] at ht
        right
        refine ⟨?_, n, by simp, by simp, ht⟩
        rw [splitPath_cons, if_neg hm]
        exact List.mem_append_left _ ht
    · rcases ih t ht with h' | ⟨h1, n', hn', hq', ht'⟩
      · left; exact List.mem_cons_of_mem _ h'
      · right
        refine ⟨?_, n', List.mem_cons_of_mem _ hn', List.mem_cons_of_mem _ hq', ht'⟩
        rw [splitPath_cons]
        exact List.mem_append_right _ h1
  | merge blk m _ hr _ ih =>
    intro t ht
    rw [splitPath_cons, List.mem_append] at ht
    rcases ht with ht | ht
    · left
      have : t = m := by
        by_cases hm : md = .C
        · rw [if_pos hm] at ht; simpa using ht
        · rw [if_neg hm, splitNode_of_newWord U md (hR _ _ hr)] at ht; simpa using ht
      simp [this]
    · rcases ih t ht with h' | ⟨h1, n', hn', hq', ht'⟩
      · left; exact List.mem_cons_of_mem _ h'
      · right
        refine ⟨?_, n', List.mem_append_right _ hn', List.mem_cons_of_mem _ hq', ht'⟩
        rw [splitPath_eq_flatMap, List.flatMap_append, ← splitPath_eq_flatMap, ← splitPath_eq_flatMap]
        exact List.mem_append_right _ h1

theorem RS_newWord (poses : List Nat) : ∀ blk m, RS poses blk m → NewWord m := fun _ _ h => h.2

/-! ## order of the plugins -/

theorem rewriteAll_append (v : NVariant) (cat : List Nat) (P : List Char → POut) :
    ∀ (p1 p2 : List Plugin) (path : List Node),
      rewriteAll v cat P (p1 ++ p2) path = (rewriteAll v cat P p1 path).bind (rewriteAll v cat P p2) := by
  intro p1
  induction p1 with
  | nil => intro p2 path; rfl
  | cons pl rest ih =>
    intro p2 path
    simp only [List.cons_append, rewriteAll]
    cases applyPlugin v cat P pl path with
    | ok p' => exact ih p2 p'
    | err => rfl
    | panic => rfl
    | fuel => rfl

/-! ## the katakana joiner: `minLength` -/

/-- a node that is neither OOV nor shorter than `minLength` never starts a join -/
theorem kstep_not_candidate (cfg : KCfg) (cat : List Nat) (path : List Node) (i : Nat) (node : Node)
    (ho : isOov node = false) (hbe : node.b ≤ node.e) (hl : cfg.minLength ≤ node.e - node.b) :
    kstep cfg cat path i node = .ok .next := by
  unfold kstep
  have : isShorter cfg node = .ok false := by
    unfold isShorter
    rw [if_neg (by omega)]
    congr 1
    simp only [decide_eq_false_iff_not]
    omega
  simp [ho, this, Outcome.bind]

theorem kloop_unchanged_of_no_candidate (cfg : KCfg) (cat : List Nat) (path : List Node)
    (h : ∀ n ∈ path, isOov n = false ∧ n.b ≤ n.e ∧ cfg.minLength ≤ n.e - n.b) :
    ∀ (fuel i : Nat), path.length - i < fuel → kloop cfg cat fuel path i = .ok path := by
  intro fuel
  induction fuel with
  | zero => intro i hf; omega
  | succ fuel ih =>
    intro i hf
    unfold kloop
    by_cases hi : i ≥ path.length
    · rw [if_pos hi]
    · rw [if_neg hi]
      have hlt : i < path.length := by omega
      rw [List.getElem?_eq_getElem hlt]
      dsimp only
      obtain ⟨h1, h2, h3⟩ := h _ (List.getElem_mem hlt)
      rw [kstep_not_candidate cfg cat path i _ h1 h2 h3]
      dsimp only
      exact ih (i + 1) (by omega)

/-! ## the katakana joiner: which block is joined (start-of-run rule, NOOOVBOW) -/

theorem scanBackL_spec (cat : List Nat) : ∀ (l : List Node) (b : Nat), scanBackL cat l l.length = .ok b →
    ∃ r p, l = r ++ p ∧ b = p.length ∧ (∀ n ∈ r, isKatakana cat n = .ok true) ∧
      (∀ x, p.head? = some x → isKatakana cat x = .ok false) := by
  intro l
  induction l with
  | nil =>
    intro b h
    simp only [scanBackL, Outcome.ok.injEq] at h
    exact ⟨[], [], rfl, by simp [← h], by simp, by simp⟩
  | cons n rest ih =>
    intro b h
    unfold scanBackL at h
    split at h
    · rename_i hk
      have : (n :: rest).length - 1 = rest.length := by simp
      rw [this] at h
      obtain ⟨r, p, e1, e2, h1, h2⟩ := ih b h
      refine ⟨n :: r, p, by simp [e1], e2, ?_, h2⟩
      intro x hx
      rcases List.mem_cons.mp hx with rfl | hx
      · exact hk
      · exact h1 x hx
    · rename_i hk
      cases h
      refine ⟨[], n :: rest, rfl, rfl, by simp, ?_⟩
      intro x hx
      simp only [List.head?_cons, Option.some.injEq] at hx
      subst hx
      exact hk
    all_goals cases h

theorem scanFwdL_spec (cat : List Nat) : ∀ (l : List Node) (e0 e : Nat), scanFwdL cat l e0 = .ok e →
    ∃ r p, l = r ++ p ∧ e = e0 + r.length ∧ (∀ n ∈ r, isKatakana cat n = .ok true) ∧
      (∀ x, p.head? = some x → isKatakana cat x = .ok false) := by
  intro l
  induction l with
  | nil =>
    intro e0 e h
    simp only [scanFwdL, Outcome.ok.injEq] at h
    exact ⟨[], [], rfl, by simp [← h], by simp, by simp⟩
  | cons n rest ih =>
    intro e0 e h
    unfold scanFwdL at h
    split at h
    · rename_i hk
      obtain ⟨r, p, e1, e2, h1, h2⟩ := ih _ _ h
      refine ⟨n :: r, p, by simp [e1], by simp [e2]; omega, ?_, h2⟩
      intro x hx
      rcases List.mem_cons.mp hx with rfl | hx
      · exact hk
      · exact h1 x hx
    · rename_i hk
      cases h
      refine ⟨[], n :: rest, rfl, rfl, by simp, ?_⟩
      intro x hx
      simp only [List.head?_cons, Option.some.injEq] at hx
      subst hx
      exact hk
    all_goals cases h

theorem skipBowL_spec (cat : List Nat) : ∀ (l : List Node) (b0 b : Nat), skipBowL cat l b0 = .ok b →
    ∃ s t, l = s ++ t ∧ b = b0 + s.length ∧ (∀ n ∈ s, canOovBow cat n = .ok false) ∧
      (∀ x, t.head? = some x → canOovBow cat x = .ok true) := by
  intro l
  induction l with
  | nil =>
    intro b0 b h
    simp only [skipBowL, Outcome.ok.injEq] at h
    exact ⟨[], [], rfl, by simp [← h], by simp, by simp⟩
  | cons n rest ih =>
    intro b0 b h
    unfold skipBowL at h
    split at h
    · rename_i hk
      obtain ⟨r, p, e1, e2, h1, h2⟩ := ih _ _ h
      refine ⟨n :: r, p, by simp [e1], by simp [e2]; omega, ?_, h2⟩
      intro x hx
      rcases List.mem_cons.mp hx with rfl | hx
      · exact hk
      · exact h1 x hx
    · rename_i hk
      cases h
      refine ⟨[], n :: rest, rfl, rfl, by simp, ?_⟩
      intro x hx
      simp only [List.head?_cons, Option.some.injEq] at hx
      subst hx
      exact hk
    all_goals cases h

theorem block_of_decomp (a m c : List Node) :
    block (a ++ m ++ c) a.length (a.length + m.length) = m := by
  unfold block
  rw [List.append_assoc, List.drop_left']
  · have : a.length + m.length - a.length = m.length := by omega
    rw [this, List.take_left']
    rfl
  · rfl

/-- what `kstep` evaluated when it decided to join -/
theorem kstep_join_parts (cfg : KCfg) (cat : List Nat) (path : List Node) (i : Nat) (node : Node) (b e : Nat)
    (h : kstep cfg cat path i node = .ok (.join b e)) :
    (isOov node = true ∨ isShorter cfg node = .ok true) ∧ isKatakana cat node = .ok true ∧
      ∃ b0, scanBack cat path i = .ok b0 ∧ scanFwd cat path i = .ok e ∧ skipBow cat path b0 e = .ok b ∧
        1 < e - b := by
  unfold kstep at h
  have hc : (isOov node = true ∨ isShorter cfg node = .ok true) ∧
      ((if isOov node then Outcome.ok true else isShorter cfg node) = .ok true) := by
    cases ho : isOov node
    · simp only [ho, Bool.false_eq_true, if_false] at h ⊢
      cases hs : isShorter cfg node with
      | ok c =>
        cases c
        · simp [hs, Outcome.bind] at h
        · simp
      | err => simp [hs, Outcome.bind] at h
      | panic => simp [hs, Outcome.bind] at h
      | fuel => simp [hs, Outcome.bind] at h
    · simp
  rw [hc.2] at h
  simp only [Outcome.bind, Bool.not_true, Bool.false_eq_true, if_false] at h
  cases hk : isKatakana cat node with
  | ok kt =>
    cases kt
    · simp [hk] at h
    · simp only [hk, Bool.not_true, Bool.false_eq_true, if_false] at h
      cases hb : scanBack cat path i with
      | ok b0 =>
        simp only [hb] at h
        cases hf : scanFwd cat path i with
        | ok e' =>
          simp only [hf] at h
          cases hs : skipBow cat path b0 e' with
          | ok b' =>
            simp only [hs] at h
            split at h
            · rename_i hgt
              cases h
              exact ⟨hc.1, rfl, b0, rfl, rfl, hs, hgt⟩
            · cases h
          | err => simp [hs] at h
          | panic => simp [hs] at h
          | fuel => simp [hs] at h
        | err => simp [hf] at h
        | panic => simp [hf] at h
        | fuel => simp [hf] at h
      | err => simp [hb] at h
      | panic => simp [hb] at h
      | fuel => simp [hb] at h
  | err => simp [hk] at h
  | panic => simp [hk] at h
  | fuel => simp [hk] at h

/-- The decision of `rewrite_gen` for the node at index `i`, in one statement: when it joins `[b, e)`,
the path reads `pre ++ skipped ++ blk ++ post` where `skipped ++ blk` is the MAXIMAL run of katakana
nodes around `i` (the node before it and the node after it, if any, are not katakana), `skipped` are
the leading nodes of the run that begin with a NOOOVBOW character, `blk` — the joined block — begins
with a node that may begin an OOV word, has at least two nodes, and the node at `i`, which lies in the
run, is OOV or shorter than `minLength`. -/
theorem kstep_join_spec (cfg : KCfg) (cat : List Nat) (path : List Node) (i : Nat) (node : Node) (b e : Nat)
    (hn : path[i]? = some node) (h : kstep cfg cat path i node = .ok (.join b e)) :
    ∃ pre skipped blk post, path = pre ++ skipped ++ blk ++ post ∧
      b = pre.length + skipped.length ∧ e = b + blk.length ∧ 2 ≤ blk.length ∧ block path b e = blk ∧
      (∀ n ∈ skipped, isKatakana cat n = .ok true ∧ canOovBow cat n = .ok false) ∧
      (∀ n ∈ blk, isKatakana cat n = .ok true) ∧
      (∀ x, blk.head? = some x → canOovBow cat x = .ok true) ∧
      (∀ x, pre.getLast? = some x → isKatakana cat x = .ok false) ∧
      (∀ x, post.head? = some x → isKatakana cat x = .ok false) ∧
      pre.length ≤ i ∧ i < e ∧ (isOov node = true ∨ isShorter cfg node = .ok true) := by
  obtain ⟨hcand, hkat, b0, hb, hf, hs, hgt⟩ := kstep_join_parts cfg cat path i node b e h
  have hi : i < path.length := by
    rcases Nat.lt_or_ge i path.length with h' | h'
    · exact h'
    · rw [List.getElem?_eq_none h'] at hn; cases hn
  -- backwards scan
  unfold scanBack at hb
  have hlen : ((path.take i).reverse).length = i := by simp; omega
  rw [← hlen] at hb
  conv at hb => lhs; arg 2; rw [hlen]
  obtain ⟨r, p, e1, e2, hr, hp⟩ := scanBackL_spec cat _ _ hb
  have htake : path.take i = p.reverse ++ r.reverse := by
    have := congrArg List.reverse e1
    simpa using this
  -- forward scan
  unfold scanFwd at hf
  obtain ⟨r2, post, e3, e4, hr2, hpost⟩ := scanFwdL_spec cat _ _ _ hf
  have hdrop : path.drop i = node :: (r2 ++ post) := by
    rw [List.drop_eq_getElem_cons hi, ← e3]
    congr 1
    rw [List.getElem?_eq_getElem hi] at hn
    exact Option.some.inj hn
  have hpath : path = p.reverse ++ (r.reverse ++ node :: r2) ++ post := by
    conv => lhs; rw [← List.take_append_drop i path, htake, hdrop]
    simp
  have hb0 : b0 = (p.reverse).length := by simp [e2]
  have hrl : (r.reverse).length + (p.reverse).length = i := by
    have := congrArg List.length htake
    simp at this
    simp
    omega
  have he : e = (p.reverse).length + (r.reverse ++ node :: r2).length := by
    rw [e4]
    simp only [List.length_append, List.length_cons, List.length_reverse] at hrl ⊢
    omega
  -- the skipped prefix
  unfold skipBow at hs
  have hblk0 : block path b0 e = r.reverse ++ node :: r2 := by
    rw [hb0, he]
    conv => lhs; arg 1; rw [hpath]
    exact block_of_decomp _ _ _
  rw [hblk0] at hs
  obtain ⟨s, t, e5, e6, hsk, ht⟩ := skipBowL_spec cat _ _ _ hs
  have hmid : ∀ n ∈ s ++ t, isKatakana cat n = .ok true := by
    rw [← e5]
    intro n hn'
    rcases List.mem_append.mp hn' with h1 | h1
    · exact hr n (List.mem_reverse.mp h1)
    · rcases List.mem_cons.mp h1 with rfl | h1
      · exact hkat
      · exact hr2 n h1
  have hml : s.length + t.length = (r.reverse ++ node :: r2).length := by
    rw [e5]; simp
  have hpath' : path = (p.reverse ++ s) ++ t ++ post := by
    rw [hpath, e5]; simp
  have hbeq : b = (p.reverse ++ s).length := by rw [e6, hb0]; simp
  have heq : e = (p.reverse ++ s).length + t.length := by
    rw [he, ← hml]; simp; omega
  refine ⟨p.reverse, s, t, post, hpath', by rw [hbeq]; simp, by rw [heq, hbeq],
    by rw [heq, hbeq] at hgt; omega, ?_, ?_, fun n hn' => hmid n (List.mem_append_right _ hn'), ht, ?_,
    hpost, by omega, by rw [e4]; omega, hcand⟩
  · rw [hbeq, heq]
    conv => lhs; arg 1; rw [hpath']
    exact block_of_decomp _ _ _
  · intro n hn'
    exact ⟨hmid n (List.mem_append_left _ hn'), hsk n hn'⟩
  · intro x hx
    rw [List.getLast?_reverse] at hx
    exact hp x hx

/-! ## the katakana joiner: class facts about every merged block, through the whole loop -/

/-- katakana joining, class side: `RK`, every joined token is katakana by `cat_of_range`, and the merged
token begins with a character that may begin an OOV word (no NOOOVBOW) -/
def RKc (cfg : KCfg) (cat : List Nat) (blk : List Node) (m : Node) : Prop :=
  RK cfg blk m ∧ canOovBow cat m = .ok true ∧ ∀ n ∈ blk, isKatakana cat n = .ok true

theorem Coarsens.forall_left {Q : Node → Prop} (hR : ∀ blk m, R blk m → ∀ n ∈ blk, Q n)
    {p q : List Node} (h : Coarsens R p q) (hq : ∀ n ∈ q, Q n) : ∀ n ∈ p, Q n := by
  induction h with
  | nil => intro n hn; cases hn
  | keep x _ ih =>
    intro n hn
    rcases List.mem_cons.mp hn with rfl | hn
    · exact hq _ (by simp)
    · exact ih (fun n hn => hq n (List.mem_cons_of_mem _ hn)) n hn
  | merge blk m _ hr _ ih =>
    intro n hn
    rcases List.mem_append.mp hn with hn | hn
    · exact hR _ _ hr n hn
    · exact ih (fun n hn => hq n (List.mem_cons_of_mem _ hn)) n hn

theorem RKc_compositional (cfg : KCfg) (cat : List Nat) : Compositional (RKc cfg cat) := by
  intro p blk m hc hs h
  refine ⟨RK_compositional cfg p blk m (hc.mono (fun _ _ h => h.1)) hs h.1, h.2.1, ?_⟩
  exact hc.forall_left (fun _ _ hr => hr.2.2) h.2.2

theorem concatOovNodes_coarsens_cat (cfg : KCfg) (cat : List Nat) {path : List Node} {i b e : Nat}
    {node : Node} {q : List Node} (hn : path[i]? = some node)
    (hk : kstep cfg cat path i node = .ok (.join b e))
    (h : concatOovNodes path b e cfg.oovPos = .ok q) : Coarsens (RKc cfg cat) path q := by
  obtain ⟨pre, sk, blk, post, _, _, _, h2, hblk, _, hkat, hbow, _, _, _, _, _⟩ :=
    kstep_join_spec cfg cat path i node b e hn hk
  obtain ⟨f, l, hbe, he, hf, hl, rfl⟩ := concatOovNodes_ok h
  have hhead := block_head path b e hbe f hf
  refine coarsens_replace_block path b e hbe he _ (spans_mergedOovNode path b e hbe f l hf hl _)
    ⟨⟨rfl, rfl, rfl, by rw [hblk]; exact h2, rfl, rfl, rfl, rfl, rfl, rfl, rfl, rfl⟩, ?_, ?_⟩
  · rw [hblk] at hhead
    exact hbow f hhead
  · rw [hblk]; exact hkat

theorem kloop_coarsens_cat (cfg : KCfg) (cat : List Nat) :
    ∀ (fuel : Nat) (path : List Node) (i : Nat) (q : List Node),
      kloop cfg cat fuel path i = .ok q → Coarsens (RKc cfg cat) path q := by
  intro fuel
  induction fuel with
  | zero => intro path i q h; simp [kloop] at h
  | succ fuel ih =>
    intro path i q h
    unfold kloop at h
    split at h
    · cases h; exact Coarsens.refl _
    · split at h
      · cases h
      · rename_i node hn
        split at h
        · exact ih _ _ _ h
        · rename_i b e hk
          split at h
          · rename_i p' hc
            exact (ih _ _ _ h).trans (RKc_compositional cfg cat)
              (concatOovNodes_coarsens_cat cfg cat hn hk hc)
          all_goals cases h
        all_goals cases h

end Rewrite
