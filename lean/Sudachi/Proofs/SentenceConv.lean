import Sudachi.Proofs.Sentence
/-!
# Converse direction for C16: `get_eos` answers the first match of SENTENCE_BREAKER that the loop body
does not veto
-/
namespace Sentence

/-- ends (character index in the window) of the successive non-overlapping matches of
SENTENCE_BREAKER — what `find_iter` yields, independently of the loop body.
Same traversal as `scan`. -/
def matchEnds : Nat → Option Nat → Nat → Text → List Nat
  | _, _, _, [] => []
  | k, _, skip + 1, c :: rest => matchEnds (k + 1) (some c) skip rest
  | k, prev, 0, c :: rest =>
    match breakerAt prev (c :: rest) with
    | none => matchEnds (k + 1) (some c) 0 rest
    | some n => (k + n) :: matchEnds (k + 1) (some c) (n - 1) rest

/-- loop body as a partial function: `none` = `continue` -/
def verdict (v : CkVariant) (ck : Option (List (List (List Nat)))) (input s : Text) (e0 : Nat) : Option Cand :=
  match examine v ck input s e0 with
  | .veto => none
  | r => some r

theorem scan_eq_findSome {v : CkVariant} {ck : Option (List (List (List Nat)))} {input s : Text} :
    ∀ (l : Text) (k : Nat) (prev : Option Nat) (skip : Nat),
      scan v ck input s k prev skip l = (matchEnds k prev skip l).findSome? (verdict v ck input s) := by
  intro l
  induction l with
  | nil => intro k prev skip; simp [scan, matchEnds]
  | cons c rest ih =>
    intro k prev skip
    cases skip with
    | succ sk => simp only [scan, matchEnds]; exact ih _ _ _
    | zero =>
      cases hb : breakerAt prev (c :: rest) with
      | none => simp only [scan, matchEnds, hb]; exact ih _ _ _
      | some n =>
        simp only [scan, matchEnds, hb, List.findSome?_cons, verdict]
        cases he : examine v ck input s (k + n) with
        | veto => simp only; exact ih _ _ _
        | accept e => rfl
        | panic => rfl

theorem matchEnds_lower : ∀ (l : Text) (k : Nat) (prev : Option Nat) (skip : Nat),
    ∀ x ∈ matchEnds k prev skip l, k + skip < x := by
  intro l
  induction l with
  | nil => intro k prev skip x hx; simp [matchEnds] at hx
  | cons c rest ih =>
    intro k prev skip x hx
    cases skip with
    | succ sk =>
      simp only [matchEnds] at hx
      have := ih _ _ _ x hx
      omega
    | zero =>
      simp only [matchEnds] at hx
      split at hx
      · have := ih _ _ _ x hx
        omega
      · rename_i n hb
        have hn := (breakerAt_bounds hb).1
        simp only [List.mem_cons] at hx
        rcases hx with rfl | hx
        · omega
        · have := ih _ _ _ x hx
          omega

theorem matchEnds_sorted : ∀ (l : Text) (k : Nat) (prev : Option Nat) (skip : Nat),
    (matchEnds k prev skip l).Pairwise (· < ·) := by
  intro l
  induction l with
  | nil => intro k prev skip; simp [matchEnds]
  | cons c rest ih =>
    intro k prev skip
    cases skip with
    | succ sk => simp only [matchEnds]; exact ih _ _ _
    | zero =>
      simp only [matchEnds]
      split
      · exact ih _ _ _
      · rename_i n hb
        have hn := (breakerAt_bounds hb).1
        rw [List.pairwise_cons]
        refine ⟨?_, ih _ _ _⟩
        intro x hx
        have := matchEnds_lower _ _ _ _ x hx
        omega

/-- every reported end is the end of a match of SENTENCE_BREAKER in the window -/
theorem matchEnds_sound {s : Text} : ∀ (l : Text) (k : Nat) (prev : Option Nat) (skip : Nat),
    s.drop k = l → ∀ x ∈ matchEnds k prev skip l,
      ∃ j n pv, breakerAt pv (s.drop (k + j)) = some n ∧ x = k + j + n := by
  intro l
  induction l with
  | nil => intro k prev skip _ x hx; simp [matchEnds] at hx
  | cons c rest ih =>
    intro k prev skip hs x hx
    have hs' : s.drop (k + 1) = rest := by
      rw [← List.drop_drop, hs]; rfl
    have step : (∃ j n pv, breakerAt pv (s.drop (k + 1 + j)) = some n ∧ x = k + 1 + j + n) →
        ∃ j n pv, breakerAt pv (s.drop (k + j)) = some n ∧ x = k + j + n := by
      rintro ⟨j, n, pv, hb, hx⟩
      exact ⟨j + 1, n, pv, by rw [← Nat.add_assoc, Nat.add_right_comm]; exact hb, by omega⟩
    cases skip with
    | succ sk =>
      simp only [matchEnds] at hx
      exact step (ih _ _ _ hs' x hx)
    | zero =>
      simp only [matchEnds] at hx
      split at hx
      · exact step (ih _ _ _ hs' x hx)
      · rename_i n hb
        simp only [List.mem_cons] at hx
        rcases hx with rfl | hx
        · exact ⟨0, n, prev, by simpa [hs] using hb, by simp⟩
        · exact step (ih _ _ _ hs' x hx)

theorem isContinuousPhrase_some {s : Text} {eos : Nat} (h1 : 1 ≤ eos) (h2 : eos < s.length) :
    ∃ b, isContinuousPhrase s eos = some b := by
  unfold isContinuousPhrase
  have hne : eos ≠ 0 := by omega
  simp only [hne, if_false]
  split
  · exact ⟨true, rfl⟩
  · cases hd : s.drop eos with
    | nil =>
      have := congrArg List.length hd
      simp only [List.length_drop, List.length_nil] at this
      omega
    | cons c cs => exact ⟨_, rfl⟩

/-- without a checker the loop body cannot panic on a match end inside the window -/
theorem examine_none_no_panic {v : CkVariant} {input s : Text} {e0 : Nat} (h0 : 1 ≤ e0) :
    examine v none input s e0 ≠ .panic := by
  unfold examine
  split
  · simp
  · simp only
    split
    · simp
    · generalize heos : (if e0 < s.length then e0 + prohibitedBos (s.drop e0) else e0) = eos
      have hpos : 1 ≤ eos := by split at heos <;> omega
      by_cases hlt : eos < s.length
      · obtain ⟨b, hb⟩ := isContinuousPhrase_some hpos hlt
        simp only [hlt, if_true, hb]
        cases b <;> simp
      · simp [hlt]

/-- the first match (in `find_iter` order) that the loop body does not veto decides `get_eos` -/
theorem first_unvetoed_decides {limit : Nat} {v : CkVariant} {ck : Option (List (List (List Nat)))} {input : Text}
    (hne : input ≠ []) {e0 : Nat} (hm : e0 ∈ matchEnds 0 none 0 (input.take limit))
    (hv : examine v ck input (input.take limit) e0 ≠ .veto) :
    ∃ e0', e0' ∈ matchEnds 0 none 0 (input.take limit) ∧ e0' ≤ e0 ∧
      ((∃ e, examine v ck input (input.take limit) e0' = .accept e ∧ getEos v limit ck input = .ok (.pos e)) ∨
       (examine v ck input (input.take limit) e0' = .panic ∧ getEos v limit ck input = .panic)) := by
  have hscan := scan_eq_findSome (v := v) (ck := ck) (input := input) (s := input.take limit) (input.take limit) 0 none 0
  have hsorted := matchEnds_sorted (input.take limit) 0 none 0
  have hempty : input.isEmpty = false := by cases input <;> simp_all
  cases hfs : (matchEnds 0 none 0 (input.take limit)).findSome? (verdict v ck input (input.take limit)) with
  | none =>
    rw [List.findSome?_eq_none_iff] at hfs
    have := hfs e0 hm
    unfold verdict at this
    split at this
    · rename_i hveto; exact absurd hveto hv
    · cases this
  | some r =>
    rw [hfs] at hscan
    obtain ⟨l₁, a, l₂, hl, hfa, hnone⟩ := List.findSome?_eq_some_iff.mp hfs
    have ha_mem : a ∈ matchEnds 0 none 0 (input.take limit) := by rw [hl]; simp
    have hle : a ≤ e0 := by
      rw [hl] at hm hsorted
      rw [List.mem_append] at hm
      rcases hm with hm | hm
      · have := hnone e0 hm
        unfold verdict at this
        split at this
        · rename_i hveto; exact absurd hveto hv
        · cases this
      · rw [List.pairwise_append] at hsorted
        have hp := hsorted.2.1
        rw [List.pairwise_cons] at hp
        simp only [List.mem_cons] at hm
        rcases hm with rfl | hm
        · exact Nat.le_refl _
        · exact Nat.le_of_lt (hp.1 e0 hm)
    refine ⟨a, ha_mem, hle, ?_⟩
    unfold verdict at hfa
    unfold getEos
    simp only [hempty, Bool.false_eq_true, if_false, hscan]
    cases hex : examine v ck input (input.take limit) a with
    | veto => simp [hex] at hfa
    | accept e =>
      simp only [hex, Option.some.injEq] at hfa
      subst hfa
      exact Or.inl ⟨e, rfl, rfl⟩
    | panic =>
      simp only [hex, Option.some.injEq] at hfa
      subst hfa
      exact Or.inr ⟨rfl, rfl⟩

/-- the loop body without a checker vetoes only for the three stated reasons -/
theorem not_vetoed_of {v : CkVariant} {input s : Text} {e0 : Nat}
    (h1 : parenLevel (s.take e0) = 0) (h2 : isItemizeHeader s = false)
    (h3 : ∀ eos, eos = (if e0 < s.length then e0 + prohibitedBos (s.drop e0) else e0) →
      eos < s.length → isContinuousPhrase s eos ≠ some true) :
    examine v none input s e0 ≠ .veto := by
  unfold examine
  have : ¬ parenLevel (s.take e0) > 0 := by omega
  simp only [this, if_false, h2, Bool.false_eq_true]
  generalize heos : (if e0 < s.length then e0 + prohibitedBos (s.drop e0) else e0) = eos
  by_cases hlt : eos < s.length
  · have h3' := h3 eos heos.symm hlt
    simp only [hlt, if_true]
    cases hc : isContinuousPhrase s eos with
    | none => simp
    | some b =>
      cases b with
      | true => exact absurd hc h3'
      | false => simp
  · simp [hlt]

/-- `get_eos` without a checker, as a search over the `find_iter` matches -/
theorem getEos_none_scan (v : CkVariant) (limit : Nat) (input : Text) :
    scan v none input (input.take limit) 0 none 0 (input.take limit)
      = (matchEnds 0 none 0 (input.take limit)).findSome? (verdict v none input (input.take limit)) :=
  scan_eq_findSome _ _ _ _

end Sentence
