import Sudachi.Model.LatticeLex
import Sudachi.Proofs.LatticeRec
import Sudachi.Proofs.Trie
/-!
# The position loop of `build_lattice` with the dictionary inside (C02, third round): helper lemmas

* `buildLatS_collect`: the stateful loop `buildLatS` on a state that simulates the functional lattice of the nodes
  inserted so far performs exactly the inserts of the functional candidate list `collect` (for EVERY such state);
* `collect_spec`: the candidate list is sound and complete w.r.t. `candsAt` (dictionary look-up + providers) at every
  position with a previous node, and sorted by begin;
* `candChain_isChain` / `isChain_candChain`: chains of dictionary/provider candidates = chains over the list;
* `dictLookupFrom_eq_spec`: `dictLookup` IS C04's `specSetFrom`.
-/
namespace Vit

variable (conn : Nat → Nat → Int)

/-! ### `build`, `buildP`, `buildS` on appended lists -/

theorem build_append : ∀ (a b : List Node) (rows : Rows),
    build conn (a ++ b) rows = build conn b (build conn a rows) := by
  intro a
  induction a with
  | nil => intro b rows; rfl
  | cons n ns ih => intro b rows; simp only [List.cons_append, build, ih]

theorem buildP_append : ∀ (a b : List Node) (rows : Rows) (pr : PRows),
    buildP conn (a ++ b) rows pr = buildP conn b (build conn a rows) (buildP conn a rows pr) := by
  intro a
  induction a with
  | nil => intro b rows pr; rfl
  | cons n ns ih => intro b rows pr; simp only [List.cons_append, build, buildP, ih]

theorem buildS_append : ∀ (a b : List Node) (s s1 : Lat), buildS conn a s = some s1 →
    buildS conn (a ++ b) s = buildS conn b s1 := by
  intro a
  induction a with
  | nil => intro b s s1 h; simp only [buildS, Option.some.injEq] at h; subst h; rfl
  | cons n ns ih =>
    intro b s s1 h
    simp only [List.cons_append, buildS] at h ⊢
    cases hi : insertS conn s n with
    | none => rw [hi] at h; cases h
    | some s' => rw [hi] at h; exact ih b s' s1 h

/-! ### the nodes of a functional row -/

theorem build_nodes : ∀ (F : List Node) (rows : Rows) (e : Nat),
    (build conn F rows e).map (·.1) = (rows e).map (·.1) ++ F.filter (fun n => n.e == e) := by
  intro F
  induction F with
  | nil => intro rows e; simp [build]
  | cons n ns ih =>
    intro rows e
    simp only [build, ih, insert]
    by_cases hq : e = n.e
    · subst hq; simp [List.filter_cons]
    · have : (n.e == e) = false := by simp; omega
      simp [hq, List.filter_cons, this]

theorem filter_isEmpty_any {α : Type} (p : α → Bool) : ∀ (l : List α), (l.filter p).isEmpty = !l.any p := by
  intro l
  induction l with
  | nil => rfl
  | cons a as ih =>
    simp only [List.filter_cons, List.any_cons]
    cases hq : p a <;> simp [ih]

theorem reachable_append (a b : List Node) (p : Nat) :
    reachable (a ++ b) p = (reachable a p || b.any (fun n => n.e == p)) := by
  simp [reachable, List.any_append, Bool.or_assoc]

/-- `has_previous_node` on a simulating state = `reachable` on the nodes inserted so far -/
theorem hasPrev_sim {s : Lat} {acc : List Node} {pr : PRows} {len : Nat}
    (h : Sim s (build conn acc init) pr len) (o : Nat) (ho : o ≤ len) : hasPrev s o = reachable acc o := by
  unfold hasPrev
  rw [h.ends o ho]
  simp only []
  have hn := build_nodes conn acc init o
  have h1 : ((build conn acc init o).map vn).isEmpty = ((build conn acc init o).map (·.1)).isEmpty := by
    simp [List.isEmpty_map]
  rw [h1, hn]
  by_cases h0 : o = 0
  · subst h0; simp [init, reachable]
  · have hb : (o == 0) = false := by simp [h0]
    simp only [init, h0, if_false, List.map_nil, List.nil_append, reachable, hb, Bool.false_or,
      filter_isEmpty_any, Bool.not_not]

/-! ### `collect`: the accumulated list is a prefix of the result -/

theorem collect_prefix (x : BIn) : ∀ (ps : List (Nat × Nat)) (acc F : List Node) (fin : Bool),
    collect x ps acc = some (F, fin) → ∃ r, F = acc ++ r := by
  intro ps
  induction ps with
  | nil =>
    intro acc F fin h
    simp only [collect, Option.some.injEq, Prod.mk.injEq] at h
    exact ⟨[], by simp [h.1]⟩
  | cons p rest ih =>
    intro acc F fin h
    obtain ⟨o, bo⟩ := p
    simp only [collect] at h
    split at h
    · exact ih acc F fin h
    · split at h
      · cases h
      · rename_i new hc
        split at h
        · simp only [Option.some.injEq, Prod.mk.injEq] at h
          exact ⟨[], by simp [h.1]⟩
        · obtain ⟨r, hr⟩ := ih (acc ++ new) F fin h
          exact ⟨new ++ r, by rw [hr, List.append_assoc]⟩

/-- **the stateful loop = the functional candidate list**, on every state that simulates the lattice of the nodes
inserted so far -/
theorem buildLatS_collect (x : BIn) (len : Nat) : ∀ (ps : List (Nat × Nat)) (acc : List Node) (s : Lat)
    (F : List Node) (fin : Bool), (∀ p ∈ ps, p.1 ≤ len) →
    Sim s (build conn acc init) (buildP conn acc init initP) len →
    collect x ps acc = some (F, fin) → (∀ n ∈ F, n.b ≤ len ∧ n.e ≤ len) →
    ∃ rest s2, F = acc ++ rest ∧ buildLatS conn x ps s = some (s2, fin) ∧ buildS conn rest s = some s2 ∧
      Sim s2 (build conn F init) (buildP conn F init initP) len ∧ s2.eos = s.eos := by
  intro ps
  induction ps with
  | nil =>
    intro acc s F fin _ hsim h _
    simp only [collect, Option.some.injEq, Prod.mk.injEq] at h
    obtain ⟨rfl, rfl⟩ := h
    exact ⟨[], s, by simp, rfl, rfl, hsim, rfl⟩
  | cons p rest ih =>
    intro acc s F fin hpos hsim h hF
    obtain ⟨o, bo⟩ := p
    have ho : o ≤ len := hpos (o, bo) (by simp)
    have hpos' : ∀ p ∈ rest, p.1 ≤ len := fun p hp => hpos p (by simp [hp])
    have hp := hasPrev_sim conn hsim o ho
    simp only [collect] at h
    simp only [buildLatS, hp]
    cases hr : reachable acc o with
    | false =>
      simp only [hr, Bool.not_false, if_true] at h ⊢
      exact ih acc s F fin hpos' hsim h hF
    | true =>
      simp only [hr, Bool.not_true, Bool.false_eq_true, if_false] at h ⊢
      cases hc : candsAt x o bo with
      | none => rw [hc] at h; cases h
      | some new =>
        rw [hc] at h
        simp only [] at h ⊢
        cases he : new.isEmpty with
        | true =>
          simp only [he, if_true, Option.some.injEq, Prod.mk.injEq] at h
          obtain ⟨rfl, rfl⟩ := h
          have hn : new = [] := List.isEmpty_iff.mp he
          subst hn
          exact ⟨[], s, by simp, by simp [buildS], rfl, hsim, rfl⟩
        | false =>
          simp only [he, Bool.false_eq_true, if_false] at h
          obtain ⟨r, hr'⟩ := collect_prefix x rest (acc ++ new) F fin h
          have hnew : ∀ n ∈ new, n.b ≤ len ∧ n.e ≤ len := fun n hn => hF n (by rw [hr']; simp [hn])
          obtain ⟨s', b1, b2, b3, _⟩ := build_sim conn new s _ _ len hsim hnew
          rw [← build_append, ← buildP_append] at b2
          obtain ⟨r2, s2, e1, e2, e3, e4, e5⟩ := ih (acc ++ new) s' F fin hpos' b2 h hF
          refine ⟨new ++ r2, s2, by rw [e1, List.append_assoc], ?_, ?_, e4, by rw [e5, b3]⟩
          · simp only [b1, he, Bool.false_eq_true, if_false]; exact e2
          · rw [buildS_append conn new r2 s s' b1]; exact e3

/-! ### positions -/

theorem positions_fst (x : BIn) (ps : List (Nat × Nat)) (h : positions x = some ps) :
    ps.map (·.1) = List.range (x.c2b.length - 1) := by
  unfold positions at h
  split at h
  · cases h
  · simp only [Option.some.injEq] at h
    subst h
    simp only [List.map_map]
    have : ((fun p : Nat × Nat => p.1) ∘ fun p : Nat × Nat => (p.2, p.1)) = Prod.snd := rfl
    rw [this, List.zipIdx_map_snd, List.range_eq_range']
    simp

theorem positions_sorted (x : BIn) (ps : List (Nat × Nat)) (h : positions x = some ps) :
    ps.Pairwise (fun p q => p.1 < q.1) := by
  have h1 := positions_fst x ps h
  have h2 : (ps.map (·.1)).Pairwise (· < ·) := by rw [h1]; exact List.pairwise_lt_range
  exact List.pairwise_map.mp h2

/-! ### every candidate of position `o` begins at `o` -/

theorem candOf_b (x : BIn) (o : Nat) (we : Nat × Nat) (c : Nat × Node) (h : candOf x o we = some (some c)) :
    c.2.b = o := by
  unfold candOf at h
  simp only [] at h
  split at h
  · cases h
  · cases h
  · split at h
    · simp only [Option.some.injEq] at h; subst h; rfl
    · cases h

theorem candsGo_b (x : BIn) (o : Nat) : ∀ (l : List (Nat × Nat)) (lc : List (Nat × Node)),
    candsGo x o l = some lc → ∀ c ∈ lc, c.2.b = o := by
  intro l
  induction l with
  | nil => intro lc h c hc; simp only [candsGo, Option.some.injEq] at h; subst h; cases hc
  | cons we rest ih =>
    intro lc h c hc
    simp only [candsGo] at h
    split at h
    · rename_i r h1 h2
      simp only [Option.some.injEq] at h; subst h
      exact ih r h2 c hc
    · rename_i c0 r h1 h2
      simp only [Option.some.injEq] at h; subst h
      rcases List.mem_cons.mp hc with rfl | hc
      · exact candOf_b x o we _ h1
      · exact ih r h2 c hc
    · cases h

theorem candsAt_b (x : BIn) (o bo : Nat) (new : List Node) (h : candsAt x o bo = some new) :
    ∀ n ∈ new, n.b = o := by
  unfold candsAt at h
  cases hl : lexCands x o bo with
  | none => rw [hl] at h; cases h
  | some lc =>
    rw [hl] at h
    simp only [Option.map_some, Option.some.injEq] at h
    subst h
    intro n hn
    rcases List.mem_append.mp hn with hn | hn
    · obtain ⟨c, hc, rfl⟩ := List.mem_map.mp hn
      exact candsGo_b x o _ lc hl c hc
    · have := (List.mem_filter.mp hn).2
      simpa using this

/-- every entry of the look-up is either skipped or inserted; the inserted ones are in the list -/
theorem candsGo_mem (x : BIn) (o : Nat) : ∀ (l : List (Nat × Nat)) (lc : List (Nat × Node)),
    candsGo x o l = some lc → ∀ we ∈ l, ∃ r, candOf x o we = some r ∧ ∀ c, r = some c → c ∈ lc := by
  intro l
  induction l with
  | nil => intro lc _ we hwe; cases hwe
  | cons w0 rest ih =>
    intro lc h we hwe
    simp only [candsGo] at h
    split at h
    · rename_i r h1 h2
      simp only [Option.some.injEq] at h; subst h
      rcases List.mem_cons.mp hwe with rfl | hwe
      · exact ⟨none, h1, fun c hc => by cases hc⟩
      · exact ih r h2 we hwe
    · rename_i c0 r h1 h2
      simp only [Option.some.injEq] at h; subst h
      rcases List.mem_cons.mp hwe with rfl | hwe
      · exact ⟨some c0, h1, fun c hc => by cases hc; simp⟩
      · obtain ⟨r', g1, g2⟩ := ih r h2 we hwe
        exact ⟨r', g1, fun c hc => List.mem_cons_of_mem _ (g2 c hc)⟩
    · cases h

/-- a dictionary hit that passes the `can_bow` test is inserted with the parameters of its row -/
theorem candsAt_dict (x : BIn) (o bo : Nat) (new : List Node) (h : candsAt x o bo = some new) (w e : Nat)
    (hw : (w, e) ∈ dictLookup x bo) (hb : x.text.length ≤ e ∨ x.bow[e]? = some true) :
    ∃ p ec, wordParam x w = some p ∧ x.b2c[e]? = some ec ∧
      (⟨o, ec, toU16 p.left, toU16 p.right, p.cost⟩ : Node) ∈ new := by
  unfold candsAt at h
  cases hl : lexCands x o bo with
  | none => rw [hl] at h; cases h
  | some lc =>
    rw [hl] at h
    simp only [Option.map_some, Option.some.injEq] at h
    subst h
    obtain ⟨r, g1, g2⟩ := candsGo_mem x o _ lc hl (w, e) hw
    unfold candOf at g1
    have hskip : (if e < x.text.length then (x.bow[e]?).map (fun b => !b) else some false) = some false := by
      by_cases hlt : e < x.text.length
      · rcases hb with hb | hb
        · omega
        · simp [hlt, hb]
      · simp [hlt]
    simp only [hskip] at g1
    cases hp : wordParam x w with
    | none => rw [hp] at g1; cases g1
    | some p =>
      cases hc : x.b2c[e]? with
      | none => rw [hp, hc] at g1; cases g1
      | some ec =>
        rw [hp, hc] at g1
        simp only [Option.some.injEq] at g1
        refine ⟨p, ec, rfl, rfl, ?_⟩
        have := g2 _ g1.symm
        exact List.mem_append_left _ (List.mem_map.mpr ⟨_, this, rfl⟩)

theorem candsAt_oov (x : BIn) (o bo : Nat) (new : List Node) (h : candsAt x o bo = some new) (n : Node)
    (hn : n ∈ x.oov) (hb : n.b = o) : n ∈ new := by
  unfold candsAt at h
  cases hl : lexCands x o bo with
  | none => rw [hl] at h; cases h
  | some lc =>
    rw [hl] at h
    simp only [Option.map_some, Option.some.injEq] at h
    subst h
    exact List.mem_append_right _ (List.mem_filter.mpr ⟨hn, by simp [hb]⟩)

/-! ### soundness and completeness of the candidate list -/

/-- nodes appended at positions `≥ o` (each of positive length) do not end at `o` -/
theorem reachable_stable (acc r : List Node) (o : Nat) (h : ∀ n ∈ r, o ≤ n.b ∧ n.b < n.e) :
    reachable (acc ++ r) o = reachable acc o := by
  rw [reachable_append]
  have : r.any (fun n => n.e == o) = false := by
    rw [List.any_eq_false]
    intro n hn
    have := h n hn
    simp; omega
  rw [this, Bool.or_false]

theorem collect_spec (x : BIn) : ∀ (ps : List (Nat × Nat)) (acc F : List Node),
    ps.Pairwise (fun p q => p.1 < q.1) → collect x ps acc = some (F, true) → (∀ n ∈ F, n.b < n.e) →
    ∃ r, F = acc ++ r ∧
      (∀ n ∈ r, ∃ o bo new, (o, bo) ∈ ps ∧ candsAt x o bo = some new ∧ n ∈ new) ∧
      (∀ o bo, (o, bo) ∈ ps → reachable F o = true → ∃ new, candsAt x o bo = some new ∧ ∀ n ∈ new, n ∈ F) ∧
      r.Pairwise (fun a b => a.b ≤ b.b) := by
  intro ps
  induction ps with
  | nil =>
    intro acc F _ h _
    simp only [collect, Option.some.injEq, Prod.mk.injEq, and_true] at h
    subst h
    exact ⟨[], by simp, fun n hn => (by cases hn), fun o bo hm => (by cases hm), List.Pairwise.nil⟩
  | cons p rest ih =>
    intro acc F hsort h hwf
    obtain ⟨o, bo⟩ := p
    obtain ⟨hs1, hs2⟩ := List.pairwise_cons.mp hsort
    -- every node of a later position begins after `o`
    have later : ∀ (r : List Node), (∀ n ∈ r, ∃ o' bo' new, (o', bo') ∈ rest ∧ candsAt x o' bo' = some new ∧ n ∈ new) →
        ∀ n ∈ r, o < n.b := by
      intro r hr n hn
      obtain ⟨o', bo', new, m1, m2, m3⟩ := hr n hn
      have := candsAt_b x o' bo' new m2 n m3
      have := hs1 (o', bo') m1
      simp only at this
      omega
    simp only [collect] at h
    cases hr : reachable acc o with
    | false =>
      simp only [hr, Bool.not_false, if_true] at h
      obtain ⟨r, e1, e2, e3, e4⟩ := ih acc F hs2 h hwf
      refine ⟨r, e1, ?_, ?_, e4⟩
      · intro n hn
        obtain ⟨o', bo', new, m1, m2, m3⟩ := e2 n hn
        exact ⟨o', bo', new, List.mem_cons_of_mem _ m1, m2, m3⟩
      · intro o' bo' hm hre
        rcases List.mem_cons.mp hm with hm | hm
        · simp only [Prod.mk.injEq] at hm
          obtain ⟨rfl, rfl⟩ := hm
          have hst : reachable F o' = reachable acc o' := by
            rw [e1]
            apply reachable_stable
            intro n hn
            have := later r e2 n hn
            have := hwf n (by rw [e1]; simp [hn])
            omega
          rw [hst, hr] at hre; cases hre
        · exact e3 o' bo' hm hre
    | true =>
      simp only [hr, Bool.not_true, Bool.false_eq_true, if_false] at h
      cases hc : candsAt x o bo with
      | none => rw [hc] at h; cases h
      | some new =>
        rw [hc] at h
        simp only [] at h
        cases he : new.isEmpty with
        | true => simp [he] at h
        | false =>
          simp only [he, Bool.false_eq_true, if_false] at h
          obtain ⟨r, e1, e2, e3, e4⟩ := ih (acc ++ new) F hs2 h hwf
          refine ⟨new ++ r, by rw [e1, List.append_assoc], ?_, ?_, ?_⟩
          · intro n hn
            rcases List.mem_append.mp hn with hn | hn
            · exact ⟨o, bo, new, by simp, hc, hn⟩
            · obtain ⟨o', bo', new', m1, m2, m3⟩ := e2 n hn
              exact ⟨o', bo', new', List.mem_cons_of_mem _ m1, m2, m3⟩
          · intro o' bo' hm hre
            rcases List.mem_cons.mp hm with hm | hm
            · simp only [Prod.mk.injEq] at hm
              obtain ⟨rfl, rfl⟩ := hm
              exact ⟨new, hc, fun n hn => by rw [e1]; simp [hn]⟩
            · exact e3 o' bo' hm hre
          · rw [List.pairwise_append]
            refine ⟨?_, e4, ?_⟩
            · have hb := candsAt_b x o bo new hc
              have : ∀ a ∈ new, ∀ b ∈ new, a.b ≤ b.b := fun a ha b hb' => by
                rw [hb a ha, hb b hb']; exact Nat.le_refl _
              exact List.pairwise_of_forall_mem_list this
            · intro a ha b hb'
              have := candsAt_b x o bo new hc a ha
              have := later r e2 b hb'
              omega

/-! ### chains of dictionary/provider candidates -/

/-- `n` is a node the builder creates at some position: a dictionary hit at that position that passes the `can_bow`
test (with the parameters of its row), or a node the providers pushed there -/
def Cand (x : BIn) (ps : List (Nat × Nat)) (n : Node) : Prop :=
  ∃ o bo new, (o, bo) ∈ ps ∧ candsAt x o bo = some new ∧ n ∈ new

/-- a sequence of such nodes, each beginning where the previous one ended -/
def CandChain (x : BIn) (ps : List (Nat × Nat)) : Node → List Node → Prop
  | _, [] => True
  | prev, n :: rest => Cand x ps n ∧ n.b = prev.e ∧ CandChain x ps n rest

theorem candChain_isChain (x : BIn) (ps : List (Nat × Nat)) (F : List Node)
    (hcomp : ∀ o bo, (o, bo) ∈ ps → reachable F o = true → ∃ new, candsAt x o bo = some new ∧ ∀ n ∈ new, n ∈ F) :
    ∀ (ws : List Node) (prev : Node), (prev.e = 0 ∨ prev ∈ F) → CandChain x ps prev ws → IsChain F prev ws := by
  intro ws
  induction ws with
  | nil => intro _ _ _; trivial
  | cons n rest ih =>
    intro prev hprev h
    obtain ⟨⟨o, bo, new, m1, m2, m3⟩, hb, hrest⟩ := h
    have hno : n.b = o := candsAt_b x o bo new m2 n m3
    have hre : reachable F o = true := by
      rcases hprev with hp | hp
      · have : o = 0 := by omega
        simp [reachable, this]
      · have : (F.any fun m => m.e == o) = true :=
          List.any_eq_true.mpr ⟨prev, hp, by simp; omega⟩
        simp [reachable, this]
    obtain ⟨new', c1, c2⟩ := hcomp o bo m1 hre
    rw [m2] at c1
    simp only [Option.some.injEq] at c1
    subst c1
    have hnF : n ∈ F := c2 n m3
    exact ⟨hnF, hb, ih n (Or.inr hnF) hrest⟩

theorem isChain_candChain (x : BIn) (ps : List (Nat × Nat)) (F : List Node) (hsound : ∀ n ∈ F, Cand x ps n) :
    ∀ (ws : List Node) (prev : Node), IsChain F prev ws → CandChain x ps prev ws := by
  intro ws
  induction ws with
  | nil => intro _ _; trivial
  | cons n rest ih =>
    intro prev h
    exact ⟨hsound n h.1, h.2.1, ih n h.2.2⟩

/-! ### the look-up of the model IS the specification C04 proves of the trie walk -/

/-- the columns of a row the index builder reads -/
def toEntry (w : DWord) : Trie.Entry := ⟨w.key, w.left⟩

theorem idsOfKey_eq : ∀ (es : List DWord) (i : Nat) (key : List Nat),
    idsOfKey i es key = Trie.idsFrom i (es.map toEntry) key := by
  intro es
  induction es with
  | nil => intro i key; rfl
  | cons e es ih =>
    intro i key
    simp only [idsOfKey, List.map_cons, Trie.idsFrom, ih]
    rfl

theorem lexLookupD_eq (d : Nat) (es : List DWord) (off : Nat) (t : List Nat) :
    lexLookupD d es off t = Trie.specLex d (es.map toEntry) off t := by
  unfold lexLookupD Trie.specLex
  simp only [idsOfKey_eq]

theorem dictLookupFrom_eq_spec : ∀ (dicts : List (List DWord)) (d off : Nat) (t : List Nat),
    dictLookupFrom d dicts off t = Trie.specSetFrom d (dicts.map (·.map toEntry)) off t := by
  intro dicts
  induction dicts with
  | nil => intro d off t; rfl
  | cons es rest ih =>
    intro d off t
    simp only [dictLookupFrom, List.map_cons, Trie.specSetFrom, ih, lexLookupD_eq]

theorem dictLookup_eq_spec (x : BIn) (off : Nat) :
    dictLookup x off = Trie.specSetFrom 0 (x.dicts.map (·.map toEntry)) off (x.text.drop off) :=
  dictLookupFrom_eq_spec x.dicts 0 off _

end Vit
