import Sudachi.Proofs.OovLattice
/-!
# C13, third round: `CategoryType::iter` completely, the per-class length limit, the trace of a failing run

* `flagsIter_eq`: the transcription of bitflags 2.5 `Flags::iter` equals a closed formula — the named single classes
  the character has, in ascending bit index, then the composite key `ALL` iff all its bits are present, otherwise the
  left-over (unnamed) bits as one value iff there are any.
* `mecabClass_congr`: the candidates of one class depend on that class's own behaviour line and unknown-word lines
  only (the 1..n length limit is per class).
* `buildLatticeP_outcome` / `buildLatticeP_calls`: the builder that also reports the calls of a failing run is the
  builder of the theorems.
-/
namespace Oov

/-! ## `Flags::iter`: closed form -/

/-- one step of the iteration at a single-bit flag -/
theorem iterGo_single (source i : Nat) (fs : List Nat) (rem : Nat)
    (hsub : rem.testBit i = true → source.testBit i = true) :
    iterGo source (2 ^ i :: fs) rem =
      (if rem.testBit i = true then [2 ^ i] else []) ++ iterGo source fs (rem ^^^ (rem &&& 2 ^ i)) := by
  simp only [iterGo]
  split
  · rename_i h0; subst h0; simp [iterGo_zero]
  · split
    · rename_i hy
      have hb := (and_two_pow_ne_zero_iff rem i).mp hy.2
      simp [hb]
    · rename_i hn
      have hf : rem.testBit i = false := by
        cases hb : rem.testBit i with
        | false => rfl
        | true => exact absurd ⟨and_two_pow_eq_self _ _ (hsub hb), (and_two_pow_ne_zero_iff rem i).mpr hb⟩ hn
      have hz : rem &&& 2 ^ i = 0 := (and_two_pow_eq_zero_iff rem i).mpr hf
      simp [hf, hz]

/-- `remaining` after the single-bit flags `is` have been passed -/
def clearBits (rem : Nat) : List Nat → Nat
  | [] => rem
  | i :: is => clearBits (rem ^^^ (rem &&& 2 ^ i)) is

theorem testBit_clearBits (rem : Nat) (is : List Nat) (j : Nat) :
    (clearBits rem is).testBit j = (rem.testBit j && !is.contains j) := by
  induction is generalizing rem with
  | nil => simp [clearBits]
  | cons i is ih =>
    simp only [clearBits, ih, testBit_clear, Nat.testBit_two_pow, List.contains_cons]
    by_cases h : i = j
    · subst h; simp
    · have h' : (j == i) = false := by simpa using fun e => h e.symm
      simp [h, h']

/-- a block of pairwise different single-bit flags: exactly those still present are yielded, in list order -/
theorem iterGo_singles (source : Nat) (is : List Nat) (hnd : is.Nodup) (fs : List Nat) (rem : Nat)
    (hsub : ∀ j, rem.testBit j = true → source.testBit j = true) :
    iterGo source (is.map (2 ^ ·) ++ fs) rem =
      (is.filter (fun i => rem.testBit i)).map (2 ^ ·) ++ iterGo source fs (clearBits rem is) := by
  induction is generalizing rem with
  | nil => simp [clearBits]
  | cons i is ih =>
    have hnd' := List.nodup_cons.mp hnd
    simp only [List.map_cons, List.cons_append]
    rw [iterGo_single source i _ rem (hsub i)]
    have hsub' : ∀ j, (rem ^^^ (rem &&& 2 ^ i)).testBit j = true → source.testBit j = true := by
      intro j hj
      rw [testBit_clear] at hj
      exact hsub j (by revert hj; cases rem.testBit j <;> simp)
    rw [ih hnd'.2 _ hsub']
    have hfilt : is.filter (fun k => (rem ^^^ (rem &&& 2 ^ i)).testBit k) = is.filter (fun k => rem.testBit k) := by
      apply List.filter_congr
      intro k hk
      rw [testBit_clear, Nat.testBit_two_pow]
      have : i ≠ k := fun h => hnd'.1 (h ▸ hk)
      simp [this]
    rw [hfilt]
    simp only [List.filter_cons, clearBits]
    split <;> simp

/-- bit indices of the seventeen named single flags, in declaration order = ascending -/
def namedBits : List Nat := [0, 1, 2, 3, 4, 5, 6, 7, 8, 9, 10, 11, 12, 13, 14, 30, 31]

/-- bits 15..29: covered by no single flag, only by `ALL` -/
def unnamedMask : Nat := 1073709056

theorem flagDefs_eq : flagDefs = namedBits.map (2 ^ ·) ++ [ALL] := by decide

theorem namedBits_ascending : namedBits = (List.range 32).filter (fun i => i < 15 || i == 30 || i == 31) := by decide

theorem unnamedMask_bits : ∀ j, j < 32 → unnamedMask.testBit j = !namedBits.contains j := by decide

theorem clearBits_named (cat : Nat) (h32 : cat < 2 ^ 32) : clearBits cat namedBits = cat &&& unnamedMask := by
  apply Nat.eq_of_testBit_eq
  intro j
  rw [testBit_clearBits, Nat.testBit_and]
  by_cases hj : j < 32
  · rw [unnamedMask_bits j hj]
  · have : cat.testBit j = false :=
      Nat.testBit_lt_two_pow (Nat.lt_of_lt_of_le h32 (Nat.pow_le_pow_right (by decide) (by omega)))
    simp [this]

/-- **`CategoryType::iter` in closed form** for every 32-bit class set: the named single classes the set contains in
ascending bit index (DEFAULT … USER4, NOOOVBOW, NOOOVBOW2), then the composite key `ALL` iff the set contains all of
`ALL`; if it does not, the bits 15..29 that are set (they belong to no single class) come last as ONE left-over value. -/
theorem flagsIter_eq (cat : Nat) (h32 : cat < 2 ^ 32) :
    flagsIter cat = (namedBits.filter (fun i => cat.testBit i)).map (2 ^ ·) ++
      (if cat &&& ALL = ALL then [ALL] else if cat &&& unnamedMask = 0 then [] else [cat &&& unnamedMask]) := by
  unfold flagsIter
  rw [flagDefs_eq, iterGo_singles cat namedBits (by decide) [ALL] cat (fun _ h => h), clearBits_named cat h32]
  congr 1
  by_cases hall : cat &&& ALL = ALL
  · have hm : cat &&& unnamedMask = unnamedMask := by
      have h1 : ALL &&& unnamedMask = unnamedMask := by decide
      rw [← h1, ← Nat.and_assoc, hall]
    rw [hm]
    simp only [iterGo, hall, if_true]
    decide
  · simp only [iterGo, hall, false_and, if_false]
    by_cases hz : cat &&& unnamedMask = 0 <;> simp [hz]

/-! ## the MeCab provider: the 1..n length limit is per class -/

/-- The candidates of class `ct` are a function of that class's own behaviour line and of the unknown-word lines of
that line's class — nothing of any OTHER class (whether it groups, how long its candidates are) enters: in particular
the limit `llength` (run, or run-1 when THIS class groups) does not leak from one class of a character to the next. -/
theorem mecabClass_congr (cfg cfg' : MecabCfg) (n o cl created ct : Nat)
    (h1 : findKey ct cfg.cats = findKey ct cfg'.cats)
    (h2 : ∀ ci, findKey ct cfg.cats = some ci → findKey ci.ctype cfg.oovs = findKey ci.ctype cfg'.oovs)
    (h3 : cfg.stopAtEnd = cfg'.stopAtEnd) :
    mecabClass cfg n o cl created ct = mecabClass cfg' n o cl created ct := by
  unfold mecabClass
  rw [← h1, ← h3]
  cases h : findKey ct cfg.cats with
  | none => rfl
  | some ci => simp only []; rw [← h2 ci h]

/-- the run-length candidate of a class that does NOT group: present whenever the class is invoked, has a line `d`,
LENGTH ≥ run and the run stays inside the text — whatever the other classes of the character do -/
theorem mem_mecabClass_full_run (cfg : MecabCfg) (n o cl created ct : Nat) (ci : CatInfo) (oovs : List OovDef) (d : OovDef)
    (hci : findKey ct cfg.cats = some ci) (hinv : ci.invoke = true ∨ created = 0) (hg : ci.group = false)
    (hoovs : findKey ci.ctype cfg.oovs = some oovs) (hd : d ∈ oovs) (hcl : 1 ≤ cl) (hlen : cl ≤ ci.length) (hin : o + cl ≤ n) :
    mkNode o (o + cl) d ∈ mecabClass cfg n o cl created ct := by
  rw [mem_mecabClass]
  refine ⟨ci, oovs, d, hci, hinv, hoovs, hd, Or.inr ⟨cl, hcl, hlen, ⟨?_, fun _ => by omega⟩, ?_⟩⟩
  · simp only [hg, Bool.false_eq_true, if_false]; omega
  · have : min (o + cl) n - o = cl := by omega
    rw [this]

/-- a class that groups: its 1..n candidates are strictly shorter than the run; the run itself is the grouped candidate -/
theorem mecabClass_grouped_lengths (cfg : MecabCfg) (n o cl created ct : Nat) (ci : CatInfo) (x : Node)
    (hci : findKey ct cfg.cats = some ci) (hg : ci.group = true) (hcl : 1 ≤ cl)
    (hx : x ∈ mecabClass cfg n o cl created ct) : x.b = o ∧ (x.e = o + cl ∨ x.e < o + cl) := by
  rw [mem_mecabClass] at hx
  obtain ⟨ci', oovs, d, hci', _, _, _, h⟩ := hx
  rw [hci] at hci'; cases hci'
  rcases h with ⟨_, rfl⟩ | ⟨i, _, _, h3, rfl⟩
  · exact ⟨rfl, Or.inl rfl⟩
  · simp only [hg, if_true] at h3
    refine ⟨rfl, Or.inr ?_⟩
    simp only [mkNode]; omega

/-- **The repaired 1..n loop in closed form**: exactly one candidate per unknown-word line for every length
`i = i0 … min(budget, characters left)`, at most `cnt` of them, in increasing order — nothing is repeated at the end of
the text. -/
theorem lenLoop_stop_eq (oovs : List OovDef) (o n ll cnt i0 : Nat) (hi0 : 1 ≤ i0) :
    lenLoop true oovs o n ll cnt i0 =
      (List.range' i0 (min cnt (min ll (n - o) + 1 - i0))).flatMap (fun i => oovs.map (mkNode o (o + i))) := by
  induction cnt generalizing i0 with
  | zero => simp [lenLoop]
  | succ cnt ih =>
    simp only [lenLoop]
    split
    · rename_i hbr
      simp only [Bool.true_and, Bool.or_eq_true, decide_eq_true_eq] at hbr
      have hlen : min (cnt + 1) (min ll (n - o) + 1 - i0) = 0 := by omega
      simp [hlen]
    · rename_i hbr
      simp only [Bool.true_and, Bool.or_eq_true, decide_eq_true_eq, not_or, Nat.not_lt] at hbr
      have hsub : min (o + i0) n - o = i0 := by omega
      rw [hsub, ih (i0 + 1) (by omega)]
      have hlen : min (cnt + 1) (min ll (n - o) + 1 - i0) = min cnt (min ll (n - o) + 1 - (i0 + 1)) + 1 := by omega
      rw [hlen, List.range'_succ]
      simp

/-- classes without a behaviour line contribute nothing (`None => continue`) -/
theorem mecabClass_no_line (cfg : MecabCfg) (n o cl created ct : Nat) (h : findKey ct cfg.cats = none) :
    mecabClass cfg n o cl created ct = [] := by
  simp [mecabClass, h]

/-- … so a character none of whose visited classes has a behaviour line gets no candidate, and no panic -/
theorem mecabProvide_no_lines (cfg : MecabCfg) (buf : Buf) (o created charLen cat : Nat)
    (h1 : buf.cont[o]? = some charLen) (h2 : buf.cats[o]? = some cat)
    (hno : ∀ ct ∈ flagsIter cat, findKey ct cfg.cats = none) : mecabProvide cfg buf o created = .ok [] := by
  unfold mecabProvide
  simp only [h1, h2]
  split
  · rfl
  · congr 1
    rw [List.flatMap_eq_nil_iff]
    intro ct hct
    exact mecabClass_no_line cfg _ o charLen created ct (hno ct hct)

/-- inside the text the MeCab provider neither panics nor fails -/
theorem mecabProvide_total (cfg : MecabCfg) (buf : Buf) (o created : Nat) (h1 : o < buf.cont.length) (h2 : o < buf.cats.length) :
    ∃ nodes, mecabProvide cfg buf o created = .ok nodes := by
  unfold mecabProvide
  rw [List.getElem?_eq_getElem h1, List.getElem?_eq_getElem h2]
  simp only []
  split
  · exact ⟨_, rfl⟩
  · exact ⟨_, rfl⟩

/-! ## the builder that reports the calls of a failing run -/

theorem provideAllP_spec (ps : List Provider) (i : Nat) (buf : Buf) (o : Nat) (st : Nat × List Node) :
    match provideAllT ps i buf o st with
    | .ok (st', cs) => provideAllP ps i buf o st = (cs, .ok st')
    | .err k => (provideAllP ps i buf o st).2 = .err k
    | .panic w => (provideAllP ps i buf o st).2 = .panic w := by
  induction ps generalizing i st with
  | nil => simp [provideAllT, provideAllP]
  | cons p rest ih =>
    simp only [provideAllT, provideAllP]
    cases h : provideOovsT i p buf o st with
    | err k => simp
    | panic w => simp
    | ok r =>
      obtain ⟨st', c⟩ := r
      simp only []
      have := ih (i + 1) st'
      cases h2 : provideAllT rest (i + 1) buf o st' with
      | err k => rw [h2] at this; simpa using this
      | panic w => rw [h2] at this; simpa using this
      | ok r2 =>
        obtain ⟨st'', cs⟩ := r2
        rw [h2] at this
        simp only [] at this
        simp [this]

theorem stepAtP_spec (ps : List Provider) (lex : List Word) (buf : Buf) (o : Nat) :
    match stepAtT ps lex buf o with
    | .ok t => stepAtP ps lex buf o = (t.calls ++ t.fb.toList, .ok t.nodes)
    | .err k => (stepAtP ps lex buf o).2 = .err k
    | .panic w => (stepAtP ps lex buf o).2 = .panic w := by
  unfold stepAtT stepAtP
  cases hc : buf.cats[o]? with
  | none => simp
  | some cat =>
    simp only []
    by_cases ha : asksProviders cat = true
    · simp only [ha, if_true]
      have := provideAllP_spec ps 0 buf o (addAll 0 (lexNodes lex buf o), lexNodes lex buf o)
      cases h : provideAllT ps 0 buf o (addAll 0 (lexNodes lex buf o), lexNodes lex buf o) with
      | err k => rw [h] at this; simp only [] at this; simp [this]
      | panic w => rw [h] at this; simp only [] at this; simp [this]
      | ok r =>
        obtain ⟨st1, calls⟩ := r
        rw [h] at this
        simp only [] at this
        rw [this]
        simp only []
        by_cases hz : st1.1 = 0
        · simp only [hz, if_true]
          cases ps.getLast? with
          | none => simp
          | some p =>
            simp only []
            cases provideOovsT (ps.length - 1) p buf o st1 with
            | err k => simp
            | panic w => simp
            | ok r2 =>
              obtain ⟨st2, c⟩ := r2
              simp only []
              by_cases hz2 : st2.1 = 0 <;> simp [hz2]
        · simp [hz]
    · have ha' : asksProviders cat = false := by simpa using ha
      simp only [ha', Bool.false_eq_true, if_false]
      by_cases hz : addAll 0 (lexNodes lex buf o) = 0
      · simp only [hz, if_true]
        cases ps.getLast? with
        | none => simp
        | some p =>
          simp only []
          cases provideOovsT (ps.length - 1) p buf o (0, lexNodes lex buf o) with
          | err k => simp
          | panic w => simp
          | ok r2 =>
            obtain ⟨st2, c⟩ := r2
            simp only []
            by_cases hz2 : st2.1 = 0 <;> simp [hz2]
      · simp [hz]

theorem allCalls_append (a b : List PosTrace) : allCalls (a ++ b) = allCalls a ++ allCalls b := by
  simp [allCalls]

theorem buildFromP_spec (ps : List Provider) (lex : List Word) (buf : Buf) (todo : List Nat) (nodes : List Node)
    (tr : List PosTrace) :
    match buildFromT ps lex buf todo nodes tr with
    | .ok (nodes', tr') => buildFromP ps lex buf todo nodes (allCalls tr) = (allCalls tr', .ok nodes')
    | .err k => (buildFromP ps lex buf todo nodes (allCalls tr)).2 = .err k
    | .panic w => (buildFromP ps lex buf todo nodes (allCalls tr)).2 = .panic w := by
  induction todo generalizing nodes tr with
  | nil => simp [buildFromT, buildFromP]
  | cons p rest ih =>
    simp only [buildFromT, buildFromP]
    by_cases hr : reachable nodes p = true
    · simp only [hr, Bool.not_true, Bool.false_eq_true, if_false]
      have hs := stepAtP_spec ps lex buf p
      cases h : stepAtT ps lex buf p with
      | err k => rw [h] at hs; simp only [] at hs; simp [hs]
      | panic w => rw [h] at hs; simp only [] at hs; simp [hs]
      | ok t =>
        rw [h] at hs
        simp only [] at hs
        simp only [hs]
        have := ih (nodes ++ t.nodes) (tr ++ [t])
        rw [allCalls_append] at this
        have e : allCalls [t] = t.calls ++ t.fb.toList := by simp [allCalls]
        rw [e] at this
        exact this
    · have hr' : reachable nodes p = false := by simpa using hr
      simp only [hr', Bool.not_false, if_true]
      exact ih nodes tr

/-- the builder that keeps the calls of a failing run has the outcome of `buildLattice` … -/
theorem buildLatticeP_outcome (ps : List Provider) (lex : List Word) (buf : Buf) :
    (buildLatticeP ps lex buf).2 = buildLattice ps lex buf := by
  rw [← buildLatticeT_nodes]
  unfold buildLatticeP buildLatticeT
  have := buildFromP_spec ps lex buf (List.range buf.chars.length) [] []
  simp only [allCalls, List.flatMap_nil] at this
  cases h : buildFromT ps lex buf (List.range buf.chars.length) [] [] with
  | err k => rw [h] at this; simp only [] at this; simp [this, Outcome.mapO]
  | panic w => rw [h] at this; simp only [] at this; simp [this, Outcome.mapO]
  | ok r =>
    obtain ⟨nodes, tr⟩ := r
    rw [h] at this
    simp only [] at this
    simp only [this]
    split <;> simp [Outcome.mapO]

/-- … and on success exactly the calls of the recorded builder `buildLatticeT` -/
theorem buildLatticeP_calls (ps : List Provider) (lex : List Word) (buf : Buf) (nodes : List Node) (tr : List PosTrace)
    (h : buildLatticeT ps lex buf = .ok (nodes, tr)) : buildLatticeP ps lex buf = (allCalls tr, .ok nodes) := by
  unfold buildLatticeT at h
  unfold buildLatticeP
  have := buildFromP_spec ps lex buf (List.range buf.chars.length) [] []
  simp only [allCalls, List.flatMap_nil] at this
  cases h2 : buildFromT ps lex buf (List.range buf.chars.length) [] [] with
  | err k => simp [h2] at h
  | panic w => simp [h2] at h
  | ok r =>
    obtain ⟨nodes', tr'⟩ := r
    rw [h2] at this
    simp only [h2] at h
    simp only [] at this
    simp only [this]
    split at h
    · rename_i hr
      cases h
      simp [hr, allCalls]
    · cases h


/-! ## what the calls of a FAILING step look like -/

theorem provideOovsT_ne_err (i : Nat) (p : Provider) (buf : Buf) (o : Nat) (st : Nat × List Node) (k : String) :
    provideOovsT i p buf o st ≠ .err k := by
  intro h
  have := provideOovsT_fst i p buf o st
  rw [h] at this
  exact provideOovs_ne_err p buf o st k this.symm

theorem provideAllT_ne_err (ps : List Provider) (i : Nat) (buf : Buf) (o : Nat) (st : Nat × List Node) (k : String) :
    provideAllT ps i buf o st ≠ .err k := by
  intro h
  have := provideAllT_fst ps i buf o st
  rw [h] at this
  exact provideAll_ne_err ps buf o st k this.symm

theorem outsOf_nil_iff (cs : List Call) : outsOf cs = [] ↔ ∀ c ∈ cs, c.out = [] := by
  simp [outsOf, List.flatMap_eq_nil_iff]

/-- the last step of the extra call -/
theorem extra_call_fruitless (i : Nat) (p : Provider) (buf : Buf) (o : Nat) (l : List Node) (st2 : Nat × List Node) (c : Call)
    (h : provideOovsT i p buf o (0, l) = .ok (st2, c)) (hz : st2.1 = 0) :
    c.out = [] ∧ c.idx = i ∧ c.offset = o ∧ c.created = 0 ∧ c.pre = l.length := by
  obtain ⟨_, h2, h3, h4, h5, h6⟩ := provideOovsT_ok i p buf o (0, l) st2 c h
  subst h6
  exact ⟨(addAll_zero_iff c.out).mp hz, h2, h3, h4, h5⟩

/-- **A step can only fail with `EosBosDisconnect`, and then nothing exists at the position**: there is no dictionary
word, the provider list (if the character's class let it run) was called completely, in order, and every provider
returned nothing for an empty mask and an empty buffer; the last completed call is the extra call of the last provider,
again with an empty mask and buffer, again without result. -/
theorem stepAtP_err (ps : List Provider) (lex : List Word) (buf : Buf) (o : Nat) (cs : List Call) (k : String)
    (h : stepAtP ps lex buf o = (cs, .err k)) :
    k = "Disconnect" ∧ lexNodes lex buf o = [] ∧
    ∃ cat loop c, buf.cats[o]? = some cat ∧ cs = loop ++ [c] ∧ c.idx = ps.length - 1 ∧
      loop.map (·.idx) = (if asksProviders cat then List.range ps.length else []) ∧
      ∀ x ∈ cs, x.out = [] ∧ x.offset = o ∧ x.created = 0 ∧ x.pre = 0 := by
  unfold stepAtP at h
  cases hc : buf.cats[o]? with
  | none => simp [hc] at h
  | some cat =>
    simp only [hc] at h
    by_cases ha : asksProviders cat = true
    · simp only [ha, if_true] at h
      have hspec := provideAllP_spec ps 0 buf o (addAll 0 (lexNodes lex buf o), lexNodes lex buf o)
      cases hT : provideAllT ps 0 buf o (addAll 0 (lexNodes lex buf o), lexNodes lex buf o) with
      | err k' => exact absurd hT (provideAllT_ne_err _ _ _ _ _ _)
      | panic w => rw [hT] at hspec; simp only [] at hspec; simp [hspec] at h
      | ok r =>
        obtain ⟨st1, calls⟩ := r
        rw [hT] at hspec
        simp only [] at hspec
        rw [hspec] at h
        simp only [] at h
        obtain ⟨_, hst1, hsplit⟩ := provideAllT_spec ps 0 buf o _ st1 calls hT
        have hidx := provideAllT_idx ps 0 buf o _ st1 calls hT
        by_cases hz : st1.1 = 0
        · simp only [hz, if_true] at h
          -- nothing exists after the loop
          have hnil : lexNodes lex buf o ++ outsOf calls = [] := by
            have : st1.1 = addAll 0 (lexNodes lex buf o ++ outsOf calls) := by rw [hst1, addAll_append]
            rw [this] at hz
            exact (addAll_zero_iff _).mp hz
          have hlex : lexNodes lex buf o = [] := (List.append_eq_nil_iff.mp hnil).1
          have houts : ∀ c ∈ calls, c.out = [] := (outsOf_nil_iff calls).mp (List.append_eq_nil_iff.mp hnil).2
          have hst1' : st1 = (0, []) := by rw [hst1, hlex, (outsOf_nil_iff calls).mpr houts]; simp [addAll]
          cases hl : ps.getLast? with
          | none => simp [hl] at h
          | some p =>
            simp only [hl] at h
            cases hp : provideOovsT (ps.length - 1) p buf o st1 with
            | err k' => exact absurd hp (provideOovsT_ne_err _ _ _ _ _ _)
            | panic w => simp [hp] at h
            | ok r2 =>
              obtain ⟨st2, c⟩ := r2
              simp only [hp] at h
              by_cases hz2 : st2.1 = 0
              · simp only [hz2, if_true, Prod.mk.injEq, Outcome.err.injEq] at h
                obtain ⟨hcs, hk⟩ := h
                rw [hst1'] at hp
                obtain ⟨e1, e2, e3, e4, e5⟩ := extra_call_fruitless _ p buf o [] st2 c hp hz2
                refine ⟨hk.symm, hlex, cat, calls, c, rfl, hcs.symm, e2, ?_, ?_⟩
                · rw [hidx, ha, if_pos rfl, List.range_eq_range']
                · intro x hx
                  rw [← hcs] at hx
                  rcases List.mem_append.mp hx with hx | hx
                  · obtain ⟨before, after, hba⟩ := List.append_of_mem hx
                    obtain ⟨q, _, _, hoff, hcr, hpre, _⟩ := hsplit before x after hba
                    have hb : outsOf before = [] := by
                      rw [outsOf_nil_iff]; intro y hy; exact houts y (by rw [hba]; exact List.mem_append_left _ hy)
                    refine ⟨houts x hx, hoff, ?_, ?_⟩
                    · rw [hcr, hb, hlex]; simp [addAll]
                    · rw [hpre, hb, hlex]; simp
                  · have : x = c := by simpa using hx
                    subst this
                    exact ⟨e1, e3, e4, by simpa using e5⟩
              · simp [hz2] at h
        · simp [hz] at h
    · have ha' : asksProviders cat = false := by simpa using ha
      simp only [ha', Bool.false_eq_true, if_false] at h
      by_cases hz : addAll 0 (lexNodes lex buf o) = 0
      · simp only [hz, if_true] at h
        have hlex : lexNodes lex buf o = [] := (addAll_zero_iff _).mp hz
        cases hl : ps.getLast? with
        | none => simp [hl] at h
        | some p =>
          simp only [hl] at h
          cases hp : provideOovsT (ps.length - 1) p buf o (0, lexNodes lex buf o) with
          | err k' => exact absurd hp (provideOovsT_ne_err _ _ _ _ _ _)
          | panic w => simp [hp] at h
          | ok r2 =>
            obtain ⟨st2, c⟩ := r2
            simp only [hp] at h
            by_cases hz2 : st2.1 = 0
            · simp only [hz2, if_true, List.nil_append, Prod.mk.injEq, Outcome.err.injEq] at h
              obtain ⟨hcs, hk⟩ := h
              rw [hlex] at hp
              obtain ⟨e1, e2, e3, e4, e5⟩ := extra_call_fruitless _ p buf o [] st2 c hp hz2
              refine ⟨hk.symm, hlex, cat, [], c, rfl, by simpa using hcs.symm, e2, by simp [ha'], ?_⟩
              intro x hx
              rw [← hcs] at hx
              have : x = c := by simpa using hx
              subst this
              exact ⟨e1, e3, e4, by simpa using e5⟩
            · simp [hz2] at h
      · simp [hz] at h


/-- where the position loop fails, it fails in one step; the calls so far are the calls handed in, the calls of the
steps that succeeded, and the calls of the failing step -/
theorem buildFromP_err (ps : List Provider) (lex : List Word) (buf : Buf) (todo : List Nat) (nodes : List Node)
    (cs0 cs : List Call) (k : String) (h : buildFromP ps lex buf todo nodes cs0 = (cs, .err k)) :
    ∃ p ∈ todo, ∃ pre last, cs = cs0 ++ pre ++ last ∧ stepAtP ps lex buf p = (last, .err k) := by
  induction todo generalizing nodes cs0 with
  | nil => simp [buildFromP] at h
  | cons p rest ih =>
    simp only [buildFromP] at h
    by_cases hr : reachable nodes p = true
    · simp only [hr, Bool.not_true, Bool.false_eq_true, if_false] at h
      cases hs : (stepAtP ps lex buf p).2 with
      | ok new =>
        simp only [hs] at h
        obtain ⟨q, hq, pre, last, hcs, hstep⟩ := ih _ _ h
        exact ⟨q, List.mem_cons_of_mem _ hq, (stepAtP ps lex buf p).1 ++ pre, last, by rw [hcs]; simp [List.append_assoc], hstep⟩
      | err k' =>
        simp only [hs, Prod.mk.injEq, Outcome.err.injEq] at h
        obtain ⟨h1, h2⟩ := h
        subst h2
        refine ⟨p, List.mem_cons_self, [], (stepAtP ps lex buf p).1, by rw [← h1]; simp, ?_⟩
        rw [← hs]
      | panic w => simp [hs] at h
    · have hr' : reachable nodes p = false := by simpa using hr
      simp only [hr', Bool.not_false, if_true] at h
      obtain ⟨q, hq, pre, last, hcs, hstep⟩ := ih _ _ h
      exact ⟨q, List.mem_cons_of_mem _ hq, pre, last, hcs, hstep⟩

theorem buildFromP_outcome (ps : List Provider) (lex : List Word) (buf : Buf) (todo : List Nat) (nodes : List Node) :
    (buildFromP ps lex buf todo nodes []).2 = buildFrom ps lex buf todo nodes := by
  rw [← buildFromT_nodes ps lex buf todo nodes []]
  have := buildFromP_spec ps lex buf todo nodes []
  simp only [allCalls, List.flatMap_nil] at this
  cases h : buildFromT ps lex buf todo nodes [] with
  | err k => rw [h] at this; simp only [] at this; simp [this, Outcome.mapO]
  | panic w => rw [h] at this; simp only [] at this; simp [this, Outcome.mapO]
  | ok r =>
    obtain ⟨n', tr'⟩ := r
    rw [h] at this
    simp only [] at this
    simp [this, Outcome.mapO]

/-- **The trace of a failing run** (well-formed buffer): `build_lattice` can only fail with `EosBosDisconnect`, it fails
inside the position loop (never in `connect_eos`), at a position `p` inside the text, and the calls reported are the
calls of the positions before followed by the calls of the failing step (characterised by `stepAtP_err`). -/
theorem buildLatticeP_err (ps : List Provider) (lex : List Word) (buf : Buf) (hwf : buf.WF) (cs : List Call) (k : String)
    (h : buildLatticeP ps lex buf = (cs, .err k)) :
    ∃ p, p < buf.chars.length ∧ ∃ pre last, cs = pre ++ last ∧ stepAtP ps lex buf p = (last, .err k) := by
  unfold buildLatticeP at h
  simp only [] at h
  cases hb : (buildFromP ps lex buf (List.range buf.chars.length) [] []).2 with
  | ok nodes =>
    simp only [hb] at h
    have hbf : buildFrom ps lex buf (List.range buf.chars.length) [] = .ok nodes := by
      rw [← buildFromP_outcome, hb]
    rw [List.range_eq_range'] at hbf
    obtain ⟨_, _, q, hq1, hq2, hq3⟩ :=
      buildFrom_inv ps lex buf hwf buf.chars.length 0 [] nodes (by omega) (latInv_init _) hbf
    have : q = buf.chars.length := by omega
    subst this
    simp [hq3] at h
  | panic w => simp [hb] at h
  | err k' =>
    simp only [hb, Prod.mk.injEq, Outcome.err.injEq] at h
    obtain ⟨h1, h2⟩ := h
    subst h2
    have hfull : buildFromP ps lex buf (List.range buf.chars.length) [] [] = (cs, .err k') := by
      rw [← h1, ← hb]
    obtain ⟨p, hp, pre, last, hcs, hstep⟩ := buildFromP_err ps lex buf _ [] [] cs k' hfull
    exact ⟨p, by simpa using hp, pre, last, by simpa using hcs, hstep⟩

end Oov
