import Sudachi.Proofs.Rewrite
/-!
# C14: index safety of the two path-rewrite loops ("`rewriteAll ≠ panic`")

`Safe cat path` — what the index operations of `rewrite_gen` / `concat_nodes` / `concat_oov_nodes` need from a
path: adjacent nodes touch (characters and bytes), every node covers at least one character of the text whose
class table is `cat`, byte ranges are not reversed, and the head-word lengths of the whole path add up to less than
65536 (`u16`).  `Tiles cat nb path` adds that the path begins at `(0, 0)` and ends at `(cat.length, nb)`: the
nodes are laid end to end over the whole text (C01's `PathOk`, stated on the C14 node type).

Results: both concatenation functions, `JoinNumericPlugin::concat`, every iteration of both loops and both loops as
a whole keep `Safe` and return `ok` or the documented `err` (`InvalidRange`), never `panic`.
-/
namespace Rewrite

/-- what the index operations need (see the module comment) -/
structure Safe (cat : List Nat) (path : List Node) : Prop where
  contig : Contig path
  rng : ∀ n ∈ path, n.b < n.e ∧ n.e ≤ cat.length ∧ n.bb ≤ n.eb
  hwl : sumHwl path < 65536

/-- the path tiles the text: `Safe`, begins at `(0, 0)`, ends at `(cat.length, nb)`; an empty path only for an
empty text -/
structure Tiles (cat : List Nat) (nb : Nat) (path : List Node) : Prop where
  safe : Safe cat path
  first : ∀ x, firstB path = some x → x = (0, 0)
  last : ∀ x, lastE path = some x → x = (cat.length, nb)
  empty : path = [] → cat = [] ∧ nb = 0

theorem foldl_hwl (l : List Node) : ∀ x : Nat, l.foldl (fun a n => a + n.hwl) x = x + sumHwl l := by
  unfold sumHwl
  induction l with
  | nil => intro x; rfl
  | cons a l ih =>
    intro x
    simp only [List.foldl_cons]
    rw [ih (x + a.hwl), ih (0 + a.hwl)]
    omega

theorem sumHwl_cons (a : Node) (l : List Node) : sumHwl (a :: l) = a.hwl + sumHwl l := by
  have := foldl_hwl l (0 + a.hwl)
  unfold sumHwl at this ⊢
  simp only [List.foldl_cons]
  omega

theorem sumHwl_append (a b : List Node) : sumHwl (a ++ b) = sumHwl a + sumHwl b := by
  induction a with
  | nil => simp [sumHwl]
  | cons x a ih => rw [List.cons_append, sumHwl_cons, sumHwl_cons, ih]; omega

/-- a contiguous non-empty list of non-empty nodes begins before it ends -/
theorem chain_span : ∀ (blk : List Node) (x y : Nat × Nat), Contig blk →
    (∀ n ∈ blk, n.b < n.e ∧ n.bb ≤ n.eb) → firstB blk = some x → lastE blk = some y →
    x.1 < y.1 ∧ x.2 ≤ y.2 := by
  intro blk
  induction blk with
  | nil => intro x y _ _ hf _; simp [firstB] at hf
  | cons a rest ih =>
    intro x y hc hr hf hl
    have ha := hr a (by simp)
    simp only [firstB, List.head?_cons, Option.map_some, Option.some.injEq] at hf
    subst hf
    cases rest with
    | nil =>
      simp only [lastE, List.getLast?_singleton, Option.map_some, Option.some.injEq] at hl
      subst hl
      exact ha
    | cons b r =>
      have hl' : lastE (b :: r) = some y := by
        have := lastE_append_of_ne_nil [a] (b := b :: r) (by simp)
        simp only [List.singleton_append] at this
        rw [← this]; exact hl
      have := ih (b.b, b.bb) y hc.2.2 (fun n hn => hr n (by simp [hn])) (by simp [firstB]) hl'
      have h1 := hc.1
      have h2 := hc.2.1
      simp only at this ⊢
      omega

theorem mem_block {path : List Node} {b e : Nat} {n : Node} (h : n ∈ block path b e) : n ∈ path :=
  List.mem_of_mem_drop (List.mem_of_mem_take h)

/-- facts about a block `[b, e)` of a safe path -/
theorem Safe.block_facts {cat : List Nat} {path : List Node} (hs : Safe cat path) (b e : Nat) (hbe : b < e)
    (he : e ≤ path.length) (f l : Node) (hf : path[b]? = some f) (hl : path[e - 1]? = some l) :
    f.b < l.e ∧ f.bb ≤ l.eb ∧ l.e ≤ cat.length ∧
      sumHwl path = sumHwl (path.take b) + sumHwl (block path b e) + sumHwl (path.drop e) := by
  have hd := block_decomp path b e (by omega) he
  have hc : Contig (block path b e) := by
    have := hs.contig
    rw [hd, contig_append_iff, contig_append_iff] at this
    exact this.1.2.1
  have hsp := chain_span (block path b e) (f.b, f.bb) (l.e, l.eb) hc
    (fun n hn => ⟨(hs.rng n (mem_block hn)).1, (hs.rng n (mem_block hn)).2.2⟩)
    (block_first path b e hbe f hf) (block_last path b e hbe l hl)
  have hlm : l ∈ path := List.mem_of_getElem? hl
  refine ⟨hsp.1, hsp.2, (hs.rng l hlm).2.1, ?_⟩
  conv => lhs; rw [hd]
  rw [sumHwl_append, sumHwl_append]

/-- replacing the block `[b, e)` of a safe path by a node that spans it and carries the sum of its head-word
lengths gives a safe path -/
theorem Safe.replace {cat : List Nat} {path : List Node} (hs : Safe cat path) (b e : Nat) (hbe : b < e)
    (he : e ≤ path.length) (f l : Node) (hf : path[b]? = some f) (hl : path[e - 1]? = some l) (m : Node)
    (hsp : Spans (block path b e) m) (hh : m.hwl = sumHwl (block path b e)) :
    Safe cat (path.take b ++ m :: path.drop e) := by
  obtain ⟨h1, h2, h3, h4⟩ := hs.block_facts b e hbe he f l hf hl
  have hfb := block_first path b e hbe f hf
  have hle := block_last path b e hbe l hl
  rw [hsp.first] at hfb
  rw [hsp.last] at hle
  simp only [Option.some.injEq, Prod.mk.injEq] at hfb hle
  refine ⟨?_, ?_, ?_⟩
  · exact (coarsens_replace_block (R := fun _ _ => True) path b e hbe he m hsp trivial).contig hs.contig
  · intro n hn
    rcases List.mem_append.mp hn with hn | hn
    · exact hs.rng n (List.mem_of_mem_take hn)
    · rcases List.mem_cons.mp hn with rfl | hn
      · exact ⟨by omega, by omega, by omega⟩
      · exact hs.rng n (List.mem_of_mem_drop hn)
  · rw [sumHwl_append, sumHwl_cons, hh]
    have := hs.hwl
    omega

theorem getElem?_some_of_lt {path : List Node} {k : Nat} (h : k < path.length) : path[k]? = some path[k] :=
  List.getElem?_eq_getElem h

/-- `concat_nodes` on a non-empty block of a safe path succeeds (no index out of range, no `usize`/`u16`
overflow) and the result is safe -/
theorem concatNodes_safe {cat : List Nat} {path : List Node} (hs : Safe cat path) (b e : Nat) (hbe : b < e)
    (he : e ≤ path.length) (nf : Option (List Char)) :
    ∃ q, concatNodes path b e nf = .ok q ∧ Safe cat q := by
  have hf := getElem?_some_of_lt (path := path) (k := b) (by omega)
  have hl := getElem?_some_of_lt (path := path) (k := e - 1) (by omega)
  obtain ⟨h1, h2, h3, h4⟩ := hs.block_facts b e hbe he _ _ hf hl
  have hw := hs.hwl
  refine ⟨path.take b ++ mergedNode path[b] path[e - 1] (block path b e) nf :: path.drop e, ?_, ?_⟩
  · unfold concatNodes
    rw [if_neg (by omega), hf, hl]
    simp only
    rw [if_neg (by omega), if_neg (by omega)]
  · exact hs.replace b e hbe he _ _ hf hl _ (spans_mergedNode path b e hbe _ _ hf hl nf) rfl

/-- the same for `concat_oov_nodes` -/
theorem concatOovNodes_safe {cat : List Nat} {path : List Node} (hs : Safe cat path) (b e : Nat) (hbe : b < e)
    (he : e ≤ path.length) (posId : Nat) :
    ∃ q, concatOovNodes path b e posId = .ok q ∧ Safe cat q := by
  have hf := getElem?_some_of_lt (path := path) (k := b) (by omega)
  have hl := getElem?_some_of_lt (path := path) (k := e - 1) (by omega)
  obtain ⟨h1, h2, h3, h4⟩ := hs.block_facts b e hbe he _ _ hf hl
  have hw := hs.hwl
  refine ⟨path.take b ++ mergedOovNode path[b] path[e - 1] (block path b e) posId :: path.drop e, ?_, ?_⟩
  · unfold concatOovNodes
    rw [if_neg (by omega), hf, hl]
    simp only
    rw [if_neg (by omega), if_neg (by omega)]
  · exact hs.replace b e hbe he _ _ hf hl _ (spans_mergedOovNode path b e hbe _ _ hf hl posId) rfl

/-- `path.drain(begin + 1..end)` at the end of both concatenation functions is in range whenever it is reached:
the model's `take b ++ m :: drop e` is what `path[begin] = node; path.drain(begin + 1..end)` leaves -/
theorem drain_in_range {path : List Node} {b e : Nat} {nf : Option (List Char)} {q : List Node}
    (h : concatNodes path b e nf = .ok q) :
    b + 1 ≤ e ∧ e ≤ path.length ∧ q.length = path.length - (e - (b + 1)) := by
  obtain ⟨f, l, hbe, he, _, _, rfl⟩ := concatNodes_ok h
  refine ⟨hbe, he, ?_⟩
  simp only [List.length_append, List.length_take, List.length_cons, List.length_drop]
  omega

theorem drain_in_range_oov {path : List Node} {b e posId : Nat} {q : List Node}
    (h : concatOovNodes path b e posId = .ok q) :
    b + 1 ≤ e ∧ e ≤ path.length ∧ q.length = path.length - (e - (b + 1)) := by
  obtain ⟨f, l, hbe, he, _, _, rfl⟩ := concatOovNodes_ok h
  refine ⟨hbe, he, ?_⟩
  simp only [List.length_append, List.length_take, List.length_cons, List.length_drop]
  omega

/-! ## `JoinNumericPlugin::concat` -/

/-- `concat` on `[b, e]` with `b ≤ e ≤ len`, `b < len` of a safe path: `ok` with a safe path that is not longer,
or `Err(InvalidRange)` — the latter only for an EMPTY range -/
theorem nconcat_safe {cat : List Nat} (cfg : NCfg) (P : List Char → POut) {path : List Node} (hs : Safe cat path)
    (b e : Nat) (hb : b < path.length) (hbe : b ≤ e) (he : e ≤ path.length) (acc : List Char) :
    (nconcat cfg P path b e acc = .err ∧ b = e) ∨
      ∃ q, nconcat cfg P path b e acc = .ok q ∧ Safe cat q ∧ q.length ≤ path.length := by
  have hlen : ∀ q, nconcat cfg P path b e acc = .ok q → q.length ≤ path.length := by
    intro q hq
    rcases nconcat_length hq with h | h <;> omega
  have key : ∀ nf, nconcat cfg P path b e acc = concatNodes path b e nf →
      (nconcat cfg P path b e acc = .err ∧ b = e) ∨
        ∃ q, nconcat cfg P path b e acc = .ok q ∧ Safe cat q ∧ q.length ≤ path.length := by
    intro nf hn
    by_cases hlt : b < e
    · obtain ⟨q, hq, hsq⟩ := concatNodes_safe hs b e hlt he nf
      exact .inr ⟨q, hn.trans hq, hsq, hlen q (hn.trans hq)⟩
    · refine .inl ⟨?_, by omega⟩
      rw [hn]; unfold concatNodes; rw [if_pos (by omega)]
  have same : nconcat cfg P path b e acc = .ok path →
      (nconcat cfg P path b e acc = .err ∧ b = e) ∨
        ∃ q, nconcat cfg P path b e acc = .ok q ∧ Safe cat q ∧ q.length ≤ path.length :=
    fun h => .inr ⟨path, h, hs, Nat.le_refl _⟩
  have hf := getElem?_some_of_lt hb
  unfold nconcat at key same ⊢
  rw [hf] at key same ⊢
  simp only at key same ⊢
  by_cases h1 : (path[b].pos != cfg.numPos) = true
  · rw [if_pos h1] at key same ⊢; exact same rfl
  · rw [if_neg h1, if_neg (by omega)] at key same ⊢
    by_cases h2 : cfg.enableNormalize = true
    · rw [if_pos h2] at key same ⊢
      by_cases h3 : (decide (e - b > 1) || (P acc).norm != normForm path[b]) = true
      · rw [if_pos h3] at key same ⊢; exact key _ rfl
      · rw [if_neg h3] at key same ⊢; exact same rfl
    · rw [if_neg h2] at key same ⊢
      by_cases h3 : e - b > 1
      · rw [if_pos h3] at key same ⊢; exact key _ rfl
      · rw [if_neg h3] at key same ⊢; exact same rfl

/-! ## the numeral loop -/

/-- loop invariant of `JoinNumericPlugin::rewrite_gen` for index safety: `-1 ≤ i`, `begin_idx ≤ i`, and while a
run is open (`begin_idx ≥ 0`) the index is that of a node (`i < len`) -/
def NInv2 (st : NState) : Prop :=
  -1 ≤ st.i ∧ st.beginIdx ≤ st.i ∧ (0 ≤ st.beginIdx → st.i < (st.path.length : Int))

theorem nInit_inv2 (path : List Node) : NInv2 (nInit path) := by
  unfold NInv2 nInit
  simp only
  omega

theorem catOfRange_safe {cat : List Nat} {path : List Node} (hs : Safe cat path) (n : Node) (hn : n ∈ path) :
    ∃ ct, catOfRange cat n.b n.e = some ct := by
  obtain ⟨h1, h2, _⟩ := hs.rng n hn
  unfold catOfRange
  rw [if_neg (by omega), if_neg (by omega)]
  exact ⟨_, rfl⟩

/-- one iteration of the numeral loop on a safe path (both code variants, any parser, any settings): `ok` with a
safe path and the invariant, or `Err(InvalidRange)` -/
theorem nstep_safe (v : NVariant) (cfg : NCfg) (cat : List Nat) (P : List Char → POut) (st : NState)
    (hs : Safe cat st.path) (hinv : NInv2 st) (hg : st.i < (st.path.length : Int) - 1) :
    nstep v cfg cat P st = .err ∨
      ∃ st', nstep v cfg cat P st = .ok st' ∧ Safe cat st'.path ∧ NInv2 st' := by
  obtain ⟨path, i, bi, comma, period, acc⟩ := st
  obtain ⟨hi, hb, hbl⟩ := hinv
  simp only at hs hi hb hbl hg
  obtain ⟨j, rfl⟩ : ∃ j : Nat, i = (j : Int) - 1 := ⟨(i + 1).toNat, by omega⟩
  have hj : j < path.length := by omega
  have a2 : ((j : Int) - 1 + 1) = (j : Int) := by omega
  have n1 : ¬ ((j : Int) < 0) := by omega
  have hnode := getElem?_some_of_lt hj
  obtain ⟨ct, hct⟩ := catOfRange_safe hs path[j] (List.getElem_mem hj)
  unfold nstep
  simp only [a2, n1, if_false, Int.toNat_natCast, hnode, hct]
  split
  · -- a candidate node: the path is not touched
    refine .inr ?_
    cases v <;> simp only [] <;> (repeat' split) <;>
      exact ⟨_, rfl, hs, by simp only [NInv2]; omega⟩
  · -- a node that ends the run
    by_cases hb0 : bi ≥ 0
    · obtain ⟨k, rfl⟩ : ∃ k : Nat, bi = (k : Int) := ⟨bi.toNat, by omega⟩
      simp only [hb0, if_true, Int.toNat_natCast]
      split
      · rcases nconcat_safe cfg P hs k j (by omega) (by omega) (by omega) acc with he | ⟨q, hq, hsq, hlen⟩
        · rw [he.1]; exact .inl rfl
        · rw [hq]; exact .inr ⟨_, rfl, hsq, by simp only [NInv2]; omega⟩
      · rw [if_neg (by omega), getElem?_some_of_lt (show j - 1 < path.length by omega)]
        simp only
        split
        · rcases nconcat_safe cfg P hs k (j - 1) (by omega) (by omega) (by omega) acc with he | ⟨q, hq, hsq, hlen⟩
          · rw [he.1]; exact .inl rfl
          · rw [hq]; exact .inr ⟨_, rfl, hsq, by simp only [NInv2]; omega⟩
        · exact .inr ⟨_, rfl, hs, by simp only [NInv2]; omega⟩
    · simp only [hb0, if_false]
      exact .inr ⟨_, rfl, hs, by simp only [NInv2]; omega⟩

/-- `// process last part` on a safe path -/
theorem ntail_safe (cfg : NCfg) (cat : List Nat) (P : List Char → POut) (st : NState)
    (hs : Safe cat st.path) (hinv : NInv2 st) (hg : ¬ st.i < (st.path.length : Int) - 1) :
    ntail cfg P st = .err ∨ ∃ q, ntail cfg P st = .ok q ∧ Safe cat q := by
  obtain ⟨path, i, bi, comma, period, acc⟩ := st
  obtain ⟨hi, hb, hbl⟩ := hinv
  simp only at hs hi hb hbl hg
  unfold ntail
  simp only
  by_cases hb0 : bi ≥ 0
  · obtain ⟨k, rfl⟩ : ∃ k : Nat, bi = (k : Int) := ⟨bi.toNat, by omega⟩
    have := hbl hb0
    simp only [hb0, if_true, Int.toNat_natCast]
    split
    · rcases nconcat_safe cfg P hs k path.length (by omega) (by omega) (by omega) acc with he | ⟨q, hq, hsq, _⟩
      · rw [he.1]; exact .inl rfl
      · rw [hq]; exact .inr ⟨_, rfl, hsq⟩
    · rw [if_neg (by omega), getElem?_some_of_lt (show path.length - 1 < path.length by omega)]
      simp only
      split
      · rcases nconcat_safe cfg P hs k (path.length - 1) (by omega) (by omega) (by omega) acc with
          he | ⟨q, hq, hsq, _⟩
        · rw [he.1]; exact .inl rfl
        · rw [hq]; exact .inr ⟨_, rfl, hsq⟩
      · exact .inr ⟨_, rfl, hs⟩
  · simp only [hb0, if_false]
    exact .inr ⟨_, rfl, hs⟩

/-- the numeral loop from ANY state that satisfies the invariant on a safe path, any fuel, both variants: out of
fuel, `Err(InvalidRange)`, or `ok` with a safe path — never a panic -/
theorem nloop_safe (v : NVariant) (cfg : NCfg) (cat : List Nat) (P : List Char → POut) :
    ∀ (fuel : Nat) (st : NState), Safe cat st.path → NInv2 st →
      nloop v cfg cat P fuel st = .fuel ∨ nloop v cfg cat P fuel st = .err ∨
        ∃ q, nloop v cfg cat P fuel st = .ok q ∧ Safe cat q := by
  intro fuel
  induction fuel with
  | zero => intro st _ _; exact .inl rfl
  | succ fuel ih =>
    intro st hs hinv
    unfold nloop
    by_cases hg : st.i < (st.path.length : Int) - 1
    · rw [if_pos hg]
      rcases nstep_safe v cfg cat P st hs hinv hg with he | ⟨st', hst, hs', hinv'⟩
      · rw [he]; exact .inr (.inl rfl)
      · rw [hst]; exact ih st' hs' hinv'
    · rw [if_neg hg]
      rcases ntail_safe cfg cat P st hs hinv hg with he | ⟨q, hq, hsq⟩
      · exact .inr (.inl he)
      · exact .inr (.inr ⟨q, hq, hsq⟩)

/-! ## the katakana loop -/

theorem isKatakana_safe {cat : List Nat} {path : List Node} (hs : Safe cat path) (n : Node) (hn : n ∈ path) :
    ∃ k, isKatakana cat n = .ok k := by
  obtain ⟨ct, hct⟩ := catOfRange_safe hs n hn
  unfold isKatakana
  rw [hct]
  exact ⟨_, rfl⟩

theorem canOovBow_safe {cat : List Nat} {path : List Node} (hs : Safe cat path) (n : Node) (hn : n ∈ path) :
    ∃ k, canOovBow cat n = .ok k := by
  obtain ⟨h1, h2, _⟩ := hs.rng n hn
  unfold canOovBow
  rw [getElem?_eq_some_getElem (show n.b < cat.length by omega)]
  exact ⟨_, rfl⟩
where
  getElem?_eq_some_getElem {l : List Nat} {k : Nat} (h : k < l.length) : l[k]? = some l[k] :=
    List.getElem?_eq_getElem h

theorem isShorter_safe {cat : List Nat} {path : List Node} (hs : Safe cat path) (cfg : KCfg) (n : Node)
    (hn : n ∈ path) : ∃ k, isShorter cfg n = .ok k := by
  obtain ⟨h1, _, _⟩ := hs.rng n hn
  unfold isShorter
  rw [if_neg (by omega)]
  exact ⟨_, rfl⟩

theorem scanBackL_safe {cat : List Nat} {path : List Node} (hs : Safe cat path) :
    ∀ (l : List Node) (k : Nat), (∀ n ∈ l, n ∈ path) → ∃ b, scanBackL cat l k = .ok b ∧ b ≤ k := by
  intro l
  induction l with
  | nil => intro k _; exact ⟨0, rfl, Nat.zero_le _⟩
  | cons n rest ih =>
    intro k hl
    obtain ⟨kt, hk⟩ := isKatakana_safe hs n (hl n (by simp))
    unfold scanBackL
    rw [hk]
    cases kt
    · exact ⟨k, rfl, Nat.le_refl _⟩
    · obtain ⟨b, hb, hle⟩ := ih (k - 1) (fun m hm => hl m (by simp [hm]))
      exact ⟨b, hb, by omega⟩

theorem scanFwdL_safe {cat : List Nat} {path : List Node} (hs : Safe cat path) :
    ∀ (l : List Node) (e0 : Nat), (∀ n ∈ l, n ∈ path) →
      ∃ e, scanFwdL cat l e0 = .ok e ∧ e0 ≤ e ∧ e ≤ e0 + l.length := by
  intro l
  induction l with
  | nil => intro e0 _; exact ⟨e0, rfl, Nat.le_refl _, by simp⟩
  | cons n rest ih =>
    intro e0 hl
    obtain ⟨kt, hk⟩ := isKatakana_safe hs n (hl n (by simp))
    unfold scanFwdL
    rw [hk]
    cases kt
    · exact ⟨e0, rfl, Nat.le_refl _, by omega⟩
    · obtain ⟨e, he, h1, h2⟩ := ih (e0 + 1) (fun m hm => hl m (by simp [hm]))
      exact ⟨e, he, by omega, by simp only [List.length_cons]; omega⟩

theorem skipBowL_safe {cat : List Nat} {path : List Node} (hs : Safe cat path) :
    ∀ (l : List Node) (b0 : Nat), (∀ n ∈ l, n ∈ path) → ∃ b, skipBowL cat l b0 = .ok b := by
  intro l
  induction l with
  | nil => intro b0 _; exact ⟨b0, rfl⟩
  | cons n rest ih =>
    intro b0 hl
    obtain ⟨kt, hk⟩ := canOovBow_safe hs n (hl n (by simp))
    unfold skipBowL
    rw [hk]
    cases kt
    · exact ih (b0 + 1) (fun m hm => hl m (by simp [hm]))
    · exact ⟨b0, rfl⟩

/-- the body of the katakana loop on a safe path decides `next` or `join b e` with a non-empty range inside the
path: every class look-up and `num_codepts()` is in range -/
theorem kstep_safe {cat : List Nat} (cfg : KCfg) {path : List Node} (hs : Safe cat path) (i : Nat) (node : Node)
    (hi : i < path.length) (hnode : node ∈ path) :
    kstep cfg cat path i node = .ok .next ∨
      ∃ b e, kstep cfg cat path i node = .ok (.join b e) ∧ b < e ∧ e ≤ path.length := by
  unfold kstep
  have hc : ∃ c, (if isOov node then Outcome.ok true else isShorter cfg node) = .ok c := by
    cases isOov node
    · simpa using isShorter_safe hs cfg node hnode
    · exact ⟨true, rfl⟩
  obtain ⟨c, hc⟩ := hc
  rw [hc]
  simp only [Outcome.bind]
  cases c
  · exact .inl rfl
  · simp only [Bool.not_true, Bool.false_eq_true, if_false]
    obtain ⟨kt, hk⟩ := isKatakana_safe hs node hnode
    rw [hk]
    cases kt
    · exact .inl rfl
    · simp only [Bool.not_true, Bool.false_eq_true, if_false]
      obtain ⟨b0, hb0, _⟩ := scanBackL_safe hs (path.take i).reverse i
        (fun n hn => List.mem_of_mem_take (List.mem_reverse.mp hn))
      obtain ⟨e, he, _, he2⟩ := scanFwdL_safe hs (path.drop (i + 1)) (i + 1)
        (fun n hn => List.mem_of_mem_drop hn)
      obtain ⟨b, hb⟩ := skipBowL_safe hs (block path b0 e) b0 (fun n hn => mem_block hn)
      unfold scanBack scanFwd skipBow
      rw [hb0]; simp only
      rw [he]; simp only
      rw [hb]; simp only
      rw [List.length_drop] at he2
      split
      · exact .inr ⟨b, e, rfl, by omega, by omega⟩
      · exact .inl rfl

/-- the katakana loop from any index of a safe path, any fuel: out of fuel or `ok` with a safe path — no panic
and no `InvalidRange` either -/
theorem kloop_safe (cfg : KCfg) (cat : List Nat) :
    ∀ (fuel : Nat) (path : List Node) (i : Nat), Safe cat path →
      kloop cfg cat fuel path i = .fuel ∨ ∃ q, kloop cfg cat fuel path i = .ok q ∧ Safe cat q := by
  intro fuel
  induction fuel with
  | zero => intro path i _; exact .inl rfl
  | succ fuel ih =>
    intro path i hs
    unfold kloop
    by_cases hi : i ≥ path.length
    · rw [if_pos hi]; exact .inr ⟨path, rfl, hs⟩
    · rw [if_neg hi, getElem?_some_of_lt (show i < path.length by omega)]
      simp only
      rcases kstep_safe cfg hs i path[i] (by omega) (List.getElem_mem _) with hk | ⟨b, e, hk, hbe, he⟩
      · rw [hk]; exact ih path (i + 1) hs
      · rw [hk]
        simp only
        obtain ⟨q, hq, hsq⟩ := concatOovNodes_safe hs b e hbe he cfg.oovPos
        rw [hq]
        exact ih q (b + 2) hsq

/-! ## the plugin stack -/

theorem applyPlugin_safe (v : NVariant) (cat : List Nat) (P : List Char → POut) (pl : Plugin) (path : List Node)
    (hs : Safe cat path) :
    applyPlugin v cat P pl path = .fuel ∨ applyPlugin v cat P pl path = .err ∨
      ∃ q, applyPlugin v cat P pl path = .ok q ∧ Safe cat q := by
  cases pl with
  | numeric cfg => exact nloop_safe v cfg cat P _ _ hs (nInit_inv2 path)
  | katakana cfg =>
    rcases kloop_safe cfg cat (kFuel path) path 0 hs with h | h
    · exact .inl h
    · exact .inr (.inr h)

theorem rewriteAll_safe (v : NVariant) (cat : List Nat) (P : List Char → POut) :
    ∀ (pls : List Plugin) (path : List Node), Safe cat path →
      rewriteAll v cat P pls path = .fuel ∨ rewriteAll v cat P pls path = .err ∨
        ∃ q, rewriteAll v cat P pls path = .ok q ∧ Safe cat q := by
  intro pls
  induction pls with
  | nil => intro path hs; exact .inr (.inr ⟨path, rfl, hs⟩)
  | cons pl rest ih =>
    intro path hs
    unfold rewriteAll
    rcases applyPlugin_safe v cat P pl path hs with h | h | ⟨q, hq, hsq⟩
    · rw [h]; exact .inl rfl
    · rw [h]; exact .inr (.inl rfl)
    · rw [hq]; exact ih q hsq

/-- a successful run of the stack keeps the tiling (begin, end, contiguity, ranges inside the text, `u16` sum) -/
theorem rewriteAll_tiles (v : NVariant) (cat : List Nat) (P : List Char → POut) (pls : List Plugin) (nb : Nat)
    (path q : List Node) (ht : Tiles cat nb path) (h : rewriteAll v cat P pls path = .ok q) : Tiles cat nb q := by
  have hc := rewriteAll_coarsens v cat P pls path q h
  obtain ⟨h1, h2, _⟩ := hc.summary
  refine ⟨?_, fun x hx => ht.first x (by rw [h1]; exact hx), fun x hx => ht.last x (by rw [h2]; exact hx),
    fun hq => ht.empty (hc.nil_iff.mpr hq)⟩
  rcases rewriteAll_safe v cat P pls path ht.safe with h' | h' | ⟨q', hq', hs'⟩
  · rw [h] at h'; cases h'
  · rw [h] at h'; cases h'
  · rw [h] at hq'; cases hq'; exact hs'

/-- the second component of the driver's trace is `rewriteAll` -/
theorem rewriteTrace_snd (v : NVariant) (cat : List Nat) (P : List Char → POut) :
    ∀ (pls : List Plugin) (path : List Node), (rewriteTrace v cat P pls path).2 = rewriteAll v cat P pls path := by
  intro pls
  induction pls with
  | nil => intro path; rfl
  | cons pl rest ih =>
    intro path
    unfold rewriteTrace rewriteAll
    cases applyPlugin v cat P pl path with
    | ok p' => simp only; exact ih p'
    | err => rfl
    | panic => rfl
    | fuel => rfl

/-! ## the `u16` sum from per-node bounds -/

/-- the head-word lengths of a contiguous list of nodes, each at most the node's byte length, add up to at most the
bytes the list spans -/
theorem sumHwl_le_bytes : ∀ (path : List Node) (x y : Nat × Nat), Contig path →
    (∀ n ∈ path, n.bb ≤ n.eb ∧ n.hwl ≤ n.eb - n.bb) → firstB path = some x → lastE path = some y →
    sumHwl path + x.2 ≤ y.2 := by
  intro path
  induction path with
  | nil => intro x y _ _ hf _; simp [firstB] at hf
  | cons a rest ih =>
    intro x y hc hr hf hl
    have ha := hr a (by simp)
    simp only [firstB, List.head?_cons, Option.map_some, Option.some.injEq] at hf
    subst hf
    rw [sumHwl_cons]
    cases rest with
    | nil =>
      simp only [lastE, List.getLast?_singleton, Option.map_some, Option.some.injEq] at hl
      subst hl
      simp only [sumHwl, List.foldl_nil]
      omega
    | cons b r =>
      have hl' : lastE (b :: r) = some y := by
        have := lastE_append_of_ne_nil [a] (b := b :: r) (by simp)
        simp only [List.singleton_append] at this
        rw [← this]; exact hl
      have := ih (b.b, b.bb) y hc.2.2 (fun n hn => hr n (by simp [hn])) (by simp [firstB]) hl'
      have h2 := hc.2.1
      simp only at this ⊢
      omega

/-- `Tiles` from per-node facts: the sum hypothesis follows when every head-word length is at most the node's byte
length (it IS the byte length of the trie key resp. of the OOV surface) and the text has fewer than 65536 bytes -/
theorem tiles_of_node_bounds (cat : List Nat) (nb : Nat) (path : List Node) (hc : Contig path)
    (hr : ∀ n ∈ path, n.b < n.e ∧ n.e ≤ cat.length ∧ n.bb ≤ n.eb ∧ n.hwl ≤ n.eb - n.bb)
    (hf : ∀ x, firstB path = some x → x = (0, 0)) (hl : ∀ x, lastE path = some x → x = (cat.length, nb))
    (he : path = [] → cat = [] ∧ nb = 0) (hnb : nb < 65536) : Tiles cat nb path := by
  refine ⟨⟨hc, fun n hn => ⟨(hr n hn).1, (hr n hn).2.1, (hr n hn).2.2.1⟩, ?_⟩, hf, hl, he⟩
  cases path with
  | nil => simp [sumHwl]
  | cons a rest =>
    cases hy : lastE (a :: rest) with
    | none => simp [lastE] at hy
    | some y =>
      have := sumHwl_le_bytes (a :: rest) (a.b, a.bb) y hc
        (fun n hn => ⟨(hr n hn).2.2.1, (hr n hn).2.2.2⟩) (by simp [firstB]) hy
      have e := hl y hy
      rw [e] at this
      simp only at this
      omega

end Rewrite
