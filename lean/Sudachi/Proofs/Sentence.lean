import Sudachi.Model.Sentence
/-!
# Lemmas about the sentence-splitter model (property C16)
-/
namespace Sentence

/-! ## basic facts -/

theorem width_pos (c : Nat) : 1 ≤ width c := by
  unfold width; split <;> (try split) <;> (try split) <;> omega

theorem blen_append (a b : Text) : blen (a ++ b) = blen a + blen b := by
  induction a with
  | nil => simp [blen]
  | cons c cs ih => simp [blen, ih]; omega

theorem blen_pos_of_ne_nil {a : Text} (h : a ≠ []) : 1 ≤ blen a := by
  cases a with
  | nil => exact absurd rfl h
  | cons c cs => have := width_pos c; simp [blen]; omega

theorem utf8_append (a b : Text) : utf8 (a ++ b) = utf8 a ++ utf8 b := by
  induction a with
  | nil => simp [utf8]
  | cons c cs ih => simp [utf8, ih]

theorem utf8Enc_length (c : Nat) : (utf8Enc c).length = width c := by
  unfold utf8Enc width; split <;> (try split) <;> (try split) <;> simp

theorem utf8_length (a : Text) : (utf8 a).length = blen a := by
  induction a with
  | nil => simp [utf8, blen]
  | cons c cs ih => simp [utf8, blen, ih, utf8Enc_length]

theorem spanLen_le (p : Nat → Bool) (l : Text) : spanLen p l ≤ l.length := by
  induction l with
  | nil => simp [spanLen]
  | cons c cs ih => simp only [spanLen]; split <;> simp <;> omega

theorem spanLen_all (p : Nat → Bool) (l : Text) : ∀ c ∈ l.take (spanLen p l), p c = true := by
  induction l with
  | nil => simp [spanLen]
  | cons c cs ih =>
    simp only [spanLen]
    split
    · intro x hx
      simp only [List.take_succ_cons, List.mem_cons] at hx
      rcases hx with rfl | hx
      · assumption
      · exact ih x hx
    · simp

theorem take_spanLen_replicate (p : Nat → Bool) (v : Nat) (hp : ∀ c, p c = true → c = v) (l : Text) :
    l.take (spanLen p l) = List.replicate (spanLen p l) v := by
  induction l with
  | nil => simp [spanLen]
  | cons c cs ih =>
    simp only [spanLen]
    split
    · rename_i h
      simp [List.replicate_succ, ih, hp c h]
    · simp

theorem brUnits_le (l : Text) : 4 * brUnits l ≤ l.length := by
  fun_induction brUnits l with
  | case1 a b c d rest h ih => simp; omega
  | case2 a b c d rest h => simp
  | case3 l h => simp

theorem brUnits_take (l : Text) : brUnits (l.take (4 * brUnits l)) = brUnits l := by
  fun_induction brUnits l with
  | case1 a b c d rest h ih =>
    have : 4 * (brUnits rest + 1) = 4 * brUnits rest + 1 + 1 + 1 + 1 := by omega
    rw [this]
    simp only [List.take_succ_cons, brUnits, h, if_true, ih]
  | case2 a b c d rest h => simp [brUnits]
  | case3 l h => simp [brUnits]

theorem length_take_brUnits (l : Text) : (l.take (4 * brUnits l)).length = 4 * brUnits l := by
  have := brUnits_le l
  simp; omega

/-! ## what a match of SENTENCE_BREAKER looks like -/

/-- a sentence terminator as listed in the property: one full stop / question / exclamation mark /
note / ellipsis character or one period; three or more `・`; two or more line-break tags -/
def IsTerminator (t : Text) : Prop :=
  (∃ c, t = [c] ∧ (isPeriod c = true ∨ isDot c = true)) ∨
  (∃ n, 3 ≤ n ∧ t = List.replicate n 0x30FB) ∨
  (∃ k, 2 ≤ k ∧ t.length = 4 * k ∧ brUnits t = k)

/-- characters that may follow the terminator inside the sentence: further terminators / periods,
closing brackets, commas -/
def isTailChar (c : Nat) : Bool := isDotOrPeriod c || isProhibitedBos c

theorem breakerAt_bounds {prev : Option Nat} {l : Text} {n : Nat}
    (h : breakerAt prev l = some n) : 1 ≤ n ∧ n ≤ l.length := by
  cases l with
  | nil => simp [breakerAt] at h
  | cons c rest =>
    simp only [breakerAt] at h
    split at h
    · have := spanLen_le isDotOrPeriod rest
      simp at h; subst h; simp; omega
    · split at h
      · split at h
        · have h1 := spanLen_le isCdot rest
          have h2 := spanLen_le isDotOrPeriod (rest.drop (1 + spanLen isCdot rest - 1))
          simp at h h2 ⊢; omega
        · simp at h
      · split at h
        · split at h
          · have := spanLen_le isDotOrPeriod rest
            simp at h; subst h; simp; omega
          · simp at h
        · split at h
          · split at h
            · have := brUnits_le (c :: rest)
              simp at h this ⊢; omega
            · simp at h
          · simp at h

/-- the matched text is a terminator followed by terminator characters -/
theorem breakerAt_shape {prev : Option Nat} {l : Text} {n : Nat}
    (h : breakerAt prev l = some n) :
    ∃ t tail, l.take n = t ++ tail ∧ IsTerminator t ∧ ∀ c ∈ tail, isDotOrPeriod c = true := by
  cases l with
  | nil => simp [breakerAt] at h
  | cons c rest =>
    simp only [breakerAt] at h
    split at h
    · rename_i hc
      simp at h; subst h
      refine ⟨[c], rest.take (spanLen isDotOrPeriod rest), ?_, Or.inl ⟨c, rfl, Or.inl hc⟩, spanLen_all _ _⟩
      rw [Nat.add_comm]; simp
    · split at h
      · rename_i hc
        split at h
        · rename_i h3
          simp at h; subst h
          have hcv : c = 0x30FB := by simpa [isCdot] using hc
          have h1 := spanLen_le isCdot rest
          refine ⟨List.replicate (1 + spanLen isCdot rest) 0x30FB,
            (rest.drop (spanLen isCdot rest)).take (spanLen isDotOrPeriod (rest.drop (spanLen isCdot rest))),
            ?_, Or.inr (Or.inl ⟨_, h3, rfl⟩), ?_⟩
          · have e1 : 1 + spanLen isCdot rest + spanLen isDotOrPeriod (List.drop (spanLen isCdot rest) rest)
                = (spanLen isCdot rest + spanLen isDotOrPeriod (rest.drop (spanLen isCdot rest))) + 1 := by
              omega
            rw [e1, List.take_succ_cons, List.take_add]
            rw [take_spanLen_replicate isCdot 0x30FB (by intro x hx; simpa [isCdot] using hx) rest]
            rw [Nat.add_comm 1, List.replicate_succ, hcv]
            simp
          · have := spanLen_all isDotOrPeriod (rest.drop (spanLen isCdot rest))
            simpa using this
        · simp at h
      · split at h
        · rename_i hc
          split at h
          · simp at h; subst h
            refine ⟨[c], rest.take (spanLen isDotOrPeriod rest), ?_, Or.inl ⟨c, rfl, Or.inr hc⟩, spanLen_all _ _⟩
            rw [Nat.add_comm]; simp
          · simp at h
        · split at h
          · split at h
            · rename_i h2
              simp at h; subst h
              refine ⟨(c :: rest).take (4 * brUnits (c :: rest)), [], by simp, ?_, by simp⟩
              exact Or.inr (Or.inr ⟨brUnits (c :: rest), h2, length_take_brUnits _, brUnits_take _⟩)
            · simp at h
          · simp at h

/-! ## an accepted candidate -/

/-- what `examine` has checked when it returns `accept e` for a match ending at `eos0` -/
structure Accepted (v : CkVariant) (ck : Option (List (List (List Nat)))) (input s : Text) (eos0 e : Nat) : Prop where
  level0 : parenLevel (s.take eos0) = 0
  ext : eos0 ≤ e
  le : e ≤ s.length
  tail : ∀ c ∈ (s.drop eos0).take (e - eos0), isProhibitedBos c = true
  notItem : isItemizeHeader s = false
  notCont : e < s.length → isContinuousPhrase s e = some false
  noWord : ∀ lexs, ck = some lexs → hasNonBreakWord v lexs input (blen (s.take e)) = .ok false

theorem examine_accept {v : CkVariant} {ck : Option (List (List (List Nat)))} {input s : Text} {eos0 e : Nat}
    (h0 : eos0 ≤ s.length) (h : examine v ck input s eos0 = .accept e) : Accepted v ck input s eos0 e := by
  unfold examine at h
  split at h
  · cases h
  · rename_i hlev
    simp only at h
    split at h
    · cases h
    · rename_i hitem
      -- the extended end
      have hspan := spanLen_le isProhibitedBos (s.drop eos0)
      have hall := spanLen_all isProhibitedBos (s.drop eos0)
      generalize heos : (if eos0 < s.length then eos0 + prohibitedBos (s.drop eos0) else eos0) = eos at h
      have hext : eos0 ≤ eos ∧ eos ≤ s.length ∧ eos - eos0 ≤ spanLen isProhibitedBos (s.drop eos0) := by
        simp only [prohibitedBos] at heos
        simp at hspan
        split at heos <;> omega
      have htail : ∀ c ∈ (s.drop eos0).take (eos - eos0), isProhibitedBos c = true := by
        intro c hc
        apply hall c
        exact (List.take_subset_take_left _ hext.2.2) hc
      split at h
      · cases h
      · cases h
      · rename_i hcont
        have hnc : eos < s.length → isContinuousPhrase s eos = some false := by
          intro hlt; simpa [hlt] using hcont
        split at h
        · cases h
          exact ⟨by omega, hext.1, hext.2.1, htail, by simpa using hitem, hnc, by intro l hl; cases hl⟩
        · rename_i lexs
          split at h
          · cases h
          · cases h
          · rename_i hw
            cases h
            exact ⟨by omega, hext.1, hext.2.1, htail, by simpa using hitem, hnc,
              by intro l hl; cases hl; exact hw⟩

/-! ## the scan over the matches -/

theorem scan_some {v : CkVariant} {ck : Option (List (List (List Nat)))} {input s : Text} :
    ∀ (l : Text) (k : Nat) (prev : Option Nat) (skip : Nat) (r : Cand),
      s.drop k = l → scan v ck input s k prev skip l = some r →
      r ≠ .veto ∧ ∃ j n pv, breakerAt pv (s.drop (k + j)) = some n ∧ examine v ck input s (k + j + n) = r := by
  intro l
  induction l with
  | nil => intro k prev skip r _ h; simp [scan] at h
  | cons c rest ih =>
    intro k prev skip r hs h
    have hs' : s.drop (k + 1) = rest := by
      rw [← List.drop_drop, hs]; rfl
    cases skip with
    | succ sk =>
      simp only [scan] at h
      obtain ⟨hv, j, n, pv, hb, he⟩ := ih (k + 1) (some c) sk r hs' h
      exact ⟨hv, j + 1, n, pv, by rw [← Nat.add_assoc, Nat.add_right_comm]; exact hb,
        by rw [← Nat.add_assoc, Nat.add_right_comm k j 1]; exact he⟩
    | zero =>
      simp only [scan] at h
      split at h
      · obtain ⟨hv, j, n, pv, hb, he⟩ := ih (k + 1) (some c) 0 r hs' h
        exact ⟨hv, j + 1, n, pv, by rw [← Nat.add_assoc, Nat.add_right_comm]; exact hb,
          by rw [← Nat.add_assoc, Nat.add_right_comm k j 1]; exact he⟩
      · rename_i n hb
        split at h
        · obtain ⟨hv, j, n', pv, hb', he⟩ := ih (k + 1) (some c) (n - 1) r hs' h
          exact ⟨hv, j + 1, n', pv, by rw [← Nat.add_assoc, Nat.add_right_comm]; exact hb',
            by rw [← Nat.add_assoc, Nat.add_right_comm k j 1]; exact he⟩
        · rename_i hnv
          cases h
          refine ⟨by intro hveto; exact hnv hveto, 0, n, prev, by simpa [hs] using hb, by simp⟩

/-! ## `get_eos` -/

theorem spanLen_pos_of_head {p : Nat → Bool} {c : Nat} {cs : Text} (h : p c = true) :
    1 ≤ spanLen p (c :: cs) := by
  simp [spanLen, h]

theorem spacesEnd_pos : ∀ (s : Text) (e : Nat), spacesEnd s = some e → 1 ≤ e := by
  intro s
  induction s with
  | nil => intro e h; simp [spacesEnd] at h
  | cons c cs ih =>
    intro e h
    simp only [spacesEnd] at h
    split at h
    · cases hh : spacesEnd cs with
      | none => simp [hh] at h
      | some e' => simp [hh] at h; omega
    · rename_i hc
      simp only [spacesFrom] at h
      split at h
      · have : 1 ≤ spanLen (fun x => x != 0x0A) (c :: cs) :=
          spanLen_pos_of_head (by simpa using hc)
        simp at h; omega
      · cases hh : lastSpaceEnd cs with
        | none => simp [hh] at h
        | some e' => simp [hh] at h; omega

theorem negOf_pos {n e : Nat} (hn : 1 ≤ n) : negOf n ≠ .pos e := by
  unfold negOf
  have : ¬ n = 0 := by omega
  simp [this]

theorem getEos_pos {limit : Nat} {v : CkVariant} {ck : Option (List (List (List Nat)))} {input : Text} {e : Nat}
    (hl : 1 ≤ limit) (hne : input ≠ []) (h : getEos v limit ck input = .ok (.pos e)) :
    ∃ k n pv, breakerAt pv ((input.take limit).drop k) = some n ∧ k + n ≤ (input.take limit).length ∧
      Accepted v ck input (input.take limit) (k + n) e := by
  unfold getEos at h
  have : input.isEmpty = false := by cases input <;> simp_all
  simp only [this] at h
  simp only [Bool.false_eq_true, if_false] at h
  split at h
  · rename_i e' hsc
    cases h
    obtain ⟨_, j, n, pv, hb, he⟩ := scan_some (input.take limit) 0 none 0 _ (by simp) hsc
    have hbd := breakerAt_bounds hb
    simp only [Nat.zero_add] at hb he hbd
    have hlen : j + n ≤ (input.take limit).length := by
      have := hbd.2; simp only [List.length_drop] at this; omega
    exact ⟨j, n, pv, hb, hlen, examine_accept hlen he⟩
  · cases h
  · cases h
  · have hslen : 1 ≤ (input.take limit).length := by
      cases input with
      | nil => exact absurd rfl hne
      | cons c cs => simp only [List.length_take, List.length_cons]; omega
    split at h
    · split at h
      · rename_i e' hsp
        have := spacesEnd_pos _ _ hsp
        simp only [Res.ok.injEq] at h
        exact absurd h (negOf_pos this)
      · simp only [Res.ok.injEq] at h
        exact absurd h (negOf_pos hslen)
    · simp only [Res.ok.injEq] at h
      exact absurd h (negOf_pos hslen)

theorem getEos_pos_bounds {limit : Nat} {v : CkVariant} {ck : Option (List (List (List Nat)))} {input : Text} {e : Nat}
    (hl : 1 ≤ limit) (hne : input ≠ []) (h : getEos v limit ck input = .ok (.pos e)) : 1 ≤ e ∧ e ≤ input.length := by
  obtain ⟨k, n, pv, hb, hlen, acc⟩ := getEos_pos hl hne h
  have := breakerAt_bounds hb
  have h1 := acc.ext
  have h2 := acc.le
  simp only [List.length_take] at h2
  omega

/-! ## the iteration -/

/-- the ranges are contiguous from `p` to `q`, every range is as long as its (non-empty) chunk -/
def Contig : Nat → List Sent → Nat → Prop
  | p, [], q => p = q
  | p, x :: xs, q => x.b = p ∧ x.e = p + blen x.chunk ∧ x.chunk ≠ [] ∧ Contig x.e xs q

theorem cons_eq_ok {x : Sent} {r : SplitRes} {l : List Sent} (h : SplitRes.cons x r = .ok l) :
    ∃ l', r = .ok l' ∧ l = x :: l' := by
  cases r with
  | ok l' => simp [SplitRes.cons] at h; exact ⟨l', rfl, h.symm⟩
  | panic => simp [SplitRes.cons] at h
  | fuelOut => simp [SplitRes.cons] at h

theorem splitFuel_ok {limit : Nat} {v : CkVariant} {ck : Option (List (List (List Nat)))} (hl : 1 ≤ limit) :
    ∀ (fuel pos : Nat) (rest : Text) (l : List Sent), splitFuel v limit ck fuel pos rest = .ok l →
      Contig pos l (pos + blen rest) ∧ (l.map (·.chunk)).flatten = rest := by
  intro fuel
  induction fuel with
  | zero =>
    intro pos rest l h
    cases rest with
    | nil => simp [splitFuel] at h; subst h; simp [Contig, blen]
    | cons c cs => simp [splitFuel] at h
  | succ fuel ih =>
    intro pos rest l h
    cases rest with
    | nil => simp [splitFuel] at h; subst h; simp [Contig, blen]
    | cons c cs =>
      simp only [splitFuel] at h
      split at h
      · cases h
      · cases h
        simp [Contig]
      · rename_i e hg
        obtain ⟨l', hr, hl⟩ := cons_eq_ok h
        subst hl
        have hb := getEos_pos_bounds hl (by simp) hg
        obtain ⟨hc, hf⟩ := ih _ _ _ hr
        have hsplit : blen (c :: cs) = blen ((c :: cs).take e) + blen ((c :: cs).drop e) := by
          rw [← blen_append, List.take_append_drop]
        refine ⟨⟨rfl, rfl, ?_, ?_⟩, ?_⟩
        · intro hnil
          have h1 : ((c :: cs).take e).length = 0 := by
            have h2 : (c :: cs).take e = [] := hnil
            rw [h2]; rfl
          rw [List.length_take] at h1
          simp only [List.length_cons] at hb h1
          omega
        · simp only
          rw [hsplit, ← Nat.add_assoc]; exact hc
        · simp only [List.map_cons, List.flatten_cons, hf, List.take_append_drop]

theorem splitFuel_terminates {limit : Nat} {v : CkVariant} {ck : Option (List (List (List Nat)))} (hl : 1 ≤ limit) :
    ∀ (fuel pos : Nat) (rest : Text), rest.length ≤ fuel → splitFuel v limit ck fuel pos rest ≠ .fuelOut := by
  intro fuel
  induction fuel with
  | zero =>
    intro pos rest hlen
    cases rest with
    | nil => simp [splitFuel]
    | cons c cs => simp at hlen
  | succ fuel ih =>
    intro pos rest hlen
    cases rest with
    | nil => simp [splitFuel]
    | cons c cs =>
      simp only [splitFuel]
      split
      · simp
      · simp
      · rename_i e hg
        have hb := getEos_pos_bounds hl (by simp) hg
        have hrec := ih (pos + blen ((c :: cs).take e)) ((c :: cs).drop e) (by simp only [List.length_drop]; omega)
        intro hc
        generalize splitFuel v limit ck fuel (pos + blen ((c :: cs).take e)) ((c :: cs).drop e) = r at hrec hc
        cases r <;> simp [SplitRes.cons] at hc hrec

/-- every sentence but the last is a non-negative answer of `get_eos` on the rest of the text -/
theorem splitFuel_link {limit : Nat} {v : CkVariant} {ck : Option (List (List (List Nat)))} (hl : 1 ≤ limit) :
    ∀ (fuel pos : Nat) (rest : Text) (l : List Sent), splitFuel v limit ck fuel pos rest = .ok l →
      ∀ x ∈ l.dropLast, ∃ pre post, rest = pre ++ x.chunk ++ post ∧ x.chunk ≠ [] ∧
        getEos v limit ck (x.chunk ++ post) = .ok (.pos x.chunk.length) := by
  intro fuel
  induction fuel with
  | zero =>
    intro pos rest l h
    cases rest with
    | nil => simp [splitFuel] at h; subst h; simp
    | cons c cs => simp [splitFuel] at h
  | succ fuel ih =>
    intro pos rest l h
    cases rest with
    | nil => simp [splitFuel] at h; subst h; simp
    | cons c cs =>
      simp only [splitFuel] at h
      split at h
      · cases h
      · cases h; simp
      · rename_i e hg
        obtain ⟨l', hr, hl'⟩ := cons_eq_ok h
        subst hl'
        have hb := getEos_pos_bounds hl (by simp) hg
        intro x hx
        cases l' with
        | nil => simp at hx
        | cons a t =>
          simp only [List.dropLast_cons_cons, List.mem_cons] at hx
          rcases hx with rfl | hx
          · refine ⟨[], (c :: cs).drop e, by simp, ?_, ?_⟩
            · intro hnil
              have h1 : ((c :: cs).take e).length = 0 := by
                have h2 : (c :: cs).take e = [] := hnil
                rw [h2]; rfl
              rw [List.length_take] at h1
              omega
            · have h2 : ((c :: cs).take e).length = e := by rw [List.length_take]; omega
              simp only [List.take_append_drop, h2]
              exact hg
          · obtain ⟨pre, post, hsplit, hne', hge⟩ := ih _ _ _ hr x hx
            refine ⟨(c :: cs).take e ++ pre, post, ?_, hne', hge⟩
            have := List.take_append_drop e (c :: cs)
            rw [hsplit] at this
            simp only [List.append_assoc] at this ⊢
            exact this.symm

/-- splitting off: a sentence inside a contiguous list is the slice of the text at its range -/
theorem contig_slice : ∀ (l : List Sent) (p q : Nat), Contig p l q →
    ∀ x ∈ l, ∃ pre post, (l.map (·.chunk)).flatten = pre ++ x.chunk ++ post ∧
      x.b = p + blen pre ∧ x.e = p + blen pre + blen x.chunk := by
  intro l
  induction l with
  | nil => intro p q _ x hx; simp at hx
  | cons y ys ih =>
    intro p q hc x hx
    obtain ⟨hb, he, _, hrest⟩ := hc
    simp only [List.mem_cons] at hx
    rcases hx with rfl | hx
    · exact ⟨[], (ys.map (·.chunk)).flatten, by simp, by simp [blen, hb], by simp [blen, he]⟩
    · obtain ⟨pre, post, hf, hxb, hxe⟩ := ih _ _ hrest x hx
      refine ⟨y.chunk ++ pre, post, by simp [hf], ?_, ?_⟩
      · rw [hxb, he, blen_append]; omega
      · rw [hxe, he, blen_append]; omega

/-! ## the shape of a sentence that `get_eos` cuts off -/

theorem take_split3 (l : Text) (k n e : Nat) (h : k + n ≤ e) :
    l.take e = l.take k ++ (l.drop k).take n ++ (l.drop (k + n)).take (e - (k + n)) := by
  have : e = k + (n + (e - (k + n))) := by omega
  conv => lhs; rw [this]
  rw [List.take_add, List.take_add, List.drop_drop, List.append_assoc]

theorem not_open_of_prohibited {c : Nat} (h : isProhibitedBos c = true) : isOpen c = false := by
  simp only [isProhibitedBos, isClose, isComma, isPeriod, Bool.or_eq_true, decide_eq_true_eq] at h
  simp only [isOpen, Bool.or_eq_false_iff, decide_eq_false_iff_not]
  omega

theorem foldl_parenStep_zero (ext : Text) (h : ∀ c ∈ ext, isOpen c = false) :
    ext.foldl parenStep 0 = 0 := by
  induction ext with
  | nil => rfl
  | cons c cs ih =>
    have hc := h c (by simp)
    have : parenStep 0 c = 0 := by simp [parenStep, hc]
    simp only [List.foldl_cons, this]
    exact ih (fun x hx => h x (by simp [hx]))

theorem parenLevel_append_tail (a ext : Text) (ha : parenLevel a = 0)
    (h : ∀ c ∈ ext, isProhibitedBos c = true) : parenLevel (a ++ ext) = 0 := by
  unfold parenLevel at *
  rw [List.foldl_append, ha]
  exact foldl_parenStep_zero ext (fun c hc => not_open_of_prohibited (h c hc))

/-- The sentence cut off by a non-negative `get_eos`: `pre ++ t ++ tt ++ ext` with `t` a terminator,
`tt` further terminator characters matched with it, bracket level 0 at the end of `tt`, and `ext`
the closing brackets / commas / terminators that may not start the next sentence. -/
theorem getEos_pos_chunk {limit : Nat} {v : CkVariant} {ck : Option (List (List (List Nat)))} {input : Text} {e : Nat}
    (hl : 1 ≤ limit) (hne : input ≠ []) (h : getEos v limit ck input = .ok (.pos e)) :
    ∃ pre t tt ext, input.take e = pre ++ (t ++ tt) ++ ext ∧ IsTerminator t ∧
      (∀ c ∈ tt, isDotOrPeriod c = true) ∧ parenLevel (pre ++ (t ++ tt)) = 0 ∧
      (∀ c ∈ ext, isProhibitedBos c = true) := by
  obtain ⟨k, n, pv, hb, hlen, acc⟩ := getEos_pos hl hne h
  obtain ⟨t, tt, hshape, hterm, htt⟩ := breakerAt_shape hb
  have hle := acc.le
  have htake : input.take e = (input.take limit).take e := by
    rw [List.take_take]
    congr 1
    simp only [List.length_take] at hle
    omega
  refine ⟨(input.take limit).take k, t, tt, ((input.take limit).drop (k + n)).take (e - (k + n)), ?_, hterm, htt, ?_, acc.tail⟩
  · rw [htake, take_split3 _ k n e acc.ext, hshape]
  · have := acc.level0
    rw [List.take_add, hshape] at this
    exact this

/-! ## `has_non_break_word` -/

theorem mem_keyLens {lex : List (List Nat)} {rest : List Nat} {n : Nat} :
    n ∈ keyLens lex rest ↔ (1 ≤ n ∧ n ≤ rest.length) ∧ rest.take n ∈ lex := by
  unfold keyLens
  simp only [List.mem_filter, List.mem_range'_1, List.contains_iff_mem]
  constructor
  · rintro ⟨⟨h1, h2⟩, h3⟩; exact ⟨⟨h1, by omega⟩, h3⟩
  · rintro ⟨⟨h1, h2⟩, h3⟩; exact ⟨⟨h1, by omega⟩, h3⟩

theorem mem_lookupLens {lexs : List (List (List Nat))} {rest : List Nat} {n : Nat} :
    n ∈ lookupLens lexs rest ↔ ∃ lex ∈ lexs, n ∈ keyLens lex rest := by
  unfold lookupLens
  simp [List.mem_flatMap]

/-- a non-empty key that is a prefix of the remaining bytes is reported by the lookup -/
theorem key_in_lookup {lexs : List (List (List Nat))} {lex : List (List Nat)} {key rest : List Nat}
    (hlex : lex ∈ lexs) (hkey : key ∈ lex) (hne : key ≠ []) (hpre : key <+: rest) :
    key.length ∈ lookupLens lexs rest := by
  rw [mem_lookupLens]
  refine ⟨lex, hlex, ?_⟩
  rw [mem_keyLens]
  have hlen : key.length ≤ rest.length := hpre.length_le
  have h1 : 1 ≤ key.length := by
    cases key with
    | nil => exact absurd rfl hne
    | cons a b => simp
  refine ⟨⟨h1, hlen⟩, ?_⟩
  rw [← List.prefix_iff_eq_take.mp hpre]
  exact hkey

theorem charsFromByte_spec : ∀ (t : Text) (i r : Nat), charsFromByte t i = some r →
    ∃ pre post, t = pre ++ post ∧ blen pre = i ∧ post.length = r := by
  intro t
  induction t with
  | nil =>
    intro i r h
    cases i with
    | zero => simp [charsFromByte] at h; exact ⟨[], [], rfl, rfl, by simpa using h⟩
    | succ i => simp [charsFromByte] at h
  | cons c cs ih =>
    intro i r h
    cases i with
    | zero => simp [charsFromByte] at h; exact ⟨[], c :: cs, rfl, rfl, by simpa using h⟩
    | succ i =>
      simp only [charsFromByte] at h
      split at h
      · cases h
      · obtain ⟨pre, post, hsplit, hb, hr⟩ := ih _ _ h
        refine ⟨c :: pre, post, by simp [hsplit], ?_, hr⟩
        simp only [blen, hb]; omega

theorem blen_take_le (t : Text) (n : Nat) : blen (t.take n) ≤ blen t := by
  have := blen_append (t.take n) (t.drop n)
  rw [List.take_append_drop] at this
  omega

/-- byte offset `i` lies at or after the start of the last character of `input` -/
def LastCharFrom (input : Text) (i : Nat) : Prop :=
  ∃ pre post, input = pre ++ post ∧ post.length ≤ 1 ∧ blen pre ≤ i

/-- what the checker guarantees at byte offset `i` when it lets the break at `eosB` pass: every key
found there ends before the break, or ends at the break and lies inside the last character of the
input (a one-character word at the very end of the text) -/
def GoodAt (lexs : List (List (List Nat))) (input : Text) (eosB i : Nat) : Prop :=
  ∀ len ∈ lookupLens lexs ((utf8 input).drop i),
    i + len < eosB ∨ (i + len = eosB ∧ LastCharFrom input i)

theorem lookupLens_bounds {lexs : List (List (List Nat))} {rest : List Nat} {n : Nat}
    (h : n ∈ lookupLens lexs rest) : 1 ≤ n ∧ n ≤ rest.length := by
  rw [mem_lookupLens] at h
  obtain ⟨lex, _, hk⟩ := h
  exact (mem_keyLens.mp hk).1

theorem checkEntries_none {input : Text} {eosB i : Nat} :
    ∀ lens, checkEntries .cur input eosB i lens = none → ∀ len ∈ lens, i + len < eosB := by
  intro lens
  induction lens with
  | nil => intro _ len hl; simp at hl
  | cons a more ih =>
    intro h len hl
    simp only [checkEntries] at h
    split at h
    · cases h
    · split at h
      · cases h
      · simp only [List.mem_cons] at hl
        rcases hl with rfl | hl
        · omega
        · exact ih h len hl

theorem checkEntries_false {input : Text} {eosB i : Nat} :
    ∀ lens, checkEntries .cur input eosB i lens = some (.ok false) →
      ∃ r, charsFromByte input i = some r ∧ r ≤ 1 := by
  intro lens
  induction lens with
  | nil => intro h; simp [checkEntries] at h
  | cons a more ih =>
    intro h
    simp only [checkEntries] at h
    split at h
    · simp at h
    · split at h
      · cases hc : charsFromByte input i with
        | none => simp [hc] at h
        | some r =>
          simp [hc] at h
          exact ⟨r, rfl, by omega⟩
      · exact ih h

theorem eos_at_end {input pre post : Text} {e : Nat} (hs : input = pre ++ post) (hp : post.length ≤ 1)
    (hlt : blen pre < blen (input.take e)) : blen (input.take e) = blen input := by
  by_cases he : e ≤ pre.length
  · rw [hs, List.take_append_of_le_length he] at hlt
    have := blen_take_le pre e
    omega
  · have : input.length ≤ e := by rw [hs, List.length_append]; omega
    rw [List.take_of_length_le this]

theorem nonBreakLoop_false {lexs : List (List (List Nat))} {input : Text} {eosB e : Nat}
    (hE : eosB = blen (input.take e)) :
    ∀ (n a : Nat), nonBreakLoop .cur lexs input (utf8 input) eosB (List.range' a n) = .ok false →
      a + n ≤ eosB → ∀ i, a ≤ i → i < a + n → GoodAt lexs input eosB i := by
  intro n
  induction n with
  | zero => intro a _ _ i h1 h2; omega
  | succ n ih =>
    intro a h hle i hi1 hi2
    rw [List.range'_succ] at h
    simp only [nonBreakLoop] at h
    split at h
    · rename_i r hce
      subst h
      -- the loop stopped at `a` with `false`: the rest of the input from `a` is one character
      obtain ⟨r, hcf, hr⟩ := checkEntries_false _ hce
      obtain ⟨pre, post, hsplit, hpre, hpost⟩ := charsFromByte_spec _ _ _ hcf
      have hend : eosB = blen input := by
        rw [hE]; exact eos_at_end hsplit (by omega) (by rw [← hE]; omega)
      intro len hlen
      have hb := lookupLens_bounds hlen
      rw [List.length_drop, utf8_length] at hb
      by_cases hlt : i + len < eosB
      · exact Or.inl hlt
      · exact Or.inr ⟨by omega, pre, post, hsplit, by omega, by omega⟩
    · rename_i hce
      by_cases hia : i = a
      · subst hia
        intro len hlen
        exact Or.inl (checkEntries_none _ hce len hlen)
      · exact ih (a + 1) h (by omega) i (by omega) (by omega)

theorem hasNonBreakWord_false {lexs : List (List (List Nat))} {input : Text} {eosB e : Nat}
    (hE : eosB = blen (input.take e)) (h : hasNonBreakWord .cur lexs input eosB = .ok false) :
    ∀ i, eosB - LOOKUP_BYTE_LENGTH ≤ i → i < eosB → GoodAt lexs input eosB i := by
  unfold hasNonBreakWord at h
  simp only at h
  intro i h1 h2
  have hstart : max LOOKUP_BYTE_LENGTH eosB - LOOKUP_BYTE_LENGTH = eosB - LOOKUP_BYTE_LENGTH := by omega
  rw [hstart] at h
  exact nonBreakLoop_false hE _ _ h (by omega) i h1 (by omega)

end Sentence
