import Sudachi.Proofs.Layers
/-!
# The dictionary builder's POS numbering (`preload_pos`, `pos_of`, `parse_record`, `write_pos_table`)
-/
namespace Layers

def keys (m : PosMap) : List Pos := m.map (·.1)

/-- every value of the index map is the position of its key; at most 32768 keys -/
def WF (m : PosMap) : Prop := m = (keys m).zipIdx ∧ m.length ≤ 32768

theorem keys_length (m : PosMap) : (keys m).length = m.length := by simp [keys]

theorem find_zipIdx (p : Pos) : ∀ (l : List Pos) (n : Nat),
    (∀ kv, (l.zipIdx n).find? (fun kv => kv.1 == p) = some kv → kv.1 = p ∧ n ≤ kv.2 ∧ l[kv.2 - n]? = some p) ∧
    ((l.zipIdx n).find? (fun kv => kv.1 == p) = none → p ∉ l)
  | [], n => by simp
  | a :: l, n => by
    obtain ⟨ih1, ih2⟩ := find_zipIdx p l (n + 1)
    rw [List.zipIdx_cons, List.find?_cons]
    by_cases hap : a = p
    · subst hap
      simp
    · have hb : ((a, n).1 == p) = false := by simpa using hap
      simp only [hb]
      constructor
      · intro kv hkv
        obtain ⟨h1, h2, h3⟩ := ih1 kv hkv
        refine ⟨h1, by omega, ?_⟩
        have : kv.2 - n = (kv.2 - (n + 1)) + 1 := by omega
        rw [this, List.getElem?_cons_succ]
        exact h3
      · intro hnone
        have := ih2 hnone
        simp only [List.mem_cons, not_or]
        exact ⟨fun h => hap h.symm, this⟩

theorem imGet_some (m : PosMap) (hm : WF m) (p : Pos) (id : Nat) (h : imGet m p = some id) :
    (keys m)[id]? = some p := by
  unfold imGet at h
  split at h
  · rename_i kv hkv
    cases h
    rw [hm.1] at hkv
    have := (find_zipIdx p (keys m) 0).1 kv hkv
    simpa using this.2.2
  · cases h

theorem imGet_none (m : PosMap) (hm : WF m) (p : Pos) (h : imGet m p = none) : p ∉ keys m := by
  unfold imGet at h
  split at h
  · cases h
  · rename_i hnone
    rw [hm.1] at hnone
    exact (find_zipIdx p (keys m) 0).2 hnone

theorem imInsert_new (p : Pos) (v : Nat) : ∀ (m : PosMap), p ∉ keys m → imInsert m p v = m ++ [(p, v)]
  | [], _ => rfl
  | (k', v') :: rest, h => by
    simp only [keys, List.map_cons, List.mem_cons, not_or] at h
    have hne : (k' == p) = false := by simpa using fun e => h.1 e.symm
    simp only [imInsert, hne]
    rw [imInsert_new p v rest (by simpa [keys] using h.2)]
    simp

theorem WF_push (m : PosMap) (hm : WF m) (p : Pos) (hlen : m.length < 32768) : WF (m ++ [(p, m.length)]) := by
  refine ⟨?_, by simp; omega⟩
  have hk : keys (m ++ [(p, m.length)]) = keys m ++ [p] := by simp [keys]
  rw [hk, List.zipIdx_append, ← hm.1]
  simp [keys_length]

/-- `pos_of`: the map only grows at the end, stays well-formed, and the returned id names `p` -/
theorem posOf_spec (m m' : PosMap) (p : Pos) (id : Nat) (hm : WF m) (h : posOf m p = .ok (m', id)) :
    ∃ ext, m' = m ++ ext ∧ WF m' ∧ (keys m')[id]? = some p := by
  unfold posOf at h
  split at h
  · rename_i id' hget
    cases h
    exact ⟨[], by simp, hm, imGet_some m hm p _ hget⟩
  · rename_i hnone
    split at h
    · cases h
    · rename_i hlen
      cases h
      have hnotin := imGet_none m hm p hnone
      have hu : asU16 m.length = m.length := by unfold asU16; unfold MAX_POS_IDS at hlen; omega
      rw [hu, imInsert_new p m.length m hnotin]
      refine ⟨[(p, m.length)], rfl, WF_push m hm p (by unfold MAX_POS_IDS at hlen; omega), ?_⟩
      simp [keys]

theorem keys_ext (m ext : PosMap) (i : Nat) (p : Pos) (h : (keys m)[i]? = some p) :
    (keys (m ++ ext))[i]? = some p := by
  have hi : i < (keys m).length := by
    by_cases hlt : i < (keys m).length
    · exact hlt
    · rw [List.getElem?_eq_none (by omega)] at h; cases h
  simp only [keys, List.map_append] at *
  rw [List.getElem?_append_left (by simpa using hi)]
  exact h

theorem parseSplit_spec (m m' : PosMap) (u : CsvUnit) (su : SUnit) (hm : WF m)
    (h : parseSplit m u = .ok (m', su)) : ∃ ext, m' = m ++ ext ∧ WF m' := by
  unfold parseSplit at h
  split at h
  · split at h
    · cases h; exact ⟨[], by simp, hm⟩
    · cases h
    · cases h
  · split at h
    · rename_i m1 id hp
      cases h
      obtain ⟨ext, h1, h2, _⟩ := posOf_spec m _ _ id hm hp
      exact ⟨ext, h1, h2⟩
    · cases h
    · cases h

theorem parseSplitsGo_spec : ∀ (us : List CsvUnit) (m m' : PosMap) (sus : List SUnit), WF m →
    parseSplitsGo m us = .ok (m', sus) → ∃ ext, m' = m ++ ext ∧ WF m'
  | [], m, m', sus, hm, h => by
    simp [parseSplitsGo] at h; exact ⟨[], by simp [h.1], h.1 ▸ hm⟩
  | u :: us, m, m', sus, hm, h => by
    unfold parseSplitsGo at h
    split at h
    · cases h
    · cases h
    · rename_i m1 su h1
      split at h
      · cases h
      · cases h
      · rename_i m2 sus2 h2
        cases h
        obtain ⟨e1, he1, hw1⟩ := parseSplit_spec m m1 u su hm h1
        obtain ⟨e2, he2, hw2⟩ := parseSplitsGo_spec us m1 m' sus2 hw1 h2
        exact ⟨e1 ++ e2, by rw [he2, he1, List.append_assoc], hw2⟩

theorem parseSplits_spec (m m' : PosMap) (us : List CsvUnit) (sus : List SUnit) (hm : WF m)
    (h : parseSplits m us = .ok (m', sus)) : ∃ ext, m' = m ++ ext ∧ WF m' := by
  unfold parseSplits at h
  split at h
  · rename_i m1 sus1 h1
    split at h
    · cases h
    · cases h; exact parseSplitsGo_spec us m m' sus hm h1
  · cases h
  · cases h

/-- one row: the map grows at the end; exactly one entry is appended and its POS id names the row's POS -/
theorem readRow_spec (r r' : Reader) (row : Row) (hm : WF r.pos) (h : readRow r row = .ok r') :
    ∃ ext e, r'.pos = r.pos ++ ext ∧ WF r'.pos ∧ r'.startPos = r.startPos ∧
      r'.entries = r.entries ++ [e] ∧ (keys r'.pos)[e.pos]? = some row.pos := by
  unfold readRow at h
  split at h
  · cases h
  · cases h
  · rename_i m1 sa h1
    split at h
    · cases h
    · cases h
    · rename_i m2 sb h2
      split at h
      · cases h
      · cases h
      · rename_i ws h3
        split at h
        · cases h
        · cases h
        · rename_i m3 pid h4
          split at h
          · cases h
          · cases h
            obtain ⟨e1, he1, hw1⟩ := parseSplits_spec r.pos m1 row.a sa hm h1
            obtain ⟨e2, he2, hw2⟩ := parseSplits_spec m1 m2 row.b sb hw1 h2
            obtain ⟨e3, he3, hw3, hid⟩ := posOf_spec m2 m3 row.pos pid hw2 h4
            exact ⟨e1 ++ e2 ++ e3, _, by simp only [he3, he2, he1, List.append_assoc], hw3, rfl, rfl, hid⟩

theorem readRows_spec : ∀ (rows : List Row) (r r' : Reader), WF r.pos → readRows r rows = .ok r' →
    ∃ ext es, r'.pos = r.pos ++ ext ∧ WF r'.pos ∧ r'.startPos = r.startPos ∧
      r'.entries = r.entries ++ es ∧ es.length = rows.length ∧
      ∀ (i : Nat) (row : Row), rows[i]? = some row → ∃ e, es[i]? = some e ∧ (keys r'.pos)[e.pos]? = some row.pos
  | [], r, r', hm, h => by
    simp [readRows] at h; subst h
    exact ⟨[], [], by simp, hm, rfl, by simp, rfl, fun i row hi => by simp at hi⟩
  | row :: rows, r, r', hm, h => by
    unfold readRows at h
    split at h
    · rename_i r1 h1
      obtain ⟨e1, e, hp1, hw1, hs1, hent1, hid1⟩ := readRow_spec r r1 row hm h1
      obtain ⟨e2, es, hp2, hw2, hs2, hent2, hlen2, hall2⟩ := readRows_spec rows r1 r' hw1 h
      refine ⟨e1 ++ e2, e :: es, by rw [hp2, hp1, List.append_assoc], hw2, by rw [hs2, hs1],
        by rw [hent2, hent1, List.append_assoc]; rfl, by simp [hlen2], ?_⟩
      intro i rw' hi
      match i with
      | 0 =>
        simp at hi; subst hi
        refine ⟨e, by simp, ?_⟩
        rw [hp2]; exact keys_ext r1.pos e2 _ _ hid1
      | i + 1 =>
        simp at hi
        obtain ⟨e', he', hk'⟩ := hall2 i rw' hi
        exact ⟨e', by simpa using he', hk'⟩
    · cases h
    · cases h

/-! ### `preload_pos` -/

theorem preloadGo_spec : ∀ (ps : List Pos) (m : PosMap) (i : Nat), WF m → m.length = i →
    (keys m ++ ps).Nodup → (keys m ++ ps).length ≤ 32768 →
    keys (preloadGo m i ps) = keys m ++ ps ∧ WF (preloadGo m i ps)
  | [], m, i, hm, _, _, _ => by simp [preloadGo, hm]
  | p :: ps, m, i, hm, hlen, hnd, hle => by
    unfold preloadGo
    have hnotin : p ∉ keys m := by
      intro hin
      have := (List.nodup_append.mp hnd).2.2 p hin p (by simp)
      exact this rfl
    have hi : asU16 i = i := by
      unfold asU16; simp only [List.length_append, List.length_cons, keys_length] at hle; omega
    rw [hi, imInsert_new p i m hnotin, ← hlen]
    have hlt : m.length < 32768 := by
      simp only [List.length_append, List.length_cons, keys_length] at hle; omega
    have hk : keys (m ++ [(p, m.length)]) = keys m ++ [p] := by simp [keys]
    have := preloadGo_spec ps (m ++ [(p, m.length)]) (m.length + 1) (WF_push m hm p hlt) (by simp)
      (by rw [hk, List.append_assoc]; exact hnd) (by rw [hk, List.append_assoc]; exact hle)
    rw [hk, List.append_assoc] at this
    exact this

theorem preloadPos_spec (g : List Pos) (hnd : g.Nodup) (hle : g.length ≤ 32768) :
    keys (preloadPos g).pos = g ∧ WF (preloadPos g).pos ∧ (preloadPos g).startPos = g.length ∧
    (preloadPos g).entries = [] := by
  have h := preloadGo_spec g [] 0 ⟨rfl, by simp⟩ rfl (by simpa [keys] using hnd) (by simpa [keys] using hle)
  simp only [keys, List.map_nil, List.nil_append] at h
  refine ⟨h.1, h.2, ?_, rfl⟩
  show (preloadGo [] 0 g).length = g.length
  rw [← keys_length, show keys (preloadGo [] 0 g) = g from h.1]

/-! ### `write_pos_table` -/

theorem filter_zipIdx (S : Nat) : ∀ (l : List Pos) (n : Nat),
    ((l.zipIdx n).filter (fun kv => decide (kv.2 ≥ S))).map (·.1) = l.drop (S - n)
  | [], n => by simp
  | a :: l, n => by
    rw [List.zipIdx_cons, List.filter_cons]
    by_cases h : n ≥ S
    · simp only [h, decide_true, if_true, List.map_cons]
      rw [filter_zipIdx S l (n + 1)]
      have e1 : S - (n + 1) = 0 := by omega
      have e2 : S - n = 0 := by omega
      simp [e1, e2]
    · simp only [h, decide_false, Bool.false_eq_true, if_false]
      rw [filter_zipIdx S l (n + 1)]
      have e : S - n = (S - (n + 1)) + 1 := by omega
      rw [e, List.drop_succ_cons]

theorem writePosTable_spec (r : Reader) (hm : WF r.pos) (hs : r.startPos ≤ r.pos.length) :
    writePosTable r = (r.pos.length - r.startPos, (keys r.pos).drop r.startPos) := by
  unfold writePosTable
  have h1 : asU16 (r.pos.length - r.startPos) = r.pos.length - r.startPos := by
    unfold asU16; have := hm.2; omega
  rw [h1]
  congr 1
  have := filter_zipIdx r.startPos (keys r.pos) 0
  rw [← hm.1] at this
  simpa using this

/-! ### resolution keeps the POS ids -/

theorem resolveEntries_pos : ∀ (es es' : List Entry) (own sys : List IdxLine),
    resolveEntries own sys es = .ok es' → es'.map (·.pos) = es.map (·.pos)
  | [], es', own, sys, h => by simp [resolveEntries] at h; subst h; rfl
  | e :: es, es', own, sys, h => by
    unfold resolveEntries at h
    split at h
    · cases h
    · cases h
    · split at h
      · cases h
      · cases h
      · split at h
        · cases h
        · cases h
        · rename_i rest hrest
          cases h
          simp [resolveEntries_pos es rest own sys hrest]

/-- The user builder's POS numbering: compiled against a dictionary whose POS list is `g` (no duplicates), the
written own-POS table `own` is readable, and the POS id stored for row `i` names the row's declared POS in
`g ++ own` — system POS keep their ids, the dictionary's own POS come after them in the order of the table. -/
theorem build_pos_numbering (g : List Pos) (sw : List SysWord) (rows : List Row) (b : Built)
    (hnd : g.Nodup) (hle : g.length ≤ 32768) (h : build (some (g, sw)) rows = .ok b) :
    ∃ own, readPosTable b = .ok own ∧ b.words.length = rows.length ∧
      ∀ (i : Nat) (row : Row), rows[i]? = some row →
        ∃ wd, b.words[i]? = some wd ∧ (g ++ own)[wd.posId]? = some row.pos := by
  unfold build at h
  simp only at h
  obtain ⟨hk0, hw0, hs0, he0⟩ := preloadPos_spec g hnd hle
  split at h
  · cases h
  · cases h
  · rename_i r hr
    obtain ⟨ext, es, hp, hw, hs, hent, hlen, hall⟩ := readRows_spec rows (preloadPos g) r hw0 hr
    rw [he0, List.nil_append] at hent
    split at h
    · cases h
    · cases h
    · rename_i es' hres
      split at h
      · cases h
      · cases h
      · cases h
        have hpos : es'.map (·.pos) = r.entries.map (·.pos) := by
          split at hres
          · exact resolveEntries_pos _ _ _ _ hres
          · cases hres; rfl
        have hkeys : keys r.pos = g ++ keys ext := by rw [hp]; simp only [keys, List.map_append] at *; rw [hk0]
        have hstart : r.startPos = g.length := by rw [hs, hs0]
        have hsle : r.startPos ≤ r.pos.length := by
          rw [hstart, ← keys_length r.pos, hkeys]; simp
        have hwt := writePosTable_spec { r with entries := es' } hw hsle
        simp only at hwt
        rw [hwt]
        have hdrop : (keys r.pos).drop r.startPos = keys ext := by rw [hkeys, hstart]; simp
        refine ⟨keys ext, ?_, ?_, ?_⟩
        · unfold readPosTable
          simp only [hdrop]
          rw [if_pos]
          rw [keys_length ext, hstart, ← keys_length r.pos, hkeys]; simp [keys_length]
        · simp only [List.length_map]
          have : es'.length = r.entries.length := by
            have := congrArg List.length hpos; simpa using this
          rw [this, hent, hlen]
        · intro i row hi
          obtain ⟨e, he, hk⟩ := hall i row hi
          rw [← hent] at he
          have hposi : (es'.map (·.pos))[i]? = some e.pos := by rw [hpos]; simp [he]
          simp only [List.getElem?_map] at hposi
          cases hes : es'[i]? with
          | none => rw [hes] at hposi; cases hposi
          | some e' =>
            rw [hes] at hposi
            simp at hposi
            refine ⟨entryWord e', by simp [hes], ?_⟩
            simp only [entryWord, hposi, hdrop]
            rw [← hkeys]; exact hk

end Layers
