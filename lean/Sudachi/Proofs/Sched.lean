import Sudachi.Model.Sched
/-! # Proofs about the scheduler model (C18) -/
namespace Sched

variable {D S Op Out : Type}

theorem outputsOf_cons_self (i : Nat) (o : Out) (tr : List (Nat × Out)) :
    outputsOf i ((i, o) :: tr) = o :: outputsOf i tr := by
  simp [outputsOf]

theorem outputsOf_cons_ne {i j : Nat} (h : j ≠ i) (o : Out) (tr : List (Nat × Out)) :
    outputsOf i ((j, o) :: tr) = outputsOf i tr := by
  simp [outputsOf, h]

/-- the invariant of every schedule: what thread `i` has output so far, followed by what it would
output performing its remaining operations alone, is what it outputs performing all of them alone;
and the dictionary is the one it started with -/
theorem run_invariant (step : D → S → Op → D × S × Out) (hframe : ∀ d s op, (step d s op).1 = d) :
    ∀ (sched : List Nat) (sys : Sys D S Op) (i : Nat) (s : S) (ops : List Op),
      sys.states[i]? = some s → sys.pending[i]? = some ops →
      ∃ s' ops', (run step sys sched).1.states[i]? = some s' ∧ (run step sys sched).1.pending[i]? = some ops' ∧
        outputsOf i (run step sys sched).2 ++ alone step sys.dict s' ops' = alone step sys.dict s ops ∧
        (run step sys sched).1.dict = sys.dict := by
  intro sched
  induction sched with
  | nil => intro sys i s ops hs hp; exact ⟨s, ops, hs, hp, by simp [run, outputsOf], rfl⟩
  | cons j rest ih =>
    intro sys i s ops hs hp
    simp only [run]
    -- case analysis on what thread j does
    cases hsj : sys.states[j]? with
    | none =>
      have hst : stepThread step sys j = (sys, none) := by simp [stepThread, hsj]
      rw [hst]
      obtain ⟨s', ops', h1, h2, h3, h4⟩ := ih sys i s ops hs hp
      exact ⟨s', ops', h1, h2, h3, h4⟩
    | some sj =>
      cases hpj : sys.pending[j]? with
      | none =>
        have hst : stepThread step sys j = (sys, none) := by simp [stepThread, hsj, hpj]
        rw [hst]
        obtain ⟨s', ops', h1, h2, h3, h4⟩ := ih sys i s ops hs hp
        exact ⟨s', ops', h1, h2, h3, h4⟩
      | some opsj =>
        cases opsj with
        | nil =>
          have hst : stepThread step sys j = (sys, none) := by simp [stepThread, hsj, hpj]
          rw [hst]
          obtain ⟨s', ops', h1, h2, h3, h4⟩ := ih sys i s ops hs hp
          exact ⟨s', ops', h1, h2, h3, h4⟩
        | cons op restj =>
          have hst : stepThread step sys j =
              ({ dict := (step sys.dict sj op).1, states := sys.states.set j (step sys.dict sj op).2.1,
                 pending := sys.pending.set j restj }, some (j, (step sys.dict sj op).2.2)) := by
            simp [stepThread, hsj, hpj]
          rw [hst]
          simp only
          have hd : (step sys.dict sj op).1 = sys.dict := hframe _ _ _
          simp only [hd]
          by_cases hji : j = i
          · subst hji
            have e1 : sj = s := by rw [hs] at hsj; exact (Option.some.inj hsj).symm
            have e2 : op :: restj = ops := by rw [hp] at hpj; exact (Option.some.inj hpj).symm
            subst e1; subst e2
            have hlen1 : j < sys.states.length := by
              rcases List.getElem?_eq_some_iff.mp hs with ⟨h, _⟩; exact h
            have hlen2 : j < sys.pending.length := by
              rcases List.getElem?_eq_some_iff.mp hp with ⟨h, _⟩; exact h
            obtain ⟨s', ops', h1, h2, h3, h4⟩ := ih
              { dict := sys.dict, states := sys.states.set j (step sys.dict sj op).2.1,
                pending := sys.pending.set j restj } j (step sys.dict sj op).2.1 restj
              (by simp [hlen1]) (by simp [hlen2])
            refine ⟨s', ops', h1, h2, ?_, h4⟩
            rw [outputsOf_cons_self, List.cons_append, h3]
            simp [alone]
          · obtain ⟨s', ops', h1, h2, h3, h4⟩ := ih
              { dict := sys.dict, states := sys.states.set j (step sys.dict sj op).2.1,
                pending := sys.pending.set j restj } i s ops
              (by simp [List.getElem?_set_ne hji, hs]) (by simp [List.getElem?_set_ne hji, hp])
            refine ⟨s', ops', h1, h2, ?_, h4⟩
            rw [outputsOf_cons_ne hji]
            exact h3


/-! ## monotone shared state instead of the frame hypothesis

`run` lets a step return a new shared component.  The frame hypothesis (`step` returns the one it got) is the
special case `I := (· = d)` of the following: the shared component stays inside a set `I` (`hI`) and, inside `I`,
neither the new private state nor the output of a step depends on it (`hins`). -/

variable {G : Type}

theorem aloneG_insensitive (step : G → S → Op → G × S × Out) (I : G → Prop)
    (hI : ∀ g s op, I g → I (step g s op).1)
    (hins : ∀ g g' s op, I g → I g' → (step g s op).2 = (step g' s op).2) :
    ∀ (ops : List Op) (s : S) (g g' : G), I g → I g' → aloneG step g s ops = aloneG step g' s ops := by
  intro ops
  induction ops with
  | nil => intro s g g' _ _; simp [aloneG]
  | cons op rest ih =>
    intro s g g' hg hg'
    have h := hins g g' s op hg hg'
    simp only [aloneG]
    rw [h, ih (step g' s op).2.1 (step g s op).1 (step g' s op).1 (hI _ _ _ hg) (hI _ _ _ hg')]

/-- under the frame hypothesis `aloneG` is `alone` -/
theorem aloneG_eq_alone (step : D → S → Op → D × S × Out) (hframe : ∀ d s op, (step d s op).1 = d) :
    ∀ (ops : List Op) (d : D) (s : S), aloneG step d s ops = alone step d s ops := by
  intro ops
  induction ops with
  | nil => intro d s; simp [aloneG, alone]
  | cons op rest ih => intro d s; simp only [aloneG, alone]; rw [hframe, ih]

theorem run_invariant_mono (step : G → S → Op → G × S × Out) (I : G → Prop)
    (hI : ∀ g s op, I g → I (step g s op).1)
    (hins : ∀ g g' s op, I g → I g' → (step g s op).2 = (step g' s op).2) (g0 : G) (hg0 : I g0) :
    ∀ (sched : List Nat) (sys : Sys G S Op) (i : Nat) (s : S) (ops : List Op),
      I sys.dict → sys.states[i]? = some s → sys.pending[i]? = some ops →
      ∃ s' ops', (run step sys sched).1.states[i]? = some s' ∧ (run step sys sched).1.pending[i]? = some ops' ∧
        outputsOf i (run step sys sched).2 ++ aloneG step g0 s' ops' = aloneG step g0 s ops ∧
        I (run step sys sched).1.dict := by
  intro sched
  induction sched with
  | nil => intro sys i s ops hd hs hp; exact ⟨s, ops, hs, hp, by simp [run, outputsOf], hd⟩
  | cons j rest ih =>
    intro sys i s ops hd hs hp
    simp only [run]
    cases hsj : sys.states[j]? with
    | none =>
      have hst : stepThread step sys j = (sys, none) := by simp [stepThread, hsj]
      rw [hst]
      exact ih sys i s ops hd hs hp
    | some sj =>
      cases hpj : sys.pending[j]? with
      | none =>
        have hst : stepThread step sys j = (sys, none) := by simp [stepThread, hsj, hpj]
        rw [hst]
        exact ih sys i s ops hd hs hp
      | some opsj =>
        cases opsj with
        | nil =>
          have hst : stepThread step sys j = (sys, none) := by simp [stepThread, hsj, hpj]
          rw [hst]
          exact ih sys i s ops hd hs hp
        | cons op restj =>
          have hst : stepThread step sys j =
              ({ dict := (step sys.dict sj op).1, states := sys.states.set j (step sys.dict sj op).2.1,
                 pending := sys.pending.set j restj }, some (j, (step sys.dict sj op).2.2)) := by
            simp [stepThread, hsj, hpj]
          rw [hst]
          simp only
          have hd' : I (step sys.dict sj op).1 := hI _ _ _ hd
          by_cases hji : j = i
          · subst hji
            have e1 : sj = s := by rw [hs] at hsj; exact (Option.some.inj hsj).symm
            have e2 : op :: restj = ops := by rw [hp] at hpj; exact (Option.some.inj hpj).symm
            subst e1; subst e2
            have hlen1 : j < sys.states.length := by
              rcases List.getElem?_eq_some_iff.mp hs with ⟨h, _⟩; exact h
            have hlen2 : j < sys.pending.length := by
              rcases List.getElem?_eq_some_iff.mp hp with ⟨h, _⟩; exact h
            obtain ⟨s', ops', h1, h2, h3, h4⟩ := ih
              { dict := (step sys.dict sj op).1, states := sys.states.set j (step sys.dict sj op).2.1,
                pending := sys.pending.set j restj } j (step sys.dict sj op).2.1 restj hd'
              (by simp [hlen1]) (by simp [hlen2])
            refine ⟨s', ops', h1, h2, ?_, h4⟩
            rw [outputsOf_cons_self, List.cons_append, h3]
            have h := hins sys.dict g0 sj op hd hg0
            simp only [aloneG]
            rw [h, aloneG_insensitive step I hI hins restj (step g0 sj op).2.1 g0 (step g0 sj op).1 hg0 (hI _ _ _ hg0)]
          · obtain ⟨s', ops', h1, h2, h3, h4⟩ := ih
              { dict := (step sys.dict sj op).1, states := sys.states.set j (step sys.dict sj op).2.1,
                pending := sys.pending.set j restj } i s ops hd'
              (by simp [List.getElem?_set_ne hji, hs]) (by simp [List.getElem?_set_ne hji, hp])
            refine ⟨s', ops', h1, h2, ?_, h4⟩
            rw [outputsOf_cons_ne hji]
            exact h3

/-! ## once-cells -/

variable {V R : Type}

/-- every initialised cell holds what its initialiser gives -/
def Consistent (f : Nat → V) (cs : Cells V) : Prop := ∀ c v, cs c = some v → v = f c

theorem consistent_empty (f : Nat → V) : Consistent f Cells.empty := by
  intro c v h; simp [Cells.empty] at h

theorem consistent_set (f : Nat → V) (cs : Cells V) (c : Nat) (h : Consistent f cs) : Consistent f (cs.set c (f c)) := by
  intro x v hx
  unfold Cells.set at hx
  by_cases hxc : x = c
  · simp [hxc] at hx; rw [← hx, hxc]
  · simp [hxc] at hx; exact h x v hx

/-- on consistent cells a program returns its pure result, leaves the cells consistent, and the cells
afterwards are: what it asked for is initialised, everything else is as before -/
theorem exec_consistent (f : Nat → V) : ∀ (p : Prog V R) (cs : Cells V), Consistent f cs →
    (p.exec f cs).1 = p.pure f ∧ Consistent f (p.exec f cs).2 ∧
    ∀ x, (p.exec f cs).2 x = if x ∈ p.touched f then some (f x) else cs x := by
  intro p
  induction p with
  | ret r => intro cs h; exact ⟨rfl, h, by intro x; simp [Prog.exec, Prog.touched]⟩
  | getOrInit c k ih =>
    intro cs h
    cases hc : cs c with
    | some v =>
      have hv : v = f c := h c v hc
      subst hv
      obtain ⟨a1, a2, a3⟩ := ih (f c) cs h
      simp only [Prog.exec, hc, Prog.pure, Prog.touched]
      refine ⟨a1, a2, ?_⟩
      intro x
      rw [a3 x]
      by_cases hx : x = c
      · subst hx; simp [hc]
      · simp [hx]
    | none =>
      obtain ⟨a1, a2, a3⟩ := ih (f c) (cs.set c (f c)) (consistent_set f cs c h)
      simp only [Prog.exec, hc, Prog.pure, Prog.touched]
      refine ⟨a1, a2, ?_⟩
      intro x
      rw [a3 x]
      by_cases hx : x = c
      · subst hx; simp [Cells.set]
      · simp [hx, Cells.set]

variable (init : D → Nat → V) (stepP : D → S → Op → Prog V (S × Out)) (d : D)

theorem onceStep_preserves (cs : Cells V) (s : S) (op : Op) (h : Consistent (init d) cs) :
    Consistent (init d) (onceStep init stepP d cs s op).1 :=
  (exec_consistent (init d) (stepP d s op) cs h).2.1

theorem onceStep_insensitive (cs cs' : Cells V) (s : S) (op : Op) (h : Consistent (init d) cs)
    (h' : Consistent (init d) cs') : (onceStep init stepP d cs s op).2 = (onceStep init stepP d cs' s op).2 := by
  have a := (exec_consistent (init d) (stepP d s op) cs h).1
  have b := (exec_consistent (init d) (stepP d s op) cs' h').1
  simp only [onceStep]
  rw [a, b]

theorem onceStep_cells (cs : Cells V) (s : S) (op : Op) (h : Consistent (init d) cs) (x : Nat) :
    (onceStep init stepP d cs s op).1 x = if x ∈ (stepP d s op).touched (init d) then some (init d x) else cs x :=
  (exec_consistent (init d) (stepP d s op) cs h).2.2 x

theorem onceStep_state (cs : Cells V) (s : S) (op : Op) (h : Consistent (init d) cs) :
    (onceStep init stepP d cs s op).2.1 = ((stepP d s op).pure (init d)).1 := by
  have a := (exec_consistent (init d) (stepP d s op) cs h).1
  simp only [onceStep]; rw [a]

/-- "initialised, or some thread's remaining operations will ask for it": conserved by every step -/
def Due (sys : Sys (Cells V) S Op) (x : Nat) : Prop :=
  (sys.dict x).isSome ∨ ∃ (i : Nat) (s : S) (ops : List Op), sys.states[i]? = some s ∧ sys.pending[i]? = some ops ∧
    x ∈ touchedAlone init stepP d s ops

theorem stepThread_due (sys : Sys (Cells V) S Op) (j : Nat) (h : Consistent (init d) sys.dict) (x : Nat) :
    Consistent (init d) (stepThread (onceStep init stepP d) sys j).1.dict ∧
    (Due init stepP d (stepThread (onceStep init stepP d) sys j).1 x ↔ Due init stepP d sys x) := by
  cases hsj : sys.states[j]? with
  | none =>
    have hst : stepThread (onceStep init stepP d) sys j = (sys, none) := by simp [stepThread, hsj]
    rw [hst]; exact ⟨h, Iff.rfl⟩
  | some sj =>
    cases hpj : sys.pending[j]? with
    | none =>
      have hst : stepThread (onceStep init stepP d) sys j = (sys, none) := by simp [stepThread, hsj, hpj]
      rw [hst]; exact ⟨h, Iff.rfl⟩
    | some opsj =>
      cases opsj with
      | nil =>
        have hst : stepThread (onceStep init stepP d) sys j = (sys, none) := by simp [stepThread, hsj, hpj]
        rw [hst]; exact ⟨h, Iff.rfl⟩
      | cons op restj =>
        have hst : stepThread (onceStep init stepP d) sys j =
            ({ dict := (onceStep init stepP d sys.dict sj op).1,
               states := sys.states.set j (onceStep init stepP d sys.dict sj op).2.1,
               pending := sys.pending.set j restj }, some (j, (onceStep init stepP d sys.dict sj op).2.2)) := by
          simp [stepThread, hsj, hpj]
        rw [hst]
        refine ⟨onceStep_preserves init stepP d _ _ _ h, ?_⟩
        have hcell := onceStep_cells init stepP d sys.dict sj op h x
        have hstate := onceStep_state init stepP d sys.dict sj op h
        have hlen1 : j < sys.states.length := by
          rcases List.getElem?_eq_some_iff.mp hsj with ⟨h, _⟩; exact h
        have hlen2 : j < sys.pending.length := by
          rcases List.getElem?_eq_some_iff.mp hpj with ⟨h, _⟩; exact h
        unfold Due
        simp only
        rw [hcell, hstate]
        constructor
        · rintro (h1 | ⟨i, s, ops, hs, hp, hx⟩)
          · by_cases hm : x ∈ (stepP d sj op).touched (init d)
            · exact Or.inr ⟨j, sj, op :: restj, hsj, hpj, by simp [touchedAlone, hm]⟩
            · simp [hm] at h1; exact Or.inl h1
          · by_cases hij : i = j
            · subst hij
              simp [hlen1] at hs
              simp [hlen2] at hp
              subst hs; subst hp
              exact Or.inr ⟨i, sj, op :: restj, hsj, hpj, by simp [touchedAlone, hx]⟩
            · have hji : j ≠ i := fun e => hij e.symm
              rw [List.getElem?_set_ne hji] at hs hp
              exact Or.inr ⟨i, s, ops, hs, hp, hx⟩
        · rintro (h1 | ⟨i, s, ops, hs, hp, hx⟩)
          · left
            by_cases hm : x ∈ (stepP d sj op).touched (init d)
            · simp [hm]
            · simp [hm, h1]
          · by_cases hij : i = j
            · subst hij
              rw [hsj] at hs; rw [hpj] at hp
              have e1 := Option.some.inj hs
              have e2 := Option.some.inj hp
              subst e1; subst e2
              simp only [touchedAlone, List.mem_append] at hx
              rcases hx with hx | hx
              · left; simp [hx]
              · right
                exact ⟨i, _, restj, by simp [hlen1], by simp [hlen2], hx⟩
            · have hji : j ≠ i := fun e => hij e.symm
              right
              exact ⟨i, s, ops, by rw [List.getElem?_set_ne hji]; exact hs, by rw [List.getElem?_set_ne hji]; exact hp, hx⟩

theorem run_due : ∀ (sched : List Nat) (sys : Sys (Cells V) S Op), Consistent (init d) sys.dict → ∀ x,
    Consistent (init d) (run (onceStep init stepP d) sys sched).1.dict ∧
    (Due init stepP d (run (onceStep init stepP d) sys sched).1 x ↔ Due init stepP d sys x) := by
  intro sched
  induction sched with
  | nil => intro sys h x; exact ⟨h, Iff.rfl⟩
  | cons j rest ih =>
    intro sys h x
    simp only [run]
    obtain ⟨c1, d1⟩ := stepThread_due init stepP d sys j h x
    obtain ⟨c2, d2⟩ := ih (stepThread (onceStep init stepP d) sys j).1 c1 x
    exact ⟨c2, d2.trans d1⟩

/-- a cell that is initialised stays as it is -/
theorem run_cells_monotone : ∀ (sched : List Nat) (sys : Sys (Cells V) S Op), Consistent (init d) sys.dict →
    ∀ x v, sys.dict x = some v → (run (onceStep init stepP d) sys sched).1.dict x = some v := by
  intro sched
  induction sched with
  | nil => intro sys _ x v hx; exact hx
  | cons j rest ih =>
    intro sys h x v hx
    simp only [run]
    refine ih _ (stepThread_due init stepP d sys j h x).1 x v ?_
    unfold stepThread
    split
    · rename_i sj op restj hs hp
      simp only
      rw [onceStep_cells init stepP d sys.dict sj op h x]
      by_cases hm : x ∈ (stepP d sj op).touched (init d)
      · simp [hm]; exact (h x v hx).symm
      · simp [hm, hx]
    · exact hx

end Sched
