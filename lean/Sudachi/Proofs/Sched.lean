import Sudachi.Model.Sched
/-! # Proofs about the scheduler model (C18) -/
namespace Sched

variable {D S Op Out : Type}

theorem outputsOf_cons_self (i : Nat) (o : Out) (tr : List (Nat × Out)) :
    outputsOf i ((i, o) :: tr) = o :: outputsOf i tr := by
  simp [outputsOf]

theorem outputsOf_cons_ne {i j : Nat} (h : j ≠ i) (o : Out) (tr : List (Nat × Out)) :
    outputsOf i ((j, o) :: tr) = outputsOf i tr := by
  simp [outputsOf, h]

/-- the invariant of every schedule: what thread `i` has output so far, followed by what it would
output performing its remaining operations alone, is what it outputs performing all of them alone;
and the dictionary is the one it started with -/
theorem run_invariant (step : D → S → Op → D × S × Out) (hframe : ∀ d s op, (step d s op).1 = d) :
    ∀ (sched : List Nat) (sys : Sys D S Op) (i : Nat) (s : S) (ops : List Op),
      sys.states[i]? = some s → sys.pending[i]? = some ops →
      ∃ s' ops', (run step sys sched).1.states[i]? = some s' ∧ (run step sys sched).1.pending[i]? = some ops' ∧
        outputsOf i (run step sys sched).2 ++ alone step sys.dict s' ops' = alone step sys.dict s ops ∧
        (run step sys sched).1.dict = sys.dict := by
  intro sched
  induction sched with
  | nil => intro sys i s ops hs hp; exact ⟨s, ops, hs, hp, by simp [run, outputsOf], rfl⟩
  | cons j rest ih =>
    intro sys i s ops hs hp
    simp only [run]
    -- case analysis on what thread j does
    cases hsj : sys.states[j]? with
    | none =>
      have hst : stepThread step sys j = (sys, none) := by simp [stepThread, hsj]
      rw [hst]
      obtain ⟨s', ops', h1, h2, h3, h4⟩ := ih sys i s ops hs hp
      exact ⟨s', ops', h1, h2, h3, h4⟩
    | some sj =>
      cases hpj : sys.pending[j]? with
      | none =>
        have hst : stepThread step sys j = (sys, none) := by simp [stepThread, hsj, hpj]
        rw [hst]
        obtain ⟨s', ops', h1, h2, h3, h4⟩ := ih sys i s ops hs hp
        exact ⟨s', ops', h1, h2, h3, h4⟩
      | some opsj =>
        cases opsj with
        | nil =>
          have hst : stepThread step sys j = (sys, none) := by simp [stepThread, hsj, hpj]
          rw [hst]
          obtain ⟨s', ops', h1, h2, h3, h4⟩ := ih sys i s ops hs hp
          exact ⟨s', ops', h1, h2, h3, h4⟩
        | cons op restj =>
          have hst : stepThread step sys j =
              ({ dict := (step sys.dict sj op).1, states := sys.states.set j (step sys.dict sj op).2.1,
                 pending := sys.pending.set j restj }, some (j, (step sys.dict sj op).2.2)) := by
            simp [stepThread, hsj, hpj]
          rw [hst]
          simp only
          have hd : (step sys.dict sj op).1 = sys.dict := hframe _ _ _
          simp only [hd]
          by_cases hji : j = i
          · subst hji
            have e1 : sj = s := by rw [hs] at hsj; exact (Option.some.inj hsj).symm
            have e2 : op :: restj = ops := by rw [hp] at hpj; exact (Option.some.inj hpj).symm
            subst e1; subst e2
            have hlen1 : j < sys.states.length := by
              rcases List.getElem?_eq_some_iff.mp hs with ⟨h, _⟩; exact h
            have hlen2 : j < sys.pending.length := by
              rcases List.getElem?_eq_some_iff.mp hp with ⟨h, _⟩; exact h
            obtain ⟨s', ops', h1, h2, h3, h4⟩ := ih
              { dict := sys.dict, states := sys.states.set j (step sys.dict sj op).2.1,
                pending := sys.pending.set j restj } j (step sys.dict sj op).2.1 restj
              (by simp [List.getElem?_set, hlen1]) (by simp [List.getElem?_set, hlen2])
            refine ⟨s', ops', h1, h2, ?_, h4⟩
            rw [outputsOf_cons_self, List.cons_append, h3]
            simp [alone]
          · obtain ⟨s', ops', h1, h2, h3, h4⟩ := ih
              { dict := sys.dict, states := sys.states.set j (step sys.dict sj op).2.1,
                pending := sys.pending.set j restj } i s ops
              (by simp [List.getElem?_set_ne hji, hs]) (by simp [List.getElem?_set_ne hji, hp])
            refine ⟨s', ops', h1, h2, ?_, h4⟩
            rw [outputsOf_cons_ne hji]
            exact h3

end Sched
