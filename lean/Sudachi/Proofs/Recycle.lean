import Sudachi.Model.Recycle
import Sudachi.Model.RecycleIO
/-!
# Lemmas about the recycling discipline (C10)

* rows: `resetVec`, `pushRow`, `rowAt` versus `take`;
* `Lattice.vis`: the part of the lattice below `size` (all a reader may touch); the position loop
  commutes with it;
* `Input`: two buffers that agree except for the two scratch fields stay so through
  `start_build` / plugins / `build`, with the same outcome, and agree on `view` after `build`;
* `TokEq`: the relation "same observable working state"; every phase of `do_tokenize` respects it.
-/
namespace Recycle
variable {E : Type}

/-! ## rows -/

theorem map_nil_eq_replicate (rows : List (List E)) :
    rows.map (fun _ => ([] : List E)) = List.replicate rows.length [] := by
  induction rows with
  | nil => rfl
  | cons r rs ih => simp [List.replicate_succ, ih]

theorem resetVec_all_nil (rows : List (List E)) (n : Nat) : ∀ r ∈ resetVec rows n, r = [] := by
  intro r hr
  unfold resetVec at hr
  simp only [map_nil_eq_replicate, List.length_replicate] at hr
  split at hr
  · rw [List.mem_append] at hr
    rcases hr with h | h <;> exact (List.mem_replicate.mp h).2
  · exact (List.mem_replicate.mp hr).2

theorem resetVec_length (rows : List (List E)) (n : Nat) : (resetVec rows n).length = max rows.length n := by
  unfold resetVec
  simp only [map_nil_eq_replicate, List.length_replicate]
  split <;> simp <;> omega

theorem resetVec_take (rows : List (List E)) (n : Nat) : (resetVec rows n).take n = List.replicate n [] := by
  unfold resetVec
  simp only [map_nil_eq_replicate, List.length_replicate]
  split
  · rename_i h
    rw [List.replicate_append_replicate]
    have : rows.length + (n - rows.length) = n := by omega
    rw [this, List.take_replicate]; simp
  · rename_i h
    rw [List.take_replicate]
    congr 1; omega

theorem pushRow_length (rows : List (List E)) (e : Nat) (x : E) : (pushRow rows e x).length = rows.length := by
  induction rows generalizing e with
  | nil => rfl
  | cons r rs ih => cases e <;> simp [pushRow, ih]

theorem pushRow_take (rows : List (List E)) (e : Nat) (x : E) (n : Nat) :
    (pushRow rows e x).take n = pushRow (rows.take n) e x := by
  induction rows generalizing e n with
  | nil => simp [pushRow]
  | cons r rs ih =>
    cases n with
    | zero => simp [pushRow]
    | succ n =>
      cases e with
      | zero => simp [pushRow]
      | succ e => simp [pushRow, ih]

theorem rowAt_take (rows : List (List E)) (k n : Nat) (h : k < n) : rowAt (rows.take n) k = rowAt rows k := by
  induction rows generalizing k n with
  | nil => simp [rowAt]
  | cons r rs ih =>
    cases n with
    | zero => omega
    | succ n =>
      cases k with
      | zero => simp [rowAt]
      | succ k => simp only [List.take_succ_cons, rowAt]; exact ih k n (by omega)

/-- every row that `pushRow` does not address is unchanged -/
theorem rowAt_pushRow_ne (rows : List (List E)) (e k : Nat) (x : E) (h : k ≠ e) :
    rowAt (pushRow rows e x) k = rowAt rows k := by
  induction rows generalizing e k with
  | nil => simp [pushRow]
  | cons r rs ih =>
    cases e with
    | zero => cases k with
      | zero => omega
      | succ k => simp [pushRow, rowAt]
    | succ e => cases k with
      | zero => simp [pushRow, rowAt]
      | succ k => simp only [pushRow, rowAt]; exact ih e k (by omega)

theorem rowAt_replicate_nil (n k : Nat) : rowAt (List.replicate n ([] : List E)) k = [] := by
  induction n generalizing k with
  | zero => simp [rowAt]
  | succ n ih => cases k <;> simp [List.replicate_succ, rowAt, ih]

/-- a row of a vector whose rows are all empty is empty -/
theorem rowAt_of_all_nil (rows : List (List E)) (h : ∀ r ∈ rows, r = []) (k : Nat) : rowAt rows k = [] := by
  induction rows generalizing k with
  | nil => simp [rowAt]
  | cons r rs ih =>
    cases k with
    | zero => simpa [rowAt] using h r (by simp)
    | succ k => simp only [rowAt]; exact ih (fun r hr => h r (by simp [hr])) k

/-! ## the visible part of the lattice -/

/-- rows below `size`: everything `has_previous_node`, `connect_node`, `connect_eos`, `fill_top_path`
and `node` may read -/
def Lattice.vis (l : Lattice E) : Lattice E :=
  { l with ends := l.ends.take l.size, endsFull := l.endsFull.take l.size, indices := l.indices.take l.size }

@[simp] theorem Lattice.vis_size (l : Lattice E) : l.vis.size = l.size := rfl
@[simp] theorem Lattice.vis_eos (l : Lattice E) : l.vis.eos = l.eos := rfl

theorem Lattice.vis_vis (l : Lattice E) : l.vis.vis = l.vis := by
  simp [Lattice.vis, List.take_take]

theorem Lattice.insert_size (P : Payload E) (l : Lattice E) (b : Nat) (c : Nat × E) :
    (Lattice.insert P l b c).size = l.size := rfl

theorem Lattice.insert_vis (P : Payload E) (l : Lattice E) (b : Nat) (c : Nat × E) (hb : b < l.size) :
    (Lattice.insert P l b c).vis = Lattice.insert P l.vis b c := by
  simp [Lattice.insert, Lattice.vis, pushRow_take, rowAt_take _ _ _ hb]

theorem foldl_insert_size (P : Payload E) (b : Nat) (cs : List (Nat × E)) (l : Lattice E) :
    (cs.foldl (fun l c => Lattice.insert P l b c) l).size = l.size := by
  induction cs generalizing l with
  | nil => rfl
  | cons c cs ih => simp only [List.foldl_cons]; rw [ih]; rfl

theorem foldl_insert_vis (P : Payload E) (b : Nat) (cs : List (Nat × E)) (l : Lattice E) (hb : b < l.size) :
    (cs.foldl (fun l c => Lattice.insert P l b c) l).vis = cs.foldl (fun l c => Lattice.insert P l b c) l.vis := by
  induction cs generalizing l with
  | nil => rfl
  | cons c cs ih =>
    simp only [List.foldl_cons]
    rw [ih _ (by rw [Lattice.insert_size]; exact hb), Lattice.insert_vis _ _ _ _ hb]

def visSt (r : (List E × Lattice E) × Outcome) : (List E × Lattice E) × Outcome := ((r.1.1, r.1.2.vis), r.2)

theorem buildStep_size (P : Payload E) (inp : Input E) (st : List E × Lattice E) (off : Nat) :
    (buildStep P inp st off).1.2.size = st.2.size := by
  unfold buildStep
  split
  · rfl
  · dsimp only
    split <;> simp [foldl_insert_size]

theorem buildStep_vis (P : Payload E) (inp : Input E) (oov : List E) (l : Lattice E) (off : Nat) (h : off < l.size) :
    buildStep P inp (oov, l.vis) off = visSt (buildStep P inp (oov, l) off) := by
  unfold buildStep visSt
  have hp : l.vis.hasPrev off = l.hasPrev off := by
    simp [Lattice.hasPrev, Lattice.vis, rowAt_take _ _ _ h]
  simp only [hp]
  split
  · simp [Lattice.vis_vis]
  · split <;> simp [foldl_insert_vis _ _ _ _ h]

theorem buildLoop_size (P : Payload E) (inp : Input E) (offs : List Nat) (st : List E × Lattice E) :
    (buildLoop P inp offs st).1.2.size = st.2.size := by
  induction offs generalizing st with
  | nil => rfl
  | cons off rest ih =>
    unfold buildLoop
    have hs := buildStep_size P inp st off
    split
    · rename_i st' heq
      rw [ih]; rw [heq] at hs; exact hs
    · rename_i r hne
      exact hs

theorem buildLoop_vis (P : Payload E) (inp : Input E) (offs : List Nat) (oov : List E) (l : Lattice E)
    (h : ∀ off ∈ offs, off < l.size) :
    buildLoop P inp offs (oov, l.vis) = visSt (buildLoop P inp offs (oov, l)) := by
  induction offs generalizing oov l with
  | nil => simp [buildLoop, visSt]
  | cons off rest ih =>
    have hoff : off < l.size := h off (by simp)
    have hstep := buildStep_vis P inp oov l off hoff
    have hsz := buildStep_size P inp (oov, l) off
    unfold buildLoop
    rw [hstep]
    rcases hb : buildStep P inp (oov, l) off with ⟨⟨oov', l'⟩, o⟩
    rw [hb] at hsz
    cases o with
    | ok =>
      simp only [visSt]
      exact ih oov' l' (fun x hx => by
        have := h x (by simp [hx])
        simp at hsz; omega)
    | err e => simp [visSt]
    | panic => simp [visSt]

/-- after `Lattice::reset` the visible part does not depend on what the lattice held -/
theorem Lattice.reset_vis (P : Payload E) (l : Lattice E) (n : Nat) :
    (Lattice.reset P l n).vis =
      ⟨pushRow (List.replicate (n + 1) []) 0 P.bos, List.replicate (n + 1) [], List.replicate (n + 1) [], none, n + 1⟩ := by
  simp [Lattice.reset, Lattice.vis, pushRow_take, resetVec_take]

theorem Lattice.connectEos_vis (P : Payload E) (l : Lattice E) (h : 0 < l.size) :
    Lattice.connectEos P l.vis = (((Lattice.connectEos P l).1.vis), (Lattice.connectEos P l).2) := by
  unfold Lattice.connectEos
  have : rowAt l.vis.ends (l.vis.size - 1) = rowAt l.ends (l.size - 1) := by
    simp [Lattice.vis, rowAt_take _ _ _ (show l.size - 1 < l.size by omega)]
  rw [this]
  split <;> simp [Lattice.vis]

/-! ## input buffers that agree except for the scratch fields -/

theorem Input.editView_startBuild (P : Payload E) (i i' : Input E) (h : i.editView = i'.editView) :
    (Input.startBuild P i).2 = (Input.startBuild P i').2 ∧
    (Input.startBuild P i).1.editView = (Input.startBuild P i').1.editView := by
  have h' := h
  simp only [Input.editView, Input.mk.injEq] at h'
  obtain ⟨ho, hm, -, hmo, -, hc, hcb, hbc, hbow, hcat, hcont, hrep, hst⟩ := h'
  unfold Input.startBuild
  rw [ho, hst]
  split
  · exact ⟨rfl, h⟩
  · split
    · exact ⟨rfl, h⟩
    · refine ⟨rfl, ?_⟩
      simp only [Input.editView, Input.mk.injEq]
      simp_all

theorem Input.editView_commit (P : Payload E) (i i' : Input E) (h : i.editView = i'.editView) :
    (Input.commit P i).2 = (Input.commit P i').2 ∧
    (Input.commit P i).1.editView = (Input.commit P i').1.editView := by
  have h' := h
  simp only [Input.editView, Input.mk.injEq] at h'
  obtain ⟨ho, hm, -, hmo, -, hc, hcb, hbc, hbow, hcat, hcont, hrep, hst⟩ := h'
  unfold Input.commit
  rw [hrep]
  split
  · exact ⟨rfl, h⟩
  · simp only [hm, hmo, hrep]
    split
    · refine ⟨rfl, ?_⟩
      simp only [Input.editView, Input.mk.injEq]
      simp_all
    · refine ⟨rfl, ?_⟩
      simp only [Input.editView, Input.mk.injEq]
      simp_all

theorem Input.editView_rewrite (P : Payload E) (pl : Plugin E) (i i' : Input E) (h : i.editView = i'.editView) :
    (Input.rewrite P pl i).2 = (Input.rewrite P pl i').2 ∧
    (Input.rewrite P pl i).1.editView = (Input.rewrite P pl i').1.editView := by
  have hr : (Input.refreshChars P i).editView = (Input.refreshChars P i').editView := by
    have h' := h
    simp only [Input.editView, Input.mk.injEq] at h'
    obtain ⟨ho, hm, -, hmo, -, hc, hcb, hbc, hbow, hcat, hcont, hrep, hst⟩ := h'
    unfold Input.refreshChars
    rw [hc, hm]
    split
    · simp only [Input.editView, Input.mk.injEq]; simp_all
    · exact h
  have hw : ∀ j j' : Input E, j.editView = j'.editView →
      (Input.withEditor P pl j).2 = (Input.withEditor P pl j').2 ∧
      (Input.withEditor P pl j).1.editView = (Input.withEditor P pl j').1.editView := by
    intro j j' hj
    have h' := hj
    simp only [Input.editView, Input.mk.injEq] at h'
    obtain ⟨ho, hm, -, hmo, -, hc, hcb, hbc, hbow, hcat, hcont, hrep, hst⟩ := h'
    unfold Input.withEditor
    rw [hst, hj]
    split
    · exact ⟨rfl, hj⟩
    · split
      · apply Input.editView_commit
        simp only [Input.editView, Input.mk.injEq]; simp_all
      · refine ⟨rfl, ?_⟩
        simp only [Input.editView, Input.mk.injEq]; simp_all
  unfold Input.rewrite
  split
  · exact hw _ _ hr
  · exact hw _ _ h

theorem Input.editView_rewriteAll (P : Payload E) (pls : List (Plugin E)) (i i' : Input E)
    (h : i.editView = i'.editView) :
    (Input.rewriteAll P pls i).2 = (Input.rewriteAll P pls i').2 ∧
    (Input.rewriteAll P pls i).1.editView = (Input.rewriteAll P pls i').1.editView := by
  induction pls generalizing i i' with
  | nil => exact ⟨rfl, h⟩
  | cons pl rest ih =>
    have hs := Input.editView_rewrite P pl i i' h
    unfold Input.rewriteAll
    rcases h1 : Input.rewrite P pl i with ⟨j, o⟩
    rcases h2 : Input.rewrite P pl i' with ⟨j', o'⟩
    rw [h1, h2] at hs
    obtain ⟨ho, hj⟩ := hs
    simp only at ho hj
    subst ho
    cases o with
    | ok => exact ih j j' hj
    | err e => exact ⟨rfl, hj⟩
    | panic => exact ⟨rfl, hj⟩

/-- `build` erases the last difference: afterwards even `m2o_2` agrees -/
theorem Input.editView_build (P : Payload E) (i i' : Input E) (h : i.editView = i'.editView) :
    (Input.build P i).2 = (Input.build P i').2 ∧
    (Input.build P i).1.editView = (Input.build P i').1.editView ∧
    ((Input.build P i).2 = .ok → (Input.build P i).1.view = (Input.build P i').1.view) := by
  have h' := h
  simp only [Input.editView, Input.mk.injEq] at h'
  obtain ⟨ho, hm, -, hmo, -, hc, hcb, hbc, hbow, hcat, hcont, hrep, hst⟩ := h'
  unfold Input.build
  rw [hst]
  split
  · exact ⟨rfl, h, by intro hc; cases hc⟩
  · refine ⟨rfl, ?_, ?_⟩
    · simp only [Input.editView, Input.mk.injEq]; simp_all
    · intro _
      simp only [Input.view, Input.mk.injEq]; simp_all

theorem Input.editView_prepare (P : Payload E) (i i' : Input E) (h : i.editView = i'.editView) :
    (Input.prepare P i).2 = (Input.prepare P i').2 ∧
    (Input.prepare P i).1.editView = (Input.prepare P i').1.editView ∧
    ((Input.prepare P i).2 = .ok → (Input.prepare P i).1.view = (Input.prepare P i').1.view) := by
  have hs := Input.editView_startBuild P i i' h
  unfold Input.prepare
  rcases h1 : Input.startBuild P i with ⟨j, o⟩
  rcases h2 : Input.startBuild P i' with ⟨j', o'⟩
  rw [h1, h2] at hs
  obtain ⟨ho, hj⟩ := hs
  simp only at ho hj
  subst ho
  cases o with
  | err e => exact ⟨rfl, hj, by intro hc; cases hc⟩
  | panic => exact ⟨rfl, hj, by intro hc; cases hc⟩
  | ok =>
    have hr := Input.editView_rewriteAll P P.plugins j j' hj
    simp only
    rcases h3 : Input.rewriteAll P P.plugins j with ⟨k, o⟩
    rcases h4 : Input.rewriteAll P P.plugins j' with ⟨k', o'⟩
    rw [h3, h4] at hr
    obtain ⟨ho, hk⟩ := hr
    simp only at ho hk
    subst ho
    cases o with
    | err e => exact ⟨rfl, hk, by intro hc; cases hc⟩
    | panic => exact ⟨rfl, hk, by intro hc; cases hc⟩
    | ok => exact Input.editView_build P k k' hk

/-! ## the tokenizer phases respect "same observable working state" -/

/-- same observable working state (scratch string, rows at or above `size` excluded) -/
structure TokEq (t t' : Tok E) : Prop where
  input : t.input.view = t'.input.view
  oov : t.oov = t'.oov
  lat : t.lattice.vis = t'.lattice.vis
  ids : t.topPathIds = t'.topPathIds
  path : t.topPath = t'.topPath
  subset : t.subset = t'.subset
  mode : t.mode = t'.mode

theorem buildStep_congr (P : Payload E) (inp inp' : Input E) (h : inp.view = inp'.view)
    (st : List E × Lattice E) (off : Nat) : buildStep P inp st off = buildStep P inp' st off := by
  unfold buildStep; rw [h]

theorem buildLoop_congr (P : Payload E) (inp inp' : Input E) (h : inp.view = inp'.view)
    (offs : List Nat) (st : List E × Lattice E) : buildLoop P inp offs st = buildLoop P inp' offs st := by
  induction offs generalizing st with
  | nil => rfl
  | cons off rest ih =>
    unfold buildLoop
    rw [buildStep_congr P inp inp' h]
    split
    · exact ih _
    · rfl

theorem Input.view_fields (i i' : Input E) (h : i.view = i'.view) :
    i.modChars = i'.modChars ∧ i.modC2b = i'.modC2b ∧ i.modified = i'.modified := by
  simp only [Input.view, Input.mk.injEq] at h
  exact ⟨h.2.2.2.2.2.1, h.2.2.2.2.2.2.1, h.2.1⟩

theorem buildLattice_congr (P : Payload E) (t t' : Tok E)
    (hin : t.input.view = t'.input.view) (hoov : t.oov = t'.oov) (hids : t.topPathIds = t'.topPathIds)
    (hpath : t.topPath = t'.topPath) (hs : t.subset = t'.subset) (hm : t.mode = t'.mode)
    (hlen : t.input.modC2b.length - 1 ≤ t.input.modChars.length) :
    (Tok.buildLattice P t).2 = (Tok.buildLattice P t').2 ∧ TokEq (Tok.buildLattice P t).1 (Tok.buildLattice P t').1 := by
  obtain ⟨hc, hcb, -⟩ := Input.view_fields _ _ hin
  have hoffs : ∀ off ∈ List.range (t.input.modC2b.length - 1),
      off < (Lattice.reset P t.lattice t.input.modChars.length).size := by
    intro off ho
    have := List.mem_range.mp ho
    show off < t.input.modChars.length + 1
    omega
  have hoffs' : ∀ off ∈ List.range (t.input.modC2b.length - 1),
      off < (Lattice.reset P t'.lattice t.input.modChars.length).size := hoffs
  have h1 := buildLoop_vis P t.input (List.range (t.input.modC2b.length - 1)) t.oov _ hoffs
  have h2 := buildLoop_vis P t.input (List.range (t.input.modC2b.length - 1)) t.oov _ hoffs'
  rw [Lattice.reset_vis] at h1 h2
  have hvis := h1.symm.trans h2
  have hsz1 := buildLoop_size P t.input (List.range (t.input.modC2b.length - 1))
    (t.oov, Lattice.reset P t.lattice t.input.modChars.length)
  have hsz2 := buildLoop_size P t.input (List.range (t.input.modC2b.length - 1))
    (t.oov, Lattice.reset P t'.lattice t.input.modChars.length)
  unfold Tok.buildLattice
  dsimp only
  rw [← hc, ← hcb, ← hoov, ← buildLoop_congr P t.input t'.input hin]
  rcases hr : buildLoop P t.input (List.range (t.input.modC2b.length - 1))
      (t.oov, Lattice.reset P t.lattice t.input.modChars.length) with ⟨⟨oov, lat⟩, o⟩
  rcases hr' : buildLoop P t.input (List.range (t.input.modC2b.length - 1))
      (t.oov, Lattice.reset P t'.lattice t.input.modChars.length) with ⟨⟨oov', lat'⟩, o'⟩
  rw [hr] at hsz1; rw [hr'] at hsz2
  rw [hr, hr'] at hvis
  simp only [visSt, Prod.mk.injEq] at hvis
  obtain ⟨⟨ho, hl⟩, hoo⟩ := hvis
  subst ho; subst hoo
  have hp1 : 0 < lat.size := by
    have : lat.size = t.input.modChars.length + 1 := hsz1
    omega
  have hp2 : 0 < lat'.size := by
    have : lat'.size = t.input.modChars.length + 1 := hsz2
    omega
  cases o with
  | ok =>
    have e1 := Lattice.connectEos_vis P lat hp1
    have e2 := Lattice.connectEos_vis P lat' hp2
    rw [hl] at e1
    have e := e1.symm.trans e2
    simp only [Prod.mk.injEq] at e
    exact ⟨e.2, ⟨hin, rfl, e.1, hids, hpath, hs, hm⟩⟩
  | err e => exact ⟨rfl, ⟨hin, rfl, hl, hids, hpath, hs, hm⟩⟩
  | panic => exact ⟨rfl, ⟨hin, rfl, hl, hids, hpath, hs, hm⟩⟩

theorem resolve_congr (P : Payload E) (t t' : Tok E) (h : TokEq t t') :
    (Tok.resolveAndRewrite P t).2 = (Tok.resolveAndRewrite P t').2 ∧
    (Tok.resolveAndRewrite P t).1.topPath = (Tok.resolveAndRewrite P t').1.topPath ∧
    (Tok.resolveAndRewrite P t).1.input = t.input ∧ (Tok.resolveAndRewrite P t').1.input = t'.input ∧
    (Tok.resolveAndRewrite P t).1.subset = t.subset ∧ (Tok.resolveAndRewrite P t').1.subset = t'.subset ∧
    (Tok.resolveAndRewrite P t).1.mode = t.mode ∧ (Tok.resolveAndRewrite P t').1.mode = t'.mode := by
  obtain ⟨hin, -, hlat, hids, hpath, hs, hm⟩ := h
  simp only [Lattice.vis, Lattice.mk.injEq] at hlat
  obtain ⟨he, hf, hi, heos, hsz⟩ := hlat
  unfold Tok.resolveAndRewrite
  simp only [hin, hids, hpath, hs, hm, he, hf, hi, heos]
  split
  · simp
  · simp
  · split <;> simp

/-- what a caller can observe of a finished analysis: the result path, every buffer field but the private
scratch string, subset and mode -/
def ObsEq (t t' : Tok E) : Prop :=
  t.topPath = t'.topPath ∧ t.input.view = t'.input.view ∧ t.subset = t'.subset ∧ t.mode = t'.mode

/-- the offsets the position loop visits lie below the lattice size once the input is prepared
(`mod_c2b` has one entry per character plus the sentinel) -/
def OffsetsInRange (v : ResetVariant) (P : Payload E) (t : Tok E) (text : List E) : Prop :=
  ∀ i, Input.prepare P (t.resetWith v text).input = (i, .ok) → i.modC2b.length - 1 ≤ i.modChars.length

theorem doTokenize_congr (P : Payload E) (u u' : Tok E)
    (hin : u.input.editView = u'.input.editView) (hoov : u.oov = u'.oov) (hids : u.topPathIds = u'.topPathIds)
    (hpath : u.topPath = u'.topPath) (hs : u.subset = u'.subset) (hm : u.mode = u'.mode)
    (hlen : ∀ i, Input.prepare P u.input = (i, .ok) → i.modC2b.length - 1 ≤ i.modChars.length) :
    (Tok.doTokenize P u).2 = (Tok.doTokenize P u').2 ∧
    ((Tok.doTokenize P u).2 = .ok → ObsEq (Tok.doTokenize P u).1 (Tok.doTokenize P u').1) := by
  have hp := Input.editView_prepare P u.input u'.input hin
  unfold Tok.doTokenize
  rcases h1 : Input.prepare P u.input with ⟨i, o⟩
  rcases h2 : Input.prepare P u'.input with ⟨i', o'⟩
  rw [h1, h2] at hp
  obtain ⟨ho, -, hv⟩ := hp
  simp only at ho hv
  subst ho
  cases o with
  | err e => exact ⟨rfl, by intro hc; cases hc⟩
  | panic => exact ⟨rfl, by intro hc; cases hc⟩
  | ok =>
    have hview := hv rfl
    have hl := hlen i h1
    obtain ⟨-, -, hmod⟩ := Input.view_fields _ _ hview
    simp only [hmod]
    split
    · exact ⟨rfl, fun _ => ⟨hpath, hview, hs, hm⟩⟩
    · have hb := buildLattice_congr P { u with input := i } { u' with input := i' } hview hoov hids hpath hs hm hl
      rcases h3 : Tok.buildLattice P { u with input := i } with ⟨v, o⟩
      rcases h4 : Tok.buildLattice P { u' with input := i' } with ⟨v', o'⟩
      rw [h3, h4] at hb
      obtain ⟨ho, heq⟩ := hb
      simp only at ho heq
      subst ho
      cases o with
      | err e => exact ⟨rfl, by intro hc; cases hc⟩
      | panic => exact ⟨rfl, by intro hc; cases hc⟩
      | ok =>
        have hr := resolve_congr P v v' heq
        obtain ⟨r1, r2, r3, r4, r5, r6, r7, r8⟩ := hr
        refine ⟨r1, fun _ => ⟨r2, ?_, ?_, ?_⟩⟩
        · rw [r3, r4]; exact heq.input
        · rw [r5, r6]; exact heq.subset
        · rw [r7, r8]; exact heq.mode

/-- `reset` makes the path field of two tokenizers equal: always for the repaired `reset`, and for the
`reset` as it was when the path is present in both or absent in both -/
theorem resetPath_congr (v : ResetVariant) (p p' : Option (List E)) (h : v = .cur → p.isSome = p'.isSome) :
    resetPath v p = resetPath v p' := by
  cases v with
  | fix => rfl
  | cur =>
    have h := h rfl
    show p.map _ = p'.map _
    cases p <;> cases p' <;> simp_all

/-- the variant only matters for the path field -/
theorem Tok.resetWith_input (v v' : ResetVariant) (t : Tok E) (text : List E) :
    (t.resetWith v text).input = (t.resetWith v' text).input := rfl

theorem OffsetsInRange.variant {v : ResetVariant} {P : Payload E} {t : Tok E} {text : List E}
    (h : OffsetsInRange v P t text) (v' : ResetVariant) : OffsetsInRange v' P t text := h

/-- the hypothesis on the path is only needed for the `reset` as it was (`v = .cur`) -/
theorem analyse_congr (v : ResetVariant) (P : Payload E) (t t' : Tok E) (text : List E)
    (hrep : t.input.replaces = t'.input.replaces) (hids : t.topPathIds = t'.topPathIds)
    (hpath : v = .cur → t.topPath.isSome = t'.topPath.isSome) (hs : t.subset = t'.subset) (hm : t.mode = t'.mode)
    (hlen : OffsetsInRange v P t text) :
    (t.analyse v P text).2 = (t'.analyse v P text).2 ∧
    ((t.analyse v P text).2 = .ok → ObsEq (t.analyse v P text).1 (t'.analyse v P text).1) := by
  unfold Tok.analyse
  apply doTokenize_congr
  · simp [Tok.resetWith, Input.reset, Input.editView, hrep]
  · rfl
  · exact hids
  · exact resetPath_congr v _ _ hpath
  · exact hs
  · exact hm
  · exact hlen

/-! ## invariants kept by every analysis, whatever its outcome -/

theorem Input.startBuild_replaces (P : Payload E) (i : Input E) : (Input.startBuild P i).1.replaces = i.replaces := by
  unfold Input.startBuild; split <;> try rfl
  split <;> rfl

theorem Input.commit_replaces (P : Payload E) (i : Input E) : (Input.commit P i).1.replaces = [] := by
  unfold Input.commit
  split
  · rename_i h; simpa using h
  · dsimp only; split <;> rfl

theorem Input.rewrite_replaces (P : Payload E) (pl : Plugin E) (i : Input E) (h : i.replaces = []) :
    (Input.rewrite P pl i).1.replaces = [] := by
  have hw : ∀ j : Input E, j.replaces = [] → (Input.withEditor P pl j).1.replaces = [] := by
    intro j hj
    unfold Input.withEditor
    split
    · exact hj
    · split
      · exact Input.commit_replaces P _
      · rfl
  unfold Input.rewrite
  split
  · apply hw; unfold Input.refreshChars; split <;> exact h
  · exact hw i h

theorem Input.rewriteAll_replaces (P : Payload E) (pls : List (Plugin E)) (i : Input E) (h : i.replaces = []) :
    (Input.rewriteAll P pls i).1.replaces = [] := by
  induction pls generalizing i with
  | nil => exact h
  | cons pl rest ih =>
    have h1 := Input.rewrite_replaces P pl i h
    unfold Input.rewriteAll
    rcases hr : Input.rewrite P pl i with ⟨j, o⟩
    rw [hr] at h1
    cases o with
    | ok => exact ih j h1
    | err e => exact h1
    | panic => exact h1

theorem Input.build_replaces (P : Payload E) (i : Input E) : (Input.build P i).1.replaces = i.replaces := by
  unfold Input.build; split <;> rfl

theorem Input.prepare_replaces (P : Payload E) (i : Input E) (h : i.replaces = []) :
    (Input.prepare P i).1.replaces = [] := by
  have h1 := Input.startBuild_replaces P i
  unfold Input.prepare
  rcases hr : Input.startBuild P i with ⟨j, o⟩
  rw [hr] at h1
  simp only at h1
  cases o with
  | err e => simp [h1, h]
  | panic => simp [h1, h]
  | ok =>
    have h2 := Input.rewriteAll_replaces P P.plugins j (by rw [h1, h])
    simp only
    rcases hr2 : Input.rewriteAll P P.plugins j with ⟨k, o⟩
    rw [hr2] at h2
    simp only at h2
    cases o with
    | err e => exact h2
    | panic => exact h2
    | ok => simp only; rw [Input.build_replaces]; exact h2

/-- working-state invariant: the two buffers `reset` does not clear are empty between calls -/
def Inv (t : Tok E) : Prop := t.topPathIds = [] ∧ t.input.replaces = []

theorem buildLattice_fields (P : Payload E) (t : Tok E) :
    (Tok.buildLattice P t).1.topPathIds = t.topPathIds ∧ (Tok.buildLattice P t).1.input = t.input ∧
    (Tok.buildLattice P t).1.topPath = t.topPath ∧
    ((Tok.buildLattice P t).2 = .ok ∨ (Tok.buildLattice P t).2 = .err .disconnect) := by
  unfold Tok.buildLattice
  dsimp only
  split
  · refine ⟨rfl, rfl, rfl, ?_⟩
    unfold Lattice.connectEos; split <;> simp
  · rename_i oov lat o hne heq
    refine ⟨rfl, rfl, rfl, ?_⟩
    -- the loop only ever fails with Disconnect
    have : ∀ (offs : List Nat) (st : List E × Lattice E),
        (buildLoop P t.input offs st).2 = .ok ∨ (buildLoop P t.input offs st).2 = .err .disconnect := by
      intro offs
      induction offs with
      | nil => intro st; left; rfl
      | cons off rest ih =>
        intro st
        unfold buildLoop
        split
        · exact ih _
        · rename_i r hr
          unfold buildStep at hr ⊢
          split
          · left; rfl
          · dsimp only; split
            · right; rfl
            · left; rfl
    have h := this (List.range (t.input.modC2b.length - 1)) (t.oov, Lattice.reset P t.lattice t.input.modChars.length)
    rw [heq] at h
    exact h

theorem resolve_fields (P : Payload E) (t : Tok E) :
    (Tok.resolveAndRewrite P t).1.topPathIds = [] ∧ (Tok.resolveAndRewrite P t).1.input = t.input ∧
    ((Tok.resolveAndRewrite P t).2 = .ok ∨ (Tok.resolveAndRewrite P t).2 = .err .other ∨ (Tok.resolveAndRewrite P t).2 = .panic) := by
  unfold Tok.resolveAndRewrite
  dsimp only
  split
  · simp
  · simp
  · split <;> simp

/-- every analysis, successful or failing at any exit, re-establishes the invariant -/
theorem analyse_inv (v : ResetVariant) (P : Payload E) (t : Tok E) (text : List E) (h : Inv t) :
    Inv (t.analyse v P text).1 := by
  obtain ⟨hids, hrep⟩ := h
  have hp := Input.prepare_replaces P (t.resetWith v text).input (by simp [Tok.resetWith, Input.reset, hrep])
  unfold Tok.analyse Tok.doTokenize
  rcases h1 : Input.prepare P (t.resetWith v text).input with ⟨i, o⟩
  rw [h1] at hp
  simp only at hp
  cases o with
  | err e => exact ⟨hids, hp⟩
  | panic => exact ⟨hids, hp⟩
  | ok =>
    simp only
    split
    · exact ⟨hids, hp⟩
    · have hb := buildLattice_fields P { t.resetWith v text with input := i }
      rcases h2 : Tok.buildLattice P { t.resetWith v text with input := i } with ⟨u, o⟩
      rw [h2] at hb
      obtain ⟨b1, b2, -, -⟩ := hb
      simp only at b1 b2
      cases o with
      | err e => exact ⟨by rw [b1]; exact hids, by rw [b2]; exact hp⟩
      | panic => exact ⟨by rw [b1]; exact hids, by rw [b2]; exact hp⟩
      | ok =>
        have hr := resolve_fields P u
        exact ⟨hr.1, by rw [hr.2.1, b2]; exact hp⟩

/-- `TooLong` and `Disconnect` are raised before the result path is taken: the path field is still what
`reset` left -/
theorem analyse_err_keeps_path (v : ResetVariant) (P : Payload E) (t : Tok E) (text : List E) (e : Err) (he : e ≠ .other)
    (h : (t.analyse v P text).2 = .err e) :
    (t.analyse v P text).1.topPath = resetPath v t.topPath := by
  have h0 : (t.resetWith v text).topPath = resetPath v t.topPath := rfl
  revert h
  unfold Tok.analyse Tok.doTokenize
  rcases h1 : Input.prepare P (t.resetWith v text).input with ⟨i, o⟩
  cases o with
  | err e' => intro _; exact h0
  | panic => intro _; exact h0
  | ok =>
    simp only
    by_cases hemp : i.modified.isEmpty = true
    · simp only [hemp, if_true]
      intro h; cases h
    · simp only [hemp, Bool.false_eq_true, if_false]
      have hb := buildLattice_fields P { t.resetWith v text with input := i }
      rcases h2 : Tok.buildLattice P { t.resetWith v text with input := i } with ⟨u, o⟩
      rw [h2] at hb
      obtain ⟨-, -, b3, -⟩ := hb
      simp only at b3
      cases o with
      | err e' => intro _; simp only; rw [b3]; exact h0
      | panic => intro _; simp only; rw [b3]; exact h0
      | ok =>
        simp only
        intro h
        have hr := (resolve_fields P u).2.2
        rw [h] at hr
        rcases hr with hr | hr | hr
        · cases hr
        · cases hr; exact absurd rfl he
        · cases hr

theorem resetPath_isSome (v : ResetVariant) (p : Option (List E)) (h : p.isSome = true) :
    (resetPath v p).isSome = true := by
  cases v with
  | fix => rfl
  | cur => cases p <;> simp_all [resetPath]

/-! ## the repaired `reset`: an analysis that returns Ok always leaves a result path -/

theorem resolve_ok_path (P : Payload E) (t : Tok E) (h : (Tok.resolveAndRewrite P t).2 = .ok) :
    (Tok.resolveAndRewrite P t).1.topPath.isSome = true := by
  revert h
  unfold Tok.resolveAndRewrite
  dsimp only
  split
  · intro h; cases h
  · intro h; cases h
  · split
    · intro h; cases h
    · intro h; cases h
    · intro _; rfl

/-- whenever `reset` leaves a path (always for the repaired `reset`), an Ok analysis ends with a path:
the early return for an empty normalised text keeps the one `reset` made, every other Ok exit stores one -/
theorem analyse_ok_path (v : ResetVariant) (P : Payload E) (t : Tok E) (text : List E)
    (hreset : (resetPath v t.topPath).isSome = true) (h : (t.analyse v P text).2 = .ok) :
    (t.analyse v P text).1.topPath.isSome = true := by
  have h0 : (t.resetWith v text).topPath.isSome = true := hreset
  revert h
  unfold Tok.analyse Tok.doTokenize
  rcases h1 : Input.prepare P (t.resetWith v text).input with ⟨i, o⟩
  cases o with
  | err e' => intro h; cases h
  | panic => intro h; cases h
  | ok =>
    simp only
    by_cases hemp : i.modified.isEmpty = true
    · simp only [hemp, if_true]
      intro _; exact h0
    · simp only [hemp, Bool.false_eq_true, if_false]
      rcases h2 : Tok.buildLattice P { t.resetWith v text with input := i } with ⟨u, o⟩
      cases o with
      | err e' => intro h; cases h
      | panic => intro h; cases h
      | ok => simp only; exact resolve_ok_path P u

/-! ## whole histories: the invariant of the shared buffers is kept by every operation -/

/-- world invariant: the tokenizer satisfies `Inv` and every `InputPart` a list may swap into the tokenizer
has an empty `replaces` buffer -/
def WInv (w : World E) : Prop := Inv w.tok ∧ ∀ p ∈ w.parts, p.input.replaces = []

theorem mem_set_cases {α : Type} (l : List α) (k : Nat) (a x : α) (h : x ∈ l.set k a) : x = a ∨ x ∈ l := by
  induction l generalizing k with
  | nil => simp at h
  | cons b bs ih =>
    cases k with
    | zero =>
      simp only [List.set_cons_zero, List.mem_cons] at h
      rcases h with h | h
      · exact Or.inl h
      · exact Or.inr (List.mem_cons_of_mem _ h)
    | succ k =>
      simp only [List.set_cons_succ, List.mem_cons] at h
      rcases h with h | h
      · exact Or.inr (by simp [h])
      · rcases ih k h with h | h
        · exact Or.inl h
        · exact Or.inr (List.mem_cons_of_mem _ h)

theorem mem_of_getElem?_some {α : Type} (l : List α) (k : Nat) (a : α) (h : l[k]? = some a) : a ∈ l :=
  List.mem_of_getElem? h

theorem WInv.init (m : Mode) : WInv (World.init (E := E) m) :=
  ⟨⟨rfl, rfl⟩, by intro p hp; cases hp⟩

theorem Input.reset_replaces (i : Input E) : i.reset.replaces = i.replaces := rfl

theorem collect_inv (w : World E) (j : Nat) (h : WInv w) : WInv (w.collect j).1 := by
  obtain ⟨⟨hids, hrep⟩, hparts⟩ := h
  unfold World.collect
  cases hL : w.lists[j]? with
  | none => exact ⟨⟨hids, hrep⟩, hparts⟩
  | some L =>
    simp only
    cases hp : w.parts[L.part]? with
    | none => exact ⟨⟨hids, hrep⟩, hparts⟩
    | some p =>
      have hpin : p.input.replaces = [] := hparts p (mem_of_getElem?_some _ _ _ hp)
      simp only
      cases ht : w.tok.topPath with
      | none =>
        refine ⟨⟨hids, hpin⟩, ?_⟩
        intro q hq
        rcases mem_set_cases _ _ _ _ hq with hq | hq
        · rw [hq]; exact hrep
        · exact hparts q hq
      | some path =>
        refine ⟨⟨hids, hpin⟩, ?_⟩
        intro q hq
        rcases mem_set_cases _ _ _ _ hq with hq | hq
        · rw [hq]; exact hrep
        · exact hparts q hq

theorem splitInto_inv (P : Payload E) (w : World E) (i idx : Nat) (m : Mode) (j : Nat) (h : WInv w) :
    WInv (w.splitInto P i idx m j).1 := by
  unfold World.splitInto
  split
  · exact h
  · split
    · split
      · dsimp only
        split
        · exact h
        · exact h
      · exact h
      · exact h
    · exact h

theorem lookup_inv (P : Payload E) (w : World E) (j : Nat) (q : List E) (s : Subset) (h : WInv w) :
    WInv (w.lookup P j q s).1 := by
  obtain ⟨htok, hparts⟩ := h
  unfold World.lookup
  cases hL : w.lists[j]? with
  | none => exact ⟨htok, hparts⟩
  | some L =>
    simp only
    cases hp : w.parts[L.part]? with
    | none => exact ⟨htok, hparts⟩
    | some p =>
      have hpin : p.input.replaces = [] := hparts p (mem_of_getElem?_some _ _ _ hp)
      have h0 : ({ p.input.reset with original := p.input.reset.original ++ q } : Input E).replaces = [] := hpin
      have h1 := Input.startBuild_replaces P { p.input.reset with original := p.input.reset.original ++ q }
      simp only
      rcases hs : Input.startBuild P { p.input.reset with original := p.input.reset.original ++ q } with ⟨i1, o1⟩
      rw [hs] at h1
      simp only at h1
      have hi1 : i1.replaces = [] := by rw [h1]; exact h0
      have setInv : ∀ p' : Part E, p'.input.replaces = [] →
          ∀ x ∈ w.parts.set L.part p', x.input.replaces = [] := by
        intro p' hi' x hx
        rcases mem_set_cases _ _ _ _ hx with hx | hx
        · rw [hx]; exact hi'
        · exact hparts x hx
      cases o1 with
      | err e => exact ⟨htok, setInv _ hi1⟩
      | panic => exact ⟨htok, setInv _ hi1⟩
      | ok =>
        simp only
        have h2 := Input.build_replaces P i1
        rcases hb : Input.build P i1 with ⟨i2, o2⟩
        rw [hb] at h2
        simp only at h2
        have hi2 : i2.replaces = [] := by rw [h2]; exact hi1
        cases o2 with
        | err e => exact ⟨htok, setInv _ hi2⟩
        | panic => exact ⟨htok, setInv _ hi2⟩
        | ok => exact ⟨htok, setInv _ hi2⟩

/-- every operation of the API keeps the world invariant, whatever its outcome -/
theorem step_inv (v : ResetVariant) (P : Payload E) (w : World E) (op : Op E) (h : WInv w) :
    WInv (w.step v P op).1 := by
  cases op with
  | setMode m => exact h
  | setSubset s => exact h
  | analyse text => exact ⟨analyse_inv v P w.tok text h.1, h.2⟩
  | collect j => exact collect_inv w j h
  | newList =>
    refine ⟨h.1, ?_⟩
    intro p hp
    rcases List.mem_append.mp hp with hp | hp
    · exact h.2 p hp
    · have : p = Part.default P := by simpa using hp
      rw [this]
      show (Input.startBuild P Input.empty).1.replaces = []
      rw [Input.startBuild_replaces]; rfl
  | emptyClone j =>
    show WInv (match w.lists[j]? with | none => (w, Outcome.ok) | some L => _).1
    cases w.lists[j]? <;> exact h
  | clear j =>
    show WInv (match w.lists[j]? with | none => (w, Outcome.ok) | some L => _).1
    cases w.lists[j]? <;> exact h
  | splitInto i idx m j => exact splitInto_inv P w i idx m j h
  | lookup j q => exact lookup_inv P w j q Subset.all h

/-- induction over whole histories -/
theorem run_inv (v : ResetVariant) (ops : List (Payload E × Op E)) (w : World E) (h : WInv w) :
    WInv (w.run v ops) := by
  induction ops generalizing w with
  | nil => exact h
  | cons x rest ih =>
    obtain ⟨P, op⟩ := x
    exact ih _ (step_inv v P w op h)

/-- mode and subset of the tokenizer are only changed by `set_mode` / `set_subset` -/
theorem analyse_mode_subset (v : ResetVariant) (P : Payload E) (t : Tok E) (text : List E) :
    (t.analyse v P text).1.mode = t.mode ∧ (t.analyse v P text).1.subset = t.subset := by
  unfold Tok.analyse Tok.doTokenize
  rcases h1 : Input.prepare P (t.resetWith v text).input with ⟨i, o⟩
  cases o with
  | err e => exact ⟨rfl, rfl⟩
  | panic => exact ⟨rfl, rfl⟩
  | ok =>
    simp only
    split
    · exact ⟨rfl, rfl⟩
    · have hb : (Tok.buildLattice P { t.resetWith v text with input := i }).1.mode = t.mode ∧
          (Tok.buildLattice P { t.resetWith v text with input := i }).1.subset = t.subset := by
        unfold Tok.buildLattice
        dsimp only
        split <;> exact ⟨rfl, rfl⟩
      rcases h2 : Tok.buildLattice P { t.resetWith v text with input := i } with ⟨u, o⟩
      rw [h2] at hb
      simp only at hb
      cases o with
      | err e => exact hb
      | panic => exact hb
      | ok =>
        have hr := resolve_congr P u u ⟨rfl, rfl, rfl, rfl, rfl, rfl, rfl⟩
        obtain ⟨-, -, -, -, r5, -, r7, -⟩ := hr
        exact ⟨by rw [r7]; exact hb.1, by rw [r5]; exact hb.2⟩

end Recycle
