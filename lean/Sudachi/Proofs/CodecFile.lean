import Sudachi.Model.CodecBuild
import Sudachi.Proofs.Codec
import Sudachi.Proofs.CodecLayout
/-!
# The whole dictionary file (C05 `dict_roundtrip`): header, grammar section, index, lexicon section

`compile` writes `header ++ POS table ++ connection matrix ++ (trie size, trie, table size, word-id table)
++ (count, parameters, offsets, records)`; `readAny` (`DictionaryLoader::read_any_dictionary`) finds every
one of these parts again.
-/
namespace Codec

/-! ## the `Outcome` monad is lawful (needed for `List.mapM`) -/

instance : LawfulMonad Outcome := LawfulMonad.mk' (m := Outcome)
  (id_map := fun x => by cases x <;> rfl)
  (pure_bind := fun _ _ => rfl)
  (bind_assoc := fun x _ _ => by cases x <;> rfl)

theorem mapM_ok {α β : Type} (f : α → Outcome β) (g : α → β) (xs : List α) (h : ∀ x ∈ xs, f x = .ok (g x)) :
    xs.mapM f = .ok (xs.map g) := by
  induction xs with
  | nil => rfl
  | cons x xs ih =>
    rw [List.mapM_cons, h x (List.mem_cons_self ..), ih (fun y hy => h y (List.mem_cons_of_mem _ hy))]
    rfl

/-! ## sizes -/

theorem utf8Len_le (c : Nat) : utf8Len c ≤ 3 * (encodeUtf16 c).length := by
  unfold utf8Len encodeUtf16
  by_cases h1 : c < 0x80
  · have : c < 0x10000 := by omega
    simp [h1, this]
  · by_cases h2 : c < 0x800
    · have : c < 0x10000 := by omega
      simp [h1, h2, this]
    · by_cases h3 : c < 0x10000
      · simp [h1, h2, h3]
      · simp [h1, h2, h3]

/-- a string of `n` UTF-16 units has at most `3 n` UTF-8 bytes: the byte-size guard of `Utf16Writer::write`
(256 KiB) can never fire before the unit-count guard (32767) -/
theorem utf8LenStr_le (s : Str) : utf8LenStr s ≤ 3 * (units s).length := by
  induction s with
  | nil => simp [utf8LenStr, units]
  | cons c s ih =>
    have := utf8Len_le c
    simp only [utf8LenStr, units, List.map_cons, List.sum_cons, List.flatMap_cons, List.length_append] at *
    omega

theorem writeStr_ok (s : Str) (h : StrOk s) : writeStr s = .ok (encStr s) := by
  have h1 := utf8LenStr_le s
  have h2 := h.2
  unfold writeStr
  simp only [show ¬ utf8LenStr s > 4 * 64 * 1024 by omega, show ¬ (units s).length > 32767 by omega, if_false]

/-! ## header -/

theorem le32_length (n : Nat) : (le32 n).length = 4 := rfl
theorem le16_length (n : Nat) : (le16 n).length = 2 := rfl
theorem le64_length (n : Nat) : (le64 n).length = 8 := rfl

theorem leU64_le64 (n : Nat) (h : n < 18446744073709551616) (rest : Bytes) :
    leU64 (le64 n ++ rest) = some (n, rest) := by
  unfold leU64 le64
  rw [List.append_assoc, leU32_le32 _ (Nat.mod_lt _ (by decide))]
  simp only
  rw [leU32_le32 _ (Nat.mod_lt _ (by decide))]
  simp only
  congr 2
  omega

/-- bytes of `Header::write_to` -/
def hdrBytes (version time : Nat) (desc : Bytes) : Bytes :=
  le64 version ++ le64 time ++ desc ++ List.replicate (DESCRIPTION_SIZE - desc.length) 0

theorem hdrBytes_length (v t : Nat) (desc : Bytes) (h : desc.length ≤ 256) : (hdrBytes v t desc).length = 272 := by
  simp only [hdrBytes, List.length_append, le64_length, List.length_replicate, DESCRIPTION_SIZE]
  omega

theorem writeHeader_ok (v t : Nat) (desc : Bytes) (h : desc.length ≤ 256) : writeHeader v t desc = .ok (hdrBytes v t desc) := by
  unfold writeHeader hdrBytes
  simp only [show ¬ desc.length > DESCRIPTION_SIZE by simp [DESCRIPTION_SIZE]; omega, if_false]

theorem takeWhile_append_zeros (a : Bytes) (k : Nat) :
    (a ++ List.replicate k 0).takeWhile (· ≠ 0) = a.takeWhile (· ≠ 0) := by
  induction a with
  | nil =>
    cases k with
    | zero => rfl
    | succ k => simp [List.replicate_succ]
  | cons x xs ih =>
    simp only [List.cons_append, List.takeWhile_cons]
    split
    · rw [ih]
    · rfl

def IsVersion (v : Nat) : Prop :=
  v = SYSTEM_DICT_VERSION_1 ∨ v = SYSTEM_DICT_VERSION_2 ∨ v = USER_DICT_VERSION_1 ∨ v = USER_DICT_VERSION_2 ∨ v = USER_DICT_VERSION_3

/-- `Header::parse (Header::write_to h ++ rest)`: version and time as written, the description up to its
first NUL byte -/
theorem parseHeader_hdrBytes (v t : Nat) (desc rest : Bytes) (hv : IsVersion v) (hv64 : v < 18446744073709551616)
    (ht : t < 18446744073709551616) (hd : desc.length ≤ 256) :
    parseHeader (hdrBytes v t desc ++ rest) = .ok { version := v, createTime := t, description := desc.takeWhile (· ≠ 0) } := by
  have hlen := hdrBytes_length v t desc hd
  unfold parseHeader
  have h1 : ¬ ((hdrBytes v t desc ++ rest).length < HEADER_STORAGE_SIZE) := by
    rw [List.length_append, hlen]; simp [HEADER_STORAGE_SIZE]
  simp only [h1, if_false]
  have hshape : hdrBytes v t desc ++ rest = le64 v ++ (le64 t ++ ((desc ++ List.replicate (DESCRIPTION_SIZE - desc.length) 0) ++ rest)) := by
    simp only [hdrBytes, List.append_assoc]
  rw [hshape, leU64_le64 v hv64]
  simp only
  rw [leU64_le64 t ht]
  simp only
  have htake : ((desc ++ List.replicate (DESCRIPTION_SIZE - desc.length) 0) ++ rest).take DESCRIPTION_SIZE
      = desc ++ List.replicate (DESCRIPTION_SIZE - desc.length) 0 := by
    have : (desc ++ List.replicate (DESCRIPTION_SIZE - desc.length) 0).length = DESCRIPTION_SIZE := by
      simp only [List.length_append, List.length_replicate, DESCRIPTION_SIZE]; omega
    exact List.take_left' this
  rw [htake, takeWhile_append_zeros]
  have hv' : v = SYSTEM_DICT_VERSION_1 ∨ v = SYSTEM_DICT_VERSION_2 ∨ v = USER_DICT_VERSION_1 ∨ v = USER_DICT_VERSION_2 ∨ v = USER_DICT_VERSION_3 := hv
  simp only [hv', if_true]

/-! ## POS table -/

/-- bytes of `write_pos_table` for the POS rows this dictionary adds -/
def posTableBytes (fresh : List (List Str)) : Bytes :=
  le16 (fresh.length % 65536) ++ ((fresh.map (fun p => p.map encStr)).map List.flatten).flatten

def PosOk (fresh : List (List Str)) : Prop :=
  fresh.length < 65536 ∧ ∀ p ∈ fresh, p.length = 6 ∧ ∀ s ∈ p, StrOk s

theorem writePosTable_ok (pos : List (List Str)) (startPos : Nat) (h : PosOk (pos.drop startPos)) :
    writePosTable pos startPos = .ok (posTableBytes (pos.drop startPos)) := by
  unfold writePosTable posTableBytes
  have hrows : (pos.drop startPos).mapM (fun p => p.mapM writeStr) = .ok ((pos.drop startPos).map (fun p => p.map encStr)) := by
    apply mapM_ok
    intro p hp
    apply mapM_ok
    intro s hs
    exact writeStr_ok s ((h.2 p hp).2 s hs)
  simp only [hrows, bind, Outcome.bind, pure]

theorem countStr_enc (p : List Str) (h : ∀ s ∈ p, StrOk s) (rest : Bytes) :
    countStr p.length ((p.map encStr).flatten ++ rest) = some (p, rest) := by
  induction p with
  | nil => rfl
  | cons s p ih =>
    have hs := h s (List.mem_cons_self ..)
    simp only [List.length_cons, List.map_cons, List.flatten_cons, List.append_assoc, countStr]
    rw [utf16StringParser_encStr s hs.1 hs.2]
    simp only
    rw [ih (fun x hx => h x (List.mem_cons_of_mem _ hx))]

theorem countPos_enc (ps : List (List Str)) (h : ∀ p ∈ ps, p.length = 6 ∧ ∀ s ∈ p, StrOk s) (rest : Bytes) :
    countPos ps.length (((ps.map (fun p => p.map encStr)).map List.flatten).flatten ++ rest) = some (ps, rest) := by
  induction ps with
  | nil => rfl
  | cons p ps ih =>
    have hp := h p (List.mem_cons_self ..)
    simp only [List.length_cons, List.map_cons, List.flatten_cons, List.append_assoc, countPos]
    have := countStr_enc p hp.2 ((((ps.map (fun p => p.map encStr)).map List.flatten).flatten ++ rest))
    rw [hp.1] at this
    rw [this]
    simp only
    rw [ih (fun x hx => h x (List.mem_cons_of_mem _ hx))]

/-- `pos_list_parser (write_pos_table fresh ++ rest) = (fresh, rest)` -/
theorem posListParser_enc (fresh : List (List Str)) (h : PosOk fresh) (rest : Bytes) :
    posListParser (posTableBytes fresh ++ rest) = some (fresh, rest) := by
  unfold posListParser posTableBytes
  rw [List.append_assoc, Nat.mod_eq_of_lt h.1, leU16_le16 _ h.1]
  simp only
  exact countPos_enc fresh h.2 rest

/-! ## connection matrix inside the file -/

theorem leU16_append (m t : Bytes) (x : Nat) (r : Bytes) (h : leU16 m = some (x, r)) : leU16 (m ++ t) = some (x, r ++ t) := by
  match m, h with
  | a :: b :: r', h =>
    simp only [leU16, Option.some.injEq, Prod.mk.injEq] at h
    obtain ⟨h1, h2⟩ := h
    subst h1; subst h2
    rfl

/-- a cell that lies inside the matrix bytes is read the same whatever follows the matrix -/
theorem i16At_append (m t : Bytes) (k : Nat) (x : Int) (h : i16At m 0 k = some x) : i16At (m ++ t) 0 k = some x := by
  unfold i16At at *
  cases hd : leU16 (m.drop (0 + 2 * k)) with
  | none => rw [hd] at h; simp at h
  | some p =>
    obtain ⟨v, r⟩ := p
    rw [hd] at h
    have hle : 0 + 2 * k ≤ m.length := by
      rcases Nat.lt_or_ge m.length (0 + 2 * k) with hlt | hge
      · rw [List.drop_eq_nil_of_le (Nat.le_of_lt hlt)] at hd; simp [leU16] at hd
      · exact hge
    rw [List.drop_append_of_le_length hle, leU16_append _ t v r hd]
    simpa using h

structure ConnOk (c : Conn) (nl nr : Nat) : Prop where
  left : c.numLeft = (nl : Int)
  right : c.numRight = (nr : Int)
  hl : nl < 32768
  hr : nr < 32768
  len : c.matrix.length = 2 * (nl * nr)

def connBytes (nl nr : Nat) (matrix : Bytes) : Bytes := le16 nl ++ le16 nr ++ matrix

theorem i16ToU_ofNat (n : Nat) (h : n < 32768) : i16ToU (n : Int) = n := by
  unfold i16ToU; omega

theorem writeConn_ok (c : Conn) (nl nr : Nat) (h : ConnOk c nl nr) : writeConn c = .ok (connBytes nl nr c.matrix) := by
  unfold writeConn connBytes
  have hneg : ¬ ((nl : Int) < 0 ∨ (nr : Int) < 0) := by omega
  simp only [h.left, h.right, hneg, if_false, i16ToU_ofNat nl h.hl, i16ToU_ofNat nr h.hr]

/-- `Grammar::parse` at offset 272 of `header ++ POS table ++ sizes ++ matrix ++ tail` -/
theorem grammarParse_file (hdr : Bytes) (fresh : List (List Str)) (nl nr : Nat) (matrix tail : Bytes)
    (hh : hdr.length = 272) (hp : PosOk fresh) (hl : nl < 32768) (hr : nr < 32768) (hm : matrix.length = 2 * (nl * nr)) :
    Grammar.parse (hdr ++ posTableBytes fresh ++ connBytes nl nr matrix ++ tail) 272 = .ok
      { posList := fresh, numLeft := nl, numRight := nr,
        connOff := 272 + (posTableBytes fresh).length + 4,
        storageSize := (posTableBytes fresh).length + 4 + matrix.length,
        bytes := hdr ++ posTableBytes fresh ++ connBytes nl nr matrix ++ tail } := by
  have hshape : hdr ++ posTableBytes fresh ++ connBytes nl nr matrix ++ tail
      = hdr ++ (posTableBytes fresh ++ (le16 nl ++ (le16 nr ++ (matrix ++ tail)))) := by
    simp only [connBytes, List.append_assoc]
  have hlen : (hdr ++ posTableBytes fresh ++ connBytes nl nr matrix ++ tail).length
      = 272 + (posTableBytes fresh).length + 4 + (matrix.length + tail.length) := by
    simp only [connBytes, List.length_append, le16_length, hh]; omega
  unfold Grammar.parse
  have h0 : ¬ ((hdr ++ posTableBytes fresh ++ connBytes nl nr matrix ++ tail).length < 272) := by rw [hlen]; omega
  simp only [h0, if_false]
  have hdrop : (hdr ++ posTableBytes fresh ++ connBytes nl nr matrix ++ tail).drop 272
      = posTableBytes fresh ++ (le16 nl ++ (le16 nr ++ (matrix ++ tail))) := by
    rw [hshape, ← hh]; exact List.drop_left ..
  rw [hdrop, posListParser_enc fresh hp]
  simp only
  rw [leU16_le16 nl (by omega)]
  simp only
  rw [leU16_le16 nr (by omega)]
  simp only
  have hnot : ¬ (nl ≥ 32768 ∨ nr ≥ 32768) := by omega
  simp only [hnot, if_false]
  have hco : (hdr ++ posTableBytes fresh ++ connBytes nl nr matrix ++ tail).length - (matrix ++ tail).length
      = 272 + (posTableBytes fresh).length + 4 := by
    rw [hlen, List.length_append]; omega
  rw [hco]
  have e2 : 2 * nl * nr = 2 * (nl * nr) := Nat.mul_assoc ..
  have c1 : ¬ (272 + (posTableBytes fresh).length + 4 + nl * nr > (hdr ++ posTableBytes fresh ++ connBytes nl nr matrix ++ tail).length) := by
    rw [hlen]; omega
  have c2 : ¬ (272 + (posTableBytes fresh).length + 4 + 2 * nl * nr > (hdr ++ posTableBytes fresh ++ connBytes nl nr matrix ++ tail).length) := by
    rw [hlen, e2]; omega
  simp only [c1, c2, if_false]
  have hs : 272 + (posTableBytes fresh).length + 4 - 272 + 2 * nl * nr = (posTableBytes fresh).length + 4 + matrix.length := by
    rw [e2, hm]; omega
  rw [hs]

/-! ## index and lexicon section -/

theorem u32At_mid (buf a b : Bytes) (x o : Nat) (hb : buf = a ++ (le32 x ++ b)) (ho : o = a.length) (hx : x < 4294967296) :
    u32At buf o = some x := by
  subst hb; subst ho
  unfold u32At
  have : ¬ ((a ++ (le32 x ++ b)).length < a.length) := by rw [List.length_append]; omega
  simp only [this, if_false, List.drop_left, leU32_le32 x hx, Option.map_some]

theorem region_mid (buf a x b : Bytes) (o k : Nat) (hb : buf = a ++ (x ++ b)) (ho : o = a.length) (hk : k = x.length) :
    (buf.drop o).take k = x := by
  subst hb; subst ho; subst hk
  rw [List.drop_left, List.take_left]

/-- `Lexicon::parse` at the start of `trie size, trie, table size, table, count, …`: the offsets it computes -/
theorem lexiconParse_file (a trie wt rest : Bytes) (ts n : Nat) (hasSyn : Bool)
    (ht : trie.length = 4 * ts) (hts : ts < 4294967296) (hws : wt.length < 4294967296) (hn : n < 4294967296)
    (hrest : 6 * n ≤ rest.length) :
    ∃ L, Lexicon.parse (a ++ (le32 ts ++ (trie ++ (le32 wt.length ++ (wt ++ (le32 n ++ rest)))))) a.length hasSyn = .ok L ∧
      L.bytes = a ++ (le32 ts ++ (trie ++ (le32 wt.length ++ (wt ++ (le32 n ++ rest))))) ∧
      L.trieOff = a.length + 4 ∧ L.trieSize = ts ∧
      L.widTableOff = a.length + 4 + trie.length + 4 ∧ L.widTableSize = wt.length ∧
      L.paramsOff = a.length + 4 + trie.length + 4 + wt.length + 4 ∧ L.size = n ∧
      L.infosOff = a.length + 4 + trie.length + 4 + wt.length + 4 + 6 * n ∧ L.hasSynonyms = hasSyn := by
  obtain ⟨buf, hbuf⟩ : ∃ buf, buf = a ++ (le32 ts ++ (trie ++ (le32 wt.length ++ (wt ++ (le32 n ++ rest))))) := ⟨_, rfl⟩
  have hlen : buf.length = a.length + 4 + trie.length + 4 + wt.length + 4 + rest.length := by
    rw [hbuf]; simp only [List.length_append, le32_length]; omega
  have r1 : u32At buf a.length = some ts := u32At_mid buf a _ ts _ hbuf rfl hts
  have r2 : u32At buf (a.length + 4 + 4 * ts) = some wt.length := by
    apply u32At_mid buf (a ++ (le32 ts ++ trie)) (wt ++ (le32 n ++ rest)) wt.length _ _ _ hws
    · rw [hbuf]; simp only [List.append_assoc]
    · simp only [List.length_append, le32_length]; omega
  have r3 : u32At buf (a.length + 4 + 4 * ts + 4 + wt.length) = some n := by
    apply u32At_mid buf (a ++ (le32 ts ++ (trie ++ (le32 wt.length ++ wt)))) rest n _ _ _ hn
    · rw [hbuf]; simp only [List.append_assoc]
    · simp only [List.length_append, le32_length]; omega
  rw [← hbuf]
  unfold Lexicon.parse
  simp only [r1]
  have c1 : ¬ (buf.length < a.length + 4 + ts * 4) := by rw [hlen]; omega
  simp only [c1, if_false, r2, r3]
  have c2 : ¬ (a.length + 4 + 4 * ts + 4 + wt.length + 4 + 6 * n > buf.length) := by rw [hlen]; omega
  simp only [c2, if_false]
  refine ⟨_, rfl, rfl, rfl, rfl, ?_, rfl, ?_, rfl, ?_, rfl⟩
  · simp only; omega
  · simp only; omega
  · simp only; omega

theorem lexiconBytes_shape (es : List Entry) (infos : List Bytes) (off : Nat) :
    ∃ rest, lexiconBytes es infos off = le32 es.length ++ (es.flatMap encParams ++ rest) ∧ 6 * es.length ≤ (es.flatMap encParams ++ rest).length := by
  unfold lexiconBytes
  refine ⟨_, by simp only [List.append_assoc]; rfl, ?_⟩
  rw [List.length_append, encParams_flatMap_length]; omega

/-! ## word parameters -/

def ParamsOk (e : Entry) : Prop :=
  -32768 ≤ e.left ∧ e.left ≤ 32767 ∧ -32768 ≤ e.right ∧ e.right ≤ 32767 ∧ -32768 ≤ e.cost ∧ e.cost ≤ 32767

theorem u16ToI_bytes (v : Int) (h1 : -32768 ≤ v) (h2 : v ≤ 32767) :
    u16ToI (i16ToU v % 256 + 256 * (i16ToU v / 256 % 256)) = v := by
  have hu : i16ToU v < 65536 := by unfold i16ToU; omega
  have : i16ToU v % 256 + 256 * (i16ToU v / 256 % 256) = i16ToU v := by omega
  rw [this]
  exact u16ToI_i16ToU v h1 h2

theorem encParams_flatMap_drop (es : List Entry) (rest : Bytes) : ∀ (w : Nat) (e : Entry), es[w]? = some e →
    (es.flatMap encParams ++ rest).drop (6 * w) = encParams e ++ ((es.drop (w + 1)).flatMap encParams ++ rest) := by
  induction es with
  | nil => intro w e h; simp at h
  | cons x xs ih =>
    intro w e h
    cases w with
    | zero => simp at h; subst h; simp
    | succ k =>
      simp at h
      have hl : 6 * (k + 1) = (encParams x).length + 6 * k := by simp [encParams, le16]; omega
      simp only [List.flatMap_cons, List.append_assoc, hl, drop_add_append]
      simpa using ih k e h

theorem drop_add {α : Type} (l : List α) (i j : Nat) : l.drop (i + j) = (l.drop i).drop j := by
  induction l generalizing i with
  | nil => simp
  | cons x xs ih =>
    cases i with
    | zero => simp
    | succ k => simp only [Nat.succ_add, List.drop_succ_cons]; exact ih k

/-- `WordParams::get_params(w)` on a lexicon whose parameter array starts right after the count -/
theorem getParams_file (L : Lexicon) (pre : Bytes) (es : List Entry) (rest : Bytes)
    (hb : L.bytes = pre ++ (le32 es.length ++ (es.flatMap encParams ++ rest)))
    (hp : L.paramsOff = pre.length + 4) (hs : L.size = es.length)
    (w : Nat) (e : Entry) (hw : es[w]? = some e) (hr : ParamsOk e) :
    L.getParams w = .ok (e.left, e.right, e.cost) := by
  have hlt : w < es.length := by
    rcases Nat.lt_or_ge w es.length with h | h
    · exact h
    · rw [List.getElem?_eq_none h] at hw; cases hw
  obtain ⟨h1, h2, h3, h4, h5, h6⟩ := hr
  have hcell : ∀ j, j < 3 → L.bytes.drop (L.paramsOff + 2 * (3 * w + j))
      = (encParams e ++ ((es.drop (w + 1)).flatMap encParams ++ rest)).drop (2 * j) := by
    intro j _
    rw [hb, hp]
    have e1 : pre.length + 4 + 2 * (3 * w + j) = pre.length + ((le32 es.length).length + (6 * w + 2 * j)) := by
      simp only [le32_length]; omega
    rw [e1, drop_add_append, drop_add_append, drop_add, encParams_flatMap_drop es rest w e hw]
  unfold Lexicon.getParams
  have c0 : ¬ (w * 3 + 3 > L.size * 3) := by rw [hs]; omega
  simp only [c0, if_false]
  have g0 : i16At L.bytes L.paramsOff (3 * w) = some e.left := by
    unfold i16At
    have := hcell 0 (by omega)
    simp only [Nat.add_zero, Nat.mul_zero, List.drop_zero] at this
    rw [this]
    simp only [encParams, le16, List.cons_append, List.nil_append, leU16, Option.map_some, u16ToI_bytes e.left h1 h2]
  have g1 : i16At L.bytes L.paramsOff (3 * w + 1) = some e.right := by
    unfold i16At
    rw [hcell 1 (by omega)]
    simp only [encParams, le16, List.cons_append, List.nil_append, List.drop_succ_cons, List.drop_zero, leU16, Option.map_some,
      u16ToI_bytes e.right h3 h4]
  have g2 : i16At L.bytes L.paramsOff (3 * w + 2) = some e.cost := by
    unfold i16At
    rw [hcell 2 (by omega)]
    simp only [encParams, le16, List.cons_append, List.nil_append, List.drop_succ_cons, List.drop_zero, leU16, Option.map_some,
      u16ToI_bytes e.cost h5 h6]
  simp only [g0, g1, g2]

/-! ## word infos: only `bytes`, `infosOff` and `hasSynonyms` of a `Lexicon` matter -/

theorem parseWordInfo_congr (l1 l2 : Lexicon) (hb : l1.bytes = l2.bytes) (hi : l1.infosOff = l2.infosOff) (w : Nat) :
    l1.parseWordInfo w = l2.parseWordInfo w := by
  unfold Lexicon.parseWordInfo Lexicon.wordIdToOffset
  simp only [hb, hi]

theorem getWordInfo_congr (l1 l2 : Lexicon) (hb : l1.bytes = l2.bytes) (hi : l1.infosOff = l2.infosOff)
    (hs : l1.hasSynonyms = l2.hasSynonyms) (w : Nat) :
    l1.getWordInfo w = l2.getWordInfo w := by
  unfold Lexicon.getWordInfo Lexicon.parseSurface
  rw [parseWordInfo_congr l1 l2 hb hi w]
  unfold Lexicon.wordIdToOffset
  simp only [hb, hi, hs]

/-! ## word-id table -/

/-- bytes of `build_word_id_table` -/
def widTableBytes (es : List Entry) : Bytes := (indexGroups es).flatMap (fun g => encU32s g.2)

/-- every key has at most 127 homographs (the count byte of a table record) -/
def WidOk (es : List Entry) : Prop := ∀ g ∈ indexGroups es, g.2.length ≤ 127

theorem foldlM_wid (gs : List (Str × List Nat)) (h : ∀ g ∈ gs, g.2.length ≤ 127) : ∀ acc : Bytes,
    gs.foldlM (fun acc g => do
      let b ← writeU32Array g.2
      pure (acc ++ b)) acc = Outcome.ok (acc ++ gs.flatMap (fun g => encU32s g.2)) := by
  induction gs with
  | nil => intro acc; simp [List.foldlM, pure]
  | cons g gs ih =>
    intro acc
    have hg := h g (List.mem_cons_self ..)
    have hw : writeU32Array g.2 = .ok (encU32s g.2) := by
      unfold writeU32Array; simp only [show ¬ g.2.length > 127 by omega, if_false]
    rw [List.foldlM_cons, hw]
    show gs.foldlM _ (acc ++ encU32s g.2) = _
    rw [ih (fun x hx => h x (List.mem_cons_of_mem _ hx))]
    simp only [List.flatMap_cons, List.append_assoc]

theorem buildWordIdTable_ok (es : List Entry) (h : WidOk es) : buildWordIdTable es = .ok (widTableBytes es) := by
  unfold buildWordIdTable widTableBytes
  rw [foldlM_wid _ h]
  simp

/-! ## the file `compile` writes -/

/-- `DictBuilder::set_user`: the header version of the dictionaries the builder emits -/
def versionOf (user : Bool) : Nat := if user then USER_DICT_VERSION_3 else SYSTEM_DICT_VERSION_2

theorem versionOf_isVersion (u : Bool) : IsVersion (versionOf u) := by
  cases u
  · exact Or.inr (Or.inl rfl)
  · exact Or.inr (Or.inr (Or.inr (Or.inr rfl)))

theorem versionOf_lt (u : Bool) : versionOf u < 18446744073709551616 := by
  cases u <;> decide

/-- bytes of `write_index` -/
def indexBytes (trie wt : Bytes) : Bytes :=
  le32 ((trie.length / 4) % 4294967296) ++ trie ++ le32 (wt.length % 4294967296) ++ wt

/-- everything `compile` writes before the lexicon section: header, POS table, matrix, index -/
def preBytes (c : CompileInput) : Bytes :=
  hdrBytes (versionOf c.user) c.time c.desc ++ posTableBytes (c.pos.drop c.startPos)
    ++ connBytes c.conn.numLeft.toNat c.conn.numRight.toNat c.conn.matrix ++ indexBytes c.trie (widTableBytes c.entries)

/-- the entries as `LexiconWriter::write` stores them (dictionary-form id through `storeDf`) -/
def storedEntries (c : CompileInput) : List Entry := c.entries.map (storeDf c.dfFix)

theorem storedEntries_length (c : CompileInput) : (storedEntries c).length = c.entries.length := by
  simp [storedEntries]

theorem storedEntries_get (c : CompileInput) (i : Nat) (e : Entry) (h : c.entries[i]? = some e) :
    (storedEntries c)[i]? = some (storeDf c.dfFix e) := by
  simp [storedEntries, h]

theorem widWord_lt (x : Nat) : widWord x < 4294967296 := by
  unfold widWord WORD_MASK
  have : x &&& 0x0fffffff ≤ 0x0fffffff := Nat.and_le_right
  omega

theorem storeDf_wf (f : Bool) (e : Entry) (h : e.WF) : (storeDf f e).WF := by
  unfold storeDf
  split
  · exact { hw := h.hw, nf := h.nf, rd := h.rd, key := h.key, pos := h.pos, df := widWord_lt _, a := h.a, b := h.b, ws := h.ws, syn := h.syn }
  · exact h

theorem storeDf_params (f : Bool) (e : Entry) : (storeDf f e).left = e.left ∧ (storeDf f e).right = e.right ∧ (storeDf f e).cost = e.cost := by
  unfold storeDf; split <;> exact ⟨rfl, rfl, rfl⟩

theorem storeDf_fields (f : Bool) (e : Entry) :
    (storeDf f e).headwordS = e.headwordS ∧ (storeDf f e).surface = e.surface ∧ (storeDf f e).pos = e.pos ∧
    (storeDf f e).normS = e.normS ∧ (storeDf f e).readingS = e.readingS ∧ (storeDf f e).splitsA = e.splitsA ∧
    (storeDf f e).splitsB = e.splitsB ∧ (storeDf f e).wordStructure = e.wordStructure ∧ (storeDf f e).synonyms = e.synonyms := by
  unfold storeDf; split <;> exact ⟨rfl, rfl, rfl, rfl, rfl, rfl, rfl, rfl, rfl⟩

/-- the code as it stands stores the raw id -/
theorem storeDf_cur (e : Entry) : storeDf false e = e := by simp [storeDf]

/-- a reference into dictionary 0 (every reference of a system dictionary) and `*` are stored unchanged by both variants -/
theorem storeDf_sys (f : Bool) (e : Entry) (h : e.dicForm = INVALID_WID ∨ widDic e.dicForm = 0) : storeDf f e = e := by
  unfold storeDf
  rcases h with h | h <;> simp [h]

theorem widNew_user (k : Nat) (h : k < 268435456) :
    widNew 1 k ≠ INVALID_WID ∧ widDic (widNew 1 k) = 1 ∧ widWord (widNew 1 k) = k := by
  have hk : k &&& 0x0fffffff = k := by
    have := Nat.and_two_pow_sub_one_eq_mod k 28
    simp at this; rw [this]; exact Nat.mod_eq_of_lt h
  have hw : widNew 1 k = 268435456 + k := by
    unfold widNew WORD_MASK
    rw [hk]
    have := Nat.shiftLeft_add_eq_or_of_lt (a := 1) (i := 28) (b := k) (by simpa using h)
    simp at this ⊢
    omega
  refine ⟨?_, ?_, ?_⟩
  · rw [hw]; unfold INVALID_WID; omega
  · rw [hw]; unfold widDic; rw [Nat.shiftRight_eq_div_pow]; simp; omega
  · rw [hw]; unfold widWord WORD_MASK
    have := Nat.and_two_pow_sub_one_eq_mod (268435456 + k) 28
    simp at this; rw [this]; omega

/-- the repaired writer stores `UN` as `N` -/
theorem storeDf_user (e : Entry) (k : Nat) (hk : k < 268435456) (h : e.dicForm = widNew 1 k) : (storeDf true e).dicForm = k := by
  obtain ⟨h1, h2, h3⟩ := widNew_user k hk
  unfold storeDf
  rw [h]
  simp [h1, h2, h3]

theorem storedEntries_ok (c : CompileInput) (h : ∀ e ∈ c.entries, e.WF ∧ ParamsOk e) : ∀ e ∈ storedEntries c, e.WF ∧ ParamsOk e := by
  intro e he
  simp only [storedEntries, List.mem_map] at he
  obtain ⟨e0, he0, rfl⟩ := he
  obtain ⟨p1, p2, p3⟩ := storeDf_params c.dfFix e0
  refine ⟨storeDf_wf _ _ (h e0 he0).1, ?_⟩
  have := (h e0 he0).2
  unfold ParamsOk at this ⊢
  rw [p1, p2, p3]; exact this

/-- the whole file -/
def fileBytes (c : CompileInput) : Bytes :=
  preBytes c ++ lexiconBytes (storedEntries c) ((storedEntries c).map encWordInfo) (preBytes c).length

/-- The limits of the binary format (and of the Rust types that feed it), as one predicate on the builder's
state.  Everything else `compile` checks is `validateEntries` (reference targets exist, connection ids below
the matrix sizes). -/
structure FileOk (c : CompileInput) : Prop where
  /-- description: at most 256 UTF-8 bytes -/
  desc : c.desc.length ≤ 256
  /-- creation time: `u64` seconds -/
  time : c.time < 18446744073709551616
  /-- POS rows added by this dictionary: `u16` count, six strings each, every string made of scalar values
  and at most 32767 UTF-16 units -/
  pos : PosOk (c.pos.drop c.startPos)
  /-- matrix sizes: non-negative `i16` -/
  nl0 : 0 ≤ c.conn.numLeft
  nl1 : c.conn.numLeft < 32768
  nr0 : 0 ≤ c.conn.numRight
  nr1 : c.conn.numRight < 32768
  /-- one `i16` per cell -/
  mat : c.conn.matrix.length = 2 * (c.conn.numLeft.toNat * c.conn.numRight.toNat)
  /-- entries: strings of scalar values with at most 32767 UTF-16 units, key at most 32767 bytes, `u16` POS id,
  `u32` ids, at most 127 items per array, `i16` parameters -/
  entries : ∀ e ∈ c.entries, e.WF ∧ ParamsOk e
  /-- at most 127 indexed entries per key -/
  wid : WidOk c.entries
  /-- the trie is an array of `u32` units -/
  trie : c.trie.length % 4 = 0
  /-- offsets are `u32`: the file is smaller than 4 GiB -/
  size : (fileBytes c).length < 4294967296

instance (c : Nat) : Decidable (IsScalar c) := by unfold IsScalar; infer_instance
instance (s : Str) : Decidable (Scalars s) := by unfold Scalars; infer_instance
instance (s : Str) : Decidable (StrOk s) := by unfold StrOk; infer_instance
instance (xs : List Nat) : Decidable (U32s xs) := by unfold U32s; infer_instance
instance (e : Entry) : Decidable (ParamsOk e) := by unfold ParamsOk; infer_instance
instance (ps : List (List Str)) : Decidable (PosOk ps) := by unfold PosOk; infer_instance
instance (es : List Entry) : Decidable (WidOk es) := by unfold WidOk; infer_instance

instance (e : Entry) : Decidable e.WF :=
  decidable_of_iff (StrOk e.headwordS ∧ StrOk e.normS ∧ StrOk e.readingS ∧ utf8LenStr e.surface ≤ 32767 ∧ e.pos < 65536 ∧
      e.dicForm < 4294967296 ∧ U32s e.splitsA ∧ U32s e.splitsB ∧ U32s e.wordStructure ∧ U32s e.synonyms)
    ⟨fun ⟨a, b, c, d, e, f, g, h, i, j⟩ => ⟨a, b, c, d, e, f, g, h, i, j⟩,
     fun w => ⟨w.hw, w.nf, w.rd, w.key, w.pos, w.df, w.a, w.b, w.ws, w.syn⟩⟩

/-- the limits are a decidable predicate -/
instance (c : CompileInput) : Decidable (FileOk c) :=
  decidable_of_iff (c.desc.length ≤ 256 ∧ c.time < 18446744073709551616 ∧ PosOk (c.pos.drop c.startPos) ∧
      0 ≤ c.conn.numLeft ∧ c.conn.numLeft < 32768 ∧ 0 ≤ c.conn.numRight ∧ c.conn.numRight < 32768 ∧
      c.conn.matrix.length = 2 * (c.conn.numLeft.toNat * c.conn.numRight.toNat) ∧
      (∀ e ∈ c.entries, e.WF ∧ ParamsOk e) ∧ WidOk c.entries ∧ c.trie.length % 4 = 0 ∧
      (fileBytes c).length < 4294967296)
    ⟨fun ⟨a, b, c, d, e, f, g, h, i, j, k, l⟩ => ⟨a, b, c, d, e, f, g, h, i, j, k, l⟩,
     fun w => ⟨w.desc, w.time, w.pos, w.nl0, w.nl1, w.nr0, w.nr1, w.mat, w.entries, w.wid, w.trie, w.size⟩⟩

theorem FileOk.connOk {c : CompileInput} (h : FileOk c) : ConnOk c.conn c.conn.numLeft.toNat c.conn.numRight.toNat :=
  { left := by have := h.nl0; omega, right := by have := h.nr0; omega,
    hl := by have := h.nl1; omega, hr := by have := h.nr1; omega, len := h.mat }

theorem writeLexicon_ok (es : List Entry) (h : ∀ e ∈ es, e.WF) (off : Nat) :
    writeLexicon es off = .ok (lexiconBytes es (es.map encWordInfo) off) := by
  unfold writeLexicon
  have : es.mapM writeWordInfo = .ok (es.map encWordInfo) := by
    apply mapM_ok
    intro e he
    have wf := h e he
    apply writeWordInfo_ok e wf
    have a := utf8LenStr_le e.headwordS
    have b := utf8LenStr_le e.normS
    have c := utf8LenStr_le e.readingS
    have := wf.hw.2; have := wf.nf.2; have := wf.rd.2
    omega
  simp only [this, bind, Outcome.bind, pure]

/-- `DictBuilder::compile` accepts every builder state within the limits whose references are valid, and
writes exactly `fileBytes` -/
theorem compile_ok (c : CompileInput) (hok : FileOk c)
    (hval : validateEntries c.dfOwn c.maxLeft c.maxRight c.numSystem c.entries = true) :
    compile c = .ok (fileBytes c) := by
  unfold compile
  simp only [hval, Bool.not_true, Bool.false_eq_true, if_false]
  have h1 := writeHeader_ok (versionOf c.user) c.time c.desc hok.desc
  have h2 := writePosTable_ok c.pos c.startPos hok.pos
  have h3 := writeConn_ok c.conn _ _ hok.connOk
  have h4 := buildWordIdTable_ok c.entries hok.wid
  unfold versionOf at h1
  simp only [h1, h2, h3, h4, bind, Outcome.bind]
  have hw := writeLexicon_ok (storedEntries c) (fun e he => (storedEntries_ok c hok.entries e he).1)
  unfold storedEntries at hw
  rw [hw]
  simp only [pure, fileBytes, preBytes, indexBytes, versionOf, storedEntries, List.length_append]

/-! ## loading the file -/

theorem parseHeader_shape (buf : Bytes) (v t : Nat) (desc rest : Bytes) (hb : buf = hdrBytes v t desc ++ rest)
    (hv : IsVersion v) (hv64 : v < 18446744073709551616) (ht : t < 18446744073709551616) (hd : desc.length ≤ 256) :
    parseHeader buf = .ok { version := v, createTime := t, description := desc.takeWhile (· ≠ 0) } := by
  subst hb; exact parseHeader_hdrBytes v t desc rest hv hv64 ht hd

theorem grammarParse_shape (buf hdr : Bytes) (fresh : List (List Str)) (nl nr : Nat) (matrix tail : Bytes)
    (hb : buf = hdr ++ posTableBytes fresh ++ connBytes nl nr matrix ++ tail)
    (hh : hdr.length = 272) (hp : PosOk fresh) (hl : nl < 32768) (hr : nr < 32768) (hm : matrix.length = 2 * (nl * nr)) :
    Grammar.parse buf 272 = .ok
      { posList := fresh, numLeft := nl, numRight := nr,
        connOff := 272 + (posTableBytes fresh).length + 4,
        storageSize := (posTableBytes fresh).length + 4 + matrix.length,
        bytes := buf } := by
  subst hb; exact grammarParse_file hdr fresh nl nr matrix tail hh hp hl hr hm

theorem lexiconParse_shape (buf a trie wt rest : Bytes) (o ts n : Nat) (hasSyn : Bool)
    (hb : buf = a ++ (le32 ts ++ (trie ++ (le32 wt.length ++ (wt ++ (le32 n ++ rest)))))) (ho : o = a.length)
    (ht : trie.length = 4 * ts) (hts : ts < 4294967296) (hws : wt.length < 4294967296) (hn : n < 4294967296)
    (hrest : 6 * n ≤ rest.length) :
    ∃ L, Lexicon.parse buf o hasSyn = .ok L ∧ L.bytes = buf ∧
      L.trieOff = a.length + 4 ∧ L.trieSize = ts ∧
      L.widTableOff = a.length + 4 + trie.length + 4 ∧ L.widTableSize = wt.length ∧
      L.paramsOff = a.length + 4 + trie.length + 4 + wt.length + 4 ∧ L.size = n ∧
      L.infosOff = a.length + 4 + trie.length + 4 + wt.length + 4 + 6 * n ∧ L.hasSynonyms = hasSyn := by
  subst hb; subst ho; exact lexiconParse_file a trie wt rest ts n hasSyn ht hts hws hn hrest

/-- what `read_any_dictionary` returns for the file -/
structure LoadedAs (c : CompileInput) (ld : Loaded) (g : Grammar) : Prop where
  header : ld.header = { version := versionOf c.user, createTime := c.time, description := c.desc.takeWhile (· ≠ 0) }
  grammar : ld.grammar = some g
  posList : g.posList = c.pos.drop c.startPos
  numLeft : g.numLeft = c.conn.numLeft.toNat
  numRight : g.numRight = c.conn.numRight.toNat
  /-- the matrix bytes start at the offset the grammar records -/
  conn : ∃ tail, g.bytes.drop g.connOff = c.conn.matrix ++ tail
  bytes : ld.lexicon.bytes = fileBytes c
  trie : (ld.lexicon.bytes.drop ld.lexicon.trieOff).take (4 * ld.lexicon.trieSize) = c.trie
  widTable : (ld.lexicon.bytes.drop ld.lexicon.widTableOff).take ld.lexicon.widTableSize = widTableBytes c.entries
  paramsOff : ld.lexicon.paramsOff = (preBytes c).length + 4
  size : ld.lexicon.size = (storedEntries c).length
  infosOff : ld.lexicon.infosOff = (preBytes c).length + 4 + 6 * (storedEntries c).length
  syn : ld.lexicon.hasSynonyms = true

theorem le32_flatMap_len (xs : List Nat) : (xs.flatMap le32).length = 4 * xs.length := le32_flatMap_length xs

/-- trie, word-id table and parameter array all lie inside the file -/
theorem fileBytes_length_ge (c : CompileInput) :
    c.trie.length + (widTableBytes c.entries).length + 6 * (storedEntries c).length ≤ (fileBytes c).length := by
  obtain ⟨rest, hshape, _⟩ := lexiconBytes_shape (storedEntries c) ((storedEntries c).map encWordInfo) (preBytes c).length
  simp only [fileBytes]
  rw [hshape]
  simp only [preBytes, indexBytes, List.length_append, encParams_flatMap_length]
  omega

/-- `read_any_dictionary (compile c)`: every section is found where the builder put it -/
theorem readAny_file (c : CompileInput) (hok : FileOk c) :
    ∃ ld g, readAny (fileBytes c) 0 = .ok ld ∧ LoadedAs c ld g := by
  obtain ⟨rest, hshape, hrest⟩ := lexiconBytes_shape (storedEntries c) ((storedEntries c).map encWordInfo) (preBytes c).length
  have hflen := fileBytes_length_ge c
  have hsize := hok.size
  have hdesc := hok.desc
  have hconn := hok.connOk
  have hhl := hdrBytes_length (versionOf c.user) c.time c.desc hok.desc
  obtain ⟨ts, hts⟩ : ∃ ts, c.trie.length = 4 * ts := ⟨c.trie.length / 4, by have := hok.trie; omega⟩
  have hts4 : c.trie.length / 4 = ts := by omega
  -- the three shapes of the file
  have sh1 : fileBytes c = hdrBytes (versionOf c.user) c.time c.desc ++
      (posTableBytes (c.pos.drop c.startPos) ++ (connBytes c.conn.numLeft.toNat c.conn.numRight.toNat c.conn.matrix
        ++ (indexBytes c.trie (widTableBytes c.entries) ++ lexiconBytes (storedEntries c) ((storedEntries c).map encWordInfo) (preBytes c).length))) := by
    simp only [fileBytes, preBytes, List.append_assoc]
  have sh2 : fileBytes c = hdrBytes (versionOf c.user) c.time c.desc ++ posTableBytes (c.pos.drop c.startPos)
      ++ connBytes c.conn.numLeft.toNat c.conn.numRight.toNat c.conn.matrix
      ++ (indexBytes c.trie (widTableBytes c.entries) ++ lexiconBytes (storedEntries c) ((storedEntries c).map encWordInfo) (preBytes c).length) := by
    simp only [fileBytes, preBytes, List.append_assoc]
  have hA : (hdrBytes (versionOf c.user) c.time c.desc ++ posTableBytes (c.pos.drop c.startPos)
      ++ connBytes c.conn.numLeft.toNat c.conn.numRight.toNat c.conn.matrix).length
      = 272 + ((posTableBytes (c.pos.drop c.startPos)).length + 4 + c.conn.matrix.length) := by
    simp only [List.length_append, hhl, connBytes, le16_length]; omega
  have m1 : (c.trie.length / 4) % 4294967296 = ts := by rw [hts4]; apply Nat.mod_eq_of_lt; omega
  have m2 : (widTableBytes c.entries).length % 4294967296 = (widTableBytes c.entries).length := by apply Nat.mod_eq_of_lt; omega
  have sh3 : fileBytes c = (hdrBytes (versionOf c.user) c.time c.desc ++ posTableBytes (c.pos.drop c.startPos)
      ++ connBytes c.conn.numLeft.toNat c.conn.numRight.toNat c.conn.matrix)
      ++ (le32 ts ++ (c.trie ++ (le32 (widTableBytes c.entries).length ++ (widTableBytes c.entries ++
          (le32 (storedEntries c).length ++ ((storedEntries c).flatMap encParams ++ rest)))))) := by
    rw [sh2, hshape]; simp only [indexBytes, m1, m2, List.append_assoc]
  have hpre : (preBytes c).length = 272 + ((posTableBytes (c.pos.drop c.startPos)).length + 4 + c.conn.matrix.length)
      + 4 + c.trie.length + 4 + (widTableBytes c.entries).length := by
    simp only [preBytes, indexBytes, List.length_append, le32_length] at hA ⊢
    omega
  -- header
  have hH := parseHeader_shape (fileBytes c) _ _ _ _ sh1 (versionOf_isVersion c.user) (versionOf_lt c.user) hok.time hok.desc
  -- grammar
  have hG := grammarParse_shape (fileBytes c) _ _ _ _ _ _ sh2 hhl hok.pos hconn.hl hconn.hr hconn.len
  -- lexicon
  obtain ⟨L, hL, hLb, hLt, hLts, hLw, hLws, hLp, hLn, hLi, hLs⟩ :=
    lexiconParse_shape (fileBytes c) _ c.trie (widTableBytes c.entries) ((storedEntries c).flatMap encParams ++ rest)
      (272 + ((posTableBytes (c.pos.drop c.startPos)).length + 4 + c.conn.matrix.length)) ts (storedEntries c).length true
      sh3 hA.symm hts (by omega) (by omega) (by omega) hrest
  have hgram : ({ version := versionOf c.user, createTime := c.time, description := c.desc.takeWhile (· ≠ 0) } : Header).hasGrammar = true := by
    cases c.user <;> rfl
  have hsyn : ({ version := versionOf c.user, createTime := c.time, description := c.desc.takeWhile (· ≠ 0) } : Header).hasSynonymGroupIds = true := by
    cases c.user <;> rfl
  refine ⟨{ header := { version := versionOf c.user, createTime := c.time, description := c.desc.takeWhile (· ≠ 0) },
             grammar := some { posList := c.pos.drop c.startPos, numLeft := c.conn.numLeft.toNat, numRight := c.conn.numRight.toNat,
                               connOff := 272 + (posTableBytes (c.pos.drop c.startPos)).length + 4,
                               storageSize := (posTableBytes (c.pos.drop c.startPos)).length + 4 + c.conn.matrix.length,
                               bytes := fileBytes c },
             lexicon := L },
           { posList := c.pos.drop c.startPos, numLeft := c.conn.numLeft.toNat, numRight := c.conn.numRight.toNat,
             connOff := 272 + (posTableBytes (c.pos.drop c.startPos)).length + 4,
             storageSize := (posTableBytes (c.pos.drop c.startPos)).length + 4 + c.conn.matrix.length,
             bytes := fileBytes c }, ?_, ?_⟩
  · unfold readAny
    simp only [List.drop_zero, hH, bind, Outcome.bind, hgram, if_true, HEADER_STORAGE_SIZE, Nat.reduceAdd, hG, hsyn, hL, pure]
  · refine { header := rfl, grammar := rfl, posList := rfl, numLeft := rfl, numRight := rfl, conn := ?_, bytes := hLb,
             trie := ?_, widTable := ?_, paramsOff := ?_, size := hLn, infosOff := ?_, syn := hLs }
    · refine ⟨indexBytes c.trie (widTableBytes c.entries) ++ lexiconBytes (storedEntries c) ((storedEntries c).map encWordInfo) (preBytes c).length, ?_⟩
      show (fileBytes c).drop (272 + (posTableBytes (c.pos.drop c.startPos)).length + 4) = _
      have : fileBytes c = (hdrBytes (versionOf c.user) c.time c.desc ++ posTableBytes (c.pos.drop c.startPos)
          ++ (le16 c.conn.numLeft.toNat ++ le16 c.conn.numRight.toNat)) ++ (c.conn.matrix ++
            (indexBytes c.trie (widTableBytes c.entries) ++ lexiconBytes (storedEntries c) ((storedEntries c).map encWordInfo) (preBytes c).length)) := by
        rw [sh2]; simp only [connBytes, List.append_assoc]
      rw [this]
      have hl : 272 + (posTableBytes (c.pos.drop c.startPos)).length + 4 = (hdrBytes (versionOf c.user) c.time c.desc ++ posTableBytes (c.pos.drop c.startPos)
          ++ (le16 c.conn.numLeft.toNat ++ le16 c.conn.numRight.toNat)).length := by
        simp only [List.length_append, hhl, le16_length]
      rw [hl, List.drop_left]
    · rw [hLb, hLt, hLts]
      exact region_mid (fileBytes c) (hdrBytes (versionOf c.user) c.time c.desc ++ posTableBytes (c.pos.drop c.startPos)
        ++ connBytes c.conn.numLeft.toNat c.conn.numRight.toNat c.conn.matrix ++ le32 ts) c.trie
        (le32 (widTableBytes c.entries).length ++ (widTableBytes c.entries ++ (le32 (storedEntries c).length ++ ((storedEntries c).flatMap encParams ++ rest))))
        _ _ (by rw [sh3]; simp only [List.append_assoc])
        (by simp only [List.length_append, le32_length] at hA ⊢ <;> omega) (by omega)
    · rw [hLb, hLw, hLws]
      exact region_mid (fileBytes c) (hdrBytes (versionOf c.user) c.time c.desc ++ posTableBytes (c.pos.drop c.startPos)
        ++ connBytes c.conn.numLeft.toNat c.conn.numRight.toNat c.conn.matrix ++ le32 ts ++ c.trie ++ le32 (widTableBytes c.entries).length)
        (widTableBytes c.entries) (le32 (storedEntries c).length ++ ((storedEntries c).flatMap encParams ++ rest))
        _ _ (by rw [sh3]; simp only [List.append_assoc])
        (by simp only [List.length_append, le32_length] at hA ⊢ <;> omega) rfl
    · rw [hLp, hpre, hA]
    · rw [hLi, hpre, hA]

/-! ## what the loaded dictionary answers -/

theorem takeWhile_no_zero (a : Bytes) (h : ∀ b ∈ a, b ≠ 0) : a.takeWhile (· ≠ 0) = a := by
  induction a with
  | nil => rfl
  | cons x xs ih =>
    have hx := h x (List.mem_cons_self ..)
    simp only [List.takeWhile_cons, hx, ne_eq, not_false_eq_true, decide_true, if_true]
    rw [ih (fun b hb => h b (List.mem_cons_of_mem _ hb))]

/-- every cell of the matrix, through `Grammar::conn_matrix().cost` -/
theorem cost_loaded (c : CompileInput) (ld : Loaded) (g : Grammar) (h : LoadedAs c ld g)
    (v : Nat → Nat → Int) (hv : Holds c.conn.matrix c.conn.numLeft.toNat c.conn.numRight.toNat v)
    (l r : Nat) (hl : l < c.conn.numLeft.toNat) (hr : r < c.conn.numRight.toNat) :
    g.cost l r = .ok (v l r) := by
  obtain ⟨tail, ht⟩ := h.conn
  unfold Grammar.cost connCost
  rw [h.numLeft, h.numRight, ht]
  have : ¬ (l ≥ c.conn.numLeft.toNat ∨ r ≥ c.conn.numRight.toNat) := by omega
  simp only [this, if_false, i16At_append _ tail _ _ (hv.2 l r hl hr)]

/-- the parameters of every entry, through `WordParams::get_params` -/
theorem params_loaded (c : CompileInput) (ld : Loaded) (g : Grammar) (h : LoadedAs c ld g)
    (i : Nat) (e : Entry) (hi : (storedEntries c)[i]? = some e) (hp : ParamsOk e) :
    ld.lexicon.getParams i = .ok (e.left, e.right, e.cost) := by
  obtain ⟨rest, hshape, _⟩ := lexiconBytes_shape (storedEntries c) ((storedEntries c).map encWordInfo) (preBytes c).length
  apply getParams_file ld.lexicon (preBytes c) (storedEntries c) rest _ h.paramsOff h.size i e hi hp
  rw [h.bytes, fileBytes, hshape]

/-- the record of every entry, through `WordInfos::parse_word_info` -/
theorem wordinfo_loaded (c : CompileInput) (ld : Loaded) (g : Grammar) (h : LoadedAs c ld g) (hok : FileOk c)
    (i : Nat) (e : Entry) (hi : (storedEntries c)[i]? = some e) :
    ld.lexicon.parseWordInfo i = .ok
      { surface := e.headwordS, headWordLength := utf8LenStr e.surface, posId := e.pos,
        normalizedForm := stored e.normS e.headwordS, dicFormWordId := u32ToI e.dicForm,
        readingForm := stored e.readingS e.headwordS, aUnitSplit := e.splitsA, bUnitSplit := e.splitsB,
        wordStructure := e.wordStructure, synonymGroupIds := e.synonyms } := by
  rw [parseWordInfo_congr ld.lexicon (lexAt (preBytes c) (storedEntries c)) h.bytes h.infosOff i]
  exact parseWordInfo_lexAt (preBytes c) (storedEntries c) (fun e he => (storedEntries_ok c hok.entries e he).1) hok.size i e hi

/-- `WordInfos::get_word_info` on the loaded lexicon = on the section alone -/
theorem getWordInfo_loaded (c : CompileInput) (ld : Loaded) (g : Grammar) (h : LoadedAs c ld g) (i : Nat) :
    ld.lexicon.getWordInfo i = (lexAt (preBytes c) (storedEntries c)).getWordInfo i :=
  getWordInfo_congr ld.lexicon (lexAt (preBytes c) (storedEntries c)) h.bytes h.infosOff h.syn i

theorem readKind_file (c : CompileInput) (ld : Loaded) (g : Grammar) (bytes : Bytes) (hr : readAny bytes 0 = .ok ld) (h : LoadedAs c ld g) :
    (if c.user then readUser bytes 0 else readSystem bytes 0) = .ok ld := by
  have hs : ld.header.isSystem = !c.user := by
    rw [h.header]; cases c.user <;> rfl
  unfold readUser readSystem
  simp only [hr, bind, Outcome.bind, hs]
  cases c.user <;> rfl

/-! ## the matrix TEXT (`ConnBuffer::read`) -/

/-- the triples of the non-blank lines of a matrix body (`none`: some line does not parse) -/
def lineTriples : List Str → Option (List (Int × Int × Int))
  | [] => some []
  | l :: rest =>
    if isEmptyLine l then lineTriples rest else
    match parseConnLine l with
    | some x => (lineTriples rest).map (x :: ·)
    | none => none

/-- the line loop of `ConnBuffer::read` is `write_elem` over the parsed lines in file order -/
theorem parseConnLines_eq (nl : Nat) (ls : List Str) : ∀ (t : List (Int × Int × Int)) (m : Bytes), lineTriples ls = some t →
    parseConnLines nl ls m = writeAll nl t m := by
  induction ls with
  | nil => intro t m h; simp [lineTriples] at h; subst h; rfl
  | cons l rest ih =>
    intro t m h
    unfold lineTriples at h
    unfold parseConnLines
    by_cases he : isEmptyLine l = true
    · simp only [he, if_true] at h ⊢
      exact ih t m h
    · simp only [he] at h ⊢
      cases hp : parseConnLine l with
      | none => rw [hp] at h; simp at h
      | some x =>
        obtain ⟨left, right, cost⟩ := x
        rw [hp] at h
        cases hr : lineTriples rest with
        | none => rw [hr] at h; simp at h
        | some t' =>
          rw [hr] at h; simp at h; subst h
          simp only [writeAll, Bool.false_eq_true, if_false]
          cases hw : writeElem m nl left right cost with
          | ok m' => exact ih t' m' hr
          | err k => rfl
          | panic w => rfl

end Codec
