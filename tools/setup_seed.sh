#!/bin/bash
# usage: setup_seed.sh Cxx [suffix]
set -e
P=$1; S=${2:-a}
D=/tmp/seed/${P}${S}
git -C /repo worktree remove --force $D/repo 2>/dev/null || true
rm -rf $D; mkdir -p $D/out
git -C /repo worktree add --detach $D/repo HEAD >/dev/null 2>&1
python3 - "$P" "$D" <<'PY'
import json,sys
P,D=sys.argv[1],sys.argv[2]
for l in open('/verif/properties.jsonl'):
    p=json.loads(l)
    if p['id']==P:
        txt=f"""Property {P}: {p['title']}

Statement: {p['statement']}

Quantified over: {p['quantifier']['text']}

Why the existing tests cannot settle it: {p['why_tests_cant']}
"""
        open(D+'/PROPERTY.txt','w').write(txt)
PY
cat > $D/PROMPT.md <<PROMPT
You are helping to evaluate how well a project's semantic properties are protected. The project is sudachi.rs (a Rust Japanese morphological analyzer: dictionary compiler/reader, Viterbi lattice tokenizer, input normalisation with offset mapping, plugins, Python bindings, CLI). You have your own scratch git worktree of the repository at \`$D/repo\` (work ONLY there and in \`$D/out\`; never touch /repo or any other directory; there is no network — build with \`cargo ... --offline\`).

The property is in \`$D/PROPERTY.txt\` — read it first.

Your task: write ONE realistic change to the Rust sources of the repository (the kind of slip a maintainer could make in a refactoring, an optimisation or a bug fix — not sabotage that any use would expose) that BREAKS this property while
  1. the whole workspace still compiles (\`cargo build --workspace --offline\`), and
  2. the existing test suite still passes completely: \`cd $D/repo && cargo test --workspace --no-fail-fast --offline\` (255 tests incl. one doctest; run it and check).
Prefer a change that needs something specific to manifest — an unusual input, a particular configuration or dictionary, a multi-step sequence of operations, a particular interleaving, a boundary value, or two cooperating sites that each look fine alone — rather than one that ordinary use would expose at once. Code behind \`#[cfg(feature = "verif")]\` is instrumentation: do not rely on it and do not edit it.

Also write a DEMONSTRATION: a Rust integration test file (e.g. \`sudachi/tests/seed_demo.rs\`, using only the crate's public API and the test resources already in the repository, or building a small dictionary in memory with \`sudachi::dic::build::DictBuilder\`) or a small program/script, which PASSES on the unchanged repository and FAILS with your change applied, and which shows the property being violated (not merely a behavioural difference). Verify both directions yourself.

Deliver into \`$D/out/\`:
  * \`patch.diff\` — \`git -C $D/repo diff\` of the breaking change ONLY (not the demonstration), applicable with \`git apply\` to the unchanged tree;
  * the demonstration file(s) plus \`demo.sh\` — a script that, run from the repository root of ANY checkout, copies the demonstration into place, runs it and exits 0 iff the property HOLDS (so it exits non-zero on the patched tree);
  * \`meta.json\` — {"property": "$P", "summary": one paragraph on what the change does and why it breaks the property, "needs": what is needed for it to manifest, "files": [changed files], "verified": the commands you ran and their outcome (suite passes with patch: yes/no; demo passes without patch, fails with patch)}.
Finally restore your worktree to the unchanged state (\`git -C $D/repo checkout -- . && git -C $D/repo clean -fd\`) and reply with the content of meta.json.
PROMPT
echo "ready $D"
