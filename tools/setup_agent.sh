#!/bin/bash
# usage: setup_agent.sh Cxx
set -e
P=$1
git -C /repo worktree remove --force /tmp/vw/$P/repo 2>/dev/null || true
rm -rf /tmp/vw/$P
mkdir -p /tmp/vw/$P
git clone -q /verif /tmp/vw/$P/verif
git -C /verif rev-parse HEAD > /tmp/vw/$P/BASE
git -C /repo worktree add --detach /tmp/vw/$P/repo HEAD >/dev/null 2>&1
sed -i "s#/repo/sudachi#/tmp/vw/$P/repo/sudachi#" /tmp/vw/$P/verif/harness/Cargo.toml
sed -i "s#/verif/.build/cargo#/tmp/vw/$P/verif/.build/cargo#" /tmp/vw/$P/verif/harness/.cargo/config.toml
# warm caches: lake traces are content-addressed, cargo deps are reused (the sudachi crate and the harness rebuild)
cp -r /verif/lean/.lake /tmp/vw/$P/verif/lean/.lake 2>/dev/null || true
cp -r /verif/.build /tmp/vw/$P/verif/.build 2>/dev/null || true
echo "ready /tmp/vw/$P"
