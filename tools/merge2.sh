#!/bin/bash
# usage: merge2.sh Cxx  — 3-way apply the clone's BASE..HEAD diff (excluding generated files) onto /verif
set -e
P=$1; src=/tmp/vw/$P/verif; BASE=$(cat /tmp/vw/$P/BASE)
cd $src
git diff $BASE HEAD -- . ':!MANIFEST.json' ':!evidence' ':!harness/Cargo.toml' ':!harness/.cargo' > /tmp/vw/$P/merge.patch
cd /verif
git apply --3way /tmp/vw/$P/merge.patch 2>&1 | tail -20
git status --short | head -30
