#!/usr/bin/env python3
import sys, os, re, shutil, subprocess
P = sys.argv[1]; p = P.lower()
src = f'/tmp/vw/{P}/verif'; dst = '/verif'
BASE = open(f'/tmp/vw/{P}/BASE').read().strip()
# new files
out = subprocess.run(['git','diff','--name-status',BASE,'HEAD'],cwd=src,capture_output=True,text=True).stdout
for line in out.splitlines():
    st, f = line.split('\t',1)
    if st == 'A' and (f.startswith('lean/Sudachi/') or f.startswith('harness/src/')):
        os.makedirs(os.path.dirname(os.path.join(dst,f)),exist_ok=True)
        shutil.copy(os.path.join(src,f), os.path.join(dst,f)); print('copied',f)
# registration: Sudachi.lean
def added_lines(f):
    d = subprocess.run(['git','diff',BASE,'HEAD','--',f],cwd=src,capture_output=True,text=True).stdout
    return [l[1:] for l in d.splitlines() if l.startswith('+') and not l.startswith('+++')]
s = open(f'{dst}/lean/Sudachi.lean').read()
for l in added_lines('lean/Sudachi.lean'):
    if l.strip() and l not in s: s += l + '\n'
open(f'{dst}/lean/Sudachi.lean','w').write(s)
# Driver
s = open(f'{dst}/lean/Sudachi/Driver.lean').read()
for l in added_lines('lean/Sudachi/Driver.lean'):
    if l.startswith('import') and l not in s:
        s = s.replace('/-! Line protocol', l + '\n/-! Line protocol')
    elif l.strip().startswith('| "'+P) :
        l2 = l.replace('_op','op')
        if l2 not in s:
            s = s.replace('    | _ => "bad-op"\n  | _ => "bad-op"', l2 + '\n    | _ => "bad-op"\n  | _ => "bad-op"')
open(f'{dst}/lean/Sudachi/Driver.lean','w').write(s)
# main.rs
s = open(f'{dst}/harness/src/main.rs').read()
if f'mod {p};' not in s:
    s = s.replace('mod common;', f'mod {p};\nmod common;')
    s = s.replace('        _ => { eprintln!("unknown property', f'        "{P}" => {p}::run(&mut run),\n        _ => {{ eprintln!("unknown property')
open(f'{dst}/harness/src/main.rs','w').write(s)
# PROPS entry
cs = open(f'{src}/check').read()
import re as _re
m = _re.search(r'(PROPS\["%s"\]\s*=\s*dict\(|"%s":\s*dict\()' % (P, P), cs)
i = m.start()
style_assign = cs[i:].startswith('PROPS[')
j = i; depth = 0
while True:
    c = cs[j]
    if c == '(': depth += 1
    elif c == ')':
        depth -= 1
        if depth == 0: break
    j += 1
entry = cs[i:j+1]
s = open(f'{dst}/check').read()
if f'"{P}": dict(' not in s and f'PROPS["{P}"]' not in s:
    if style_assign:
        s = s.replace('\nNOT_YET = {}', '\n' + entry + '\n\nNOT_YET = {}', 1)
    else:
        s = s.replace('PROPS = {\n', 'PROPS = {\n    ' + entry + ',\n', 1)
open(f'{dst}/check','w').write(s)
# known findings
kf = open(f'{src}/known_findings.txt').read().splitlines()
cur = open(f'{dst}/known_findings.txt').read()
for l in kf:
    if l.strip() and l not in cur and f'property={P} ' in l: cur += l + '\n'
open(f'{dst}/known_findings.txt','w').write(cur)
# other check differences
d = subprocess.run(['git','diff',BASE,'HEAD','--','check'],cwd=src,capture_output=True,text=True).stdout
print('--- check diff (non-PROPS lines):')
for l in d.splitlines():
    if (l.startswith('+') or l.startswith('-')) and not l.startswith('+++') and not l.startswith('---') and P not in l and 'level=' not in l and 'note=' not in l and 'tb=' not in l:
        print(l[:200])
