//! Detects optional verification hooks of the sudachi crate the harness is linked against.
//!
//! `c15_seq_hook`: `sudachi::plugin::path_rewrite::join_numeric::verif_parse_seq` exists (C15 op `seq`).
//! The harness has to compile against trees with and without the hook, so the calls are under
//! `#[cfg(c15_seq_hook)]` and this script looks into the source of the dependency named in Cargo.toml.
use std::path::{Path, PathBuf};

/// `path = "…"` of the `sudachi` dependency in the manifest text
fn sudachi_path(manifest: &str) -> Option<String> {
    for line in manifest.lines() {
        let l = line.trim_start();
        let rest = match l.strip_prefix("sudachi") {
            Some(r) => r.trim_start(),
            None => continue,
        };
        if !rest.starts_with('=') {
            continue;
        }
        let p = rest.find("path")?;
        let after = rest[p + 4..].trim_start();
        let after = after.strip_prefix('=')?.trim_start();
        let after = after.strip_prefix('"')?;
        let end = after.find('"')?;
        return Some(after[..end].to_string());
    }
    None
}

fn main() {
    println!("cargo:rustc-check-cfg=cfg(c15_seq_hook)");
    println!("cargo:rerun-if-changed=build.rs");
    println!("cargo:rerun-if-changed=Cargo.toml");
    let dir = PathBuf::from(std::env::var("CARGO_MANIFEST_DIR").unwrap_or_else(|_| ".".into()));
    let manifest = std::fs::read_to_string(dir.join("Cargo.toml")).unwrap_or_default();
    let path = match sudachi_path(&manifest) {
        Some(p) => p,
        None => {
            println!("cargo:warning=build.rs: no `path` of the sudachi dependency in Cargo.toml; optional hooks are treated as absent");
            return;
        }
    };
    let root = if Path::new(&path).is_absolute() { PathBuf::from(&path) } else { dir.join(&path) };
    let file = root.join("src/plugin/path_rewrite/join_numeric/mod.rs");
    println!("cargo:rerun-if-changed={}", file.display());
    let src = std::fs::read_to_string(&file).unwrap_or_default();
    if src.contains("pub fn verif_parse_seq") {
        println!("cargo:rustc-cfg=c15_seq_hook");
    }
}
