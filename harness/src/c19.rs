//! C19: the `sudachi` binary (and the Python extension, see `pyrun`) report what the library computes.
use crate::c01::world_for;
use crate::common::*;
use crate::dict::*;
use crate::world::*;
use std::collections::BTreeMap;
use std::process::Command;
use sudachi::analysis::stateful_tokenizer::StatefulTokenizer;
use sudachi::analysis::Mode;
use sudachi::dic::dictionary::JapaneseDictionary;
use sudachi::prelude::*;
use sudachi::sentence_splitter::{SentenceSplitter, SplitSentences};

const CASES_PER_WORLD: usize = 12;

#[derive(Clone)]
struct M {
    surface: String,
    pos: Vec<String>,
    norm: String,
    dform: String,
    reading: String,
    dict_id: i32,
    syn: Vec<u32>,
    oov: bool,
}

extern "C" {
    fn dup(fd: i32) -> i32;
    fn dup2(a: i32, b: i32) -> i32;
    fn close(fd: i32) -> i32;
}

/// runs `f` with file descriptor 1 redirected into a scratch file and returns what was printed (the debug tokenizer
/// prints with `println!`); the harness itself never writes to stdout while cases run
fn capture_stdout<R>(scratch: &std::path::Path, f: impl FnOnce() -> R) -> (R, Vec<u8>) {
    use std::io::Write;
    use std::os::unix::io::AsRawFd;
    let _ = std::io::stdout().flush();
    let file = std::fs::File::create(scratch).unwrap();
    let saved = unsafe { dup(1) };
    unsafe { dup2(file.as_raw_fd(), 1) };
    let r = f();
    let _ = std::io::stdout().flush();
    unsafe { dup2(saved, 1); close(saved); }
    drop(file);
    let out = std::fs::read(scratch).unwrap_or_default();
    (r, out)
}

fn tokenize_with(dic: &JapaneseDictionary, text: &str, mode: Mode, subset: Option<sudachi::dic::subset::InfoSubset>, debug: bool) -> Result<Vec<M>, String> {
    let r = catch(|| {
        let mut tok = StatefulTokenizer::create(dic, debug, mode);
        if let Some(s) = subset { tok.set_subset(s); }
        tok.reset().push_str(text);
        tok.do_tokenize().map_err(|e| err_class(&e))?;
        let mut ml = MorphemeList::empty(dic);
        ml.collect_results(&mut tok).map_err(|e| err_class(&e))?;
        Ok(ml
            .iter()
            .map(|m| M {
                surface: m.surface().to_string(),
                pos: m.part_of_speech().to_vec(),
                norm: m.normalized_form().to_string(),
                dform: m.dictionary_form().to_string(),
                reading: m.reading_form().to_string(),
                dict_id: m.dictionary_id(),
                syn: m.synonym_group_ids().to_vec(),
                oov: m.is_oov(),
            })
            .collect())
    });
    match r {
        Ok(x) => x,
        Err(p) => Err(format!("PANIC {}", p)),
    }
}

fn tokenize(dic: &JapaneseDictionary, text: &str, mode: Mode) -> Result<Vec<M>, String> {
    tokenize_with(dic, text, mode, None, false)
}

fn sentences(dic: &JapaneseDictionary, text: &str) -> Vec<String> {
    let sp = SentenceSplitter::new().with_checker(dic.lexicon());
    sp.split(text).map(|(_, s)| s.to_string()).collect()
}

fn fmt_simple(all: bool, ms: &[M]) -> String {
    let mut s = String::new();
    for m in ms {
        s.push_str(&m.surface);
        s.push('\t');
        s.push_str(&m.pos.join(","));
        s.push('\t');
        s.push_str(&m.norm);
        if all {
            s.push_str(&format!("\t{}\t{}\t{}\t{:?}", m.dform, m.reading, m.dict_id, m.syn));
            if m.oov { s.push_str("\t(OOV)"); }
        }
        s.push('\n');
    }
    s.push_str("EOS\n");
    s
}

fn fmt_wakati(ms: &[M]) -> String {
    if ms.is_empty() { return "\n".into(); }
    let mut s = ms.iter().map(|m| m.surface.clone()).collect::<Vec<_>>().join(" ");
    s.push('\n');
    s
}

/// the documented behaviour: line terminator (LF or CRLF) removed, then analysed
fn strip_spec(line: &str) -> &str {
    let l = line.strip_suffix('\n').unwrap_or(line);
    if line.ends_with('\n') { l.strip_suffix('\r').unwrap_or(l) } else { l }
}

/// the code as it stands (`len > 1` guards)
fn strip_cur(line: &str) -> &str {
    let b = line.as_bytes();
    let mut len = b.len();
    if len > 1 && b[len - 1] == b'\n' {
        len -= 1;
        if len > 1 && b[len - 1] == b'\r' { len -= 1; }
    }
    &line[..len]
}

/// the documented behaviour computed from the library: (output, failed). A text the library rejects ends the run:
/// everything analysed before it is reported, nothing after it.
fn expected(dic: &JapaneseDictionary, file: &str, wakati: bool, all: bool, mode: Mode, split: &str, strip: fn(&str) -> &str) -> (String, bool) {
    let mut out = String::new();
    for line in file.split_inclusive('\n') {
        let t = strip(line);
        match split {
            "only" => for s in sentences(dic, t) { out.push_str(&s); },
            "none" => match tokenize(dic, t, mode) {
                Ok(ms) => out.push_str(&if wakati { fmt_wakati(&ms) } else { fmt_simple(all, &ms) }),
                Err(_) => return (out, true),
            },
            _ => for s in sentences(dic, t) {
                match tokenize(dic, &s, mode) {
                    Ok(ms) => out.push_str(&if wakati { fmt_wakati(&ms) } else { fmt_simple(all, &ms) }),
                    Err(_) => return (out, true),
                }
            },
        }
    }
    (out, false)
}

fn enc_morph(m: &M) -> String {
    format!(
        "{}/{}/{}/{}/{}/{}/{}/{}",
        hex(m.surface.as_bytes()), m.pos.iter().map(|p| hex(p.as_bytes())).collect::<Vec<_>>().join("+"), hex(m.norm.as_bytes()),
        hex(m.dform.as_bytes()), hex(m.reading.as_bytes()), m.dict_id, join(m.syn.iter(), "+"), if m.oov { 1 } else { 0 }
    )
}


// ---------------------------------------------------------------------------------------------
// Python extension: call sequences compared with the library
// ---------------------------------------------------------------------------------------------

fn py_pkg() -> String {
    let root = std::env::var("VERIF_ROOT").unwrap_or_else(|_| "/verif".to_string());
    format!("{}/.build/py/pkg", root)
}

fn py_script() -> String {
    let root = std::env::var("VERIF_ROOT").unwrap_or_else(|_| "/verif".to_string());
    format!("{}/pyharness/run_calls.py", root)
}

fn mode_str(m: Mode) -> &'static str {
    match m { Mode::A => "A", Mode::B => "B", Mode::C => "C" }
}

fn dump_list(ml: &MorphemeList<&JapaneseDictionary>, text: &str) -> serde_json::Value {
    match catch(|| dump_list_raw(ml, text)) {
        Ok(v) => v,
        Err(p) => serde_json::json!({"harness_sim_panic": p}),
    }
}

fn dump_list_raw(ml: &MorphemeList<&JapaneseDictionary>, text: &str) -> serde_json::Value {
    let chars: Vec<char> = text.chars().collect();
    let mut out = vec![];
    for m in ml.iter() {
        let (b, e) = (m.begin_c(), m.end_c());
        let raw = m.surface().to_string();
        let slice_ok = b <= e && e <= chars.len() && chars[b..e].iter().collect::<String>() == raw;
        // the raw WordInfo as python/src/word_info.rs converts it (empty forms -> headword, ids as raw 32-bit word ids)
        let wi = m.get_word_info();
        let wi = serde_json::json!({
            "surface": wi.surface(), "hwl": wi.head_word_length(), "len": wi.head_word_length(), "pos_id": wi.pos_id(),
            "norm": wi.normalized_form(), "dfid": wi.dictionary_form_word_id(),
            "dform": wi.dictionary_form(), "read": wi.reading_form(),
            "a": wi.a_unit_split().iter().map(|w| w.as_raw()).collect::<Vec<u32>>(),
            "b": wi.b_unit_split().iter().map(|w| w.as_raw()).collect::<Vec<u32>>(),
            "ws": wi.word_structure().iter().map(|w| w.as_raw()).collect::<Vec<u32>>(),
            "syn": wi.synonym_group_ids(),
        });
        out.push(serde_json::json!({
            "wi": wi,
            "b": b, "e": e, "s": raw, "raw": raw, "pos": m.part_of_speech(),
            "norm": m.normalized_form(), "dform": m.dictionary_form(), "read": m.reading_form(),
            "did": m.dictionary_id(), "wid": m.word_id().as_raw(), "oov": m.is_oov(), "len": e - b,
            "syn": m.synonym_group_ids(), "slice_ok": slice_ok,
        }));
    }
    serde_json::Value::Array(out)
}


/// identity of a result node for the session model: begin/end in characters and bytes of the normalised text, packed
fn node_ids(ml: &MorphemeList<&JapaneseDictionary>) -> Vec<u64> {
    ml.iter().map(|m| { let (bc, ec, bb, eb) = m.verif_node_range(); (bc as u64) | ((ec as u64) << 16) | ((bb as u64) << 32) | ((eb as u64) << 48) }).collect()
}

fn enc_ids(v: &[u64]) -> String { if v.is_empty() { "-".to_string() } else { join(v.iter(), ",") } }

fn dots(v: &[usize]) -> String { if v.is_empty() { "-".to_string() } else { v.iter().map(|x| x.to_string()).collect::<Vec<_>>().join(".") } }

/// index tables of an input buffer (the content of a list's cell), for the read model
fn enc_tabs(tag: usize, t: &sudachi::input_text::VerifTables) -> String {
    format!("{}:{}:{}:{}:{}:{}", tag, hex(t.original.as_bytes()), hex(t.modified.as_bytes()), dots(&t.m2o), dots(&t.mod_c2b), dots(&t.m2o_2))
}

/// what the RUST LIBRARY reads from every morpheme of a (possibly stale) list: begin_c / end_c / surface, `!` = panic
fn lib_reads(ml: &MorphemeList<&JapaneseDictionary>) -> String {
    let n = ml.len();
    let items: Vec<String> = (0..n).map(|i| lib_read_one(ml, i)).collect();
    format!("{}[{}]", n, items.join(","))
}

fn lib_read_one(ml: &MorphemeList<&JapaneseDictionary>, i: usize) -> String {
    if i >= ml.len() { return "!:!:!".to_string(); }
    let b = catch(|| ml.get(i).begin_c()).map_or("!".to_string(), |x| x.to_string());
    let e = catch(|| ml.get(i).end_c()).map_or("!".to_string(), |x| x.to_string());
    let sf = catch(|| hex(ml.get(i).surface().as_bytes())).unwrap_or("!".to_string());
    format!("{}:{}:{}", b, e, sf)
}

fn mode_num(m: Mode) -> usize { match m { Mode::C => 0, Mode::A => 1, Mode::B => 2 } }

/// one Python session: a script of calls, the library's expected answers, the comparison
fn py_session(run: &mut Run, idx: usize, rng: &mut Rng, w: &World) {
    use sudachi::dic::subset::InfoSubset;
    let dic = &w.dic;
    let create_mode = mode_of(rng.below(3));
    let ncalls = rng.range(4, 14);
    let mut calls: Vec<serde_json::Value> = vec![];
    let mut expect: Vec<Option<serde_json::Value>> = vec![]; // None = only "no crash" is required
    let mut lists: Vec<(MorphemeList<&JapaneseDictionary>, String)> = vec![];
    // IN-PROCESS MIRROR: `lists` are real `MorphemeList`s on which every call is repeated through the Rust API, so they
    // share input cells exactly as Python's lists do and the library's own answer for every list - stale ones included -
    // is the oracle.  SIMULATION (cross-check of the Lean session model only): `group` = which lists share a cell,
    // `stale` = the list's morphemes were made for a text its cell no longer holds.
    let mut group: Vec<usize> = vec![];
    let mut stale: Vec<bool> = vec![];
    let mut next_group = 0usize;
    let mut kept = 0usize;
    // the session as the Lean model replays it: one entry per state-changing call, the tables of every cell content
    let mut enc: Vec<String> = vec![];
    let mut enc_of_call: Vec<Option<usize>> = vec![];
    let mut tabs: Vec<String> = vec![];
    let mut keeps: Vec<String> = vec![];
    let mut kept_objs: Vec<(usize, usize)> = vec![];             // (list, index) of the Morpheme objects Python keeps
    let mut snaps: Vec<(Vec<usize>, Vec<bool>, Vec<String>, Vec<String>)> = vec![];   // after every encoded call
    // modelled glue calls: (call number, function, payload for the model); the implementation's answer is read off the
    // Python result of that call afterwards
    let mut glue: Vec<(usize, &'static str, String)> = vec![];
    let field_names = ["surface", "pos", "pos_id", "normalized_form", "dictionary_form", "reading_form", "word_structure", "split_a", "split_b", "synonym_group_id"];
    for _ in 0..ncalls {
        let mut this_enc: Option<String> = None;
        'it: {
        // (kinds: 0-4 tokenize, 5-7 split, 8 lookup, 9 stale read, 10-13 glue shapes)
        let kind = rng.below(14);
        if kind >= 10 {
            let fresh: Vec<usize> = (0..lists.len()).filter(|&j| !stale[j]).collect();
            if kind == 12 || fresh.is_empty() {
                // ---- Dictionary.create(mode, fields) + one text ----
                let bad_mode = rng.chance(1, 8);
                let m = mode_of(rng.below(3));
                let fields: Option<Vec<String>> = if rng.chance(1, 4) { None } else {
                    let mut f: Vec<String> = field_names.iter().filter(|_| rng.chance(1, 3)).map(|x| x.to_string()).collect();
                    if rng.chance(1, 8) { f.push("reading".to_string()); }
                    Some(f)
                };
                // the text contains a dictionary word whose reading / normalised form differs from its surface (otherwise the
                // accessors fall back to the surface and a wrong field mapping is invisible)
                let marked: Vec<&Row> = w.lex.rows.iter().filter(|r| r.left >= 0 && (r.reading != r.surface || r.norm != r.surface)).collect();
                let mut text = gen_text(rng, w, 6);
                if !marked.is_empty() { for _ in 0..2 { text.push_str(&rng.pick(&marked).surface); } }
                calls.push(serde_json::json!({"op": "create", "mode": if bad_mode { "X" } else { mode_str(m) }, "fields": fields, "text": text}));
                expect.push(None);
                let modebits = match m { Mode::A => 64, Mode::B => 128, Mode::C => 0 };
                glue.push((calls.len() - 1, "create", format!("f=create modeok={} modebits={} fields={}", !bad_mode as u8, modebits, fields.as_ref().map_or("-".to_string(), |f| f.join("+")))));
                // mirror: the list Python appends on success (harness-side mapping of the names, real set_subset)
                let mapped: Option<u32> = match &fields {
                    None => Some(InfoSubset::all().bits()),
                    Some(f) => f.iter().map(|n| match n.as_str() {
                        "surface" => Some(1u32), "pos" | "pos_id" => Some(4), "normalized_form" => Some(8), "dictionary_form" => Some(16), "reading_form" => Some(32),
                        "word_structure" => Some(256), "split_a" => Some(64), "split_b" => Some(128), "synonym_group_id" => Some(512), _ => None,
                    }).fold(Some(0u32), |a, b| match (a, b) { (Some(a), Some(b)) => Some(a | b), _ => None }),
                };
                if let (false, Some(bits)) = (bad_mode, mapped) {
                    let mut tok = StatefulTokenizer::create(dic, false, m);
                    tok.set_subset(InfoSubset::from_bits_truncate(bits));
                    tok.reset().push_str(&text);
                    if tok.do_tokenize().is_ok() {
                        tabs.push(enc_tabs(enc.len(), &tok.verif_input().verif_tables()));
                        let mut ml = MorphemeList::empty(dic);
                        ml.collect_results(&mut tok).unwrap();
                        let eff = ml.subset().bits();
                        let d = dump_list(&ml, &text);
                        glue.last_mut().unwrap().2.push_str(&format!(" #eff={} #dump={}", eff, hex(d.to_string().as_bytes())));
                        // for the session model: a tokenize call with a mode override into a new list (the second tokenizer's
                        // buffer plays no role for the lists)
                        this_enc = Some(format!("T@{}@-@{}@{}", mode_num(m), text.len(), enc_ids(&node_ids(&ml))));
                        lists.push((ml, text.clone())); group.push(next_group); next_group += 1; stale.push(false);
                    } else {
                        glue.last_mut().unwrap().2.push_str(" #liberr=1");
                    }
                }
                run.bump("python-create-with-fields");
                break 'it;
            }
            let l = *rng.pick(&fresh);
            let n = lists[l].0.len();
            if kind == 11 && n > 0 {
                // ---- Morpheme.split with out = own list / a mode that is none / add_single left out ----
                let index = rng.below(n);
                let mode = mode_of(rng.below(3));
                let variant = rng.below(3);
                let mut scratch = lists[l].0.empty_clone();
                let splitted = lists[l].0.split_into(mode, index, &mut scratch).unwrap_or(false);
                let nsplits = if splitted { scratch.len() } else { 0 };
                let unit_ids = node_ids(&scratch);
                let (out_s, mode_ok) = match variant { 0 => ("own", true), 1 => ("none", false), _ => ("none", true) };
                calls.push(serde_json::json!({"op": "splitx", "list": l, "index": index, "mode": if mode_ok { mode_str(mode) } else { "X" },
                    "out": if variant == 0 { Some("own") } else { None }, "add_single": serde_json::Value::Null}));
                expect.push(None);
                glue.push((calls.len() - 1, "split", format!("f=split modeok={} out={} add=- indexok=1 nsplits={} stale=0", mode_ok as u8, out_s, nsplits)));
                this_enc = Some(format!("S@{}@{}@{}{}@{}@-@{}@0", l, index, mode_ok as u8, mode_num(mode), if variant == 0 { l.to_string() } else { "-".to_string() }, enc_ids(&unit_ids)));
                if variant == 2 {
                    // succeeds: Python appends the result; add_single defaults to True in the binding
                    if !splitted { lists[l].0.copy_slice(index, index + 1, &mut scratch); }
                    let text = lists[l].1.clone();
                    lists.push((scratch, text)); group.push(group[l]); stale.push(stale[l]);
                }
                run.bump("python-split-argument-shapes");
                break 'it;
            }
            // ---- MorphemeList.__getitem__ / iteration ----
            let arg: serde_json::Value = match rng.below(8) {
                0 => serde_json::json!("slice"), 1 => serde_json::json!("str"), 2 => serde_json::json!("huge"),
                3 => serde_json::json!(n as i64), 4 => serde_json::json!(-(n as i64) - 1),
                5 => serde_json::json!(-(rng.below(n + 1) as i64)),
                _ => serde_json::json!(rng.below(n + 2) as i64 - 1),
            };
            calls.push(serde_json::json!({"op": "index", "list": l, "arg": arg}));
            expect.push(None);
            glue.push((calls.len() - 1, "getitem", format!("f=getitem len={} arg={}", n, arg.as_str().map_or(arg.to_string(), |s| s.to_string()))));
            run.bump("python-getitem");
            break 'it;
        }
        if kind < 5 || lists.is_empty() {
            // one call in ten is rejected by the library (input longer than 49149 bytes): the binding must turn that
            // into an exception and leave the tokenizer as it was (mode override restored); texts at the limit itself
            // (49149 bytes accepted, 49150 rejected) are directed shapes
            let text = if rng.chance(1, 8) { String::new() } else if rng.chance(1, 10) {
                // (a 16 383-morpheme ACCEPTED text is left to C10/C03: every later state of the session would carry its reads)
                match rng.below(4) { 0 => format!("{}a", "あ".repeat(16383)), 1 => "あ".repeat(300 + rng.below(300)), _ => "あ".repeat(16400 + rng.below(50)) }
            } else { gen_text(rng, w, 10) };
            let ov = if rng.chance(1, 3) { Some(mode_of(rng.below(3))) } else { None };
            let out = if !lists.is_empty() && rng.chance(1, 3) { Some(rng.below(lists.len())) } else { None };
            let keep = rng.chance(1, 4);
            let eff = ov.unwrap_or(create_mode);
            let mut tok = StatefulTokenizer::create(dic, false, eff);
            tok.reset().push_str(&text);
            let ok = tok.do_tokenize().is_ok();
            calls.push(serde_json::json!({"op": "tokenize", "text": text, "mode": ov.map(mode_str), "out": out, "keep": keep}));
            run.bump(if text.len() == 49150 { "python-tokenize:rejected-at-limit+1" } else if text.len() > 49149 { "python-tokenize:rejected" } else if text.len() > 800 { "python-tokenize:long" } else if text.is_empty() { "python-tokenize:empty" } else { "python-tokenize:plain" });
            if out.is_some() { run.bump("python-tokenize-with-out"); }
            if let Some(i) = out { if (0..lists.len()).any(|j| j != i && group[j] == group[i]) { run.bump("python-tokenize-into-shared-cell"); } if stale[i] { run.bump("python-tokenize-into-stale-list"); } }
            if !ok {
                this_enc = Some(format!("T@{}@{}@{}@-", ov.map_or("-".to_string(), |m| mode_num(m).to_string()), out.map_or("-".to_string(), |o| o.to_string()), text.len()));
                expect.push(Some(serde_json::json!({"err": true, "mode": mode_str(create_mode)})));
                break 'it;
            }
            if text.len() < 2000 { tabs.push(enc_tabs(enc.len(), &tok.verif_input().verif_tables())); }
            let mut ml = match out { Some(i) => std::mem::replace(&mut lists[i].0, MorphemeList::empty(dic)), None => MorphemeList::empty(dic) };
            ml.collect_results(&mut tok).unwrap();
            let d = dump_list(&ml, &text);
            let n = ml.len();
            this_enc = Some(format!("T@{}@{}@{}@{}", ov.map_or("-".to_string(), |m| mode_num(m).to_string()), out.map_or("-".to_string(), |o| o.to_string()), text.len(), enc_ids(&node_ids(&ml))));
            match out {
                Some(i) => {
                    lists[i] = (ml, text.clone());
                    for j in 0..lists.len() { if j != i && group[j] == group[i] { stale[j] = true; } }
                    stale[i] = false;
                }
                None => { lists.push((ml, text.clone())); group.push(next_group); next_group += 1; stale.push(false); }
            }
            if keep && n > 0 { kept += 1; keeps.push(format!("{}:{}", enc.len(), n - 1)); kept_objs.push((out.unwrap_or(lists.len() - 1), n - 1)); }
            {
                let ml = &lists[out.unwrap_or(lists.len() - 1)].0;
                if text.len() < 400 {
                    glue.push((calls.len() - 1, "offsets", format!("f=offsets text={} spans={}", hex(text.as_bytes()), ml.iter().map(|m| format!("{}:{}", m.begin(), m.end())).collect::<Vec<_>>().join(","))));
                }
                // the library's own answer (it may panic: i32 overflow, see the model) rides along for the oracle
                let lib_cost = catch(|| ml.get_internal_cost()).map_or("exc:PanicException".to_string(), |c| format!("ok:{}", c));
                if lib_cost.starts_with("exc") { run.bump("library-get_internal_cost-overflows"); }
                glue.push((calls.len() - 1, "cost", format!("f=cost totals={} #lib={}", ml.iter().map(|m| m.total_cost().to_string()).collect::<Vec<_>>().join(","), lib_cost)));
            }
            expect.push(Some(serde_json::json!({"ok": true, "mode": mode_str(create_mode), "ms": d, "n": n})));
        } else if kind < 8 {
            let mut l = rng.below(lists.len());
            if lists[l].0.len() == 0 { break 'it; }
            let mut index = rng.below(lists[l].0.len());
            let mut mode = mode_of(rng.below(3));
            // two times in three a morpheme that HAS units in the chosen mode is looked for (only then `split_into` re-points
            // the out list itself; otherwise `copy_slice` or nothing does)
            if rng.chance(2, 3) {
                let mut cands: Vec<(usize, usize, Mode)> = vec![];
                for (li, (ml, _)) in lists.iter().enumerate() {
                    if stale[li] { continue; }
                    for ix in 0..ml.len().min(12) { for m in [Mode::A, Mode::B] {
                        let mut sc = ml.empty_clone();
                        if catch(|| ml.split_into(m, ix, &mut sc)).map_or(false, |r| r.unwrap_or(false)) { cands.push((li, ix, m)); }
                    } }
                }
                if !cands.is_empty() { let c = *rng.pick(&cands); l = c.0; index = c.1; mode = c.2; run.bump("python-split-of-morpheme-with-units"); }
            }
            let add_single = rng.chance(1, 2);
            // `out=`: another list - unrelated (preferred: a list with a cell of its own), sharing the parent's cell, stale - is
            // reused for the result in half of the cases
            let outl = if rng.chance(1, 2) && lists.len() >= 2 {
                let foreign: Vec<usize> = (0..lists.len()).filter(|&o| o != l && group[o] != group[l]).collect();
                let o = if !foreign.is_empty() && rng.chance(2, 3) { *rng.pick(&foreign) } else { rng.below(lists.len()) };
                if o != l { Some(o) } else { None }
            } else { None };
            calls.push(serde_json::json!({"op": "split", "list": l, "index": index, "mode": mode_str(mode), "add_single": add_single, "out": outl}));
            if outl.is_some() { run.bump("python-split-with-out"); }
            if let Some(o) = outl { if group[o] == group[l] { run.bump("python-split-out-shares-parent-cell"); } }
            if stale[l] { run.bump("python-stale-split"); }
            // the call repeated on the mirror through the Rust API (a stale parent may make the unit iterator panic)
            let mut out = match outl { Some(o) => std::mem::replace(&mut lists[o].0, MorphemeList::empty(dic)), None => lists[l].0.empty_clone() };
            out.clear();
            let res = catch(|| lists[l].0.split_into(mode, index, &mut out));
            let unit_ids = node_ids(&out);
            let (splitted, unwinds) = match &res { Ok(Ok(b)) => (*b, false), _ => (false, true) };
            if unwinds { run.bump("python-split-unit-iterator-panics(stale parent)"); }
            this_enc = Some(format!("S@{}@{}@1{}@{}@{}@{}@{}", l, index, mode_num(mode), outl.map_or("-".to_string(), |o| o.to_string()), add_single as u8, enc_ids(&unit_ids), unwinds as u8));
            if !unwinds && add_single && !splitted { lists[l].0.copy_slice(index, index + 1, &mut out); }
            let wrote = unwinds || splitted || add_single;
            let text = lists[l].1.clone();
            let d = dump_list(&out, &text);
            let n = out.len();
            match outl {
                Some(o) => {
                    if wrote && !unwinds && group[o] != group[l] { run.bump("python-split-into-foreign-out"); if splitted { run.bump("python-split-units-into-foreign-out(assign_input)"); } }
                    // written: the reused list now points to the parent's cell (it is re-pointed, the cell it pointed to is
                    // untouched); nothing written: it is only cleared and keeps its own cell
                    let keep_text = lists[o].1.clone();
                    lists[o] = (out, if wrote { text } else { keep_text });
                    if wrote { group[o] = group[l]; stale[o] = stale[l]; }
                }
                None => { if !unwinds { lists.push((out, text)); group.push(group[l]); stale.push(stale[l]); } }
            }
            if unwinds || stale[l] { expect.push(None); } else {
                expect.push(Some(serde_json::json!({"ok": true, "mode": mode_str(create_mode), "ms": d, "n": n})));
            }
        } else if kind < 9 {
            // ---- Dictionary.lookup(surface, out=): the cell of `out` is rewritten in place, also when the call fails ----
            // user-dictionary words whose A/B units or word structure are `U` references: the raw word ids the binding hands out
            // (Morpheme.get_word_info()) carry the dictionary number in their upper bits only for such units
            let uref: Vec<&crate::dict::Row> = w.users.iter().flatten().filter(|r| r.left >= 0 && (r.split_a.contains('U') || r.split_b.contains('U') || r.wstruct.contains('U'))).collect();
            let q = if !uref.is_empty() && rng.chance(1, 3) { run.bump("python-lookup:user-word-with-U-references"); rng.pick(&uref).surface.clone() }
                else if rng.chance(1, 12) { "あ".repeat(16384 + rng.below(20)) } else if rng.chance(2, 3) { rng.pick(&w.lex.rows).surface.clone() } else { gen_text(rng, w, 3) };
            let outl = if !lists.is_empty() && rng.chance(1, 3) { Some(rng.below(lists.len())) } else { None };
            calls.push(serde_json::json!({"op": "lookup", "query": q, "out": outl}));
            if outl.is_some() { run.bump("python-lookup-with-out"); }
            if q.len() > 49149 { run.bump("python-lookup:rejected"); }
            let mut ml = match outl { Some(o) => std::mem::replace(&mut lists[o].0, MorphemeList::empty(dic)), None => MorphemeList::empty(dic) };
            ml.clear();
            let r = ml.lookup(&q, InfoSubset::all());
            let ok = r.is_ok();
            this_enc = Some(format!("L@{}@{}@{}@{}", outl.map_or("-".to_string(), |o| o.to_string()), q.len(), enc_ids(&node_ids(&ml)), ok as u8));
            if q.len() < 2000 {
                // the buffer `lookup` builds: no input-text plugin runs
                let mut ib = sudachi::input_text::InputBuffer::new();
                ib.reset().push_str(&q);
                if ib.start_build().is_ok() && ib.build(dic.grammar()).is_ok() { tabs.push(enc_tabs(enc.len(), &ib.verif_tables())); }
            }
            let d = dump_list(&ml, &q);
            let n = ml.len();
            match outl {
                Some(o) => {
                    lists[o] = (ml, q.clone());
                    for j in 0..lists.len() { if j != o && group[j] == group[o] { stale[j] = true; } }
                    stale[o] = false;
                }
                None => { if ok { lists.push((ml, q.clone())); group.push(next_group); next_group += 1; stale.push(false); } }
            }
            if ok { expect.push(Some(serde_json::json!({"ok": true, "mode": mode_str(create_mode), "ms": d, "n": n}))); }
            else { expect.push(Some(serde_json::json!({"err": true, "mode": mode_str(create_mode)}))); }
        } else {
            calls.push(serde_json::json!({"op": "stale"}));
            expect.push(None);
        }
        }
        if calls.len() > enc_of_call.len() {
            match this_enc.take() {
                Some(e) => {
                    enc_of_call.push(Some(enc.len()));
                    enc.push(e);
                    // the library's own reads of every list and of every kept morpheme after this call
                    snaps.push((group.clone(), stale.clone(), lists.iter().map(|l| lib_reads(&l.0)).collect(), kept_objs.iter().map(|(j, ix)| lib_read_one(&lists[*j].0, *ix)).collect()));
                }
                None => enc_of_call.push(None),
            }
        }
    }
    let _ = kept;
    let script = serde_json::json!({
        "pkg": py_pkg(), "config": w.wd.path.join("cfg.json"), "resource_dir": w.wd.path, "mode": mode_str(create_mode), "calls": calls,
    });
    let spath = w.wd.path.join("script.json");
    std::fs::write(&spath, serde_json::to_string(&script).unwrap()).unwrap();
    let outp = Command::new("python3").arg(py_script()).arg(&spath).output();
    run.bump("kind:python-session");
    run.bump_by("python-calls", calls.len() as u64);
    let line = format!("C19 pysession idx={} world={} create_mode={} calls={}", idx, w.desc.join("|"), mode_str(create_mode), serde_json::to_string(&calls).unwrap());
    let outp = match outp {
        Ok(o) => o,
        Err(e) => { run.fail_with_line(idx, &line, "c19:py:spawn", &format!("cannot start python3: {}", e)); return; }
    };
    let stdout = String::from_utf8_lossy(&outp.stdout).to_string();
    let got: Vec<serde_json::Value> = stdout.lines().filter_map(|l| serde_json::from_str(l).ok()).collect();
    let done = got.last().map_or(false, |v| v.get("done").is_some());
    if !outp.status.success() || !done || got.len() != calls.len() + 1 {
        run.fail_with_line(idx, &line, "c19:py:crash", &format!("interpreter did not survive the call sequence: status {:?}, {} of {} answers, stderr {}",
            outp.status.code(), got.len().saturating_sub(if done { 1 } else { 0 }), calls.len(), String::from_utf8_lossy(&outp.stderr).chars().rev().take(300).collect::<String>().chars().rev().collect::<String>()));
        return;
    }
    // ---- the session through the Lean model: sharing / staleness state and every read after every call ----
    {
        let payload = format!("rv={} mode={} calls={} kept={} tabs={}", crate::c10::impl_reset_variant(), mode_num(create_mode),
            if enc.is_empty() { "-".to_string() } else { enc.join("/") }, if keeps.is_empty() { "-".to_string() } else { keeps.join(",") },
            if tabs.is_empty() { "-".to_string() } else { tabs.join(";") });
        let mut states: Vec<String> = vec![];
        let mut read_fail: Option<String> = None;
        for (k, e) in enc_of_call.iter().enumerate() {
            let Some(e) = e else { continue };
            let g = &got[k];
            let (grp, stl, lib_lists, lib_kept) = &snaps[*e];
            let exc = g.get("exc").and_then(|x| x.as_str()).or_else(|| g.get("err").and_then(|x| x.as_str()));
            let ret = match exc { Some(c) => format!("exc:{}", c), None => format!("ok:{}", g["ret"]) };
            let all: Vec<String> = g["all"].as_array().map(|a| a.iter().map(|x| x.as_str().unwrap_or("?").to_string()).collect()).unwrap_or_default();
            let kept_py: Vec<String> = g["kept"].as_array().map(|a| a.iter().map(|x| x.as_str().unwrap_or("?").to_string()).collect()).unwrap_or_default();
            // canonical cell numbers of the simulation (first list of a cell names it)
            let mut firsts: Vec<usize> = vec![];
            for gno in grp.iter() { if !firsts.contains(gno) { firsts.push(*gno); } }
            let ls: Vec<String> = all.iter().enumerate().map(|(j, r)| {
                let canon = grp.get(j).map_or("?".to_string(), |gno| firsts.iter().position(|x| x == gno).unwrap().to_string());
                let flag = if r.starts_with("0[") { "-" } else if stl.get(j).copied().unwrap_or(false) { "s" } else { "f" };
                format!("c{}.{}.{}", canon, flag, r)
            }).collect();
            states.push(format!("{};{};{};k={}", ret, g["mode"].as_str().unwrap_or("?"), ls.join(","), kept_py.join(",")));
            // ORACLE: Python reads from every list (stale ones included) and every kept morpheme what the Rust library reads
            if read_fail.is_none() && (&all != lib_lists || &kept_py != lib_kept) {
                read_fail = Some(format!("after call {} {}: Python reads lists {:?} kept {:?}, the Rust library {:?} kept {:?}", k, calls[k].to_string().chars().take(200).collect::<String>(),
                    all.iter().map(|x| x.chars().take(120).collect::<String>()).collect::<Vec<_>>(), kept_py, lib_lists.iter().map(|x| x.chars().take(120).collect::<String>()).collect::<Vec<_>>(), lib_kept));
            }
            for (j, r) in all.iter().enumerate() { if !r.starts_with("0[") && stl.get(j).copied().unwrap_or(false) { run.bump("python-stale-list-read"); if r.contains('!') { run.bump("python-stale-list-read-raises"); } } }
            for r in kept_py.iter() { if r.contains('!') { run.bump("python-kept-morpheme-read-raises"); } }
        }
        run.bump_by("pysess-model-calls", enc.len() as u64);
        run.case(idx, "pysess", &payload, &format!("ok {}", states.join("|")), enc.len() >= 3);
        if let Some(wh) = read_fail { run.fail_with_line(idx, &line, "c19:py:reads", &wh); }
    }
    for (k, func, payload) in &glue {
        let g = &got[*k];
        let (model_payload, notes) = match payload.find(" #") { Some(p) => (&payload[..p], &payload[p..]), None => (&payload[..], "") };
        let exc = g.get("exc").and_then(|e| e.as_str()).map(|e| e.to_string()).or_else(|| g.get("err").and_then(|e| e.as_str()).map(|e| e.to_string()));
        let ans = match *func {
            "getitem" => {
                let head = match &exc {
                    Some(e) => format!("exc:{}", e),
                    None => {
                        let keys = g["keys"].as_array().cloned().unwrap_or_default();
                        // the returned morpheme is identified by (begin, end, word id); two morphemes can share that key
                        // (zero-length units of a clamped split), so the position Python semantics prescribe is tried first
                        let n = keys.len() as i64;
                        let wanted = calls[*k]["arg"].as_i64().map(|i| if i < 0 { i + n } else { i }).filter(|j| *j >= 0 && *j < n);
                        match wanted {
                            Some(j) if keys[j as usize] == g["key"] => format!("ok:{}", j),
                            _ => match keys.iter().position(|x| x == &g["key"]) { Some(p) => format!("ok:{}", p), None => "ok:?".to_string() },
                        }
                    }
                };
                format!("{} iter={}", head, g["iter"])
            }
            "split" => match &exc {
                Some(e) => format!("exc:{} out={}", e, if g["before"] == g["after"] { "untouched".to_string() } else { g["after"].to_string() }),
                None => format!("ok:{} out={}", g["n"], g["n"]),
            },
            "create" => match &exc {
                Some(e) => format!("exc:{}", e),
                None => {
                    // which effective subset reproduces what Python reports? (the harness's own mapping + the real set_subset)
                    let eff = notes.split(" #eff=").nth(1).and_then(|x| x.split(' ').next()).unwrap_or("?");
                    let dump = notes.split(" #dump=").nth(1).and_then(|x| x.split(' ').next()).unwrap_or("");
                    if hex(g["ms"].to_string().as_bytes()) == dump { format!("ok:{}", eff) } else { "ok:X".to_string() }
                }
            },
            "offsets" => g["ms"].as_array().map_or("?".to_string(), |ms| ms.iter().map(|m| format!("ok:{}:{}:{}", m["b"], m["e"], m["len"])).collect::<Vec<_>>().join(",")),
            "cost" => match g["cost"].as_str() { Some(e) => e.to_string(), None => format!("ok:{}", g["cost"]) },
            _ => "?".to_string(),
        };
        run.bump(&format!("pyglue:{}", func));
        run.case(idx, "pyglue", model_payload, &ans, true);
        // oracle: an exception class that is not one of the documented/ordinary ones, or a wrong element
        if *func == "cost" {
            let lib = notes.split(" #lib=").nth(1).unwrap_or("?");
            if lib != ans { run.fail(idx, "c19:py:cost", &format!("call {} {}: get_internal_cost() = {} but the library gives {}", k, calls[*k], ans, lib)); }
        }
        if let Some(e) = &exc {
            if !["IndexError", "TypeError", "OverflowError", "SudachiError", "Exception"].contains(&e.as_str()) {
                run.fail(idx, &format!("c19:py:exception:{}", func), &format!("call {} {} raised {}", k, calls[*k], e));
            }
        }
        if *func == "create" && ans == "ok:X" {
            run.fail(idx, "c19:py:fields", &format!("call {} {}: morphemes differ from the library's with the requested fields: {}", k, calls[*k], g["ms"].to_string().chars().take(300).collect::<String>()));
        }
        if *func == "getitem" {
            // Python sequence semantics for ints; anything else must raise
            let n = lists_len_at(model_payload);
            let a = &calls[*k]["arg"];
            let want = match a.as_i64() { Some(i) => { let j = if i < 0 { i + n } else { i }; if j < 0 || j >= n { "exc:IndexError".to_string() } else { format!("ok:{}", j) } } None => "exc".to_string() };
            if !ans.starts_with(&want) || !ans.ends_with(&format!("iter={}", n)) {
                run.fail(idx, "c19:py:getitem", &format!("call {} {}: {} (expected {} and {} iterated items)", k, calls[*k], ans, want, n));
            }
        }
    }
    for (k, exp) in expect.iter().enumerate() {
        let g = &got[k];
        let Some(exp) = exp else { continue };
        let what = if exp.get("err").is_some() {
            if g.get("err").is_none() { Some("library reports an error, Python returned a result".to_string()) } else { None }
        } else if g.get("err").is_some() {
            Some(format!("Python raised {} ({}) where the library succeeds", g["err"], g.get("msg").cloned().unwrap_or_default()))
        } else if g["ms"] != exp["ms"] {
            Some(format!("morphemes differ: python {} vs library {}", g["ms"].to_string().chars().take(300).collect::<String>(), exp["ms"].to_string().chars().take(300).collect::<String>()))
        } else if g["n"] != exp["n"] {
            Some(format!("len() = {} vs {}", g["n"], exp["n"]))
        } else { None };
        let mode_bad = g.get("mode").map_or(false, |m| m != &exp["mode"]);
        if let Some(wh) = what {
            run.fail_with_line(idx, &line, "c19:py:result", &format!("call {} {}: {}", k, calls[k], wh));
            return;
        }
        if mode_bad {
            run.fail_with_line(idx, &line, "c19:py:mode", &format!("after call {} {} the tokenizer's mode is {} (created with {})", k, calls[k], g["mode"], exp["mode"]));
            return;
        }
        if let Some(ms) = g["ms"].as_array() {
            if ms.iter().any(|m| m["slice_ok"] == serde_json::Value::Bool(false)) {
                run.fail_with_line(idx, &line, "c19:py:slice", &format!("call {}: text[begin:end] != raw_surface", k));
                return;
            }
        }
    }
    run.bump("python-session-ok");
}

/// surface projections (`Config.projection` of the dictionary x `projection=` of `Dictionary.create`): `surface()`/`str()` of
/// every morpheme = the EFFECTIVE projection (the per-tokenizer one if given, else the dictionary's, else the surface) applied
/// to the library's morpheme; `raw_surface()` and begin/end stay those of the surface.  Oracle only (key c19:py:projection).
fn py_projection_sweep(run: &mut Run, idx: usize, rng: &mut Rng, w: &World) {
    let projs = [None, Some("surface"), Some("normalized"), Some("reading"), Some("dictionary")];
    let base = w.cfg.replacen("{", &format!("{{\"systemDict\":\"system.dic\",\"userDict\":[{}],", (0..w.user_bins.len()).map(|i| format!("\"user{}.dic\"", i)).collect::<Vec<_>>().join(",")), 1);
    std::fs::write(w.wd.path.join("system.dic"), &w.system_bin).unwrap();
    for (i, u) in w.user_bins.iter().enumerate() { std::fs::write(w.wd.path.join(format!("user{}.dic", i)), u).unwrap(); }
    let mut cfgs = vec![];
    for p in projs.iter() {
        let name = format!("cfg_proj_{}.json", p.unwrap_or("none"));
        let text = match p { None => base.clone(), Some(p) => base.replacen("{", &format!("{{\"projection\":\"{}\",", p), 1) };
        w.wd.write(&name, &text);
        cfgs.push(w.wd.path.join(&name));
    }
    let marked: Vec<&Row> = w.lex.rows.iter().filter(|r| r.left >= 0 && (r.reading != r.surface || r.norm != r.surface || r.headword != r.surface)).collect();
    let mut cases = vec![];
    let mut meta = vec![];
    for (pi, p) in projs.iter().enumerate() {
        for q in projs.iter() {
            let mode = mode_of(rng.below(3));
            let mut text = gen_text(rng, w, 6);
            if !marked.is_empty() { for _ in 0..2 { text.push_str(&rng.pick(&marked).surface); } }
            cases.push(serde_json::json!({"cfg": cfgs[pi], "proj": q, "mode": mode_str(mode), "text": text}));
            meta.push((*p, *q, mode, text));
        }
    }
    let script = serde_json::json!({"pkg": py_pkg(), "resource_dir": w.wd.path, "cases": cases});
    let spath = w.wd.path.join("proj_script.json");
    std::fs::write(&spath, serde_json::to_string(&script).unwrap()).unwrap();
    let root = std::env::var("VERIF_ROOT").unwrap_or_else(|_| "/verif".to_string());
    let outp = Command::new("python3").arg(format!("{}/pyharness/run_proj.py", root)).arg(&spath).output();
    let outp = match outp { Ok(o) => o, Err(e) => { run.bump(&format!("projection-spawn-error:{}", e)); return; } };
    let got: Vec<serde_json::Value> = serde_json::from_slice(&outp.stdout).unwrap_or_default();
    if got.len() != meta.len() {
        run.fail(idx, "c19:py:projection:crash", &format!("the projection sweep ended early ({} of {} answers, status {:?}): {}", got.len(), meta.len(), outp.status.code(), String::from_utf8_lossy(&outp.stderr).chars().rev().take(300).collect::<String>().chars().rev().collect::<String>()));
        return;
    }
    for (k, (p, q, mode, text)) in meta.iter().enumerate() {
        let eff = q.or(*p).unwrap_or("surface");
        run.bump(&format!("python-projection:dict-{}:create-{}", p.unwrap_or("none"), q.unwrap_or("none")));
        let lib = match crate::dict::tokenize(&w.dic, text, *mode) { Ok(Ok(ms)) => ms, _ => { run.bump("python-projection:library-error-skipped"); continue; } };
        let g = &got[k];
        if g["ok"] != serde_json::Value::Bool(true) {
            run.fail(idx, "c19:py:projection", &format!("Dictionary(projection={:?}).create(projection={:?}).tokenize({:?}) raised {} {}", p, q, text, g["exc"], g["msg"]));
            return;
        }
        let want: Vec<serde_json::Value> = lib.iter().map(|m| {
            let s = match eff { "normalized" => m.norm.clone(), "reading" => m.reading.clone(), "dictionary" => m.dict_form.clone(), _ => m.surface.clone() };
            serde_json::json!([s, s, m.surface, m.begin_c, m.end_c])
        }).collect();
        if g["ms"] != serde_json::Value::Array(want.clone()) {
            run.fail(idx, "c19:py:projection", &format!("Dictionary(projection={:?}).create(mode {:?}, projection={:?}).tokenize({:?}): [surface(), str(), raw_surface(), begin, end] = {} but the effective projection `{}` of the library's morphemes gives {}",
                p, mode, q, text, g["ms"].to_string().chars().take(300).collect::<String>(), eff, serde_json::Value::Array(want).to_string().chars().take(300).collect::<String>()));
            return;
        }
    }
    run.bump("python-projection-sweep-ok");
}

fn lists_len_at(payload: &str) -> i64 {
    payload.split("len=").nth(1).and_then(|x| x.split(' ').next()).and_then(|x| x.parse().ok()).unwrap_or(-1)
}

pub fn cli_binary() -> String {
    let root = std::env::var("VERIF_ROOT").unwrap_or_else(|_| "/verif".to_string());
    format!("{}/.build/cli/debug/sudachi", root)
}

pub fn source_has_d14_fix() -> bool {
    let repo = std::env::var("VERIF_REPO").unwrap_or_else(|_| "/repo".to_string());
    let src = std::fs::read_to_string(format!("{}/sudachi-cli/src/main.rs", repo)).unwrap_or_default();
    !src.contains("len > 1 && bytes[len - 1] == b'\\n'")
}

pub fn run(run: &mut Run) {
    // over-long input lines (16 384+ characters) with both subset tables make legitimate case lines of ~4 MB
    run.max_payload = 24_000_000;
    run.rule = "CLI: random worlds x multi-line files (blank lines, CRLF, no final newline, long/short lines) x {wakati, -a, mode A/B/C, \
--split-sentences default/only/none}; the real `sudachi` binary's stdout vs the model fed with the library's sentences and morphemes \
(computed in-process); non-trivial = file has >= 2 lines and produces output; distinct by line. Python: op pymode (mode override \
sequences) + call-sequence runs of the built extension (see extra.python).".into();
    let n = run.opts.count;
    let strip_variant = if source_has_d14_fix() { "fix" } else { "cur" };
    run.bump(&format!("strip-variant:{}", strip_variant));
    let bin = cli_binary();
    if !std::path::Path::new(&bin).exists() {
        run.fail_with_line(0, "", "c19:no-binary", &format!("CLI binary {} was not built", bin));
        return;
    }
    let mut cur_world: Option<(usize, Result<World, String>)> = None;
    for idx in 0..n {
        if !run.wants(idx) { continue; }
        let mut rng = Rng::for_case(run.opts.seed, idx);
        // ---- Python mode-override sequences (model only + checked on the extension by pyrun) ----
        if idx % 6 == 5 {
            let modes = ["A", "B", "C"];
            let init = *rng.pick(&modes);
            let k = rng.range(0, 6);
            let calls: Vec<(Option<&str>, bool)> = (0..k).map(|_| (if rng.chance(1, 2) { Some(*rng.pick(&modes)) } else { None }, rng.chance(1, 4))).collect();
            let payload = format!("init={} calls={}", init, calls.iter().map(|(m, f)| format!("{}:{}", m.unwrap_or("-"), if *f { 1 } else { 0 })).collect::<Vec<_>>().join(","));
            // the specification of the binding: the creation mode survives, each call runs in its override or the creation mode
            let ans = format!("ok final={} ran={}", init, calls.iter().map(|(m, _)| m.unwrap_or(init)).collect::<Vec<_>>().join(","));
            run.bump("kind:pymode");
            run.case(idx, "pymode", &payload, &ans, k >= 2);
            continue;
        }
        let widx = idx / CASES_PER_WORLD;
        if cur_world.as_ref().map(|w| w.0) != Some(widx) {
            cur_world = None;
            let mut o = WorldOpts::default();
            o.always_fallback = true;
            o.user_compounds = true;
            let w = world_for(run.opts.seed, &run.prop.clone(), widx, &o);
            if let Ok(w) = &w {
                w.wd.write("cfg.json", &w.cfg.replacen("{", &format!("{{\"systemDict\":\"system.dic\",\"userDict\":[{}],", (0..w.user_bins.len()).map(|i| format!("\"user{}.dic\"", i)).collect::<Vec<_>>().join(",")), 1));
                std::fs::write(w.wd.path.join("system.dic"), &w.system_bin).unwrap();
                for (i, u) in w.user_bins.iter().enumerate() { std::fs::write(w.wd.path.join(format!("user{}.dic", i)), u).unwrap(); }
            }
            cur_world = Some((widx, w));
        }
        let w = match &cur_world.as_ref().unwrap().1 {
            Ok(w) => w,
            Err(e) => { run.bump(&format!("world-error:{}", e.chars().take(50).collect::<String>())); continue; }
        };
        if idx % 100 == 7 {
            if std::path::Path::new(&format!("{}/sudachipy/sudachipy.so", py_pkg())).exists() { py_projection_sweep(run, idx, &mut rng, w); }
            else { run.fail_with_line(idx, "", "c19:py:not-built", "the Python extension was not built"); }
            continue;
        }
        if idx % 15 == 3 {
            if std::path::Path::new(&format!("{}/sudachipy/sudachipy.so", py_pkg())).exists() {
                py_session(run, idx, &mut rng, w);
            } else {
                run.fail_with_line(idx, "", "c19:py:not-built", "the Python extension was not built");
            }
            continue;
        }
        // file
        let nlines = rng.range(1, 5);
        let mut file = String::new();
        let mut blank = false;
        let overlong_at = if rng.chance(1, 12) { Some(rng.below(nlines)) } else { None };
        let debug = rng.chance(1, 5);
        for li in 0..nlines {
            let body: String = if overlong_at == Some(li) {
                // a line the tokenizer rejects (more than 49149 bytes); with a terminator inside, the default mode may
                // still get through it sentence by sentence
                let mut b = "あ".repeat(16384 + rng.below(3));
                // (not with -d: the dumps of a 16 000-character sentence are huge and assumption A-BUF would not hold)
                if !debug && rng.chance(1, 6) { let k = 400 + rng.below(15000); b = b.chars().enumerate().map(|(i, c)| if i == k { '。' } else { c }).collect(); }
                b
            } else if rng.chance(1, 4) { String::new() } else { gen_text(&mut rng, w, 10).chars().filter(|c| *c != '\n' && *c != '\r').collect() };
            file.push_str(&body);
            // a line whose own content ends with (or is) a carriage return: only ONE optional CR before the LF is terminator
            if overlong_at != Some(li) && rng.chance(1, 8) { file.push('\r'); if rng.chance(1, 3) { file.push('\r'); } }
            let last = li + 1 == nlines;
            let term = if last && rng.chance(1, 3) { "" } else if rng.chance(1, 4) { "\r\n" } else { "\n" };
            if body.is_empty() && !term.is_empty() { blank = true; }
            file.push_str(term);
        }
        let wakati = rng.chance(1, 2);
        let all = rng.chance(1, 2);
        let mode = mode_of(rng.below(3));
        let split = *rng.pick(&["default", "default", "only", "none"]);
        let to_file = rng.chance(1, 4);
        let from_stdin = rng.chance(1, 4);
        let in_ok = from_stdin || !rng.chance(1, 40);
        let out_ok = !to_file || !rng.chance(1, 20);
        let fpath = w.wd.path.join("input.txt");
        let opath = if out_ok { w.wd.path.join("output.txt") } else { w.wd.path.join("no-such-dir").join("output.txt") };
        let _ = std::fs::remove_file(&opath);
        std::fs::write(&fpath, &file).unwrap();
        let mut cmd = Command::new(&bin);
        cmd.arg("-r").arg(w.wd.path.join("cfg.json")).arg("-p").arg(&w.wd.path);
        cmd.arg("-m").arg(match mode { Mode::A => "A", Mode::B => "B", Mode::C => "C" });
        if wakati { cmd.arg("-w"); }
        if all { cmd.arg("-a"); }
        if debug { cmd.arg("-d"); }
        if to_file { cmd.arg("-o").arg(&opath); }
        cmd.arg(format!("--split-sentences={}", split));
        if from_stdin {
            cmd.stdin(std::fs::File::open(&fpath).unwrap());
        } else if in_ok {
            cmd.arg(&fpath);
        } else {
            cmd.arg(w.wd.path.join("no-such-input.txt"));
        }
        cmd.env("RUST_BACKTRACE", "0");
        let outp = match cmd.output() {
            Ok(o) => o,
            Err(e) => { run.bump(&format!("spawn-error:{}", e)); continue; }
        };
        let code = outp.status.code();
        let status_ok = outp.status.success();
        let out_file: Option<Vec<u8>> = if to_file { std::fs::read(&opath).ok() } else { None };
        run.bump(&format!("split:{}", split));
        run.bump(if wakati { "fmt:wakati" } else if all { "fmt:all" } else { "fmt:basic" });
        if debug { run.bump("flag:debug"); }
        if to_file { run.bump("flag:output-file"); }
        if from_stdin { run.bump("input:stdin"); }
        if !in_ok { run.bump("input:missing"); }
        if !out_ok { run.bump("output:cannot-create"); }
        if overlong_at.is_some() { run.bump("file-has-overlong-line"); }
        if blank { run.bump("file-has-blank-line"); }
        if file.contains("\r\n") { run.bump("file-has-crlf"); }
        if !file.ends_with('\n') { run.bump("file-no-final-newline"); }
        // table for the model: every text the binary may analyse under either stripping rule, analysed with the subset
        // the tokenizer starts with (all fields) AND with the subset the writer declares (`SudachiOutput::subset()`, which
        // nothing installs): the model has to pick the right one
        use sudachi::dic::subset::InfoSubset;
        let out_subset = if wakati { InfoSubset::empty() } else if all {
            InfoSubset::POS_ID | InfoSubset::NORMALIZED_FORM | InfoSubset::DIC_FORM_WORD_ID | InfoSubset::READING_FORM | InfoSubset::SYNONYM_GROUP_ID
        } else { InfoSubset::POS_ID | InfoSubset::NORMALIZED_FORM };
        let mut texts: Vec<String> = vec![];
        for line in file.split_inclusive('\n') {
            for t in [strip_spec(line), strip_cur(line), line] { if !texts.contains(&t.to_string()) { texts.push(t.to_string()); } }
        }
        let mut entries: Vec<String> = vec![];
        let mut tok_texts: BTreeMap<String, ()> = BTreeMap::new();
        for t in &texts {
            let ss = sentences(&w.dic, t);
            entries.push(format!("S{}={}", hex(t.as_bytes()), ss.iter().map(|s| hex(s.as_bytes())).collect::<Vec<_>>().join(",")));
            tok_texts.insert(t.clone(), ());
            for s in ss { tok_texts.insert(s, ()); }
        }
        let scratch = w.wd.path.join("dump.txt");
        let mut lib_errors = 0;
        let mut subset_matters = false;
        for t in tok_texts.keys() {
            let (full, dump) = if debug { capture_stdout(&scratch, || tokenize_with(&w.dic, t, mode, None, true)) } else { (tokenize(&w.dic, t, mode), vec![]) };
            match &full {
                Ok(ms) => entries.push(format!("T{}:{}={}={}", InfoSubset::all().bits(), hex(t.as_bytes()), hex(&dump), ms.iter().map(enc_morph).collect::<Vec<_>>().join(","))),
                Err(_) => { lib_errors += 1; entries.push(format!("E{}:{}={}", InfoSubset::all().bits(), hex(t.as_bytes()), hex(&dump))); }
            }
            if t.len() < 2000 {
                // the entry a CLI that installed the writer's subset would read (dump not recorded: `00` marks it)
                match tokenize_with(&w.dic, t, mode, Some(out_subset), false) {
                    Ok(ms) => {
                        if let Ok(f) = &full { if f.iter().map(enc_morph).collect::<Vec<_>>() != ms.iter().map(enc_morph).collect::<Vec<_>>() { subset_matters = true; } }
                        entries.push(format!("T{}:{}=00={}", out_subset.bits(), hex(t.as_bytes()), ms.iter().map(enc_morph).collect::<Vec<_>>().join(",")))
                    }
                    Err(_) => entries.push(format!("E{}:{}=00", out_subset.bits(), hex(t.as_bytes()))),
                }
            }
        }
        if lib_errors > 0 { run.bump("library-rejects-a-text"); }
        if subset_matters { run.bump("writer-subset-would-change-result"); }
        let payload = format!(
            "w={} a={} d={} o={} src={} in={} outp={} split={} strip={} file={} tab={}",
            wakati as u8, all as u8, debug as u8, to_file as u8, if from_stdin { "stdin" } else { "file" }, in_ok as u8, out_ok as u8,
            split, strip_variant, hex(file.as_bytes()), entries.join(";")
        );
        let ans = match code {
            Some(c) => format!("exit={} out={} file={}", c, hex(&outp.stdout), out_file.as_ref().map_or("-".to_string(), |b| hex(b))),
            None => "killed-by-signal".to_string(),
        };
        run.bump(&format!("outcome:exit-{}", code.map_or("signal".to_string(), |c| c.to_string())));
        run.case(idx, "cli", &payload, &ans, file.split_inclusive('\n').count() >= 2 && (!outp.stdout.is_empty() || out_file.as_ref().map_or(false, |f| !f.is_empty())));
        // ---- oracle: the documented behaviour computed from the library directly ----
        // results = what the writer received (stdout without -o, the file with -o); with -d and without -o stdout also
        // carries the dumps, which only the model accounts for: the oracle then checks the results are a subsequence-free
        // remainder, i.e. stdout minus the dump lines of the library
        if !in_ok || !out_ok {
            if status_ok { run.fail(idx, "c19:cli:exit", "sudachi reported success although a file could not be opened"); }
            if !outp.stdout.is_empty() { run.fail(idx, "c19:cli:output", "output although a file could not be opened"); }
            continue;
        }
        let (want, failed) = expected(&w.dic, &file, wakati, all, mode, split, strip_spec);
        if failed == status_ok {
            run.fail(idx, "c19:cli:exit", &format!("sudachi exited with {:?} but the library {} (stderr {})", code, if failed { "rejects a text of the input" } else { "analyses every text" },
                String::from_utf8_lossy(&outp.stderr).chars().take(200).collect::<String>()));
            continue;
        }
        let results: Vec<u8> = if to_file { out_file.clone().unwrap_or_default() } else if debug {
            // drop the dump lines: they are exactly the lines the debug tokenizer printed for the analysed texts, in order
            let mut dumps: Vec<u8> = vec![];
            'outer: for line in file.split_inclusive('\n') {
                let t = strip_spec(line);
                let units: Vec<String> = match split { "only" => vec![], "none" => vec![t.to_string()], _ => sentences(&w.dic, t) };
                for u in units {
                    let (r, d) = capture_stdout(&scratch, || tokenize_with(&w.dic, &u, mode, None, true));
                    dumps.extend_from_slice(&d);
                    if r.is_err() { break 'outer; }
                }
            }
            remove_lines(&outp.stdout, &dumps)
        } else { outp.stdout.clone() };
        if to_file && !debug && !outp.stdout.is_empty() {
            run.fail(idx, "c19:cli:output", "with -o and without -d something was printed on stdout");
        }
        if want.as_bytes() != &results[..] {
            let as_is = expected(&w.dic, &file, wakati, all, mode, split, strip_cur).0;
            let key = if blank && as_is.as_bytes() == &results[..] { "c19:cli:d14-blank-line" } else { "c19:cli:output" };
            run.fail(idx, key, &format!("results differ from the library's for file {:?} (flags w={} a={} d={} o={} mode={:?} split={}): got {:?}, expected {:?}",
                file.chars().take(200).collect::<String>(), wakati, all, debug, to_file, mode, split, String::from_utf8_lossy(&results).chars().take(200).collect::<String>(), want.chars().take(200).collect::<String>()));
        }
    }
}

/// `text` with the lines of `dumps` removed, each once, in order (a dump line is matched at its first later occurrence)
fn remove_lines(text: &[u8], dumps: &[u8]) -> Vec<u8> {
    let mut want: std::collections::VecDeque<&[u8]> = dumps.split_inclusive(|b| *b == b'\n').collect();
    let mut out = vec![];
    for l in text.split_inclusive(|b| *b == b'\n') {
        if want.front() == Some(&l) { want.pop_front(); } else { out.extend_from_slice(l); }
    }
    out
}
