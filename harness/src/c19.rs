//! C19: the `sudachi` binary (and the Python extension, see `pyrun`) report what the library computes.
use crate::c01::world_for;
use crate::common::*;
use crate::dict::*;
use crate::world::*;
use std::collections::BTreeMap;
use std::process::Command;
use sudachi::analysis::stateful_tokenizer::StatefulTokenizer;
use sudachi::analysis::Mode;
use sudachi::dic::dictionary::JapaneseDictionary;
use sudachi::prelude::*;
use sudachi::sentence_splitter::{SentenceSplitter, SplitSentences};

const CASES_PER_WORLD: usize = 12;

#[derive(Clone)]
struct M {
    surface: String,
    pos: Vec<String>,
    norm: String,
    dform: String,
    reading: String,
    dict_id: i32,
    syn: Vec<u32>,
    oov: bool,
}

fn tokenize(dic: &JapaneseDictionary, text: &str, mode: Mode) -> Result<Vec<M>, String> {
    let r = catch(|| {
        let mut tok = StatefulTokenizer::create(dic, false, mode);
        tok.reset().push_str(text);
        tok.do_tokenize().map_err(|e| err_class(&e))?;
        let mut ml = MorphemeList::empty(dic);
        ml.collect_results(&mut tok).map_err(|e| err_class(&e))?;
        Ok(ml
            .iter()
            .map(|m| M {
                surface: m.surface().to_string(),
                pos: m.part_of_speech().to_vec(),
                norm: m.normalized_form().to_string(),
                dform: m.dictionary_form().to_string(),
                reading: m.reading_form().to_string(),
                dict_id: m.dictionary_id(),
                syn: m.synonym_group_ids().to_vec(),
                oov: m.is_oov(),
            })
            .collect())
    });
    match r {
        Ok(x) => x,
        Err(p) => Err(format!("PANIC {}", p)),
    }
}

fn sentences(dic: &JapaneseDictionary, text: &str) -> Vec<String> {
    let sp = SentenceSplitter::new().with_checker(dic.lexicon());
    sp.split(text).map(|(_, s)| s.to_string()).collect()
}

fn fmt_simple(all: bool, ms: &[M]) -> String {
    let mut s = String::new();
    for m in ms {
        s.push_str(&m.surface);
        s.push('\t');
        s.push_str(&m.pos.join(","));
        s.push('\t');
        s.push_str(&m.norm);
        if all {
            s.push_str(&format!("\t{}\t{}\t{}\t{:?}", m.dform, m.reading, m.dict_id, m.syn));
            if m.oov { s.push_str("\t(OOV)"); }
        }
        s.push('\n');
    }
    s.push_str("EOS\n");
    s
}

fn fmt_wakati(ms: &[M]) -> String {
    if ms.is_empty() { return "\n".into(); }
    let mut s = ms.iter().map(|m| m.surface.clone()).collect::<Vec<_>>().join(" ");
    s.push('\n');
    s
}

/// the documented behaviour: line terminator (LF or CRLF) removed, then analysed
fn strip_spec(line: &str) -> &str {
    let l = line.strip_suffix('\n').unwrap_or(line);
    if line.ends_with('\n') { l.strip_suffix('\r').unwrap_or(l) } else { l }
}

/// the code as it stands (`len > 1` guards)
fn strip_cur(line: &str) -> &str {
    let b = line.as_bytes();
    let mut len = b.len();
    if len > 1 && b[len - 1] == b'\n' {
        len -= 1;
        if len > 1 && b[len - 1] == b'\r' { len -= 1; }
    }
    &line[..len]
}

fn expected(dic: &JapaneseDictionary, file: &str, wakati: bool, all: bool, mode: Mode, split: &str, strip: fn(&str) -> &str) -> Result<String, String> {
    let mut out = String::new();
    for line in file.split_inclusive('\n') {
        let t = strip(line);
        match split {
            "only" => for s in sentences(dic, t) { out.push_str(&s); },
            "none" => { let ms = tokenize(dic, t, mode)?; out.push_str(&if wakati { fmt_wakati(&ms) } else { fmt_simple(all, &ms) }); }
            _ => for s in sentences(dic, t) { let ms = tokenize(dic, &s, mode)?; out.push_str(&if wakati { fmt_wakati(&ms) } else { fmt_simple(all, &ms) }); },
        }
    }
    Ok(out)
}

fn enc_morph(m: &M) -> String {
    format!(
        "{}/{}/{}/{}/{}/{}/{}/{}",
        hex(m.surface.as_bytes()), m.pos.iter().map(|p| hex(p.as_bytes())).collect::<Vec<_>>().join("+"), hex(m.norm.as_bytes()),
        hex(m.dform.as_bytes()), hex(m.reading.as_bytes()), m.dict_id, join(m.syn.iter(), "+"), if m.oov { 1 } else { 0 }
    )
}


// ---------------------------------------------------------------------------------------------
// Python extension: call sequences compared with the library
// ---------------------------------------------------------------------------------------------

fn py_pkg() -> String {
    let root = std::env::var("VERIF_ROOT").unwrap_or_else(|_| "/verif".to_string());
    format!("{}/.build/py/pkg", root)
}

fn py_script() -> String {
    let root = std::env::var("VERIF_ROOT").unwrap_or_else(|_| "/verif".to_string());
    format!("{}/pyharness/run_calls.py", root)
}

fn mode_str(m: Mode) -> &'static str {
    match m { Mode::A => "A", Mode::B => "B", Mode::C => "C" }
}

fn dump_list(ml: &MorphemeList<&JapaneseDictionary>, text: &str) -> serde_json::Value {
    let chars: Vec<char> = text.chars().collect();
    let mut out = vec![];
    for m in ml.iter() {
        let (b, e) = (m.begin_c(), m.end_c());
        let raw = m.surface().to_string();
        let slice_ok = b <= e && e <= chars.len() && chars[b..e].iter().collect::<String>() == raw;
        out.push(serde_json::json!({
            "b": b, "e": e, "s": raw, "raw": raw, "pos": m.part_of_speech(),
            "norm": m.normalized_form(), "dform": m.dictionary_form(), "read": m.reading_form(),
            "did": m.dictionary_id(), "wid": m.word_id().as_raw(), "oov": m.is_oov(), "len": e - b,
            "syn": m.synonym_group_ids(), "slice_ok": slice_ok,
        }));
    }
    serde_json::Value::Array(out)
}

/// one Python session: a script of calls, the library's expected answers, the comparison
fn py_session(run: &mut Run, idx: usize, rng: &mut Rng, w: &World) {
    use sudachi::dic::subset::InfoSubset;
    let dic = &w.dic;
    let create_mode = mode_of(rng.below(3));
    let ncalls = rng.range(4, 14);
    let mut calls: Vec<serde_json::Value> = vec![];
    let mut expect: Vec<Option<serde_json::Value>> = vec![]; // None = only "no crash" is required
    let mut lists: Vec<(MorphemeList<&JapaneseDictionary>, String)> = vec![];
    // lists created by split share the parent's input buffer; reusing one of them as `out=` swaps that buffer
    // under the others, whose morphemes then point into a different text ("stale": only no-crash is required)
    let mut group: Vec<usize> = vec![];
    let mut stale: Vec<bool> = vec![];
    let mut next_group = 0usize;
    // a list produced from a stale parent may or may not have been re-pointed to the parent's buffer
    let mut alt_group: Vec<Option<usize>> = vec![];
    let mut kept = 0usize;
    for _ in 0..ncalls {
        let kind = rng.below(10);
        if kind < 5 || lists.is_empty() {
            // one call in ten is rejected by the library (input longer than 49149 bytes): the binding must turn that
            // into an exception and leave the tokenizer as it was (mode override restored)
            let text = if rng.chance(1, 8) { String::new() } else if rng.chance(1, 10) { "あ".repeat(16400 + rng.below(50)) } else { gen_text(rng, w, 10) };
            let ov = if rng.chance(1, 3) { Some(mode_of(rng.below(3))) } else { None };
            let out = if !lists.is_empty() && rng.chance(1, 3) { Some(rng.below(lists.len())) } else { None };
            let keep = rng.chance(1, 4);
            let eff = ov.unwrap_or(create_mode);
            let mut tok = StatefulTokenizer::create(dic, false, eff);
            tok.reset().push_str(&text);
            let ok = tok.do_tokenize().is_ok();
            calls.push(serde_json::json!({"op": "tokenize", "text": text, "mode": ov.map(mode_str), "out": out, "keep": keep}));
            if !ok {
                expect.push(Some(serde_json::json!({"err": true, "mode": mode_str(create_mode)})));
                continue;
            }
            if let Some(i) = out { if stale[i] { /* reusing a stale list is fine: it is overwritten */ } }
            let mut ml = match out { Some(i) => std::mem::replace(&mut lists[i].0, MorphemeList::empty(dic)), None => MorphemeList::empty(dic) };
            ml.collect_results(&mut tok).unwrap();
            let d = dump_list(&ml, &text);
            let n = ml.len();
            if keep && n > 0 { kept += 1; }
            match out {
                Some(i) => {
                    lists[i] = (ml, text.clone());
                    for j in 0..lists.len() { if j != i && (group[j] == group[i] || Some(group[j]) == alt_group[i]) { stale[j] = true; } }
                    stale[i] = false;
                }
                None => { lists.push((ml, text.clone())); group.push(next_group); next_group += 1; stale.push(false); alt_group.push(None); }
            }
            expect.push(Some(serde_json::json!({"ok": true, "mode": mode_str(create_mode), "ms": d, "n": n})));
        } else if kind < 8 {
            let l = rng.below(lists.len());
            if lists[l].0.len() == 0 && !stale[l] { continue; }
            if stale[l] && lists[l].0.len() == 0 { continue; }
            let index = rng.below(lists[l].0.len());
            let mode = mode_of(rng.below(3));
            let add_single = rng.chance(1, 2);
            // `out=`: an unrelated, earlier list is reused for the result in a third of the cases
            let outl = if rng.chance(1, 3) && lists.len() >= 2 { let o = rng.below(lists.len()); if o != l { Some(o) } else { None } } else { None };
            calls.push(serde_json::json!({"op": "split", "list": l, "index": index, "mode": mode_str(mode), "add_single": add_single, "out": outl}));
            if outl.is_some() { run.bump("python-split-with-out"); }
            if stale[l] {
                // the Python side may raise (a Rust panic surfaces as a catchable PanicException) or return anything
                match outl {
                    Some(o) => { stale[o] = true; alt_group[o] = Some(group[l]); }
                    // `empty_clone` of the stale parent: shares its buffer
                    None => { lists.push((MorphemeList::empty(dic), String::new())); group.push(group[l]); stale.push(true); alt_group.push(None); }
                }
                expect.push(None);
                run.bump("python-stale-split");
                continue;
            }
            // expected = what the Rust library gives for this morpheme: its declared units, or (add_single) the morpheme itself
            let mut out = lists[l].0.empty_clone();
            let splitted = lists[l].0.split_into(mode, index, &mut out).unwrap_or(false);
            if add_single && !splitted { lists[l].0.copy_slice(index, index + 1, &mut out); }
            let text = lists[l].1.clone();
            let d = dump_list(&out, &text);
            let n = out.len();
            match outl {
                Some(o) => {
                    if splitted || (add_single && !splitted) { run.bump("python-split-into-foreign-out"); }
                    // the reused list now shares the parent's text; lists that shared its old buffer are unaffected
                    // (split_into re-points `out` to the parent's buffer instead of swapping)
                    lists[o] = (out, text);
                    if splitted || add_single { group[o] = group[l]; alt_group[o] = None; }
                    stale[o] = false;
                }
                None => { lists.push((out, text)); group.push(group[l]); stale.push(false); alt_group.push(None); }
            }
            expect.push(Some(serde_json::json!({"ok": true, "mode": mode_str(create_mode), "ms": d, "n": n})));
        } else if kind < 9 {
            let q = if rng.chance(2, 3) { rng.pick(&w.lex.rows).surface.clone() } else { gen_text(rng, w, 3) };
            calls.push(serde_json::json!({"op": "lookup", "query": q}));
            let mut ml = MorphemeList::empty(dic);
            match ml.lookup(&q, InfoSubset::all()) {
                Ok(_) => {
                    let d = dump_list(&ml, &q);
                    let n = ml.len();
                    lists.push((ml, q.clone()));
                    group.push(next_group); next_group += 1; stale.push(false); alt_group.push(None);
                    expect.push(Some(serde_json::json!({"ok": true, "mode": mode_str(create_mode), "ms": d, "n": n})));
                }
                Err(_) => {
                    lists.push((MorphemeList::empty(dic), q.clone()));
                    group.push(next_group); next_group += 1; stale.push(false); alt_group.push(None);
                    expect.push(Some(serde_json::json!({"err": true, "mode": mode_str(create_mode)})));
                }
            }
        } else {
            calls.push(serde_json::json!({"op": "stale"}));
            expect.push(None);
        }
    }
    let _ = kept;
    let script = serde_json::json!({
        "pkg": py_pkg(), "config": w.wd.path.join("cfg.json"), "resource_dir": w.wd.path, "mode": mode_str(create_mode), "calls": calls,
    });
    let spath = w.wd.path.join("script.json");
    std::fs::write(&spath, serde_json::to_string(&script).unwrap()).unwrap();
    let outp = Command::new("python3").arg(py_script()).arg(&spath).output();
    run.bump("kind:python-session");
    run.bump_by("python-calls", calls.len() as u64);
    let line = format!("C19 pysession idx={} world={} create_mode={} calls={}", idx, w.desc.join("|"), mode_str(create_mode), serde_json::to_string(&calls).unwrap());
    let outp = match outp {
        Ok(o) => o,
        Err(e) => { run.fail_with_line(idx, &line, "c19:py:spawn", &format!("cannot start python3: {}", e)); return; }
    };
    let stdout = String::from_utf8_lossy(&outp.stdout).to_string();
    let got: Vec<serde_json::Value> = stdout.lines().filter_map(|l| serde_json::from_str(l).ok()).collect();
    let done = got.last().map_or(false, |v| v.get("done").is_some());
    if !outp.status.success() || !done || got.len() != calls.len() + 1 {
        run.fail_with_line(idx, &line, "c19:py:crash", &format!("interpreter did not survive the call sequence: status {:?}, {} of {} answers, stderr {}",
            outp.status.code(), got.len().saturating_sub(if done { 1 } else { 0 }), calls.len(), String::from_utf8_lossy(&outp.stderr).chars().rev().take(300).collect::<String>().chars().rev().collect::<String>()));
        return;
    }
    for (k, exp) in expect.iter().enumerate() {
        let g = &got[k];
        let Some(exp) = exp else { continue };
        let what = if exp.get("err").is_some() {
            if g.get("err").is_none() { Some("library reports an error, Python returned a result".to_string()) } else { None }
        } else if g.get("err").is_some() {
            Some(format!("Python raised {} ({}) where the library succeeds", g["err"], g.get("msg").cloned().unwrap_or_default()))
        } else if g["ms"] != exp["ms"] {
            Some(format!("morphemes differ: python {} vs library {}", g["ms"].to_string().chars().take(300).collect::<String>(), exp["ms"].to_string().chars().take(300).collect::<String>()))
        } else if g["n"] != exp["n"] {
            Some(format!("len() = {} vs {}", g["n"], exp["n"]))
        } else { None };
        let mode_bad = g.get("mode").map_or(false, |m| m != &exp["mode"]);
        if let Some(wh) = what {
            run.fail_with_line(idx, &line, "c19:py:result", &format!("call {} {}: {}", k, calls[k], wh));
            return;
        }
        if mode_bad {
            run.fail_with_line(idx, &line, "c19:py:mode", &format!("after call {} {} the tokenizer's mode is {} (created with {})", k, calls[k], g["mode"], exp["mode"]));
            return;
        }
        if let Some(ms) = g["ms"].as_array() {
            if ms.iter().any(|m| m["slice_ok"] == serde_json::Value::Bool(false)) {
                run.fail_with_line(idx, &line, "c19:py:slice", &format!("call {}: text[begin:end] != raw_surface", k));
                return;
            }
        }
    }
    run.bump("python-session-ok");
}

pub fn cli_binary() -> String {
    let root = std::env::var("VERIF_ROOT").unwrap_or_else(|_| "/verif".to_string());
    format!("{}/.build/cli/debug/sudachi", root)
}

pub fn source_has_d14_fix() -> bool {
    let repo = std::env::var("VERIF_REPO").unwrap_or_else(|_| "/repo".to_string());
    let src = std::fs::read_to_string(format!("{}/sudachi-cli/src/main.rs", repo)).unwrap_or_default();
    !src.contains("len > 1 && bytes[len - 1] == b'\\n'")
}

pub fn run(run: &mut Run) {
    run.rule = "CLI: random worlds x multi-line files (blank lines, CRLF, no final newline, long/short lines) x {wakati, -a, mode A/B/C, \
--split-sentences default/only/none}; the real `sudachi` binary's stdout vs the model fed with the library's sentences and morphemes \
(computed in-process); non-trivial = file has >= 2 lines and produces output; distinct by line. Python: op pymode (mode override \
sequences) + call-sequence runs of the built extension (see extra.python).".into();
    let n = run.opts.count;
    let strip_variant = if source_has_d14_fix() { "fix" } else { "cur" };
    run.bump(&format!("strip-variant:{}", strip_variant));
    let bin = cli_binary();
    if !std::path::Path::new(&bin).exists() {
        run.fail_with_line(0, "", "c19:no-binary", &format!("CLI binary {} was not built", bin));
        return;
    }
    let mut cur_world: Option<(usize, Result<World, String>)> = None;
    for idx in 0..n {
        if !run.wants(idx) { continue; }
        let mut rng = Rng::for_case(run.opts.seed, idx);
        // ---- Python mode-override sequences (model only + checked on the extension by pyrun) ----
        if idx % 6 == 5 {
            let modes = ["A", "B", "C"];
            let init = *rng.pick(&modes);
            let k = rng.range(0, 6);
            let calls: Vec<(Option<&str>, bool)> = (0..k).map(|_| (if rng.chance(1, 2) { Some(*rng.pick(&modes)) } else { None }, rng.chance(1, 4))).collect();
            let payload = format!("init={} calls={}", init, calls.iter().map(|(m, f)| format!("{}:{}", m.unwrap_or("-"), if *f { 1 } else { 0 })).collect::<Vec<_>>().join(","));
            // the specification of the binding: the creation mode survives, each call runs in its override or the creation mode
            let ans = format!("ok final={} ran={}", init, calls.iter().map(|(m, _)| m.unwrap_or(init)).collect::<Vec<_>>().join(","));
            run.bump("kind:pymode");
            run.case(idx, "pymode", &payload, &ans, k >= 2);
            continue;
        }
        let widx = idx / CASES_PER_WORLD;
        if cur_world.as_ref().map(|w| w.0) != Some(widx) {
            cur_world = None;
            let mut o = WorldOpts::default();
            o.always_fallback = true;
            let w = world_for(run.opts.seed, &run.prop.clone(), widx, &o);
            if let Ok(w) = &w {
                w.wd.write("cfg.json", &w.cfg.replacen("{", &format!("{{\"systemDict\":\"system.dic\",\"userDict\":[{}],", (0..w.user_bins.len()).map(|i| format!("\"user{}.dic\"", i)).collect::<Vec<_>>().join(",")), 1));
                std::fs::write(w.wd.path.join("system.dic"), &w.system_bin).unwrap();
                for (i, u) in w.user_bins.iter().enumerate() { std::fs::write(w.wd.path.join(format!("user{}.dic", i)), u).unwrap(); }
            }
            cur_world = Some((widx, w));
        }
        let w = match &cur_world.as_ref().unwrap().1 {
            Ok(w) => w,
            Err(e) => { run.bump(&format!("world-error:{}", e.chars().take(50).collect::<String>())); continue; }
        };
        if idx % 25 == 3 {
            if std::path::Path::new(&format!("{}/sudachipy/sudachipy.so", py_pkg())).exists() {
                py_session(run, idx, &mut rng, w);
            } else {
                run.fail_with_line(idx, "", "c19:py:not-built", "the Python extension was not built");
            }
            continue;
        }
        // file
        let nlines = rng.range(1, 5);
        let mut file = String::new();
        let mut blank = false;
        for li in 0..nlines {
            let body: String = if rng.chance(1, 4) { String::new() } else { gen_text(&mut rng, w, 10).chars().filter(|c| *c != '\n' && *c != '\r').collect() };
            file.push_str(&body);
            let last = li + 1 == nlines;
            let term = if last && rng.chance(1, 3) { "" } else if rng.chance(1, 4) { "\r\n" } else { "\n" };
            if body.is_empty() && !term.is_empty() { blank = true; }
            file.push_str(term);
        }
        let wakati = rng.chance(1, 2);
        let all = rng.chance(1, 2);
        let mode = mode_of(rng.below(3));
        let split = *rng.pick(&["default", "default", "only", "none"]);
        let fpath = w.wd.path.join("input.txt");
        std::fs::write(&fpath, &file).unwrap();
        let mut cmd = Command::new(&bin);
        cmd.arg("-r").arg(w.wd.path.join("cfg.json")).arg("-p").arg(&w.wd.path);
        cmd.arg("-m").arg(match mode { Mode::A => "A", Mode::B => "B", Mode::C => "C" });
        if wakati { cmd.arg("-w"); }
        if all { cmd.arg("-a"); }
        cmd.arg(format!("--split-sentences={}", split));
        cmd.arg(&fpath);
        let outp = match cmd.output() {
            Ok(o) => o,
            Err(e) => { run.bump(&format!("spawn-error:{}", e)); continue; }
        };
        let status_ok = outp.status.success();
        run.bump(&format!("split:{}", split));
        run.bump(if wakati { "fmt:wakati" } else if all { "fmt:all" } else { "fmt:basic" });
        if blank { run.bump("file-has-blank-line"); }
        if file.contains("\r\n") { run.bump("file-has-crlf"); }
        if !file.ends_with('\n') { run.bump("file-no-final-newline"); }
        // table for the model: every text the binary may analyse under either stripping rule
        let mut texts: Vec<String> = vec![];
        for line in file.split_inclusive('\n') {
            for t in [strip_spec(line), strip_cur(line), line] { if !texts.contains(&t.to_string()) { texts.push(t.to_string()); } }
        }
        let mut entries: Vec<String> = vec![];
        let mut tok_texts: BTreeMap<String, ()> = BTreeMap::new();
        let mut lib_failed = false;
        for t in &texts {
            let ss = sentences(&w.dic, t);
            entries.push(format!("S{}={}", hex(t.as_bytes()), ss.iter().map(|s| hex(s.as_bytes())).collect::<Vec<_>>().join(",")));
            tok_texts.insert(t.clone(), ());
            for s in ss { tok_texts.insert(s, ()); }
        }
        for t in tok_texts.keys() {
            match tokenize(&w.dic, t, mode) {
                Ok(ms) => entries.push(format!("T{}={}", hex(t.as_bytes()), ms.iter().map(enc_morph).collect::<Vec<_>>().join(","))),
                Err(_) => lib_failed = true,
            }
        }
        if lib_failed { run.bump("library-error-skipped"); continue; }
        let payload = format!(
            "w={} a={} split={} strip={} file={} tab={}",
            if wakati { 1 } else { 0 }, if all { 1 } else { 0 }, split, strip_variant, hex(file.as_bytes()), entries.join(";")
        );
        let ans = if status_ok { format!("ok out={}", hex(&outp.stdout)) } else { format!("exit:{:?}", outp.status.code()) };
        run.bump(if status_ok { "outcome:ok" } else { "outcome:nonzero-exit" });
        run.case(idx, "cli", &payload, &ans, file.split_inclusive('\n').count() >= 2 && !outp.stdout.is_empty());
        // ---- oracle: the documented behaviour computed from the library directly ----
        if !status_ok {
            run.fail(idx, "c19:cli:exit", &format!("sudachi exited with {:?}: {}", outp.status.code(), String::from_utf8_lossy(&outp.stderr).chars().take(200).collect::<String>()));
            continue;
        }
        let want = expected(&w.dic, &file, wakati, all, mode, split, strip_spec);
        match want {
            Err(e) => { run.bump(&format!("oracle-skip:{}", e.chars().take(30).collect::<String>())); }
            Ok(want) => {
                if want.as_bytes() != &outp.stdout[..] {
                    let as_is = expected(&w.dic, &file, wakati, all, mode, split, strip_cur).unwrap_or_default();
                    let key = if blank && as_is.as_bytes() == &outp.stdout[..] { "c19:cli:d14-blank-line" } else { "c19:cli:output" };
                    run.fail(idx, key, &format!("stdout differs from the library's result for file {:?} (flags w={} a={} mode={:?} split={}): got {:?}, expected {:?}",
                        file, wakati, all, mode, split, String::from_utf8_lossy(&outp.stdout).chars().take(200).collect::<String>(), want.chars().take(200).collect::<String>()));
                }
            }
        }
    }
}
