//! C08 (and the edit half of C01): offset map through stacks of edit batches; code-point offsets.
use crate::common::*;
use crate::dict::*;
use sudachi::dic::dictionary::JapaneseDictionary;
use sudachi::input_text::InputBuffer;

#[derive(Clone, Debug)]
pub struct Ed {
    pub s: usize,
    pub e: usize,
    pub w: String,
}

#[derive(Clone)]
struct Ch {
    c: char,
    /// original byte range when the character has never been replaced
    prov: Option<(usize, usize)>,
    /// deleted text directly follows this character (its range then extends over the deletion)
    del_after: bool,
}

const REPL: &[&str] = &["", "", "x", "é", "あ", "𠮷", "ab", "あい", "x𠮷é", "かきくけこ"];

fn gen_batch(rng: &mut Rng, cur: &[Ch]) -> Vec<(usize, usize, String)> {
    // edits in char indices: sorted, non-overlapping, possibly adjacent, possibly insertions
    let n = cur.len();
    let mut out = vec![];
    let mut pos = 0;
    let k = rng.range(0, 3);
    for _ in 0..k {
        if pos > n { break; }
        let s = pos + rng.below((n - pos).min(3) + 1);
        if s > n { break; }
        let maxlen = (n - s).min(3);
        let len = if rng.chance(1, 12) { 0 } else if maxlen == 0 { 0 } else { rng.range(1, maxlen) };
        if len == 0 && s >= n && rng.chance(1, 2) { break; }
        let w = rng.pick(REPL).to_string();
        if len == 0 && w.is_empty() { continue; }
        out.push((s, s + len, w));
        pos = s + len;
    }
    out
}

fn apply_naive(cur: &[Ch], batch: &[(usize, usize, String)]) -> Vec<Ch> {
    let mut out = vec![];
    let mut p = 0;
    for (s, e, w) in batch {
        out.extend_from_slice(&cur[p..*s]);
        for c in w.chars() {
            out.push(Ch { c, prov: None, del_after: false });
        }
        if w.is_empty() && s < e {
            if let Some(l) = out.last_mut() { l.del_after = true; }
        }
        p = *e;
    }
    out.extend_from_slice(&cur[p..]);
    // `resolve_edits` forces the first map entry to 0: deleted text at the very start attaches to the first
    // character, whose image then starts at 0 for good (also when later batches insert text before it)
    if let Some(first) = out.first_mut() {
        if let Some((_, e)) = first.prov { first.prov = Some((0, e)); }
    }
    out
}

fn byte_off(cur: &[Ch], ci: usize) -> usize {
    cur[..ci].iter().map(|c| c.c.len_utf8()).sum()
}

pub fn tiny_dict(tag: &str) -> (Workdir, JapaneseDictionary) {
    let wd = Workdir::new(tag);
    let rows = vec![Row::simple("あ", 0, 0, 100, NOUN)];
    let csv = csv_of(&rows, &default_pos());
    let sys = build_system(csv.as_bytes(), b"1 1\n0 0 0\n").expect("tiny dictionary");
    let cfg = config_json(&wd, &[], &[simple_oov_json(0, 0, 1000)], &[], &[]);
    let dic = load(&cfg, sys, vec![]).expect("tiny dictionary loads");
    (wd, dic)
}

pub fn show_opt(v: &[usize]) -> String {
    join(v.iter().map(|&x| if x == usize::MAX { "x".to_string() } else { x.to_string() }), ",")
}

/// runs one edit case on the real InputBuffer; returns (answer, oracle failure)
pub fn run_edit_case(dic: &JapaneseDictionary, orig: &str, batches: &[Vec<Ed>], expect: Option<&[Ch0]>) -> (String, Option<(String, String)>) {
    let _ = expect;
    let res = catch(|| -> Result<(String, Option<(String, String)>), String> {
        let mut buf = InputBuffer::new();
        buf.reset().push_str(orig);
        if buf.start_build().is_err() {
            return Err("TooLong".into());
        }
        for b in batches {
            let b2 = b.clone();
            let r = buf.with_editor(move |_, mut ed| {
                for e in b2.iter() {
                    ed.replace_own(e.s..e.e, e.w.clone());
                }
                Ok(ed)
            });
            if r.is_err() {
                return Err("TooLong".into());
            }
        }
        buf.build(dic.grammar()).map_err(|_| "Build".to_string())?;
        let t = buf.verif_tables();
        let nch = t.mod_chars.len();
        let oc: Vec<usize> = (0..=nch).map(|i| {
            // to_orig_char_idx debug-asserts on the MAX marker; read the tables directly
            let ob = t.m2o[t.mod_c2b[i]];
            t.m2o_2.get(ob).copied().unwrap_or(usize::MAX)
        }).collect();
        let ans = format!(
            "ok cur={} m2o={} c2b={} b2c={} ob2c={} oc={}",
            hex(t.modified.as_bytes()), join(t.m2o.iter(), ","), join(t.mod_c2b.iter(), ","), join(t.mod_b2c.iter(), ","),
            show_opt(&t.m2o_2), show_opt(&oc)
        );
        // ---- property oracle on the implementation's tables ----
        let cur = &t.modified;
        let m = &t.m2o;
        let mut fail = None;
        if m.len() != cur.len() + 1 { fail = Some(("len", format!("map has {} entries for {} bytes", m.len(), cur.len()))); }
        else if m[0] != 0 { fail = Some(("start", format!("m2o[0] = {}", m[0]))); }
        else if m[cur.len()] != orig.len() { fail = Some(("end", format!("m2o[len] = {} but original length {}", m[cur.len()], orig.len()))); }
        else {
            for i in 0..cur.len() {
                if cur.is_char_boundary(i) {
                    // next boundary
                    let mut j = i + 1;
                    while !cur.is_char_boundary(j) { j += 1; }
                    if m[i] > m[j] { fail = Some(("mono", format!("m2o[{}]={} > m2o[{}]={}", i, m[i], j, m[j]))); break; }
                    if !orig.is_char_boundary(m[i]) { fail = Some(("boundary", format!("m2o[{}]={} is not a character boundary of the original", i, m[i]))); break; }
                }
            }
        }
        if fail.is_none() {
            // code-point offsets: table entry at a boundary = number of code points before it
            for ci in 0..=nch {
                let ob = m[t.mod_c2b[ci]];
                if ob <= orig.len() && orig.is_char_boundary(ob) {
                    let want = orig[..ob].chars().count();
                    if oc[ci] != want {
                        fail = Some(("charidx", format!("char {}: code-point offset {} but {} code points precede byte {}", ci, oc[ci], want, ob)));
                        break;
                    }
                    // public accessor agrees (only callable when the marker is not MAX)
                    if oc[ci] != usize::MAX && buf.to_orig_char_idx(ci) != want {
                        fail = Some(("charidx-api", format!("to_orig_char_idx({}) = {}", ci, buf.to_orig_char_idx(ci))));
                        break;
                    }
                }
            }
        }
        Ok((ans, fail.map(|(k, w)| (k.to_string(), w))))
    });
    match res {
        Err(p) => (format!("PANIC"), Some(("panic".into(), format!("panic: {}", p)))),
        Ok(Err(e)) => (format!("err:{}", e), None),
        Ok(Ok(x)) => x,
    }
}

pub type Ch0 = ();

/// whole analyses: the code-point offsets every morpheme reports (`begin_c`/`end_c`, what the Python binding returns as
/// begin()/end()) against the number of code points of the ORIGINAL text before its byte offsets - in every split mode, with
/// restricted field subsets (the split stage places units with `head_word_length`, not with the loaded surface) and on
/// recycled tokenizers
fn run_morphemes(run: &mut Run, first_idx: usize, count: usize) {
    use crate::c01::{analyse_with, world_for, CASES_PER_WORLD};
    use crate::world::{gen_text, WorldOpts};
    use sudachi::dic::subset::InfoSubset;
    let opts = WorldOpts::default();
    let mut cur_world: Option<(usize, Result<crate::world::World, String>)> = None;
    for k in 0..count {
        let idx = first_idx + k;
        if !run.wants(idx) { continue; }
        let widx = k / CASES_PER_WORLD;
        if cur_world.as_ref().map(|w| w.0) != Some(widx) {
            cur_world = None;
            cur_world = Some((widx, world_for(run.opts.seed ^ 0xC08, &run.prop.clone(), widx, &opts)));
        }
        let w = match &cur_world.as_ref().unwrap().1 { Ok(w) => w, Err(_) => { run.bump("morphc:world-error"); continue; } };
        let mut rng = Rng::for_case(run.opts.seed ^ 0xC08C08, idx);
        let text = if k % CASES_PER_WORLD == 0 { "㍿(かぶ)12,345ァアー".to_string() } else { gen_text(&mut rng, w, 14) };
        let mode = crate::dict::mode_of(rng.below(3));
        let subset = match rng.below(4) {
            0 => Some(InfoSubset::POS_ID),
            1 => Some(InfoSubset::NORMALIZED_FORM | InfoSubset::READING_FORM),
            2 => Some(InfoSubset::empty()),
            _ => None,
        };
        let warm: Vec<String> = if rng.chance(1, 2) { (0..1 + rng.below(3)).map(|_| gen_text(&mut rng, w, 20)).collect() } else { vec![] };
        run.bump(&format!("morphc:mode-{:?}:subset-{}", mode, match subset { None => "all".to_string(), Some(s) => format!("{:#x}", s.bits()) }));
        let a = match analyse_with(&w.dic, &warm, &text, mode, subset) {
            Ok(Ok(a)) => a,
            Ok(Err(e)) => { run.bump(&format!("morphc:err:{}", e)); continue; }
            Err(_) => { run.bump("morphc:panic(C03's business)"); continue; }
        };
        let payload = format!(
            "orig={} cur={} m2o={} nodes={}",
            hex(text.as_bytes()), hex(a.tables.modified.as_bytes()), join(a.tables.m2o.iter(), ","),
            a.morphs.iter().map(|m| format!("{}:{}:{}:{}", m.6 .0, m.6 .1, m.6 .2, m.6 .3)).collect::<Vec<_>>().join(";")
        );
        let ans = format!("ok cc={}", a.morphs.iter().map(|m| format!("{}:{}", m.3, m.4)).collect::<Vec<_>>().join(","));
        run.case(idx, "morphc", &payload, &ans, a.morphs.len() >= 2 && a.tables.modified != text);
        for (i, m) in a.morphs.iter().enumerate() {
            let (b, e, bc, ec) = (m.0, m.1, m.3, m.4);
            if b > text.len() || e > text.len() || !text.is_char_boundary(b) || !text.is_char_boundary(e) { continue; } // C01's clause
            let (wb, we) = (text[..b].chars().count(), text[..e].chars().count());
            if bc != wb || ec != we {
                run.fail(idx, "c08:codepoints", &format!("morpheme {} of {:?} (mode {:?}, subset {:?}, {} earlier texts): bytes {}..{} are code points {}..{}, begin_c()/end_c() report {}..{}",
                    i, text, mode, subset.map(|s| s.bits()), warm.len(), b, e, wb, we, bc, ec));
                break;
            }
        }
    }
}

pub fn run(run: &mut Run) {
    {
        let n = run.opts.count;
        run_morphemes(run, n, (n / 4).max(100));
    }
    run.rule = "random original strings over mixed 1-4 byte characters x 1..4 successive batches of sorted non-overlapping \
edits (deletions, insertions, shorter/longer/equal replacements, adjacent edits, at start/middle/end) generated on character \
boundaries of the current text and leaving it non-empty; non-trivial = at least one edit changes the byte length; distinct by line".into();
    let (_wd, dic) = tiny_dict(&format!("{}-tiny", run.prop));
    let n = run.opts.count;
    let orig_pool: Vec<char> = vec!['a', 'b', 'é', 'あ', 'い', '宇', '宙', '人', '𠮷', '👍', '1', 'Ａ'];
    for idx in 0..n {
        if !run.wants(idx) { continue; }
        let mut rng = Rng::for_case(run.opts.seed, idx);
        let (orig, batches_c): (String, Vec<Vec<(usize, usize, String)>>) = match idx {
            0 => ("宇宙人".into(), vec![vec![(0, 1, "あい".into())], vec![(3, 4, "".into())]]),
            1 => ("âｂC1あ".into(), vec![vec![(0, 1, "a".into()), (1, 2, "b".into()), (2, 3, "c".into())]]),
            2 => ("宇宙人".into(), vec![vec![(0, 1, "".into())]]),
            3 => ("ab".into(), vec![vec![(0, 0, "x".into()), (2, 2, "y".into())]]),
            4 => ("a".into(), vec![vec![(0, 1, "x".repeat(70000))]]),
            5 => ("あ".repeat(16384), vec![]),
            _ => {
                let len = rng.range(1, 10);
                let o: String = (0..len).map(|_| *rng.pick(&orig_pool)).collect();
                (o, vec![])
            }
        };
        // naive evolution of the text (independent of the implementation) to place edits on boundaries
        let mut cur: Vec<Ch> = {
            let mut v = vec![];
            let mut off = 0;
            for c in orig.chars() {
                v.push(Ch { c, prov: Some((off, off + c.len_utf8())), del_after: false });
                off += c.len_utf8();
            }
            v
        };
        let mut batches: Vec<Vec<Ed>> = vec![];
        let mut char_batches = batches_c.clone();
        if idx > 5 {
            let nb = rng.range(1, 4);
            for _ in 0..nb {
                let b = gen_batch(&mut rng, &cur);
                let next = apply_naive(&cur, &b);
                if next.is_empty() { continue; }
                char_batches.push(b.clone());
                // convert now (offsets refer to the current text)
                batches.push(b.iter().map(|(s, e, w)| Ed { s: byte_off(&cur, *s), e: byte_off(&cur, *e), w: w.clone() }).collect());
                cur = next;
            }
        } else {
            for b in &batches_c {
                batches.push(b.iter().map(|(s, e, w)| Ed { s: byte_off(&cur, *s), e: byte_off(&cur, *e), w: w.clone() }).collect());
                cur = apply_naive(&cur, b);
            }
        }
        let changes_len = batches.iter().flatten().any(|e| e.w.len() != e.e - e.s);
        // `commit=` names the length guard of the linked tree's `resolve_edits`/`commit` (probe in c03.rs) for the model
        let payload = format!(
            "orig={} batches={} commit={}",
            hex(orig.as_bytes()),
            if batches.is_empty() { "".to_string() } else {
                batches.iter().map(|b| if b.is_empty() { "-".to_string() } else { b.iter().map(|e| format!("{}:{}:{}", e.s, e.e, hex(e.w.as_bytes()))).collect::<Vec<_>>().join(",") }).collect::<Vec<_>>().join(";")
            },
            crate::c03::commit_variant()
        );
        let (ans, fail) = run_edit_case(&dic, &orig, &batches, None);
        run.bump(&format!("batches:{}", batches.len()));
        run.bump(&format!("outcome:{}", ans.split(' ').next().unwrap_or("")));
        for b in &batches { for e in b { run.bump(if e.w.is_empty() { "edit:delete" } else if e.s == e.e { "edit:insert" } else if e.w.len() > e.e - e.s { "edit:longer" } else if e.w.len() < e.e - e.s { "edit:shorter" } else { "edit:equal" }); } }
        run.case(idx, "edits", &payload, &ans, changes_len);
        if let Some((k, w)) = fail {
            run.fail(idx, &format!("c08:{}", k), &w);
            continue;
        }
        // naive text agrees, unreplaced characters keep their own offsets
        if ans.starts_with("ok") {
            let want: String = cur.iter().map(|c| c.c).collect();
            let got_hex = ans.split(' ').nth(1).unwrap_or("").trim_start_matches("cur=").to_string();
            if got_hex != hex(want.as_bytes()) {
                run.fail(idx, "c08:text", &format!("rewritten text differs from the naive application of the edits: {:?}", want));
                continue;
            }
            let m2o: Vec<usize> = ans.split(' ').nth(2).unwrap_or("").trim_start_matches("m2o=").split(',').filter(|s| !s.is_empty()).map(|s| s.parse().unwrap()).collect();
            let mut off = 0;
            for (i, c) in cur.iter().enumerate() {
                if let Some((s, e)) = c.prov {
                    let next = off + c.c.len_utf8();
                    let start_ok = m2o[off] == s;
                    let end_ok = if c.del_after { m2o[next] >= e } else { m2o[next] == e };
                    if !start_ok || !end_ok {
                        run.fail(idx, "c08:unreplaced", &format!("unreplaced character {:?} (original bytes {}..{}) is mapped to {}..{}", c.c, s, e, m2o[off], m2o[next]));
                        break;
                    }
                }
                off += c.c.len_utf8();
            }
        }
    }
}
