//! C08 (and the edit half of C01): offset map through stacks of edit batches; code-point offsets.
use crate::common::*;
use crate::dict::*;
use sudachi::dic::dictionary::JapaneseDictionary;
use sudachi::input_text::InputBuffer;

#[derive(Clone, Debug)]
pub struct Ed {
    pub s: usize,
    pub e: usize,
    pub w: String,
}

#[derive(Clone)]
struct Ch {
    c: char,
    /// original byte range when the character has never been replaced
    prov: Option<(usize, usize)>,
    /// deleted text directly follows this character (its range then extends over the deletion)
    del_after: bool,
    /// ghost bookkeeping compared with the model's (`Model/EditGhost.lean`): original byte offset of a character that no
    /// replacement ever wrote (never overwritten, unlike `prov`), and "has been the first character of a batch result"
    org: Option<usize>,
    lead: bool,
}

const REPL: &[&str] = &["", "", "x", "é", "あ", "𠮷", "ab", "あい", "x𠮷é", "かきくけこ"];

fn gen_batch(rng: &mut Rng, cur: &[Ch]) -> Vec<(usize, usize, String)> {
    // edits in char indices: sorted, non-overlapping, possibly adjacent, possibly insertions
    let n = cur.len();
    let mut out = vec![];
    let mut pos = 0;
    let k = rng.range(0, 3);
    for _ in 0..k {
        if pos > n { break; }
        let s = pos + rng.below((n - pos).min(3) + 1);
        if s > n { break; }
        let maxlen = (n - s).min(3);
        let len = if rng.chance(1, 12) { 0 } else if maxlen == 0 { 0 } else { rng.range(1, maxlen) };
        if len == 0 && s >= n && rng.chance(1, 2) { break; }
        let w = rng.pick(REPL).to_string();
        if len == 0 && w.is_empty() { continue; }
        out.push((s, s + len, w));
        pos = s + len;
    }
    out
}

fn apply_naive(cur: &[Ch], batch: &[(usize, usize, String)]) -> Vec<Ch> {
    let mut out = vec![];
    let mut p = 0;
    for (s, e, w) in batch {
        out.extend_from_slice(&cur[p..*s]);
        for c in w.chars() {
            out.push(Ch { c, prov: None, del_after: false, org: None, lead: false });
        }
        if w.is_empty() && s < e {
            if let Some(l) = out.last_mut() { l.del_after = true; }
        }
        p = *e;
    }
    out.extend_from_slice(&cur[p..]);
    // `resolve_edits` forces the first map entry to 0: deleted text at the very start attaches to the first
    // character, whose image then starts at 0 for good (also when later batches insert text before it)
    if let Some(first) = out.first_mut() {
        if let Some((_, e)) = first.prov { first.prov = Some((0, e)); }
        // `commit` does not call `resolve_edits` for an empty batch
        if !batch.is_empty() { first.lead = true; }
    }
    out
}

fn byte_off(cur: &[Ch], ci: usize) -> usize {
    cur[..ci].iter().map(|c| c.c.len_utf8()).sum()
}

pub fn tiny_dict(tag: &str) -> (Workdir, JapaneseDictionary) {
    let wd = Workdir::new(tag);
    let rows = vec![Row::simple("あ", 0, 0, 100, NOUN)];
    let csv = csv_of(&rows, &default_pos());
    let sys = build_system(csv.as_bytes(), b"1 1\n0 0 0\n").expect("tiny dictionary");
    let cfg = config_json(&wd, &[], &[simple_oov_json(0, 0, 1000)], &[], &[]);
    let dic = load(&cfg, sys, vec![]).expect("tiny dictionary loads");
    (wd, dic)
}

pub fn show_opt(v: &[usize]) -> String {
    join(v.iter().map(|&x| if x == usize::MAX { "x".to_string() } else { x.to_string() }), ",")
}

/// runs one edit case on the real InputBuffer; returns (answer, oracle failure)
pub fn run_edit_case(dic: &JapaneseDictionary, orig: &str, batches: &[Vec<Ed>], expect: Option<&[Ch0]>) -> (String, Option<(String, String)>, Vec<usize>) {
    let _ = expect;
    let res = catch(|| -> Result<(String, Option<(String, String)>, Vec<usize>), String> {
        let mut buf = InputBuffer::new();
        buf.reset().push_str(orig);
        if buf.start_build().is_err() {
            return Err("TooLong".into());
        }
        for (bi, b) in batches.iter().enumerate() {
            // every public entry point of the editor (replace_own / replace_ref / replace_char / replace_char_iter), chosen
            // deterministically per edit
            let apis: Vec<u8> = (0..b.len()).map(|i| ((i + bi + orig.len()) % 4) as u8).collect();
            if !apply_batch_api(&mut buf, b, &apis, false) {
                return Err("TooLong".into());
            }
        }
        buf.build(dic.grammar()).map_err(|_| "Build".to_string())?;
        let t = buf.verif_tables();
        let nch = t.mod_chars.len();
        let oc: Vec<usize> = (0..=nch).map(|i| {
            // to_orig_char_idx debug-asserts on the MAX marker; read the tables directly
            let ob = t.m2o[t.mod_c2b[i]];
            t.m2o_2.get(ob).copied().unwrap_or(usize::MAX)
        }).collect();
        let ans = format!(
            "ok cur={} m2o={} c2b={} b2c={} ob2c={} oc={}",
            hex(t.modified.as_bytes()), join(t.m2o.iter(), ","), join(t.mod_c2b.iter(), ","), join(t.mod_b2c.iter(), ","),
            show_opt(&t.m2o_2), show_opt(&oc)
        );
        // ---- property oracle on the implementation's tables ----
        let cur = &t.modified;
        let m = &t.m2o;
        let mut fail = None;
        if m.len() != cur.len() + 1 { fail = Some(("len", format!("map has {} entries for {} bytes", m.len(), cur.len()))); }
        else if m[0] != 0 { fail = Some(("start", format!("m2o[0] = {}", m[0]))); }
        else if m[cur.len()] != orig.len() { fail = Some(("end", format!("m2o[len] = {} but original length {}", m[cur.len()], orig.len()))); }
        else {
            for i in 0..cur.len() {
                if cur.is_char_boundary(i) {
                    // next boundary
                    let mut j = i + 1;
                    while !cur.is_char_boundary(j) { j += 1; }
                    if m[i] > m[j] { fail = Some(("mono", format!("m2o[{}]={} > m2o[{}]={}", i, m[i], j, m[j]))); break; }
                    if !orig.is_char_boundary(m[i]) { fail = Some(("boundary", format!("m2o[{}]={} is not a character boundary of the original", i, m[i]))); break; }
                }
            }
        }
        if fail.is_none() {
            // code-point offsets: table entry at a boundary = number of code points before it
            for ci in 0..=nch {
                let ob = m[t.mod_c2b[ci]];
                if ob <= orig.len() && orig.is_char_boundary(ob) {
                    let want = orig[..ob].chars().count();
                    if oc[ci] != want {
                        fail = Some(("charidx", format!("char {}: code-point offset {} but {} code points precede byte {}", ci, oc[ci], want, ob)));
                        break;
                    }
                    // public accessor agrees (only callable when the marker is not MAX)
                    if oc[ci] != usize::MAX && buf.to_orig_char_idx(ci) != want {
                        fail = Some(("charidx-api", format!("to_orig_char_idx({}) = {}", ci, buf.to_orig_char_idx(ci))));
                        break;
                    }
                }
            }
        }
        // the offset map as the PUBLIC accessors report it: `get_original_index` at every character boundary of the rewritten
        // text (it asserts the boundary), the table entry elsewhere; `to_orig_byte_idx` of every character must be the same value
        let goi: Vec<usize> = (0..=cur.len()).map(|i| if cur.is_char_boundary(i) { buf.get_original_index(i) } else { m[i] }).collect();
        if fail.is_none() {
            for ci in 0..=nch {
                let b = t.mod_c2b[ci];
                if buf.to_orig_byte_idx(ci) != goi[b] || goi[b] != m[b] {
                    fail = Some(("api", format!("character {} (byte {}): to_orig_byte_idx = {}, get_original_index = {}, m2o = {}", ci, b, buf.to_orig_byte_idx(ci), goi[b], m[b])));
                    break;
                }
            }
        }
        Ok((ans, fail.map(|(k, w)| (k.to_string(), w)), goi))
    });
    match res {
        Err(p) => (format!("PANIC"), Some(("panic".into(), format!("panic: {}", p))), vec![]),
        Ok(Err(e)) => (format!("err:{}", e), None, vec![]),
        Ok(Ok(x)) => x,
    }
}

pub type Ch0 = ();

/// whole analyses: the code-point offsets every morpheme reports (`begin_c`/`end_c`, what the Python binding returns as
/// begin()/end()) against the number of code points of the ORIGINAL text before its byte offsets - in every split mode, with
/// restricted field subsets (the split stage places units with `head_word_length`, not with the loaded surface) and on
/// recycled tokenizers
fn run_morphemes(run: &mut Run, first_idx: usize, count: usize) {
    use crate::c01::{analyse_with, world_for, CASES_PER_WORLD};
    use crate::world::{gen_text, WorldOpts};
    use sudachi::dic::subset::InfoSubset;
    let opts = WorldOpts::default();
    let mut cur_world: Option<(usize, Result<crate::world::World, String>)> = None;
    for k in 0..count {
        let idx = first_idx + k;
        if !run.wants(idx) { continue; }
        let widx = k / CASES_PER_WORLD;
        if cur_world.as_ref().map(|w| w.0) != Some(widx) {
            cur_world = None;
            cur_world = Some((widx, world_for(run.opts.seed ^ 0xC08, &run.prop.clone(), widx, &opts)));
        }
        let w = match &cur_world.as_ref().unwrap().1 { Ok(w) => w, Err(_) => { run.bump("morphc:world-error"); continue; } };
        let mut rng = Rng::for_case(run.opts.seed ^ 0xC08C08, idx);
        let text = if k % CASES_PER_WORLD == 0 { "㍿(かぶ)12,345ァアー".to_string() } else { gen_text(&mut rng, w, 14) };
        let mode = crate::dict::mode_of(rng.below(3));
        let subset = match rng.below(4) {
            0 => Some(InfoSubset::POS_ID),
            1 => Some(InfoSubset::NORMALIZED_FORM | InfoSubset::READING_FORM),
            2 => Some(InfoSubset::empty()),
            _ => None,
        };
        let warm: Vec<String> = if rng.chance(1, 2) { (0..1 + rng.below(3)).map(|_| gen_text(&mut rng, w, 20)).collect() } else { vec![] };
        run.bump(&format!("morphc:mode-{:?}:subset-{}", mode, match subset { None => "all".to_string(), Some(s) => format!("{:#x}", s.bits()) }));
        // the SECOND route to morphemes: `MorphemeList::lookup` (Python `Dictionary.lookup`).  Its results are morphemes of the
        // QUERY; the same clause holds for them: begin_c()/end_c() count the code points before begin()/end() and slicing the
        // query by code points gives surface().  Queries: a dictionary key as it is, and de-normalised spellings of it (upper
        // case / full-width letters and digits, a ligature in front) whose normalised form has another byte length - the
        // unchanged look-up runs no input-text plugin, so these find nothing unless the lexicon lists the spelling itself;
        // whatever IS returned has to satisfy the clause (oracle only).
        if k % 4 == 1 {
            let key = rng.pick(&w.lex.rows).surface.clone();
            let wide: String = key.chars().map(|c| match c { 'a'..='z' => char::from_u32(c as u32 - 'a' as u32 + 0xFF21).unwrap(), '0'..='9' => char::from_u32(c as u32 - '0' as u32 + 0xFF10).unwrap(), _ => c }).collect();
            let upper: String = key.to_uppercase();
            for (kind, query) in [("key", key.clone()), ("full-width", wide), ("upper-case", upper), ("ligature-in-front", format!("㍿{}", key)), ("key-after-text", text.clone())] {
                if query.is_empty() { continue; }
                let r = catch(|| {
                    let mut ml = sudachi::analysis::mlist::MorphemeList::empty(&w.dic);
                    if !warm.is_empty() {
                        let mut tok = sudachi::analysis::stateful_tokenizer::StatefulTokenizer::new(&w.dic, mode);
                        tok.reset().push_str(&warm[0]);
                        if tok.do_tokenize().is_ok() { let _ = ml.collect_results(&mut tok); }
                        ml.clear();
                    }
                    let n = ml.lookup(&query, subset.unwrap_or(InfoSubset::all())).map_err(|e| crate::dict::err_class(&e))?;
                    let mut res = vec![];
                    for i in 0..ml.len() { let m = ml.get(i); res.push((m.begin(), m.end(), m.begin_c(), m.end_c(), m.surface().to_string())); }
                    Ok::<_, String>((n, res))
                });
                match r {
                    Err(p) => {
                        if p.contains("18446744073709551615") || p.contains("char boundary") || p.contains("when slicing") || p.contains("byte index") || p.contains("out of range") || p.contains("out of bounds") {
                            run.fail(idx, "c08:lookup:accessor-panic", &format!("an offset accessor of a result of lookup({:?}) panics: {}", query, p.chars().take(200).collect::<String>()));
                        } else { run.bump("lookup:panic(C03's business)"); }
                    }
                    Ok(Err(e)) => run.bump(&format!("lookup:err:{}", e)),
                    Ok(Ok((n, res))) => {
                        run.bump(&format!("lookup:{}:found-{}", kind, n.min(3)));
                        for (i, (b, e, bc, ec, sf)) in res.iter().enumerate() {
                            if *b > query.len() || *e > query.len() || b > e || !query.is_char_boundary(*b) || !query.is_char_boundary(*e) { continue; } // C01's clause
                            let (wb, we) = (query[..*b].chars().count(), query[..*e].chars().count());
                            let by_cp: String = query.chars().skip(*bc).take(ec.saturating_sub(*bc)).collect();
                            if *bc != wb || *ec != we || &by_cp != sf || sf != &query[*b..*e] {
                                run.fail(idx, "c08:lookup:slice-agree", &format!("result {} of lookup({:?}): bytes {}..{} = code points {}..{}, begin_c()/end_c() report {}..{}; the query sliced by code points is {:?}, by bytes {:?}, surface() is {:?}",
                                    i, query, b, e, wb, we, bc, ec, by_cp, &query[*b..*e], sf));
                                break;
                            }
                        }
                    }
                }
            }
        }
        let a = match analyse_with(&w.dic, &warm, &text, mode, subset) {
            Ok(Ok(a)) => a,
            Ok(Err(e)) => { run.bump(&format!("morphc:err:{}", e)); continue; }
            Err(p) => {
                // a panic inside the offset accessors AFTER a successful analysis is this property's clause (the usize::MAX
                // marker of the byte -> code-point table, a slice of the original off a character boundary); anything else is C03's
                if p.contains("18446744073709551615") || p.contains("char boundary") || p.contains("when slicing") || p.contains("byte index") {
                    run.fail(idx, "c08:accessor-panic", &format!("an offset accessor of a morpheme of {:?} (mode {:?}, subset {:?}) panics: {}", text, mode, subset.map(|s| s.bits()), p.chars().take(200).collect::<String>()));
                } else {
                    run.bump("morphc:panic(C03's business)");
                }
                continue;
            }
        };
        let payload = format!(
            "orig={} cur={} m2o={} nodes={}",
            hex(text.as_bytes()), hex(a.tables.modified.as_bytes()), join(a.tables.m2o.iter(), ","),
            a.morphs.iter().map(|m| format!("{}:{}:{}:{}", m.6 .0, m.6 .1, m.6 .2, m.6 .3)).collect::<Vec<_>>().join(";")
        );
        // every offset accessor of every morpheme + Python's len(m) + the surface (byte route)
        let ans = format!("ok ms={}", a.morphs.iter().map(|m| match m.4.checked_sub(m.3) {
            Some(len) => format!("{}:{}:{}:{}:{}:{}", m.0, m.1, m.3, m.4, len, hex_or_e(m.2.as_bytes())),
            None => "P".to_string(),
        }).collect::<Vec<_>>().join(","));
        let widths: std::collections::BTreeSet<usize> = text.chars().map(|c| c.len_utf8()).collect();
        run.bump(&format!("morphc:char-widths-in-text:{}", widths.iter().map(|w| w.to_string()).collect::<Vec<_>>().join("")));
        if a.tables.modified.len() == text.len() && a.tables.modified != text { run.bump("morphc:rewritten-same-byte-length"); }
        if a.tables.modified.chars().count() != text.chars().count() { run.bump("morphc:rewriting-changes-char-count"); }
        run.case(idx, "morphc", &payload, &ans, a.morphs.len() >= 2 && a.tables.modified != text);
        for (i, m) in a.morphs.iter().enumerate() {
            let (b, e, bc, ec) = (m.0, m.1, m.3, m.4);
            if b > text.len() || e > text.len() || !text.is_char_boundary(b) || !text.is_char_boundary(e) { continue; } // C01's clause
            let (wb, we) = (text[..b].chars().count(), text[..e].chars().count());
            if bc != wb || ec != we {
                run.fail(idx, "c08:codepoints", &format!("morpheme {} of {:?} (mode {:?}, subset {:?}, {} earlier texts): bytes {}..{} are code points {}..{}, begin_c()/end_c() report {}..{}",
                    i, text, mode, subset.map(|s| s.bits()), warm.len(), b, e, wb, we, bc, ec));
                break;
            }
            // slicing the original by code points gives the surface (what Python's text[m.begin():m.end()] does)
            let by_cp: String = text.chars().skip(bc).take(ec.saturating_sub(bc)).collect();
            if by_cp != m.2 || b > e || m.2 != text[b..e] {
                run.fail(idx, "c08:slice-agree", &format!("morpheme {} of {:?} (mode {:?}): code points {}..{} are {:?}, bytes {}..{} are {:?}, surface() is {:?}", i, text, mode, bc, ec, by_cp, b, e, &text[b.min(e)..e], m.2));
                break;
            }
        }
    }
}

pub fn run(run: &mut Run) {
    {
        let n = run.opts.count;
        let nm = (n / 4).max(100);
        run_morphemes(run, n, nm);
        run_acc(run, n + nm, nm);
        run_python(run, n + 2 * nm, (n / 1000).max(2));
    }
    run.rule = "random original strings over mixed 1-4 byte characters x 1..4 successive batches of sorted non-overlapping \
edits (deletions, insertions, shorter/longer/equal replacements, adjacent edits, at start/middle/end) generated on character \
boundaries of the current text and leaving it non-empty; non-trivial = at least one edit changes the byte length; distinct by line".into();
    let (_wd, dic) = tiny_dict(&format!("{}-tiny", run.prop));
    let n = run.opts.count;
    let orig_pool: Vec<char> = vec!['a', 'b', 'é', 'あ', 'い', '宇', '宙', '人', '𠮷', '👍', '1', 'Ａ'];
    for idx in 0..n {
        if !run.wants(idx) { continue; }
        let mut rng = Rng::for_case(run.opts.seed, idx);
        let (orig, batches_c): (String, Vec<Vec<(usize, usize, String)>>) = match idx {
            0 => ("宇宙人".into(), vec![vec![(0, 1, "あい".into())], vec![(3, 4, "".into())]]),
            1 => ("âｂC1あ".into(), vec![vec![(0, 1, "a".into()), (1, 2, "b".into()), (2, 3, "c".into())]]),
            2 => ("宇宙人".into(), vec![vec![(0, 1, "".into())]]),
            3 => ("ab".into(), vec![vec![(0, 0, "x".into()), (2, 2, "y".into())]]),
            4 => ("a".into(), vec![vec![(0, 1, "x".repeat(70000))]]),
            5 => ("あ".repeat(16384), vec![]),
            _ => {
                let len = rng.range(1, 10);
                let o: String = (0..len).map(|_| *rng.pick(&orig_pool)).collect();
                (o, vec![])
            }
        };
        // naive evolution of the text (independent of the implementation) to place edits on boundaries
        let mut cur: Vec<Ch> = {
            let mut v = vec![];
            let mut off = 0;
            for c in orig.chars() {
                v.push(Ch { c, prov: Some((off, off + c.len_utf8())), del_after: false, org: Some(off), lead: false });
                off += c.len_utf8();
            }
            v
        };
        let mut batches: Vec<Vec<Ed>> = vec![];
        let mut char_batches = batches_c.clone();
        if idx > 5 {
            let nb = rng.range(1, 4);
            for _ in 0..nb {
                let b = gen_batch(&mut rng, &cur);
                let next = apply_naive(&cur, &b);
                if next.is_empty() { continue; }
                char_batches.push(b.clone());
                // convert now (offsets refer to the current text)
                batches.push(b.iter().map(|(s, e, w)| Ed { s: byte_off(&cur, *s), e: byte_off(&cur, *e), w: w.clone() }).collect());
                cur = next;
            }
        } else {
            for b in &batches_c {
                batches.push(b.iter().map(|(s, e, w)| Ed { s: byte_off(&cur, *s), e: byte_off(&cur, *e), w: w.clone() }).collect());
                cur = apply_naive(&cur, b);
            }
        }
        let changes_len = batches.iter().flatten().any(|e| e.w.len() != e.e - e.s);
        // `commit=` names the length guard of the linked tree's `resolve_edits`/`commit` (probe in c03.rs) for the model
        let payload = format!(
            "orig={} batches={} commit={}",
            hex(orig.as_bytes()),
            if batches.is_empty() { "".to_string() } else {
                batches.iter().map(|b| if b.is_empty() { "-".to_string() } else { b.iter().map(|e| format!("{}:{}:{}", e.s, e.e, hex(e.w.as_bytes()))).collect::<Vec<_>>().join(",") }).collect::<Vec<_>>().join(";")
            },
            crate::c03::commit_variant()
        );
        let (ans, fail, goi) = run_edit_case(&dic, &orig, &batches, None);
        // ghost tokens (model: `EditG.ghostTokens`): provenance / attached deletion / first-entry flag per byte of the rewritten
        // text from the naive bookkeeping above (never looks at the buffer), and the image of every unreplaced byte as the REAL
        // buffer reports it (`get_original_index` on boundaries) - the model PREDICTS that image from its ghost state alone
        let ans = if ans.starts_with("ok") && goi.len() == cur.iter().map(|c| c.c.len_utf8()).sum::<usize>() + 1 {
            let (mut prov, mut del, mut lead, mut uimg) = (vec![], String::new(), String::new(), vec![]);
            let mut off = 0;
            for c in cur.iter() {
                let w = c.c.len_utf8();
                for j in 0..w {
                    match c.org {
                        Some(k) => { prov.push((k + j).to_string()); uimg.push(format!("{}:{}:{}", off + j, goi[off + j], goi[off + j + 1])); }
                        None => prov.push("r".to_string()),
                    }
                    del.push(if j + 1 == w && c.del_after { '1' } else { '0' });
                    lead.push(if j == 0 && c.lead { '1' } else { '0' });
                }
                off += w;
            }
            run.bump_by("ghost:unreplaced-bytes", uimg.len() as u64);
            run.bump_by("ghost:bytes-with-attached-deletion", del.chars().filter(|c| *c == '1').count() as u64);
            run.bump_by("ghost:first-entry-flags", lead.chars().filter(|c| *c == '1').count() as u64);
            format!("{} prov={} del={} lead={} uimg={}", ans, prov.join(","), del, lead, uimg.join(";"))
        } else { ans };
        run.bump(&format!("batches:{}", batches.len()));
        run.bump(&format!("outcome:{}", ans.split(' ').next().unwrap_or("")));
        for (bi, b) in batches.iter().enumerate() { for (i, e) in b.iter().enumerate() { run.bump(&format!("edit-api:{}", api_name(((i + bi + orig.len()) % 4) as u8, e))); } }
        for b in &batches { for e in b { run.bump(if e.w.is_empty() { "edit:delete" } else if e.s == e.e { "edit:insert" } else if e.w.len() > e.e - e.s { "edit:longer" } else if e.w.len() < e.e - e.s { "edit:shorter" } else { "edit:equal" }); } }
        run.case(idx, "edits", &payload, &ans, changes_len);
        if let Some((k, w)) = fail {
            run.fail(idx, &format!("c08:{}", k), &w);
            continue;
        }
        // naive text agrees, unreplaced characters keep their own offsets
        if ans.starts_with("ok") {
            let want: String = cur.iter().map(|c| c.c).collect();
            let got_hex = ans.split(' ').nth(1).unwrap_or("").trim_start_matches("cur=").to_string();
            if got_hex != hex(want.as_bytes()) {
                run.fail(idx, "c08:text", &format!("rewritten text differs from the naive application of the edits: {:?}", want));
                continue;
            }
            let m2o: Vec<usize> = ans.split(' ').nth(2).unwrap_or("").trim_start_matches("m2o=").split(',').filter(|s| !s.is_empty()).map(|s| s.parse().unwrap()).collect();
            let mut off = 0;
            for (i, c) in cur.iter().enumerate() {
                if let Some((s, e)) = c.prov {
                    let next = off + c.c.len_utf8();
                    let start_ok = m2o[off] == s;
                    // deleted text directly after the character attaches to it: the image then ends where the deletion run ends -
                    // exactly at the next character's own start when that one is unreplaced too, at the end of the original
                    // when the character is the last one, somewhere at or after its own end otherwise
                    let end_ok = if !c.del_after { m2o[next] == e } else {
                        match cur.get(i + 1) {
                            None => m2o[next] == orig.len(),
                            Some(n) => match n.org { Some(k) => m2o[next] == k && k >= e, None => m2o[next] >= e },
                        }
                    };
                    if !start_ok || !end_ok {
                        run.fail(idx, "c08:unreplaced", &format!("unreplaced character {:?} (original bytes {}..{}) is mapped to {}..{}", c.c, s, e, m2o[off], m2o[next]));
                        break;
                    }
                }
                off += c.c.len_utf8();
            }
        }
    }
}


pub fn hex_or_e(b: &[u8]) -> String {
    if b.is_empty() { "e".to_string() } else { hex(b) }
}

const ACC_POOL: &[char] = &['a', 'b', '1', '\u{0}', 'é', 'ß', '\u{301}', 'あ', 'い', '宇', '宙', '\u{200d}', '€', 'Ａ', '𠮷', '👍', '𝒳'];

/// the read-only accessor family of `InputBuffer` after `build` (get_original_index, to_orig_byte_idx, to_orig_char_idx,
/// to_curr_byte_idx, curr_byte_offsets, ch_idx, char_distance, to_orig, orig_slice, curr_slice, orig_slice_c, curr_slice_c, and the
/// `end_c - begin_c` of Python's `len(m)`): every one called on the real buffer at EVERY index up to two beyond the tables and on
/// ranges on and off character boundaries, inverted and out of range; each call under its own catch (`P` = panic: index out of
/// range, debug assertion, slice check). Model: `EditAcc.handleAcc`.
fn run_acc(run: &mut Run, first_idx: usize, count: usize) {
    use sudachi::input_text::InputTextIndex;
    let (_wd, dic) = tiny_dict(&format!("{}-tinyacc", run.prop));
    for k in 0..count {
        let idx = first_idx + k;
        if !run.wants(idx) { continue; }
        let mut rng = Rng::for_case(run.opts.seed ^ 0xACC, idx);
        // (original, batches in character indices)
        let (orig, directed): (String, Option<Vec<Vec<(usize, usize, String)>>>) = match k {
            0 => ("".into(), Some(vec![])),
            1 => ("a".into(), Some(vec![vec![(0, 1, "".into())]])),                       // everything deleted: empty rewritten text
            2 => ("宇宙人".into(), Some(vec![vec![(0, 1, "あい".into())], vec![(3, 4, "".into())]])),
            3 => ("𠮷".into(), Some(vec![])),                                              // one 4-byte character, no edit
            4 => ("aé€𠮷".into(), Some(vec![vec![(0, 0, "𝒳".into())], vec![(5, 5, "ß".into())]])), // insertions at both ends, widths 1-4
            5 => ("…℃".into(), Some(vec![vec![(0, 1, "...".into()), (1, 2, "°C".into())]])),   // same byte length, other character count
            6 => ("ab".into(), Some(vec![vec![(0, 2, "".into())], vec![]])),
            _ => {
                let len = if rng.chance(1, 10) { 1 } else { rng.range(1, 10) };
                ((0..len).map(|_| *rng.pick(ACC_POOL)).collect(), None)
            }
        };
        let mut cur: Vec<Ch> = {
            let mut v = vec![];
            let mut off = 0;
            for c in orig.chars() { v.push(Ch { c, prov: Some((off, off + c.len_utf8())), del_after: false, org: Some(off), lead: false }); off += c.len_utf8(); }
            v
        };
        let mut batches: Vec<Vec<Ed>> = vec![];
        match directed {
            Some(bc) => for b in &bc {
                batches.push(b.iter().map(|(s, e, w)| Ed { s: byte_off(&cur, *s), e: byte_off(&cur, *e), w: w.clone() }).collect());
                cur = apply_naive(&cur, b);
            },
            None => {
                let nb = rng.below(4);
                for _ in 0..nb {
                    let b = gen_batch(&mut rng, &cur);
                    let next = apply_naive(&cur, &b);
                    if next.is_empty() { continue; }
                    batches.push(b.iter().map(|(s, e, w)| Ed { s: byte_off(&cur, *s), e: byte_off(&cur, *e), w: w.clone() }).collect());
                    cur = next;
                }
            }
        }
        // per edit the editor entry point; before some batches a batch whose closure fails (rolled back: the model never sees it)
        let mut arng = Rng::for_case(run.opts.seed ^ 0xA91, idx);
        let apis: Vec<Vec<u8>> = batches.iter().map(|b| b.iter().map(|_| arng.below(4) as u8).collect()).collect();
        let rejected_before: Vec<bool> = batches.iter().map(|_| arng.chance(1, 5)).collect();
        let built = catch(|| -> Result<(InputBuffer, Vec<String>), String> {
            let mut buf = InputBuffer::new();
            buf.reset().push_str(&orig);
            if buf.start_build().is_err() { return Err("TooLong".into()); }
            let mut mids = vec![];
            for (bi, b) in batches.iter().enumerate() {
                // the buffer as a plugin sees it (state RW)
                let len = buf.current().len();
                mids.push(format!("{}/{}", hex_or_e(buf.current().as_bytes()),
                    join((0..len + 2).map(|i| match catch(|| buf.get_original_index(i)) { Ok(v) => v.to_string(), Err(_) => "P".to_string() }), ",")));
                if rejected_before[bi] {
                    // a failing plugin: pushes edits (a deletion of the whole text and an insertion), then reports an error
                    let junk = vec![Ed { s: 0, e: len, w: "".into() }, Ed { s: len, e: len, w: "zz".into() }];
                    if apply_batch_api(&mut buf, &junk, &[0, 1], true) { return Err("rejected batch committed".into()); }
                }
                if !apply_batch_api(&mut buf, b, &apis[bi], false) { return Err("TooLong".into()); }
            }
            buf.build(dic.grammar()).map_err(|_| "Build".to_string())?;
            Ok((buf, mids))
        });
        let (buf, mids) = match built {
            Ok(Ok(b)) => b,
            Ok(Err(e)) => { run.bump(&format!("acc:err:{}", e)); if e != "TooLong" { run.fail(idx, "c08:acc:rollback", &format!("{:?}: {}", orig, e)); } continue; }
            Err(p) => { run.fail(idx, "c08:acc:build-panic", &format!("building the buffer of {:?} panics: {}", orig, p)); continue; }
        };
        for (bi, b) in batches.iter().enumerate() {
            for (i, e) in b.iter().enumerate() { run.bump(&format!("acc:api:{}", api_name(apis[bi][i], e))); }
            if rejected_before[bi] { run.bump("acc:rolled-back-batch-before-a-batch"); }
        }
        let t = buf.verif_tables();
        let n = t.modified.len();
        let nc = t.mod_chars.len();
        // ---- queries ----
        let bounds: Vec<usize> = t.mod_c2b.clone();
        let pick_b = |rng: &mut Rng| if rng.chance(1, 2) { *rng.pick(&bounds) } else { rng.below(n + 3) };
        let mut rb: Vec<(usize, usize)> = vec![(0, n), (0, 0), (n, n)];
        for _ in 0..7 {
            let (a, b) = (pick_b(&mut rng), pick_b(&mut rng));
            rb.push(if rng.chance(4, 5) { (a.min(b), a.max(b)) } else { (a, b) });
        }
        let mut rc: Vec<(usize, usize)> = vec![(0, nc), (nc, nc)];
        for _ in 0..6 {
            let lim = if rng.chance(3, 4) { nc + 1 } else { nc + 3 };
            let (a, b) = (rng.below(lim), rng.below(lim));
            rc.push(if rng.chance(4, 5) { (a.min(b), a.max(b)) } else { (a, b) });
        }
        let offs = [0usize, 1, 2, 3, nc, nc + 1, 100_000];
        let mut cd: Vec<(usize, usize)> = vec![(0, nc), (nc, 1), (nc + 1, 0)];
        for _ in 0..5 { cd.push((rng.below(nc + 3), *rng.pick(&offs))); }
        let pairs = |v: &[(usize, usize)]| v.iter().map(|(a, b)| format!("{}:{}", a, b)).collect::<Vec<_>>().join(";");
        let payload = format!(
            "orig={} batches={} commit={} rb={} rc={} cd={}",
            hex(orig.as_bytes()),
            batches.iter().map(|b| if b.is_empty() { "-".to_string() } else { b.iter().map(|e| format!("{}:{}:{}", e.s, e.e, hex(e.w.as_bytes()))).collect::<Vec<_>>().join(",") }).collect::<Vec<_>>().join(";"),
            crate::c03::commit_variant(), pairs(&rb), pairs(&rc), pairs(&cd)
        );
        // ---- the real accessors, one catch per call ----
        fn one<T>(f: impl FnOnce() -> T, show: impl Fn(T) -> String) -> String { match catch(f) { Ok(v) => show(v), Err(_) => "P".to_string() } }
        let num = |v: usize| v.to_string();
        let sl = |v: String| hex_or_e(v.as_bytes());
        let goi = join((0..n + 2).map(|i| one(|| buf.get_original_index(i), num)), ",");
        let chi = join((0..n + 3).map(|i| one(|| buf.ch_idx(i), num)), ",");
        let tcb = join((0..nc + 3).map(|i| one(|| buf.to_curr_byte_idx(i), num)), ",");
        let tob = join((0..nc + 3).map(|i| one(|| buf.to_orig_byte_idx(i), num)), ",");
        let toc = join((0..nc + 3).map(|i| one(|| buf.to_orig_char_idx(i), num)), ",");
        let cbo = one(|| join(buf.curr_byte_offsets().iter(), ","), |s| s);
        let cdv = join(cd.iter().map(|&(c, o)| one(|| buf.char_distance(c, o), num)), ",");
        let to = join(rb.iter().map(|&(a, b)| one(|| buf.to_orig(a..b), |r| format!("{}:{}", r.start, r.end))), ",");
        let os = join(rb.iter().map(|&(a, b)| one(|| buf.orig_slice(a..b).to_string(), sl)), ",");
        let cs = join(rb.iter().map(|&(a, b)| one(|| buf.curr_slice(a..b).to_string(), sl)), ",");
        let osc = join(rc.iter().map(|&(a, b)| one(|| buf.orig_slice_c(a..b).to_string(), sl)), ",");
        let csc = join(rc.iter().map(|&(a, b)| one(|| buf.curr_slice_c(a..b).to_string(), sl)), ",");
        // python/src/morpheme.rs: begin() = begin_c(), end() = end_c(), __len__ = end_c() - begin_c()
        let py = join(rc.iter().map(|&(a, b)| one(|| { let x = buf.to_orig_char_idx(a); let y = buf.to_orig_char_idx(b); (x, y, y - x) }, |(x, y, l)| format!("{}:{}:{}", x, y, l))), ",");
        let ans = format!("ok mid={} goi={} chi={} tcb={} tob={} toc={} cbo={} cd={} to={} os={} cs={} osc={} csc={} py={}", mids.join(";"), goi, chi, tcb, tob, toc, cbo, cdv, to, os, cs, osc, csc, py);
        // ---- distribution ----
        run.bump(&format!("acc:batches:{}", batches.len()));
        for c in orig.chars() { run.bump(&format!("acc:orig-char-width:{}", c.len_utf8())); }
        run.bump(if n == 0 { "acc:rewritten-empty" } else if n == orig.len() && t.modified != orig { "acc:rewritten-same-byte-length" } else if t.modified == orig { "acc:rewritten-unchanged" } else { "acc:rewritten-other-length" });
        for (name, v) in [("goi", &goi), ("toc", &toc), ("os", &os), ("cs", &cs), ("osc", &osc), ("csc", &csc), ("cd", &cdv), ("py", &py)] {
            let p = v.split(',').filter(|x| *x == "P").count();
            run.bump_by(&format!("acc:{}:panics", name), p as u64);
            run.bump_by(&format!("acc:{}:values", name), (v.split(',').count() - p) as u64);
        }
        run.case(idx, "acc", &payload, &ans, !batches.is_empty() && n != orig.len());
        // ---- the property's own oracle on the real accessors (independent of the model) ----
        let cur_s = &t.modified;
        let mut fail: Option<(&str, String)> = None;
        for i in 0..=n {
            if !cur_s.is_char_boundary(i) { continue; }
            match catch(|| buf.get_original_index(i)) {
                Err(p) => { fail = Some(("goi-panic", format!("get_original_index({}) on a character boundary panics: {}", i, p))); break; }
                Ok(v) => if n > 0 && (v > orig.len() || !orig.is_char_boundary(v)) { fail = Some(("goi-boundary", format!("get_original_index({}) = {} is not a character boundary of the original", i, v))); break; }
            }
        }
        if fail.is_none() {
            let want: Vec<usize> = cur_s.char_indices().map(|(i, _)| i).collect();
            match catch(|| buf.curr_byte_offsets().to_vec()) {
                Err(p) => { fail = Some(("byte-offsets-panic", format!("curr_byte_offsets() panics: {}", p))); }
                Ok(v) => if v != want { fail = Some(("byte-offsets", format!("curr_byte_offsets() = {:?} but the characters begin at {:?}", v, want))); }
            }
        }
        if fail.is_none() && n > 0 {
            for i in 0..=nc {
                match catch(|| (buf.to_curr_byte_idx(i), buf.ch_idx(buf.to_curr_byte_idx(i)))) {
                    Err(p) => { fail = Some(("chidx-panic", format!("ch_idx(to_curr_byte_idx({})) panics: {}", i, p))); break; }
                    Ok((_, c)) => if c != i { fail = Some(("chidx-roundtrip", format!("ch_idx(to_curr_byte_idx({})) = {}", i, c))); break; }
                }
                match catch(|| (buf.to_orig_byte_idx(i), buf.to_orig_char_idx(i))) {
                    Err(p) => { fail = Some(("charidx-panic", format!("to_orig_char_idx({}) panics: {}", i, p))); break; }
                    Ok((b, c)) => if b > orig.len() || !orig.is_char_boundary(b) || orig[..b].chars().count() != c {
                        fail = Some(("charidx", format!("character {}: to_orig_byte_idx = {}, to_orig_char_idx = {}", i, b, c))); break;
                    }
                }
            }
        }
        if fail.is_none() && n > 0 {
            for &(a, b) in rc.iter().filter(|(a, b)| a <= b && *b <= nc) {
                let r = catch(|| (buf.orig_slice_c(a..b).to_string(), buf.curr_slice_c(a..b).to_string(), buf.to_orig_char_idx(a), buf.to_orig_char_idx(b),
                                  buf.orig_slice(buf.to_curr_byte_idx(a)..buf.to_curr_byte_idx(b)).to_string()));
                match r {
                    Err(p) => { fail = Some(("slice-panic", format!("a slice accessor panics for characters {}..{}: {}", a, b, p))); break; }
                    Ok((o, c, x, y, o2)) => {
                        let by_cp: String = orig.chars().skip(x).take(y.saturating_sub(x)).collect();
                        if o != by_cp || o != o2 || o.chars().count() != y.wrapping_sub(x) {
                            fail = Some(("slice-agree", format!("characters {}..{}: orig_slice_c = {:?}, orig_slice = {:?}, original code points {}..{} = {:?}", a, b, o, o2, x, y, by_cp))); break;
                        }
                        if c.chars().count() != b - a { fail = Some(("curr-slice-c", format!("curr_slice_c({}..{}) = {:?}", a, b, c))); break; }
                    }
                }
            }
        }
        if fail.is_none() {
            for &(c, o) in cd.iter().filter(|(c, _)| *c <= nc) {
                match catch(|| buf.char_distance(c, o)) {
                    Err(p) => { fail = Some(("char-distance-panic", format!("char_distance({}, {}) panics inside the text: {}", c, o, p))); break; }
                    Ok(d) => if d != o.min(nc - c) { fail = Some(("char-distance", format!("char_distance({}, {}) = {} in a text of {} characters", c, o, d, nc))); break; }
                }
            }
        }
        if let Some((k, w)) = fail {
            run.fail(idx, &format!("c08:acc:{}", k), &format!("{:?} after {} batches ({:?}): {}", orig, batches.len(), cur_s, w));
        }
    }
}

/// Python: `Morpheme.begin()/end()/len(m)` (python/src/morpheme.rs) and the pre-tokenizer's code-point slices
/// (python/src/pretokenizer.rs, `__call__` driven directly with a stand-in for tokenizers.NormalizedString) on the built
/// extension, against the in-process library and the model (`C08 pyoff`: EditAcc.pyOffsets on the dumped tables).
fn run_python(run: &mut Run, first_idx: usize, count: usize) {
    use crate::c01::{analyse_with, world_for};
    use crate::world::{gen_text, WorldOpts};
    let root = std::env::var("VERIF_ROOT").unwrap_or_else(|_| "/verif".to_string());
    let pkg = format!("{}/.build/py/pkg", root);
    if !std::path::Path::new(&pkg).exists() {
        if (first_idx..first_idx + count).any(|i| run.wants(i)) { run.bump("python:extension-not-built"); }
        return;
    }
    let opts = WorldOpts::default();
    for k in 0..count {
        let idx = first_idx + k;
        if !run.wants(idx) { continue; }
        let w = match world_for(run.opts.seed ^ 0xC08F, &format!("{}-py", run.prop), k, &opts) { Ok(w) => w, Err(_) => { run.bump("python:world-error"); continue; } };
        let mut rng = Rng::for_case(run.opts.seed ^ 0xC08F, idx);
        let base = w.cfg.replacen("{", &format!("{{\"systemDict\":\"system.dic\",\"userDict\":[{}],", (0..w.user_bins.len()).map(|i| format!("\"user{}.dic\"", i)).collect::<Vec<_>>().join(",")), 1);
        std::fs::write(w.wd.path.join("system.dic"), &w.system_bin).unwrap();
        for (i, u) in w.user_bins.iter().enumerate() { std::fs::write(w.wd.path.join(format!("user{}.dic", i)), u).unwrap(); }
        w.wd.write("cfg_c08py.json", &base);
        let mut meta = vec![];
        let mut cases = vec![];
        for j in 0..24 {
            let text = match j { 0 => "㍿(かぶ)12,345ァアー…℃".to_string(), 1 => "".to_string(), 2 => "👍🏻e\u{301}ＡＢＣ𠮷".to_string(), _ => gen_text(&mut rng, &w, 12) };
            let mode = mode_of(rng.below(3));
            cases.push(serde_json::json!({"mode": format!("{:?}", mode), "text": text}));
            meta.push((mode, text));
        }
        let script = serde_json::json!({"pkg": pkg, "resource_dir": w.wd.path, "cfg": w.wd.path.join("cfg_c08py.json"), "cases": cases});
        let spath = w.wd.path.join("c08py_script.json");
        std::fs::write(&spath, serde_json::to_string(&script).unwrap()).unwrap();
        let outp = match std::process::Command::new("python3").arg(format!("{}/pyharness/run_c08.py", root)).arg(&spath).output() {
            Ok(o) => o, Err(e) => { run.bump(&format!("python:spawn-error:{}", e)); continue; }
        };
        let got: Vec<serde_json::Value> = serde_json::from_slice(&outp.stdout).unwrap_or_default();
        if got.len() != meta.len() {
            run.fail(idx, "c08:py:crash", &format!("the Python run ended early ({} of {} answers, status {:?}): {}", got.len(), meta.len(), outp.status.code(),
                String::from_utf8_lossy(&outp.stderr).chars().rev().take(300).collect::<String>().chars().rev().collect::<String>()));
            continue;
        }
        let mut lines = vec![];
        for (j, (mode, text)) in meta.iter().enumerate() {
            let a = match analyse_with(&w.dic, &[], text, *mode, None) { Ok(Ok(a)) => a, _ => { run.bump("python:library-error-skipped"); continue; } };
            let g = &got[j];
            run.bump(&format!("python:texts:mode-{:?}", mode));
            if g["ok"] != serde_json::Value::Bool(true) {
                run.fail(idx, "c08:py:raise", &format!("tokenize({:?}) raised {} {} although the library analyses it", text, g["exc"], g["msg"]));
                continue;
            }
            let ms = g["ms"].as_array().cloned().unwrap_or_default();
            lines.push(format!("orig={} cur={} m2o={} nodes={} => ok py={}",
                hex(text.as_bytes()), hex(a.tables.modified.as_bytes()), join(a.tables.m2o.iter(), ","),
                a.morphs.iter().map(|m| format!("{}:{}:{}:{}", m.6 .0, m.6 .1, m.6 .2, m.6 .3)).collect::<Vec<_>>().join(";"),
                ms.iter().map(|m| format!("{}:{}:{}", m[0], m[1], m[2])).collect::<Vec<_>>().join(",")));
            run.bump_by("python:morphemes", ms.len() as u64);
            if ms.len() == a.morphs.len() {
                let bad = ms.iter().zip(a.morphs.iter()).find(|(p, m)| m.0 <= text.len() && m.1 <= text.len() && text.is_char_boundary(m.0) && text.is_char_boundary(m.1)
                    && (p[0].as_u64() != Some(text[..m.0].chars().count() as u64) || p[1].as_u64() != Some(text[..m.1].chars().count() as u64) || p[3] != p[4]));
                if let Some((p, m)) = bad {
                    run.fail(idx, "c08:py:codepoints", &format!("Python morpheme {} of {:?} (mode {:?}): bytes {}..{} of the text are code points {}..{}, and text[begin():end()] must be raw_surface()", p, text, mode, m.0, m.1, text[..m.0].chars().count(), text[..m.1].chars().count()));
                    continue;
                }
            }
            let want: Vec<serde_json::Value> = a.morphs.iter().map(|m| serde_json::json!([m.3, m.4, m.2.chars().count(), m.2, m.2])).collect();
            if serde_json::Value::Array(ms.clone()) != serde_json::Value::Array(want.clone()) {
                run.fail(idx, "c08:py:offsets", &format!("Python [begin(), end(), len(m), raw_surface(), text[begin():end()]] of {:?} (mode {:?}) = {} but the library's morphemes give {}",
                    text, mode, g["ms"].to_string().chars().take(400).collect::<String>(), serde_json::Value::Array(want).to_string().chars().take(400).collect::<String>()));
                continue;
            }
            match g.get("pre").and_then(|p| p.as_array()) {
                None => { run.fail(idx, "c08:py:pretok", &format!("the pre-tokenizer call on {:?} raised: {}", text, g["pre_exc"])); }
                Some(pre) => {
                    // independent of any analysis: the code-point slices must tile the text
                    let cat: String = pre.iter().map(|x| x.as_str().unwrap_or("\u{0}?")).collect();
                    // OUTSIDE the property's quantifier ("replacements that leave the text non-empty"): the input-text plugins deleted
                    // the whole text (every character on the ignore list) - no morpheme, no slice, nothing to tile with; the
                    // pre-tokenizer must then return no slice at all (thorough tier: "〜～ー" in a world that ignores all three)
                    if a.tables.modified.is_empty() && !text.is_empty() {
                        run.bump("python:text-rewritten-to-empty(outside-the-quantifier)");
                        if !pre.is_empty() {
                            run.fail(idx, "c08:py:pretok", &format!("pre-tokenizer slices of {:?} (rewritten to the empty text) = {}", text, serde_json::Value::Array(pre.clone())));
                        }
                        continue;
                    }
                    if cat != *text {
                        run.fail(idx, "c08:py:pretok-tiling", &format!("pre-tokenizer slices of {:?} (mode {:?}) = {} do not concatenate to the text", text, mode,
                            serde_json::Value::Array(pre.clone()).to_string().chars().take(300).collect::<String>()));
                        continue;
                    }
                    // `Dictionary.pre_tokenizer()` without handler analyses with the fields its projection needs: none for the surface
                    // projection (`set_subset(empty)`), so its tokens are those of THAT analysis (a path-rewrite plugin that looks at
                    // part-of-speech ids joins differently than under `tokenize`, which loads every field)
                    let a0 = match analyse_with(&w.dic, &[], text, *mode, Some(sudachi::dic::subset::InfoSubset::empty())) { Ok(Ok(a)) => a, _ => { run.bump("python:library-error-skipped"); continue; } };
                    let want: Vec<serde_json::Value> = a0.morphs.iter().map(|m| serde_json::json!(m.2)).collect();
                    if want.len() != a.morphs.len() { run.bump("python:pretokenizer-tokens-differ-from-tokenize()-tokens(field-subset)"); }
                    if *pre != want {
                        run.fail(idx, "c08:py:pretok", &format!("pre-tokenizer slices of {:?} (mode {:?}) = {} but the surfaces are {}", text, mode,
                            serde_json::Value::Array(pre.clone()).to_string().chars().take(300).collect::<String>(), serde_json::Value::Array(want).to_string().chars().take(300).collect::<String>()));
                    } else { run.bump("python:pretokenizer-texts-ok"); }
                }
            }
        }
        // one model line per Python run (all texts of the run on one line would be unreadable: the first text with >= 2 morphemes
        // and a rewritten text stands for the run in the case list, the others are compared here through extra lines)
        for (j, l) in lines.iter().enumerate() {
            let (payload, ans) = l.split_once(" => ").unwrap();
            let _ = j; run.case(idx, "pyoff", payload, ans, true);
        }
        run.bump("python:runs");
    }
}


/// one batch through the public editor API; `apis[i]` selects the entry point of edit i (0 replace_own, 1 replace_ref,
/// 2 replace_char when the replacement is one character, 3 replace_char_iter when it is not empty); `reject` makes the closure
/// return an error AFTER pushing its edits (`with_editor` must roll them back). Returns whether the batch was committed.
pub fn apply_batch_api(buf: &mut InputBuffer, b: &[Ed], apis: &[u8], reject: bool) -> bool {
    let r = buf.with_editor(|_, mut ed| {
        for (i, e) in b.iter().enumerate() {
            let mut cs = e.w.chars();
            let first = cs.next();
            match (apis.get(i).copied().unwrap_or(0), first) {
                (1, _) => ed.replace_ref(e.s..e.e, &e.w),
                (2, Some(c)) if e.w.chars().count() == 1 => ed.replace_char(e.s..e.e, c),
                (3, Some(c)) => ed.replace_char_iter(e.s..e.e, c, cs),
                _ => ed.replace_own(e.s..e.e, e.w.clone()),
            }
        }
        if reject { Err(sudachi::error::SudachiError::InvalidRange(0, 0)) } else { Ok(ed) }
    });
    r.is_ok()
}

pub fn api_name(a: u8, e: &Ed) -> &'static str {
    let n = e.w.chars().count();
    match a { 1 => "replace_ref", 2 if n == 1 => "replace_char", 3 if n >= 2 => "replace_char_iter(string)", 3 if n == 1 => "replace_char_iter(char)", _ => "replace_own" }
}
