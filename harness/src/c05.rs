//! C05: compile-then-load round trip of the binary dictionary, determinism, alignment independence.
//!
//! One case = one system dictionary (lexicon CSV + matrix text) and optionally one user dictionary built
//! against it.  The real `DictBuilder` compiles them; the bytes, and every field of every word read back
//! through `LexiconSet::get_word_info` / `get_word_param`, `Grammar::pos_list`, `conn_matrix().cost`, form the
//! answer the Lean model has to reproduce (the model gets the CSV records as split by the real `csv` crate
//! and the trie blob cut out of the real output).  Independently, the oracle compares every loaded field
//! with the *declared* row (structured generator data, not the CSV text), compiles twice and loads the
//! same bytes at two alignments.
//!
//! The declared fields are read back through EVERY way the loaded dictionary hands a field out, not only through the full
//! load: oracle-only (no case line of its own, the replay is the `dict` line of the case), every entry is also read through
//! each single-field `InfoSubset` and random partial subsets with `LexiconSet::get_word_info_subset` and
//! `Lexicon::get_word_info`, and the keys of some entries are analysed by a `StatefulTokenizer` after `set_subset`; a field
//! that was asked for must equal the declared value (keys `c05:subset:…`, `c05:subset-lexicon:…`, `c05:tok-subset:…`).
use crate::common::*;
use sudachi::dic::build::DictBuilder;
use sudachi::analysis::mlist::MorphemeList;
use sudachi::analysis::stateful_tokenizer::StatefulTokenizer;
use sudachi::analysis::Mode;
use sudachi::dic::lexicon::word_infos::WordInfo;
use sudachi::dic::subset::InfoSubset;
use sudachi::dic::dictionary::JapaneseDictionary;
use sudachi::dic::word_id::WordId;
use sudachi::dic::{DictionaryLoader, LoadedDictionary};

const TIME0: u64 = 1_600_000_000;

#[derive(Clone, Debug, PartialEq)]
pub struct Target {
    pub user: bool,
    pub idx: usize,
}

#[derive(Clone, Debug)]
pub enum SplitSpec {
    Id(Target),
    Inline(Target),
}

#[derive(Clone, Debug)]
pub struct GRow {
    pub surface: String,
    pub headword: String,
    pub reading: String,
    pub norm: String,
    pub pos: usize,
    pub left: i32,
    pub right: i32,
    pub cost: i32,
    pub dic_form: Option<Target>,
    pub mode: &'static str,
    pub a: Vec<SplitSpec>,
    pub b: Vec<SplitSpec>,
    pub ws: Vec<Target>,
    pub syn: Vec<u32>,
    pub plus_syn: bool,
    pub drop_syn_column: bool,
    pub escape: usize, // 0 = never, k = escape about one character in k
    /// 0 = none, 1 = one trailing comma, n = n-1 further columns
    pub extra_cols: usize,
}

#[derive(Clone, Debug)]
pub struct GDict {
    pub rows: Vec<GRow>,
}

#[derive(Clone, Debug)]
pub struct GMatrix {
    pub nl: usize,
    pub nr: usize,
    /// lines in file order: (left, right, cost)
    pub lines: Vec<(usize, usize, i16)>,
    pub text: String,
}

const BASE_POS: &[[&str; 6]] = &[
    ["名詞", "普通名詞", "一般", "*", "*", "*"],
    ["名詞", "数詞", "*", "*", "*", "*"],
    ["助詞", "格助詞", "*", "*", "*", "*"],
    ["補助記号", "一般", "*", "*", "*", "*"],
    ["動詞", "一般", "*", "*", "五段-カ行", "終止形-一般"],
    ["名詞", "固有名詞", "地名", "一般", "*", "*"],
    ["a,b", "c/d", "𠮷", "", " ", "\"q\""],
];

const CHARS: &[char] = &[
    'a', 'b', 'z', '0', '7', 'あ', 'い', 'ア', 'ー', '東', '京', '漢', 'é', 'ｱ', '𠮷', '😀', '\u{10FFFF}', '\u{FFFF}', '\u{E000}',
    '\u{D7FF}', ',', '/', '"', ' ', '\u{3000}', '*', '\\', 'u', '{', '}', 'U', '\u{7f}', '\u{80}', '\u{7ff}', '\u{800}', '\n', '\r', '\u{feff}',
    // characters a CSV reader can be configured to treat specially (comment, other delimiters/quotes): they are plain text here
    '#', ';', '\t', '\'',
];
const PLAIN: &[char] = &['a', 'b', 'あ', 'い', 'ア', '東', '京', 'é', '𠮷', '0', '#'];

fn units(s: &str) -> usize {
    s.encode_utf16().count()
}

/// true when the text contains something the builder would read as a `\\u` literal
fn has_escape(s: &str) -> bool {
    let c: Vec<char> = s.chars().collect();
    for i in 0..c.len() {
        if c[i] == '\\' && i + 1 < c.len() && c[i + 1] == 'u' {
            let rest = &c[i + 2..];
            if rest.len() >= 4 && rest[..4].iter().all(|x| x.is_ascii_hexdigit()) { return true; }
            if rest.first() == Some(&'{') {
                let h = rest[1..].iter().take_while(|x| x.is_ascii_hexdigit()).count();
                if (1..=6).contains(&h) && rest.get(1 + h) == Some(&'}') { return true; }
            }
        }
    }
    false
}

fn rand_str(rng: &mut Rng, pool: &[char], maxlen: usize) -> String {
    let n = rng.range(1, maxlen);
    let s: String = (0..n).map(|_| *rng.pick(pool)).collect();
    if has_escape(&s) { s.replace('\\', "x") } else { s }
}

/// a string of exactly `n` UTF-16 units
fn str_of_units(rng: &mut Rng, n: usize, pool: &[char]) -> String {
    let mut s = String::new();
    let mut left = n;
    while left > 0 {
        let mut c = *rng.pick(pool);
        if c.len_utf16() > left { c = 'a'; }
        let w = c.len_utf16();
        s.push(c);
        left -= w;
    }
    s
}

/// a string of exactly `n` UTF-8 bytes without NUL
fn str_of_bytes(rng: &mut Rng, n: usize) -> String {
    let mut s = String::new();
    let mut left = n;
    while left > 0 {
        let c = *rng.pick(PLAIN);
        let w = c.len_utf8();
        if w > left { continue; }
        s.push(c);
        left -= w;
    }
    s
}

/// CSV text of a string field: some characters as `\uXXXX` / `\u{X}` literals
fn esc_text(rng: &mut Rng, s: &str, k: usize, force: &[char]) -> String {
    let mut out = String::new();
    for c in s.chars() {
        let must = force.contains(&c);
        if must || (k > 0 && rng.below(k) == 0) {
            let v = c as u32;
            let upper = rng.chance(1, 2);
            let h = |w: usize| if upper { format!("{:0w$X}", v, w = w) } else { format!("{:0w$x}", v, w = w) };
            if v <= 0xFFFF && rng.chance(1, 2) {
                out.push_str(&format!("\\u{}", h(4)));
            } else {
                let minw = format!("{:x}", v).len();
                let w = rng.range(minw, 6);
                out.push_str(&format!("\\u{{{}}}", h(w)));
            }
        } else {
            out.push(c);
        }
    }
    out
}

/// does the field need RFC 4180 quotes for the reader `LexiconReader::read_bytes` configures?
fn needs_quotes(s: &str) -> bool {
    s.contains(',') || s.contains('"') || s.contains('\n') || s.contains('\r')
}

fn quoted(s: &str) -> String {
    format!("\"{}\"", s.replace('"', "\"\""))
}

/// how the rows of one CSV file are written (every shape is the same list of records to an RFC 4180 reader with
/// `,` / `"` / no comments / no trimming / `\r`, `\n`, `\r\n` terminators / flexible record lengths)
#[derive(Clone, Debug, Default)]
pub struct CsvStyle {
    pub bom: bool,
    /// 0 = quotes only where needed, 1 = every field quoted, 2 = random unneeded quotes
    pub quoting: usize,
    /// 0 = `\n` (some `\r\n`), 1 = all `\r\n`, 2 = all bare `\r`, 3 = mixed
    pub term: usize,
    pub blank_lines: bool,
    pub no_final_newline: bool,
    pub trailing_blank: bool,
    /// a `"` inside an unquoted field that does not start with one is plain text for csv-core
    pub bare_inner_quote: bool,
}

fn gen_style(rng: &mut Rng) -> CsvStyle {
    if rng.chance(1, 2) { return CsvStyle::default(); }
    CsvStyle {
        bom: rng.chance(1, 5),
        quoting: if rng.chance(1, 2) { 0 } else { rng.range(1, 2) },
        term: rng.below(4),
        blank_lines: rng.chance(1, 4),
        no_final_newline: rng.chance(1, 5),
        trailing_blank: rng.chance(1, 5),
        bare_inner_quote: rng.chance(1, 4),
    }
}

/// the CSV text of the given records (fields are final texts); counts the shapes produced into `tags`
fn render_csv(rng: &mut Rng, rows: &[Vec<String>], st: &CsvStyle, tags: &mut Vec<String>) -> (String, Vec<usize>) {
    let mut out = String::new();
    let mut bounds = vec![];
    if st.bom { out.push('\u{feff}'); tags.push("csv:bom".into()); }
    let n = rows.len();
    for (ri, f) in rows.iter().enumerate() {
        let mut first = true;
        for x in f {
            if !first { out.push(','); }
            let need = needs_quotes(x);
            let inner_only = x.contains('"') && !x.starts_with('"') && !x.contains(',') && !x.contains('\n') && !x.contains('\r');
            let text = if need && st.bare_inner_quote && inner_only && rng.chance(1, 2) { tags.push("csv:bare-inner-quote".into()); x.clone() }
                else if need { if x.contains('\n') || x.contains('\r') { tags.push("csv:embedded-newline".into()); }
                               if x.contains('"') { tags.push("csv:embedded-quote".into()); }
                               if x.contains(',') { tags.push("csv:embedded-comma".into()); }
                               quoted(x) }
                else if st.quoting == 1 || (st.quoting == 2 && rng.chance(1, 3)) { tags.push("csv:unneeded-quotes".into()); quoted(x) }
                // a lone empty first field written bare would make the line empty (= no record): quote it
                else if first && f.len() == 1 && x.is_empty() { quoted(x) }
                else { x.clone() };
            if first && text.starts_with('#') { tags.push("csv:leading-hash".into()); }
            if first && ri == 0 && !st.bom && text.starts_with('\u{feff}') {
                // a bare U+FEFF at the very start of the file IS a byte order mark to the reader: quote it
                out.push_str(&quoted(x));
            } else {
                out.push_str(&text);
            }
            first = false;
        }
        let last = ri + 1 == n;
        if last && st.no_final_newline && !f.last().map_or(true, |x| x.is_empty() && f.len() == 1) {
            tags.push("csv:no-final-newline".into());
            break;
        }
        let t = match st.term { 0 => if rng.chance(1, 8) { "\r\n" } else { "\n" }, 1 => "\r\n", 2 => "\r", _ => *rng.pick(&["\n", "\r\n", "\r"]) };
        if t == "\r" { tags.push("csv:cr-terminator".into()); }
        if t == "\r\n" { tags.push("csv:crlf-terminator".into()); }
        out.push_str(t);
        if st.blank_lines && rng.chance(1, 4) { tags.push("csv:blank-line".into()); out.push_str(*rng.pick(&["\n", "\r\n", "\n\n", "\r"])); }
        if last && st.trailing_blank { tags.push("csv:trailing-blank".into()); out.push_str(*rng.pick(&["\n", "\r\n\r\n", "\n\n\n"])); }
        // a bare `\r` may be completed by a `\n` that starts the next chunk: no boundary there
        if !out.ends_with('\r') { bounds.push(out.len()); }
    }
    (out, bounds)
}

fn target_text(t: &Target, in_user: bool) -> String {
    if t.user && in_user { format!("U{}", t.idx) } else { t.idx.to_string() }
}

pub struct World5 {
    pub pos: Vec<[String; 6]>,
    pub sys: GDict,
    pub usr: Option<GDict>,
    pub matrix: GMatrix,
    pub desc: String,
    pub udesc: String,
    pub tags: Vec<&'static str>,
}

fn row_of<'a>(w: &'a World5, t: &Target) -> &'a GRow {
    if t.user { &w.usr.as_ref().unwrap().rows[t.idx] } else { &w.sys.rows[t.idx] }
}

/// text of an inline split unit that names row `t`: own rows by their key (column 0), system rows as seen
/// from a user dictionary by their headword (what the binary dictionary stores)
fn inline_text(rng: &mut Rng, w: &World5, t: &Target, in_user: bool, k: usize) -> String {
    let r = row_of(w, t);
    let name = if in_user && !t.user { &r.headword } else { &r.surface };
    let p = &w.pos[r.pos];
    let mut parts = vec![esc_text(rng, name, k, &[',', '/'])];
    for x in p.iter() {
        parts.push(esc_text(rng, x, k, &[',', '/']));
    }
    parts.push(esc_text(rng, &r.reading, k, &[',', '/']));
    parts.join(",")
}

fn split_text(rng: &mut Rng, w: &World5, specs: &[SplitSpec], in_user: bool, k: usize) -> String {
    if specs.is_empty() {
        return if rng.chance(1, 4) { String::new() } else { "*".to_string() };
    }
    specs
        .iter()
        .map(|s| match s {
            SplitSpec::Id(t) => target_text(t, in_user),
            SplitSpec::Inline(t) => inline_text(rng, w, t, in_user, k),
        })
        .collect::<Vec<_>>()
        .join("/")
}

pub fn csv_of(rng: &mut Rng, w: &World5, d: &GDict, in_user: bool, st: &CsvStyle, tags: &mut Vec<String>) -> (String, Vec<usize>) {
    let mut rows: Vec<Vec<String>> = vec![];
    for r in &d.rows {
        let p = &w.pos[r.pos];
        let k = r.escape;
        let mut f: Vec<String> = vec![
            esc_text(rng, &r.surface, k, &[]),
            r.left.to_string(),
            r.right.to_string(),
            r.cost.to_string(),
            esc_text(rng, &r.headword, k, &[]),
        ];
        for x in p.iter() {
            f.push(esc_text(rng, x, k, &[]));
        }
        f.push(esc_text(rng, &r.reading, k, &[]));
        f.push(esc_text(rng, &r.norm, k, &[]));
        f.push(match &r.dic_form { None => "*".to_string(), Some(t) => target_text(t, in_user) });
        f.push(r.mode.to_string());
        f.push(split_text(rng, w, &r.a, in_user, k));
        f.push(split_text(rng, w, &r.b, in_user, k));
        f.push(if r.ws.is_empty() { "*".to_string() } else { r.ws.iter().map(|t| target_text(t, in_user)).collect::<Vec<_>>().join("/") });
        if !r.drop_syn_column {
            f.push(if r.syn.is_empty() { if rng.chance(1, 3) { String::new() } else { "*".to_string() } } else {
                r.syn.iter().map(|x| if r.plus_syn { format!("+{}", x) } else { x.to_string() }).collect::<Vec<_>>().join("/")
            });
            // columns after the 19th are ignored by parse_record
            match r.extra_cols {
                0 => {}
                1 => { f.push(String::new()); tags.push("csv:trailing-comma".into()); }
                n => { for j in 0..n - 1 { f.push(if j % 2 == 0 { "#x,\"y\"".to_string() } else { "9".to_string() }); } tags.push("csv:extra-columns".into()); }
            }
            tags.push(format!("cols:{}", if f.len() > 19 { "20+".to_string() } else { f.len().to_string() }));
        } else {
            // 18 columns; a trailing comma makes the 19th column the empty string (= no synonym groups)
            if r.extra_cols == 1 { f.push(String::new()); tags.push("csv:trailing-comma".into()); tags.push("cols:18+comma".into()); }
            else { tags.push("cols:18".into()); }
        }
        rows.push(f);
    }
    render_csv(rng, &rows, st, tags)
}

fn gen_matrix(rng: &mut Rng, nl: usize, nr: usize) -> GMatrix {
    let mut lines = vec![];
    let mut text = String::new();
    if rng.chance(1, 4) { text.push_str(*rng.pick(&["\n", "  \n\n", "\t\r\n"])); }
    let hsep = *rng.pick(&[" ", "\t", "  ", " \u{3000}"]);
    text.push_str(&format!("{}{}{}{}{}", if rng.chance(1, 5) { "  " } else { "" }, nl, hsep, nr, if rng.chance(1, 6) { " \r\n" } else { "\n" }));
    let total = nl * nr;
    let style = rng.below(4); // 0 full in order, 1 full shuffled, 2 sparse, 3 with overwrites
    let mut cells: Vec<(usize, usize)> = vec![];
    for r in 0..nr { for l in 0..nl { cells.push((l, r)); } }
    if style >= 1 {
        for i in (1..cells.len()).rev() { let j = rng.below(i + 1); cells.swap(i, j); }
    }
    if style == 2 { cells.truncate(rng.below(total + 1)); }
    if style == 3 && total > 0 {
        let extra = rng.range(1, 6);
        for _ in 0..extra { let c = cells[rng.below(cells.len())]; cells.push(c); }
    }
    for (l, r) in cells {
        let c: i16 = if rng.chance(1, 6) { *rng.pick(&[i16::MAX, i16::MIN, -1, 0, 255, 256, -256]) } else { rng.below(4000) as i16 - 1000 };
        lines.push((l, r, c));
        let sep = *rng.pick(&[" ", " ", "\t", "   "]);
        let cs = if c >= 0 && rng.chance(1, 12) { format!("+{}", c) } else { c.to_string() };
        text.push_str(&format!("{}{}{}{}{}{}", if rng.chance(1, 10) { " " } else { "" }, l, sep, r, sep, cs));
        text.push_str(if rng.chance(1, 10) { "\r\n" } else if rng.chance(1, 12) { " \n\n" } else { "\n" });
    }
    if rng.chance(1, 6) && text.ends_with('\n') { text.pop(); }
    GMatrix { nl, nr, lines, text }
}

impl GMatrix {
    /// the cost the matrix text declares for (left, right): last line wins, absent = 0
    fn declared(&self, l: usize, r: usize) -> i16 {
        let mut v = 0;
        for &(a, b, c) in &self.lines { if a == l && b == r { v = c; } }
        v
    }
}

#[derive(Clone, Copy, PartialEq)]
enum Profile {
    Random,
    LenBoundary(usize),
    Huge,
    Arrays(usize),
    Homographs(usize),
    Desc(usize),
    UserRefs,
    UserDicForm,
    Escapes,
    Tiny,
    /// an indexed row (left id >= 0) with right id -1: rejected by validate_entries since the D3 repair
    NegRight,
    /// matrix sizes at the u8/i8 boundaries (127/128/255/256/257 ids on one side)
    WideMatrix,
    /// every CSV-special shape in one small file (k selects the style)
    CsvShapes(usize),
    /// a key (column 0) containing U+0000 - raw (0) or written as `\\u0000` (1): refused by parse_record (`EmptySurface`, repair D5)
    NulKey(usize),
}

fn gen_form(rng: &mut Rng, headword: &str, surface: &str, allow_empty: bool) -> String {
    if allow_empty && rng.chance(1, 60) { return String::new(); }
    match rng.below(10) {
        0..=3 => headword.to_string(),
        4 | 5 => surface.to_string(),
        6 => rand_str(rng, CHARS, 4),
        _ => rand_str(rng, PLAIN, 4),
    }
}

fn gen_row(rng: &mut Rng, npos: usize, idn: usize, pool: &[char], rich: bool) -> GRow {
    let surface = rand_str(rng, pool, 3);
    let headword = if rng.chance(2, 3) { surface.clone() } else if rich { rand_str(rng, CHARS, 4) } else { rand_str(rng, PLAIN, 3) };
    let reading = gen_form(rng, &headword, &surface, rich);
    let norm = gen_form(rng, &headword, &surface, rich);
    let indexed = !rng.chance(1, 10);
    GRow {
        surface, headword, reading, norm,
        pos: rng.below(npos),
        left: if indexed { rng.below(idn) as i32 } else { -1 },
        right: if indexed { rng.below(idn) as i32 } else if rng.chance(1, 2) { -1 } else { rng.below(idn) as i32 },
        cost: if rng.chance(1, 6) { *rng.pick(&[32767, -32768, -1, 0, 255, 256]) } else { rng.below(9000) as i32 - 500 },
        dic_form: None,
        mode: "A",
        a: vec![], b: vec![], ws: vec![],
        syn: if rng.chance(1, 5) { (0..rng.range(1, 3)).map(|_| if rng.chance(1, 4) { *rng.pick(&[0u32, u32::MAX, 255, 256, 65536]) } else { rng.below(1000000) as u32 }).collect() } else { vec![] },
        plus_syn: rng.chance(1, 10),
        drop_syn_column: false,
        escape: if rng.chance(1, 3) { rng.range(1, 4) } else { 0 },
        extra_cols: if rng.chance(1, 10) { rng.range(1, 4) } else { 0 },
    }
}

fn pick_targets(rng: &mut Rng, nsys: usize, nusr: usize, in_user: bool, k: usize) -> Vec<Target> {
    (0..k)
        .map(|_| if in_user && nusr > 0 && rng.chance(1, 2) { Target { user: true, idx: rng.below(nusr) } } else { Target { user: false, idx: rng.below(nsys) } })
        .collect()
}

fn add_refs(rng: &mut Rng, rows: &mut Vec<GRow>, nsys: usize, in_user: bool, inline_ok: bool, p_dic_form: usize) {
    let n = rows.len();
    let nusr = if in_user { n } else { 0 };
    let ntarget_sys = if in_user { nsys } else { n };
    for i in 0..n {
        if rng.chance(1, 4) {
            let mode = *rng.pick(&["B", "C", "*", "b", "c", "BC", " C "]);
            let ka = rng.range(0, 3);
            let kb = rng.range(0, 2);
            let mk = |rng: &mut Rng, t: Target| if inline_ok && rng.chance(1, 3) { SplitSpec::Inline(t) } else { SplitSpec::Id(t) };
            let a: Vec<SplitSpec> = pick_targets(rng, ntarget_sys, nusr, in_user, ka).into_iter().map(|t| mk(rng, t)).collect();
            let b: Vec<SplitSpec> = pick_targets(rng, ntarget_sys, nusr, in_user, kb).into_iter().map(|t| mk(rng, t)).collect();
            rows[i].mode = mode;
            rows[i].a = a;
            rows[i].b = b;
        } else {
            rows[i].mode = *rng.pick(&["A", "A", "a", "*", "C", "B"]);
        }
        if rng.chance(1, 6) {
            let k = rng.range(1, 3);
            rows[i].ws = pick_targets(rng, ntarget_sys, nusr, in_user, k);
        }
        if p_dic_form > 0 && rng.chance(1, p_dic_form) {
            rows[i].dic_form = Some(pick_targets(rng, ntarget_sys, nusr, in_user, 1).remove(0));
        }
        if rng.chance(1, 12) && rows[i].syn.is_empty() { rows[i].drop_syn_column = true; }
    }
}

fn gen_world(rng: &mut Rng, profile: Profile) -> World5 {
    let mut tags = vec![];
    let mut pos: Vec<[String; 6]> = vec![];
    let np = rng.range(2, BASE_POS.len());
    for p in BASE_POS.iter().take(np) { pos.push([p[0].into(), p[1].into(), p[2].into(), p[3].into(), p[4].into(), p[5].into()]); }
    if let Profile::LenBoundary(n) = profile {
        pos.push([str_of_units(rng, n, PLAIN), "*".into(), str_of_units(rng, n + 1, PLAIN), "*".into(), "*".into(), str_of_units(rng, n - 1, PLAIN)]);
    }
    let (nl, nr) = if profile == Profile::WideMatrix {
        tags.push("wide-matrix");
        let big = *rng.pick(&[127usize, 128, 255, 256, 257]);
        let small = rng.range(1, 3);
        if rng.chance(1, 2) { (big, small) } else { (small, big) }
    } else { match rng.below(6) { 0 => (1, 1), 1 => { let n = rng.range(2, 6); (n, n) }, 2 => (rng.range(1, 3), rng.range(4, 9)), 3 => (rng.range(4, 12), rng.range(1, 3)), _ => (rng.range(2, 7), rng.range(2, 7)) } };
    if nl != nr { tags.push("non-square"); }
    let matrix = gen_matrix(rng, nl, nr);
    let idn = nl.min(nr);
    let k = rng.range(3, 7);
    let pool: Vec<char> = (0..k).map(|_| *rng.pick(PLAIN)).collect();
    let size = match profile { Profile::Tiny | Profile::NegRight | Profile::NulKey(_) => rng.range(1, 3), Profile::CsvShapes(_) => rng.range(3, 8), Profile::Huge => 3, _ => rng.range(4, 40) };
    let rich = !matches!(profile, Profile::Huge);
    let mut rows: Vec<GRow> = (0..size).map(|_| gen_row(rng, pos.len(), idn, &pool, rich)).collect();
    // at least one indexed row (the trie builder panics on an empty key set: D4, property C06)
    rows[0].left = 0;
    rows[0].right = 0;
    // keys sharing a surface / prefix
    for i in 1..rows.len() {
        if rng.chance(1, 5) { let j = rng.below(i); rows[i].surface = rows[j].surface.clone(); }
        else if rng.chance(1, 6) { let j = rng.below(i); rows[i].surface = format!("{}{}", rows[j].surface, rand_str(rng, &pool, 2)); }
        if rng.chance(2, 3) && rows[i].headword.is_empty() { rows[i].headword = rows[i].surface.clone(); }
    }
    match profile {
        Profile::LenBoundary(n) => {
            tags.push("len-boundary");
            let last = pos.len() - 1;
            for (j, d) in [(0usize, 0isize), (1, -1), (2, 1)] {
                if j >= rows.len() { break; }
                let m = (n as isize + d) as usize;
                rows[j].headword = str_of_units(rng, m, CHARS);
                rows[j].reading = str_of_units(rng, m, PLAIN);
                rows[j].norm = str_of_units(rng, m, &['😀', 'a', '𠮷']);
                rows[j].surface = str_of_bytes(rng, m);
                rows[j].escape = 0;
            }
            rows[0].pos = last;
        }
        Profile::Huge => {
            tags.push("huge");
            rows[0].headword = "a".repeat(32767);
            rows[0].reading = str_of_units(rng, 16383, &['😀']) ;
            rows[0].norm = "あ".repeat(10922);
            rows[0].surface = str_of_bytes(rng, 32767);
            rows[1].headword = "b".repeat(32767);
            rows[1].surface = rows[1].headword.clone();
            rows[1].reading = rows[1].headword.clone();
            rows[1].norm = rows[1].headword.clone();
            for r in rows.iter_mut() { r.escape = 0; }
        }
        Profile::CsvShapes(_) => {
            tags.push("csv-shapes");
            let specials = ["#", "#東京", "\"", "\"\"", "a\"b", "\"a\"", ",", "a,b", "\n", "a\nb", "\r", "a\r\nb", "\u{feff}", "\u{feff}a", " a ", "\t", "'", ";", "#\"x\",\n"];
            for (j, r) in rows.iter_mut().enumerate() {
                let sp = specials[(j + rng.below(specials.len())) % specials.len()].to_string();
                match rng.below(4) { 0 => r.surface = sp, 1 => { r.headword = sp }, 2 => { r.reading = sp }, _ => { r.surface = sp.clone(); r.headword = sp.clone(); r.norm = sp } }
                r.escape = 0;
                r.extra_cols = j % 4;
            }
            rows[0].surface = (*rng.pick(&["#", "#a", "\u{feff}", "\"", "a"])).to_string();
        }
        Profile::NegRight => {
            tags.push("neg-right");
            let k = rows.len() - 1;
            rows[k].left = 0;
            rows[k].right = -1;
        }
        Profile::NulKey(k) => {
            tags.push("nul-key");
            let j = rows.len() - 1;
            rows[j].surface = "a\u{0}b".to_string();
            rows[j].escape = k;
        }
        Profile::Escapes => {
            tags.push("escapes");
            for r in rows.iter_mut() {
                r.escape = 1;
                if rng.chance(1, 2) { r.headword = rand_str(rng, CHARS, 6); }
                if rng.chance(1, 3) {
                    r.escape = 0;
                    r.reading = rng.pick(&["\\u12", "\\u{}", "\\u{1234567}", "\\U0041", "x\\", "a\\u{g}", "\\u 0041", "\\\\u"]).to_string();
                    r.norm = rng.pick(&["\\u{12", "\\u004", "u0041", "{41}"]).to_string();
                }
            }
        }
        _ => {}
    }
    let p_dic = if rng.chance(1, 2) { 6 } else { 0 };
    add_refs(rng, &mut rows, 0, false, true, p_dic);
    match profile {
        Profile::Arrays(n) => {
            tags.push("array-boundary");
            let nrows = rows.len();
            let ids = |rng: &mut Rng, k: usize| -> Vec<Target> { (0..k).map(|_| Target { user: false, idx: rng.below(nrows) }).collect() };
            rows[0].mode = "C";
            rows[0].a = ids(rng, n).into_iter().map(SplitSpec::Id).collect();
            rows[0].b = ids(rng, n.saturating_sub(1)).into_iter().map(SplitSpec::Id).collect();
            rows[0].ws = ids(rng, n);
            rows[0].syn = (0..n).map(|i| i as u32 * 7919).collect();
            rows[0].drop_syn_column = false;
            if nrows > 1 {
                rows[1].mode = "B";
                rows[1].a = ids(rng, 1).into_iter().map(SplitSpec::Inline).collect();
                rows[1].syn = (0..n.saturating_sub(1)).map(|i| u32::MAX - i as u32).collect();
                rows[1].drop_syn_column = false;
            }
        }
        Profile::Homographs(n) => {
            tags.push("homographs");
            let base = rows[0].clone();
            let same = |rows: &Vec<GRow>| rows.iter().filter(|x| x.surface == base.surface && x.left >= 0).count();
            while same(&rows) < n { let mut r = base.clone(); r.cost = rows.len() as i32; r.a = vec![]; r.b = vec![]; r.mode = "A"; rows.push(r); }
        }
        _ => {}
    }
    let desc = match profile {
        Profile::Desc(n) => { tags.push("desc-boundary"); str_of_bytes(rng, n) }
        _ => rng.pick(&["verif", "", "説明 description", "x\u{0}y"]).to_string(),
    };
    let sys = GDict { rows };
    let mut w = World5 { pos, sys, usr: None, matrix, desc, udesc: "user".into(), tags };
    let want_user = matches!(profile, Profile::UserRefs | Profile::UserDicForm) || (profile == Profile::Random && rng.chance(1, 3));
    if want_user {
        w.tags.push("user");
        // user POS: some system ones plus new ones
        let extra = rng.below(3);
        for e in 0..extra { w.pos.push(["名詞".into(), "固有名詞".into(), format!("ユーザ{}", e), "*".into(), "*".into(), rand_str(rng, PLAIN, 2)]); }
        let usize_ = rng.range(1, 12);
        let upool: Vec<char> = (0..4).map(|_| *rng.pick(PLAIN)).collect();
        let mut urows: Vec<GRow> = (0..usize_).map(|_| gen_row(rng, w.pos.len(), idn, &upool, true)).collect();
        urows[0].left = 0;
        urows[0].right = 0;
        for r in urows.iter_mut() {
            if rng.chance(1, 4) { r.surface = rng.pick(&w.sys.rows).surface.clone(); }
        }
        let p_dic = match profile { Profile::UserDicForm => 2, Profile::UserRefs => 0, _ => if rng.chance(1, 5) { 3 } else { 0 } };
        add_refs(rng, &mut urows, w.sys.rows.len(), true, true, p_dic);
        if p_dic > 0 { w.tags.push("user-dicform"); }
        w.usr = Some(GDict { rows: urows });
    }
    w
}

// ---------------------------------------------------------------------------------------------
// real implementation

/// one `read_lexicon` call: an in-memory buffer or a file (memory-mapped by `LexiconReader::read_file`)
enum Part<'a> { Bytes(&'a [u8]), File(&'a std::path::Path) }

fn build(system: Option<&LoadedDictionary>, time: u64, desc: &str, matrix: Option<&[u8]>, csv: &[u8]) -> Result<Vec<u8>, String> {
    build_parts(system, time, desc, matrix, &[Part::Bytes(csv)])
}

/// the lexicon given as several sources, read one after the other (`sudachi build` accepts several CSV files)
fn build_parts(system: Option<&LoadedDictionary>, time: u64, desc: &str, matrix: Option<&[u8]>, parts: &[Part]) -> Result<Vec<u8>, String> {
    let pre = if system.is_some() { "u" } else { "" };
    let mut stage = "new";
    let r = catch(|| -> Result<Vec<u8>, &'static str> {
        macro_rules! go {
            ($b:expr) => {{
                let mut b = $b;
                b.set_compile_time(std::time::UNIX_EPOCH + std::time::Duration::from_secs(time));
                b.set_description(desc);
                if let Some(m) = matrix {
                    stage = "conn";
                    b.read_conn(m).map_err(|_| "conn")?;
                }
                stage = "lexicon";
                for p in parts {
                    match p {
                        Part::Bytes(c) => { b.read_lexicon(*c).map_err(|_| "lexicon")?; }
                        Part::File(f) => { b.read_lexicon(*f).map_err(|_| "lexicon")?; }
                    }
                }
                stage = "resolve";
                b.resolve().map_err(|_| "resolve")?;
                stage = "compile";
                let mut out = vec![];
                b.compile(&mut out).map_err(|_| "compile")?;
                Ok(out)
            }};
        }
        match system {
            None => go!(DictBuilder::new_system()),
            Some(s) => go!(DictBuilder::new_user(s)),
        }
    });
    match r {
        Ok(Ok(b)) => Ok(b),
        Ok(Err(st)) => Err(format!("err stage={}{}", pre, st)),
        Err(_) => Err(format!("PANIC stage={}{}", pre, stage)),
    }
}

/// Which `write_word_info` is linked (model variant `storeDf`): does a user row that names an own entry as `U1`
/// load with that entry's headword as its dictionary form (repair of D8's first half), or does it panic / read
/// something else (the code as it stands)?  Behavioural probe, evaluated once.
fn df_variant() -> &'static str {
    static V: std::sync::OnceLock<&'static str> = std::sync::OnceLock::new();
    V.get_or_init(|| {
        let row = |s: &str, df: &str| format!("{s},0,0,0,{s},名詞,普通名詞,一般,*,*,*,{s},{s},{df},A,*,*,*,*\n", s = s, df = df);
        let sys = build(None, TIME0, "probe", Some(b"1 1\n0 0 0\n"), row("あ", "*").as_bytes());
        let Ok(sb) = sys else { return "cur" };
        let Some(sl) = DictionaryLoader::read_system_dictionary(&sb).ok().and_then(|l| l.to_loaded()) else { return "cur" };
        let ucsv = format!("{}{}", row("い", "U1"), row("う", "*"));
        let Ok(ub) = build(Some(&sl), TIME0, "probe", None, ucsv.as_bytes()) else { return "cur" };
        match load_and_dump(&sb, Some(&ub), &[]) {
            Ok(l) => match l.words.get(1).and_then(|w| w.first()) {
                Some(Ok(o)) if o.dicform == "う" => "fix",
                _ => "cur",
            },
            Err(_) => "cur",
        }
    })
}

/// Which `validate_entries` is linked (model variant `dfCheckId`): is the dictionary-form column of a USER dictionary
/// checked against the system dictionary (`cur`: the code as it stands) or against the dictionary's own entries
/// (`own`: candidate repair fix_D8b.patch)?  Behavioural probe: a one-word system dictionary and a two-row user
/// dictionary whose first row names `1`: system word 1 does not exist (rejected by `cur`), own entry 1 does.
fn dfv_variant() -> &'static str {
    static V: std::sync::OnceLock<&'static str> = std::sync::OnceLock::new();
    V.get_or_init(|| {
        let row = |s: &str, df: &str| format!("{s},0,0,0,{s},名詞,普通名詞,一般,*,*,*,{s},{s},{df},A,*,*,*,*\n", s = s, df = df);
        let sys = build(None, TIME0, "probe", Some(b"1 1\n0 0 0\n"), row("あ", "*").as_bytes());
        let Ok(sb) = sys else { return "cur" };
        let Some(sl) = DictionaryLoader::read_system_dictionary(&sb).ok().and_then(|l| l.to_loaded()) else { return "cur" };
        let ucsv = format!("{}{}", row("い", "1"), row("う", "*"));
        match build(Some(&sl), TIME0, "probe", None, ucsv.as_bytes()) { Ok(_) => "own", Err(_) => "cur" }
    })
}

/// stack of the recompiling thread (default 256 MiB; VERIF_C05_STACK_KIB overrides, for experiments)
fn thread_stack() -> usize {
    std::env::var("VERIF_C05_STACK_KIB").ok().and_then(|v| v.parse::<usize>().ok()).map_or(256 << 20, |k| k << 10)
}

/// two independent 64-bit hashes and the length of a byte string (what the child process reports back)
fn fingerprint(b: &[u8]) -> String {
    let mut h1: u64 = 0xcbf29ce484222325;
    let mut h2: u64 = 1469598103934665603 ^ 0x9e3779b97f4a7c15;
    for &x in b {
        h1 = (h1 ^ x as u64).wrapping_mul(0x100000001b3);
        h2 = h2.rotate_left(5).wrapping_add(x as u64).wrapping_mul(0x2545F4914F6CDD1D);
    }
    format!("{}:{:016x}{:016x}", b.len(), h1, h2)
}

fn unhex(s: &str) -> Vec<u8> {
    (0..s.len() / 2).map(|i| u8::from_str_radix(&s[2 * i..2 * i + 2], 16).unwrap_or(0)).collect()
}

/// `vharness C05CHILD --out DIR`: a fresh process compiles every input listed in DIR/c05_child_in.txt
/// (`idx time desc mat csv [udesc ucsv]`, hex) once more and prints `idx <fingerprint sys> [<fingerprint usr>]`.
pub fn child(dir: &str) {
    let text = std::fs::read_to_string(format!("{}/c05_child_in.txt", dir)).unwrap_or_default();
    let mut out = String::new();
    for line in text.lines() {
        let t: Vec<&str> = line.split(' ').collect();
        if t.len() < 5 { continue; }
        let time: u64 = t[1].parse().unwrap_or(0);
        let desc = String::from_utf8(unhex(t[2])).unwrap_or_default();
        let sys = build(None, time, &desc, Some(&unhex(t[3])), &unhex(t[4]));
        let mut l = format!("{} {}", t[0], sys.as_ref().map(|b| fingerprint(b)).unwrap_or_else(|e| e.replace(' ', "_")));
        if let (Ok(sb), true) = (&sys, t.len() >= 7) {
            let udesc = String::from_utf8(unhex(t[5])).unwrap_or_default();
            let u = catch(|| DictionaryLoader::read_system_dictionary(sb).ok().and_then(|l| l.to_loaded())).ok().flatten()
                .map(|sl| build(Some(&sl), time, &udesc, None, &unhex(t[6])));
            l.push(' ');
            l.push_str(&match u { Some(Ok(b)) => fingerprint(&b), Some(Err(e)) => e.replace(' ', "_"), None => "noload".into() });
        }
        out.push_str(&l);
        out.push('\n');
    }
    print!("{}", out);
}

fn records_of(csv: &[u8]) -> Option<String> {
    let mut reader = csv::ReaderBuilder::new().has_headers(false).trim(csv::Trim::None).flexible(true).from_reader(csv);
    let mut rec = csv::StringRecord::new();
    let mut rows = vec![];
    loop {
        match reader.read_record(&mut rec) {
            Ok(true) => rows.push(rec.iter().map(|f| hex(f.as_bytes())).collect::<Vec<_>>().join(",")),
            Ok(false) => break,
            Err(_) => return None,
        }
    }
    Some(if rows.is_empty() { "-".to_string() } else { rows.join(";") })
}

/// independent walk over the binary layout: (offset of the trie blob, its byte length)
fn trie_blob(bytes: &[u8]) -> Option<(usize, usize)> {
    let mut o = 272;
    let rd16 = |o: usize| -> Option<usize> { Some(*bytes.get(o)? as usize | (*bytes.get(o + 1)? as usize) << 8) };
    let npos = rd16(o)?;
    o += 2;
    for _ in 0..npos * 6 {
        let b0 = *bytes.get(o)? as usize;
        let len = if b0 >= 128 { let l = ((b0 & 0x7f) << 8) | *bytes.get(o + 1)? as usize; o += 2; l } else { o += 1; b0 };
        o += 2 * len;
    }
    let l = rd16(o)?;
    let r = rd16(o + 2)?;
    o += 4 + 2 * l * r;
    let n = u32::from_le_bytes([*bytes.get(o)?, *bytes.get(o + 1)?, *bytes.get(o + 2)?, *bytes.get(o + 3)?]) as usize;
    if o + 4 + 4 * n > bytes.len() { return None; }
    Some((o + 4, 4 * n))
}

fn show_str(s: &str) -> String {
    join(s.chars().map(|c| c as u32), ".")
}

#[derive(Clone, Debug, Default)]
struct Loaded {
    text: String,
    pos: Vec<Vec<String>>,
    /// per dictionary, per word: Ok(fields) / Err("PANIC" | "err")
    words: Vec<Vec<Result<WordObs, String>>>,
    params: Vec<Vec<Option<(i16, i16, i16)>>>,
    matrix: Vec<Vec<Option<i16>>>, // [r][l]
    nl: usize,
    nr: usize,
    /// (version, creation time, description) of the system header and of the user header
    hdrs: Vec<(u64, u64, String)>,
    /// per distinct source key: `LexiconSet::lookup(key, 0)` as (raw word id, end), None = panic
    look: Vec<(String, Option<Vec<(u32, usize)>>)>,
}

#[derive(Clone, Debug)]
struct WordObs {
    surface: String,
    hwl: usize,
    pos: u16,
    norm: String,
    dfid: i32,
    dicform: String,
    reading: String,
    a: Vec<u32>,
    b: Vec<u32>,
    ws: Vec<u32>,
    syn: Vec<u32>,
}

/// what the accessors of a `WordInfo` hand out
fn obs_of(wi: &WordInfo) -> WordObs {
    WordObs {
        surface: wi.surface().to_string(), hwl: wi.head_word_length(), pos: wi.pos_id(), norm: wi.normalized_form().to_string(),
        dfid: wi.dictionary_form_word_id(), dicform: wi.dictionary_form().to_string(), reading: wi.reading_form().to_string(),
        a: wi.a_unit_split().iter().map(|x| x.as_raw()).collect(), b: wi.b_unit_split().iter().map(|x| x.as_raw()).collect(),
        ws: wi.word_structure().iter().map(|x| x.as_raw()).collect(), syn: wi.synonym_group_ids().to_vec(),
    }
}

/// load the dictionaries from the given byte slices and read every observable back
fn load_and_dump(sys: &[u8], usr: Option<&[u8]>, keys: &[String]) -> Result<Loaded, String> {
    let r = catch(|| -> Result<Loaded, String> {
        let sl = DictionaryLoader::read_system_dictionary(sys).map_err(|_| "err stage=load".to_string())?;
        let mut hdrs = vec![(sl.header.version.to_u64(), sl.header.create_time, sl.header.description.clone())];
        let mut sizes = vec![sl.lexicon.size() as usize];
        let mut ld = sl.to_loaded().ok_or("err stage=load".to_string())?;
        if let Some(u) = usr {
            let ul = DictionaryLoader::read_user_dictionary(u).map_err(|_| "err stage=uload".to_string())?;
            sizes.push(ul.lexicon.size() as usize);
            hdrs.push((ul.header.version.to_u64(), ul.header.create_time, ul.header.description.clone()));
            let npos = ld.grammar.pos_list.len();
            ld.lexicon_set.append(ul.lexicon, npos).map_err(|_| "err stage=uload".to_string())?;
            if let Some(g) = ul.grammar { ld.grammar.merge(g); }
        }
        let mut out = Loaded::default();
        out.pos = ld.grammar.pos_list.clone();
        let cm = ld.grammar.conn_matrix();
        out.nl = cm.num_left();
        out.nr = cm.num_right();
        let mut cells = vec![];
        for r in 0..out.nr {
            let mut row = vec![];
            for l in 0..out.nl {
                let c = catch(|| ld.grammar.conn_matrix().cost(l as u16, r as u16)).ok();
                cells.push(c.map_or("PANIC".to_string(), |c| c.to_string()));
                row.push(c);
            }
            out.matrix.push(row);
        }
        let mut wtexts = vec![];
        for (d, &n) in sizes.iter().enumerate() {
            let mut ws = vec![];
            let mut ps = vec![];
            for i in 0..n {
                let id = WordId::new(d as u8, i as u32);
                let wi = catch(|| ld.lexicon_set.get_word_info(id));
                let obs: Result<WordObs, String> = match wi {
                    Err(_) => Err("PANIC".into()),
                    Ok(Err(_)) => Err("err".into()),
                    Ok(Ok(wi)) => Ok(obs_of(&wi)),
                };
                let p = catch(|| ld.lexicon_set.get_word_param(id)).ok();
                let a = match &obs {
                    Err(e) => e.clone(),
                    Ok(o) => [show_str(&o.surface), o.hwl.to_string(), o.pos.to_string(), show_str(&o.norm), o.dfid.to_string(), show_str(&o.dicform),
                        show_str(&o.reading), join(o.a.iter(), ","), join(o.b.iter(), ","), join(o.ws.iter(), ","), join(o.syn.iter(), ",")].join("/"),
                };
                let b = p.map_or("PANIC".to_string(), |(l, r, c)| format!("{},{},{}", l, r, c));
                wtexts.push(format!("{}/{}", a, b));
                ws.push(obs);
                ps.push(p);
            }
            out.words.push(ws);
            out.params.push(ps);
        }
        // the trie and the word-id table as the loader located them: every distinct source key looked up
        let mut ltexts = vec![];
        for k in keys {
            let r = catch(|| ld.lexicon_set.lookup(k.as_bytes(), 0).map(|e| (e.word_id.as_raw(), e.end)).collect::<Vec<_>>()).ok();
            ltexts.push(match &r {
                None => "PANIC".to_string(),
                Some(v) if v.is_empty() => "-".to_string(),
                Some(v) => v.iter().map(|(w, e)| format!("{}:{}", w, e)).collect::<Vec<_>>().join(","),
            });
            out.look.push((k.clone(), r));
        }
        let show_hdr = |h: &(u64, u64, String)| format!("{}:{}:{}", h.0, h.1, hex(h.2.as_bytes()));
        out.text = format!(
            "hdr={}{} pos={} mat={}x{}:{} words={} look={}",
            show_hdr(&hdrs[0]), hdrs.get(1).map_or(String::new(), |h| format!(" uhdr={}", show_hdr(h))),
            out.pos.iter().map(|p| p.iter().map(|s| show_str(s)).collect::<Vec<_>>().join("/")).collect::<Vec<_>>().join(";"),
            out.nl, out.nr, cells.join(","), wtexts.join("|"), ltexts.join(";")
        );
        out.hdrs = hdrs;
        Ok(out)
    });
    match r {
        Ok(x) => x,
        Err(_) => Err("PANIC stage=load".into()),
    }
}

/// copy of `bytes` whose first byte sits at an address ≡ `rem` (mod 8)
fn at_alignment(bytes: &[u8], rem: usize) -> (Vec<u8>, usize) {
    let mut v = vec![0u8; bytes.len() + 16];
    let p = v.as_ptr() as usize;
    let start = (8 - p % 8) % 8 + rem;
    v[start..start + bytes.len()].copy_from_slice(bytes);
    (v, start)
}

// ---------------------------------------------------------------------------------------------
// oracle: declared rows vs loaded fields

fn expected_id(t: &Target) -> u32 {
    if t.user { (1u32 << 28) | t.idx as u32 } else { t.idx as u32 }
}

/// the entry an inline unit naming `t` is meant to denote: the first row with the same name, POS strings
/// and reading - own rows (by key) first, then the system rows (by headword)
fn intended_inline(w: &World5, t: &Target, in_user: bool) -> Option<Target> {
    let r = row_of(w, t);
    let name = if in_user && !t.user { &r.headword } else { &r.surface };
    let p = &w.pos[r.pos];
    let own = if in_user { &w.usr.as_ref().unwrap().rows } else { &w.sys.rows };
    for (i, x) in own.iter().enumerate() {
        if &x.surface == name && &w.pos[x.pos] == p && x.reading == r.reading { return Some(Target { user: in_user, idx: i }); }
    }
    if in_user {
        for (i, x) in w.sys.rows.iter().enumerate() {
            if &x.headword == name && &w.pos[x.pos] == p && x.reading == r.reading { return Some(Target { user: false, idx: i }); }
        }
    }
    None
}

/// bits of `InfoSubset` (the declared fields of an entry, one bit each)
const F_SURFACE: u32 = 1;
const F_HWL: u32 = 1 << 1;
const F_POS: u32 = 1 << 2;
const F_NORM: u32 = 1 << 3;
const F_DICFORM: u32 = 1 << 4;
const F_READING: u32 = 1 << 5;
const F_SPLIT_A: u32 = 1 << 6;
const F_SPLIT_B: u32 = 1 << 7;
const F_WS: u32 = 1 << 8;
const F_SYN: u32 = 1 << 9;
const F_ALL: u32 = (1 << 10) - 1;
const F_NAMES: [&str; 10] = ["SURFACE", "HEAD_WORD_LENGTH", "POS_ID", "NORMALIZED_FORM", "DIC_FORM_WORD_ID", "READING_FORM", "SPLIT_A", "SPLIT_B", "WORD_STRUCTURE", "SYNONYM_GROUP_ID"];

fn mask_name(m: u32) -> String {
    if m == F_ALL { return "ALL".into(); }
    let v: Vec<&str> = (0..10).filter(|i| m >> i & 1 == 1).map(|i| F_NAMES[i]).collect();
    if v.is_empty() { "EMPTY".into() } else { v.join("|") }
}

/// A request the accessors can answer: the three form accessors (`normalized_form`, `reading_form`, `dictionary_form`)
/// hand out the headword for a form stored as "equal to the headword", so asking for a form means asking for the
/// headword too (what `InfoSubset::normalize` / `set_subset` do).  Computed here, not with `normalize`, so that the
/// requests do not depend on the function under test of another property (C11).
fn closed(m: u32) -> u32 {
    if m & (F_NORM | F_DICFORM | F_READING) != 0 { m | F_SURFACE } else { m }
}

/// Declared row `r` (row `i` of its dictionary) vs the fields `got` read back for it - ONLY the fields in `mask` (the
/// fields that were asked for) are compared; `pre` = key prefix (`c05:field`, `c05:ufield` for the full load; `c05:subset:field`,
/// `c05:tok-subset:field`, ... for the partial loads).  Returns (failure key, description).
fn word_diffs(w: &World5, pos_list: &[Vec<String>], r: &GRow, got: &Result<WordObs, String>, mask: u32, in_user: bool, pre: &str, i: usize) -> Vec<(String, String)> {
    let rows = if in_user { &w.usr.as_ref().unwrap().rows } else { &w.sys.rows };
    let mut bad: Vec<(String, String)> = vec![];
    // the entry the dictionary-form column names: for a user dictionary compiled by the candidate repair fix_D8b
    // (variant dfv=own) both `N` and `UN` name the OWN entry N (an N beyond the own entries is refused by the compiler)
    let exp_dic: String = match &r.dic_form {
        None => r.headword.clone(),
        Some(t) => if in_user && dfv_variant() == "own" { rows.get(t.idx).map_or(String::new(), |x| x.headword.clone()) } else { row_of(w, t).headword.clone() },
    };
    match got {
        Err(e) => {
            // D8: the dictionary-form id is a fixed-width field that the reader decodes whenever ANY later field is asked
            // for, and WordInfos::get_word_info then follows it - the same failure as with all fields
            if in_user && r.dic_form.is_some() {
                let form = if r.dic_form.as_ref().map_or(false, |t| t.user) { "own" } else { "sys" };
                bad.push((format!("c05:user-dicform:{}:panic", form), format!("get_word_info {}: dictionary form declared as {:?}", e, r.dic_form)));
            } else {
                bad.push((format!("{}:{}", pre, e.to_lowercase()), format!("get_word_info of word {} -> {}", i, e)));
            }
        }
        Ok(o) => {
            let cmp = |bad: &mut Vec<(String, String)>, name: &str, got: String, want: String| {
                if got != want { bad.push((format!("{}:{}", pre, name), format!("{}: loaded {:?}, declared {:?}", name, got, want))); }
            };
            if mask & F_SURFACE != 0 { cmp(&mut bad, "headword", o.surface.clone(), r.headword.clone()); }
            if mask & F_HWL != 0 { cmp(&mut bad, "keylen", o.hwl.to_string(), r.surface.len().to_string()); }
            if mask & F_POS != 0 {
                let pos_got = pos_list.get(o.pos as usize).map(|p| p.join("\u{1}")).unwrap_or_else(|| "<pos id out of range>".into());
                cmp(&mut bad, "pos", pos_got, w.pos[r.pos].join("\u{1}"));
            }
            if mask & F_READING != 0 {
                if r.reading.is_empty() && !r.headword.is_empty() {
                    if o.reading != r.reading { bad.push(("c05:empty-form:reading".into(), format!("reading declared empty, loaded {:?}", o.reading))); }
                } else { cmp(&mut bad, "reading", o.reading.clone(), r.reading.clone()); }
            }
            if mask & F_NORM != 0 {
                if r.norm.is_empty() && !r.headword.is_empty() {
                    if o.norm != r.norm { bad.push(("c05:empty-form:norm".into(), format!("normalized form declared empty, loaded {:?}", o.norm))); }
                } else { cmp(&mut bad, "norm", o.norm.clone(), r.norm.clone()); }
            }
            if mask & F_DICFORM != 0 {
                if in_user && r.dic_form.is_some() {
                    let form = if r.dic_form.as_ref().map_or(false, |t| t.user) { "own" } else { "sys" };
                    if o.dicform != exp_dic { bad.push((format!("c05:user-dicform:{}:wrong", form), format!("dictionary form declared {:?} = {:?}, loaded {:?}", r.dic_form, exp_dic, o.dicform))); }
                } else if exp_dic.is_empty() {
                    // an empty headword of the referenced entry cannot be told apart from "no dictionary form"
                } else { cmp(&mut bad, "dicform", o.dicform.clone(), exp_dic.clone()); }
            }
            let exp_split = |specs: &[SplitSpec]| -> String {
                join(specs.iter().map(|s| match s {
                    SplitSpec::Id(t) => expected_id(t).to_string(),
                    SplitSpec::Inline(t) => intended_inline(w, t, in_user).map_or("unresolvable".to_string(), |t| expected_id(&t).to_string()),
                }), ",")
            };
            // an inline unit that lands on a system word whose reading was declared EMPTY (stored like "equal to
            // the headword") is the empty-form finding, not a new one
            let empty_form_hit = |specs: &[SplitSpec], got: &[u32]| -> bool {
                in_user && specs.len() == got.len() && specs.iter().zip(got).all(|(s, &g)| match s {
                    SplitSpec::Id(t) => expected_id(t) == g,
                    SplitSpec::Inline(t) => {
                        if intended_inline(w, t, in_user).map(|t| expected_id(&t)) == Some(g) { return true; }
                        let tr = row_of(w, t);
                        let name = if !t.user { &tr.headword } else { &tr.surface };
                        (g >> 28) == 0 && w.sys.rows.get(g as usize).map_or(false, |x| x.reading.is_empty() && &x.headword == name && w.pos[x.pos] == w.pos[tr.pos] && name == &tr.reading)
                    }
                })
            };
            for (nm, bit, specs, got) in [("split_a", F_SPLIT_A, &r.a, &o.a), ("split_b", F_SPLIT_B, &r.b, &o.b)] {
                if mask & bit == 0 { continue; }
                let want = exp_split(specs);
                let gots = join(got.iter(), ",");
                if gots != want {
                    if empty_form_hit(specs, got) {
                        bad.push(("c05:empty-form:inline".into(), format!("{}: loaded {:?}, declared {:?} (inline unit matched a system word whose reading was declared empty)", nm, gots, want)));
                    } else {
                        cmp(&mut bad, nm, gots, want);
                    }
                }
            }
            if mask & F_WS != 0 { cmp(&mut bad, "word_structure", join(o.ws.iter(), ","), join(r.ws.iter().map(expected_id), ",")); }
            if mask & F_SYN != 0 { cmp(&mut bad, "synonyms", join(o.syn.iter(), ","), join(r.syn.iter(), ",")); }
        }
    }
    bad
}

fn check_dict(run: &mut Run, idx: usize, w: &World5, l: &Loaded, in_user: bool) -> usize {
    let d = if in_user { 1 } else { 0 };
    let rows = if in_user { &w.usr.as_ref().unwrap().rows } else { &w.sys.rows };
    let pre = if in_user { "ufield" } else { "field" };
    let mut fails = 0;
    if l.words[d].len() != rows.len() {
        run.fail(idx, &format!("c05:{}:count", pre), &format!("{} rows declared, {} words loaded", rows.len(), l.words[d].len()));
        return 1;
    }
    for (i, r) in rows.iter().enumerate() {
        let mut bad = word_diffs(w, &l.pos, r, &l.words[d][i], F_ALL, in_user, &format!("c05:{}", pre), i);
        match l.params[d][i] {
            None => bad.push((format!("c05:{}:params-panic", pre), "get_word_param panicked".into())),
            Some((a, b, c)) => {
                if (a as i32, b as i32, c as i32) != (r.left, r.right, r.cost) {
                    bad.push((format!("c05:{}:params", pre), format!("params loaded {:?}, declared {:?}", (a, b, c), (r.left, r.right, r.cost))));
                }
            }
        }
        for (k, what) in bad {
            fails += 1;
            run.fail(idx, &k, &format!("{} word {} ({:?}): {}", if in_user { "user" } else { "system" }, i, r.surface.chars().take(12).collect::<String>(), what));
        }
    }
    fails
}

// ---------------------------------------------------------------------------------------------
// oracle, second half: the same declared data read back through PARTIAL field subsets
//
// "Loading yields for every entry exactly the declared data" holds for every way the loaded dictionary hands a field
// out: `LexiconSet::get_word_info` (all fields, above) is one of them; `LexiconSet::get_word_info_subset` /
// `Lexicon::get_word_info` with a partial `InfoSubset` (the lattice asks for POS_ID, sudachi-cli for POS_ID|NORMALIZED_FORM|..,
// the user-dictionary compiler's resolver for SURFACE|READING_FORM|POS_ID, Python's `fields=`) and a tokenizer after
// `set_subset` are the others: there the reader SKIPS the fields that were not asked for (skip_u16_string, skip_u32_array,
// skip_wid_array) instead of parsing them, and a skip that disagrees with the writer about the length of a field shifts
// every later field.  The oracle states only this: a field that was ASKED FOR equals the declared value (same comparison,
// same known-finding keys as the full load); it says nothing about the fields that were not asked for.

const SUBSET_FAIL_CAP: usize = 12;

/// requests tried on every entry: each single field, plus `extra` random subsets (all closed under `closed`)
fn subset_masks(rng: &mut Rng, extra: usize) -> Vec<u32> {
    let mut v: Vec<u32> = (0..10).map(|i| closed(1u32 << i)).collect();
    for _ in 0..extra {
        let m = match rng.below(4) {
            // what the bundled callers ask for
            0 => *rng.pick(&[F_SURFACE | F_READING | F_POS, F_POS | F_NORM, F_POS | F_NORM | F_DICFORM | F_READING, F_SPLIT_A | F_HWL, F_SPLIT_B | F_HWL, F_WS | F_SYN]),
            // a late field alone or with few others (everything before it is skipped)
            1 => (1u32 << rng.range(2, 9)) | (1u32 << rng.range(5, 9)),
            _ => rng.below(1 << 10) as u32,
        };
        v.push(closed(m));
    }
    v.sort();
    v.dedup();
    v
}

fn check_subsets(run: &mut Run, idx: usize, rng: &mut Rng, w: &World5, l: &Loaded, sb: &[u8], ub: Option<&[u8]>) -> usize {
    // the loaded dictionaries, once more (the loader is deterministic: alignment clause)
    let loaded = catch(|| -> Option<(sudachi::dic::LoadedDictionary, sudachi::dic::lexicon::Lexicon)> {
        let direct = DictionaryLoader::read_system_dictionary(sb).ok()?.lexicon;
        let mut ld = DictionaryLoader::read_system_dictionary(sb).ok()?.to_loaded()?;
        if let Some(u) = ub {
            let ul = DictionaryLoader::read_user_dictionary(u).ok()?;
            let npos = ld.grammar.pos_list.len();
            ld.lexicon_set.append(ul.lexicon, npos).ok()?;
            if let Some(g) = ul.grammar { ld.grammar.merge(g); }
        }
        Some((ld, direct))
    });
    let Ok(Some((ld, direct))) = loaded else { return 0 };   // a dictionary that does not load is reported by the full load
    let mut fails = 0;
    let mut reads = 0u64;
    let mut boundary_skips = 0u64;
    let dicts: Vec<(bool, &Vec<GRow>)> = std::iter::once((false, &w.sys.rows)).chain(w.usr.iter().map(|u| (true, &u.rows))).collect();
    for (d, (in_user, rows)) in dicts.iter().enumerate() {
        if l.words[d].len() != rows.len() { continue; }   // reported by the full load
        for (i, r) in rows.iter().enumerate() {
            let long = [&r.headword, &r.reading, &r.norm].iter().filter(|s| units(s) >= 127).count();
            let masks = subset_masks(rng, if long > 0 { 6 } else { 2 });
            let id = WordId::new(d as u8, i as u32);
            // a failure the full load has already reported for this word under the same key (the known findings F-EMPTY and
            // D8 show through every request that contains the field) is not reported again; every key once per word
            let mut seen: Vec<String> = word_diffs(w, &l.pos, r, &l.words[d][i], F_ALL, *in_user, "c05:full", i).into_iter().map(|x| x.0).collect();
            for &m in &masks {
                let ways: &[&str] = if !*in_user && (m.count_ones() <= 2 || rng.chance(1, 3)) { &["set", "lexicon"] } else { &["set"] };
                for way in ways {
                    let sub = InfoSubset::from_bits_retain(m);
                    let got = catch(|| if *way == "set" { ld.lexicon_set.get_word_info_subset(id, sub) } else { direct.get_word_info(i as u32, sub) });
                    let obs: Result<WordObs, String> = match got { Err(_) => Err("PANIC".into()), Ok(Err(_)) => Err("err".into()), Ok(Ok(wi)) => Ok(obs_of(&wi)) };
                    reads += 1;
                    // does this request make the reader skip a string with a two-byte length prefix?
                    let skipped_long = (m & F_SURFACE == 0 && units(&r.headword) >= 127) || (m & F_NORM == 0 && units(&r.norm) >= 127 && r.norm != r.headword)
                        || (m & F_READING == 0 && units(&r.reading) >= 127 && r.reading != r.headword);
                    if skipped_long && m >> 2 != 0 { boundary_skips += 1; }
                    let pre = format!("c05:subset{}:{}", if *way == "set" { "" } else { "-lexicon" }, if *in_user { "ufield" } else { "field" });
                    for (k, what) in word_diffs(w, &l.pos, r, &obs, m, *in_user, &pre, i) {
                        if seen.contains(&k) { continue; }
                        seen.push(k.clone());
                        fails += 1;
                        if fails <= SUBSET_FAIL_CAP {
                            run.fail(idx, &k, &format!("{} word {} ({:?}; headword/reading/normalised form of {}/{}/{} UTF-16 units) read through {} with the subset {}: {}",
                                if *in_user { "user" } else { "system" }, i, r.surface.chars().take(12).collect::<String>(), units(&r.headword), units(&r.reading), units(&r.norm),
                                if *way == "set" { "LexiconSet::get_word_info_subset" } else { "Lexicon::get_word_info" }, mask_name(m), what));
                        }
                    }
                }
            }
        }
    }
    run.bump_by("subset:reads", reads);
    run.bump_by("subset:reads-skipping-a-two-byte-prefixed-string", boundary_skips);
    fails
}

fn tok_workdir(out: &str) -> Option<String> {
    let dir = format!("{}/c05_tok", out);
    std::fs::create_dir_all(&dir).ok()?;
    let repo = std::env::var("VERIF_REPO").unwrap_or_else(|_| "/repo".into());
    let chardef = std::fs::read_to_string(format!("{}/resources/char.def", repo)).unwrap_or_else(|_| "DEFAULT 0 1 0\n0x0030..0x0039 NUMERIC\n".into());
    std::fs::write(format!("{}/char.def", dir), chardef).ok()?;
    Some(dir)
}

/// per dictionary word of the analysis: (raw word id, fields of `Morpheme::get_word_info`)
fn tok_words(dic: &JapaneseDictionary, text: &str, mode: Mode, mask: u32) -> Result<Result<(Vec<(u32, WordObs)>, Vec<Vec<String>>), String>, String> {
    catch(|| {
        let mut tok = StatefulTokenizer::new(dic, mode);
        tok.set_subset(InfoSubset::from_bits_retain(mask));
        tok.reset().push_str(text);
        tok.do_tokenize().map_err(|e| crate::dict::err_class(&e))?;
        let mut ml = MorphemeList::empty(dic);
        ml.collect_results(&mut tok).map_err(|e| crate::dict::err_class(&e))?;
        let ws = ml.iter().filter(|m| !m.is_oov()).map(|m| (m.word_id().as_raw(), obs_of(m.get_word_info()))).collect();
        Ok((ws, dic.grammar().pos_list.clone()))
    })
}

/// the same through an analysis: `set_subset(S)`, tokenise the key of an entry, compare the asked-for fields of every
/// dictionary word of the result (whatever path was chosen) with the declared row of its word id
fn check_tok_subsets(run: &mut Run, idx: usize, rng: &mut Rng, w: &World5, l: &Loaded, dir: &str, sb: &[u8], ub: Option<&[u8]>) -> usize {
    // the OOV provider needs a part of speech the system dictionary has: the one of its first row
    let oov_pos = serde_json::to_string(&w.pos[w.sys.rows[0].pos].to_vec()).unwrap_or_default();
    let oov = format!(r#"{{"class":"com.worksap.nlp.sudachi.SimpleOovPlugin","oovPOS":{},"leftId":0,"rightId":0,"cost":30000}}"#, oov_pos);
    let cfg = format!(r#"{{"path":"{}","characterDefinitionFile":"char.def","connectionCostPlugin":[],"inputTextPlugin":[],"oovProviderPlugin":[{}],"pathRewritePlugin":[]}}"#, dir, oov);
    let dic = match crate::dict::load(&cfg, sb.to_vec(), ub.map(|u| vec![u.to_vec()]).unwrap_or_default()) {
        Ok(d) => d,
        Err(e) => { run.bump(&format!("tok-subset:dictionary-not-loaded-as-JapaneseDictionary:{}", e.chars().filter(|c| c.is_ascii_alphabetic() || *c == ':').take(40).collect::<String>())); return 0; }
    };
    // texts: the keys of the first rows (the directed boundary rows sit there) and of two random rows
    let mut texts: Vec<String> = vec![];
    let all: Vec<&GRow> = w.sys.rows.iter().chain(w.usr.iter().flat_map(|u| u.rows.iter())).collect();
    let mut cand: Vec<&GRow> = all.iter().take(3).cloned().collect();
    for _ in 0..2 { cand.push(*rng.pick(&all)); }
    if let Some(u) = &w.usr { cand.push(rng.pick(&u.rows)); }
    for r in cand {
        if r.left >= 0 && !r.surface.is_empty() && r.surface.len() <= 40000 && !texts.contains(&r.surface) { texts.push(r.surface.clone()); }
    }
    let mut fails = 0;
    for text in &texts {
        let mode = *rng.pick(&[Mode::C, Mode::C, Mode::A, Mode::B]);
        let mode_bit = match mode { Mode::A => F_SPLIT_A, Mode::B => F_SPLIT_B, _ => 0 };
        let asked = closed(match rng.below(3) { 0 => 1u32 << rng.below(10), 1 => *rng.pick(&[F_POS, F_POS | F_NORM, F_SURFACE | F_READING | F_POS, F_READING, F_SYN, F_WS]), _ => rng.below(1 << 10) as u32 });
        let full = tok_words(&dic, text, mode, F_ALL);
        let Ok(Ok((fw, _))) = full else { run.bump("tok-subset:analysis-fails-with-all-fields(not-this-property)"); continue };
        run.bump("tok-subset:analyses");
        let ctx = format!("text = key {:?} ({} bytes), mode {:?}, set_subset({})", text.chars().take(12).collect::<String>(), text.len(), mode, mask_name(asked));
        match tok_words(&dic, text, mode, asked) {
            Err(_) | Ok(Err(_)) => {
                // with all fields the same analysis succeeds: reading the words of the path through the subset failed
                fails += 1;
                run.fail(idx, "c05:tok-subset:fails", &format!("{}: the analysis succeeds with all fields ({} dictionary words) and fails / panics with the subset", ctx, fw.len()));
            }
            Ok(Ok((ws, pos_list))) => {
                let eff = closed(asked | mode_bit);
                for (wid, o) in ws {
                    let (d, i) = ((wid >> 28) as usize, (wid & 0x0fff_ffff) as usize);
                    let in_user = d == 1;
                    let row = if d == 0 { w.sys.rows.get(i) } else if d == 1 { w.usr.as_ref().and_then(|u| u.rows.get(i)) } else { None };
                    let Some(r) = row else { continue };
                    run.bump("tok-subset:words");
                    let pre = format!("c05:tok-subset:{}", if in_user { "ufield" } else { "field" });
                    let seen: Vec<String> = l.words.get(d).and_then(|x| x.get(i)).map_or(vec![], |full| word_diffs(w, &l.pos, r, full, F_ALL, in_user, "c05:full", i).into_iter().map(|x| x.0).collect());
                    for (k, what) in word_diffs(w, &pos_list, r, &Ok(o), eff, in_user, &pre, i) {
                        if seen.contains(&k) { continue; }
                        fails += 1;
                        if fails <= SUBSET_FAIL_CAP {
                            run.fail(idx, &k, &format!("{}: {} word {} ({:?}) of the result: {}", ctx, if in_user { "user" } else { "system" }, i, r.surface.chars().take(12).collect::<String>(), what));
                        }
                    }
                }
            }
        }
    }
    fails
}

pub fn run(run: &mut Run) {
    run.rule = "one system dictionary (+ user dictionary in about 1/3 of the cases) per case: random lexicon rows (homographs, shared prefixes, \
non-indexed rows, headword/reading/normalised form equal to / different from the headword / empty, \\uXXXX and \\u{X} escapes, astral characters, \
id and inline split references, U-references, word structure, synonym groups, dictionary forms, 18- and 19-column rows) x random matrix text \
(square and non-square, sparse, shuffled, overwritten cells, blank lines, tabs, CRLF); directed low indices force 126/127/128-unit strings and \
126/127/128-byte keys, 32767-unit strings, 0/1/126/127/128 array items, 127/128 homographs, 255/256/257-byte descriptions, an indexed row with \
right id -1; observed per case: all bytes of both dictionaries, both headers (version, time, description), POS list, every matrix cell, every field and \
the parameters of every word, LexiconSet::lookup of every source key; ORACLE-ONLY in addition, per entry: every declared field read back through each of the \
10 single-field InfoSubsets and 2 (6 for entries with a string of >= 127 units) random partial subsets (the requests of the bundled callers: POS_ID, \
SURFACE|READING_FORM|POS_ID, POS_ID|NORMALIZED_FORM, ..; late fields alone; uniform masks; each closed under 'a form needs the headword') with \
LexiconSet::get_word_info_subset and, for system entries, Lexicon::get_word_info - only the fields asked for are compared with the declared row; \
per case up to 6 analyses of entry keys (first three rows = the directed boundary rows, random rows, a user row) by a StatefulTokenizer over the \
JapaneseDictionary of the same bytes after set_subset(random request), modes A/B/C: every dictionary word of the result vs the declared row of its \
word id, and 'succeeds with all fields => succeeds with the subset'; non-trivial = compiles and loads; distinct by line".into();
    let directed: Vec<Profile> = vec![
        Profile::Tiny, Profile::LenBoundary(127), Profile::LenBoundary(128), Profile::LenBoundary(126), Profile::LenBoundary(255), Profile::LenBoundary(256),
        Profile::Arrays(127), Profile::Arrays(128), Profile::Arrays(1), Profile::Arrays(126), Profile::Homographs(127), Profile::Homographs(128),
        Profile::Desc(255), Profile::Desc(256), Profile::Desc(257), Profile::Desc(0), Profile::UserRefs, Profile::UserDicForm, Profile::Escapes, Profile::Huge,
        Profile::UserRefs, Profile::UserDicForm, Profile::Escapes, Profile::UserRefs, Profile::NegRight,
        Profile::CsvShapes(1), Profile::CsvShapes(2), Profile::CsvShapes(3), Profile::CsvShapes(4), Profile::CsvShapes(5), Profile::CsvShapes(6), Profile::WideMatrix, Profile::WideMatrix,
        Profile::CsvShapes(7), Profile::CsvShapes(8), Profile::NulKey(0), Profile::NulKey(1),
    ];
    let n = run.opts.count;
    run.bump(&format!("variant:df={}", df_variant()));
    run.bump(&format!("variant:dfv={}", dfv_variant()));
    let mut child_jobs: Vec<(usize, String, String)> = vec![];
    let tokdir = tok_workdir(&run.opts.out);
    let mut subset_secs = (0f64, 0f64);
    for idx in 0..n {
        if !run.wants(idx) { continue; }
        let mut rng = Rng::for_case(run.opts.seed, idx);
        let profile = if idx < directed.len() { directed[idx] } else {
            match rng.below(14) { 0 => Profile::LenBoundary(*rng.pick(&[126, 127, 128])), 1 => Profile::Escapes, 2 => Profile::UserRefs, 3 => Profile::Tiny,
                4 => Profile::Arrays(*rng.pick(&[0, 1, 2, 126, 127])), 5 => Profile::CsvShapes(0), 6 => if rng.chance(1, 4) { Profile::WideMatrix } else { Profile::Random }, _ => Profile::Random }
        };
        let w = gen_world(&mut rng, profile);
        for t in &w.tags { run.bump(&format!("tag:{}", t)); }
        let time = if rng.chance(1, 4) { *rng.pick(&[0u64, 1, u32::MAX as u64, u32::MAX as u64 + 1, 253402300799]) } else { TIME0 + rng.below(1000) as u64 };
        // how the two CSV files are written: directed styles for the CsvShapes profiles, random otherwise
        let style_of = |rng: &mut Rng| -> CsvStyle { match profile {
            Profile::CsvShapes(1) => CsvStyle { quoting: 1, term: 1, ..Default::default() },
            Profile::CsvShapes(2) => CsvStyle { bom: true, term: 2, trailing_blank: true, ..Default::default() },
            Profile::CsvShapes(3) => CsvStyle { quoting: 2, term: 3, blank_lines: true, no_final_newline: true, ..Default::default() },
            Profile::CsvShapes(4) => CsvStyle { bare_inner_quote: true, blank_lines: true, ..Default::default() },
            Profile::CsvShapes(5) => CsvStyle { bom: true, quoting: 1, no_final_newline: true, ..Default::default() },
            Profile::CsvShapes(6) => CsvStyle { term: 2, blank_lines: true, trailing_blank: true, bare_inner_quote: true, ..Default::default() },
            Profile::CsvShapes(7) => CsvStyle::default(),
            Profile::Huge => CsvStyle::default(),
            _ => gen_style(rng),
        } };
        let mut ctags: Vec<String> = vec![];
        let st = style_of(&mut rng);
        let (csv, bounds) = csv_of(&mut rng, &w, &w.sys, false, &st, &mut ctags);
        let ust = style_of(&mut rng);
        let ucsv = w.usr.as_ref().map(|u| csv_of(&mut rng, &w, u, true, &ust, &mut ctags).0);
        ctags.sort();
        ctags.dedup();
        for t in &ctags { run.bump(t); }
        run.bump(&format!("matrix:{}", match (w.matrix.nl, w.matrix.nr) { (1, 1) => "1x1", (a, b) if a == b => "square", (a, b) if a > b => "more-left", _ => "more-right" }));
        let mtext = w.matrix.text.clone();
        // distinct keys (column 0) of the source rows, system rows first, in order of first appearance
        let mut keys: Vec<String> = vec![];
        for r in w.sys.rows.iter().chain(w.usr.iter().flat_map(|u| u.rows.iter())) {
            if !keys.contains(&r.surface) { keys.push(r.surface.clone()); }
        }

        // ---- real implementation ----
        let sys = build(None, time, &w.desc, Some(mtext.as_bytes()), csv.as_bytes());
        let recs = records_of(csv.as_bytes());
        let urecs = ucsv.as_ref().map(|c| records_of(c.as_bytes()));
        let (recs, urecs) = match (recs, urecs) {
            (Some(r), None) => (r, None),
            (Some(r), Some(Some(u))) => (r, Some(u)),
            _ => { run.bump("generator:csv-unreadable"); continue; }
        };
        let mut payload = format!("df={} dfv={} time={} desc={} mat={} csv={}", df_variant(), dfv_variant(), time, hex(w.desc.as_bytes()), hex(mtext.as_bytes()), hex(csv.as_bytes()));
        let mut rec_prefix = format!("rec={} ", recs);
        let mut answer;
        let mut loaded: Option<Loaded> = None;
        let mut bins: Option<(Vec<u8>, Option<Vec<u8>>)> = None;
        let mut load_failed: Option<String> = None;
        match &sys {
            Err(e) => {
                answer = e.clone();
                payload.push_str(" trie=");
                run.bump(&format!("outcome:{}", e));
            }
            Ok(sb) => {
                let (to, tl) = trie_blob(sb).unwrap_or((0, 0));
                payload.push_str(&format!(" trie={}", hex(&sb[to..to + tl])));
                answer = format!("ok sys={}", hex(sb));
                let mut ub: Option<Vec<u8>> = None;
                let mut stop = false;
                if let (Some(ucsv), Some(urecs)) = (&ucsv, &urecs) {
                    // the user dictionary is built against the loaded system dictionary
                    let sl = catch(|| DictionaryLoader::read_system_dictionary(sb).ok().and_then(|l| l.to_loaded()));
                    match sl {
                        Ok(Some(sl)) => {
                            let u = build(Some(&sl), time, &w.udesc, None, ucsv.as_bytes());
                            payload.push_str(&format!(" udesc={} ucsv={}", hex(w.udesc.as_bytes()), hex(ucsv.as_bytes())));
                            rec_prefix.push_str(&format!("urec={} ", urecs));
                            match u {
                                Err(e) => { answer = e.clone(); payload.push_str(" utrie="); run.bump(&format!("outcome:{}", e)); stop = true; }
                                Ok(u) => {
                                    let (to, tl) = trie_blob(&u).unwrap_or((0, 0));
                                    payload.push_str(&format!(" utrie={}", hex(&u[to..to + tl])));
                                    answer.push_str(&format!(" usr={}", hex(&u)));
                                    ub = Some(u);
                                }
                            }
                        }
                        _ => { answer = "err stage=load".into(); stop = true; }
                    }
                }
                if !stop {
                    match load_and_dump(sb, ub.as_deref(), &keys) {
                        Ok(l) => { answer.push(' '); answer.push_str(&l.text); loaded = Some(l); run.bump("outcome:ok"); }
                        Err(e) => { answer = e.clone(); run.bump(&format!("outcome:{}", e)); load_failed = Some(e); }
                    }
                    bins = Some((sb.clone(), ub));
                }
            }
        }
        let answer = format!("{}{}", rec_prefix, answer);
        run.case(idx, "dict", &payload, &answer, loaded.is_some());
        run.bump(&format!("rows:{}", (w.sys.rows.len() / 10) * 10));

        // ---- property oracle ----
        if let Some(e) = &load_failed {
            run.fail(idx, "c05:load", &format!("the compiler accepted the inputs but the produced dictionary does not load: {}", e));
        }
        let (Some(l), Some((sb, ub))) = (&loaded, &bins) else { continue };
        let mut fails = check_dict(run, idx, &w, l, false);
        if w.usr.is_some() { fails += check_dict(run, idx, &w, l, true); }
        // the same declared data through partial field subsets (own random stream: the case lines stay what they were)
        let mut srng = Rng::for_case(run.opts.seed ^ 0x5b5e7c05, idx);
        let t0 = std::time::Instant::now();
        fails += check_subsets(run, idx, &mut srng, &w, l, sb, ub.as_deref());
        let t1 = std::time::Instant::now();
        if let Some(dir) = &tokdir { fails += check_tok_subsets(run, idx, &mut srng, &w, l, dir, sb, ub.as_deref()); }
        subset_secs.0 += (t1 - t0).as_secs_f64();
        subset_secs.1 += t1.elapsed().as_secs_f64();
        // connection costs = the matrix text
        if (l.nl, l.nr) != (w.matrix.nl, w.matrix.nr) {
            run.fail(idx, "c05:matrix:shape", &format!("matrix {}x{} declared, {}x{} loaded", w.matrix.nl, w.matrix.nr, l.nl, l.nr));
        } else {
            'm: for r in 0..l.nr { for lft in 0..l.nl {
                let want = w.matrix.declared(lft, r);
                if l.matrix[r][lft] != Some(want) {
                    run.fail(idx, "c05:matrix:cell", &format!("cost({}, {}) loaded {:?}, matrix text says {}", lft, r, l.matrix[r][lft], want));
                    fails += 1;
                    break 'm;
                }
            } }
        }
        // header: version of the dictionary kind, the creation time given to the builder, the description
        // (Header::parse cuts it at the first NUL byte; a NUL-free description must come back unchanged)
        let upto_nul = |d: &str| d.split('\u{0}').next().unwrap_or("").to_string();
        for (k, (h, (ver, desc))) in l.hdrs.iter().zip([(0xce9f011a92394434u64, &w.desc), (0xca9811756ff64fb0u64, &w.udesc)]).enumerate() {
            let pre = if k == 0 { "header" } else { "uheader" };
            if h.0 != ver { run.fail(idx, &format!("c05:{}:version", pre), &format!("header version {:#x}, expected {:#x}", h.0, ver)); fails += 1; }
            if h.1 != time { run.fail(idx, &format!("c05:{}:time", pre), &format!("creation time loaded {}, set {}", h.1, time)); fails += 1; }
            if h.2 != upto_nul(desc) { run.fail(idx, &format!("c05:{}:description", pre), &format!("description loaded {:?}, set {:?}", h.2, desc)); fails += 1; }
        }
        // index: every indexed row is found under its key with its own id and the key's length, and nothing is
        // found that is not an indexed row whose key is that prefix (trie + word-id table as loaded)
        for (key, res) in &l.look {
            let Some(res) = res else { run.fail(idx, "c05:index:panic", &format!("lookup of key {:?} panicked", key)); fails += 1; continue };
            let dicts: Vec<&GDict> = std::iter::once(&w.sys).chain(w.usr.iter()).collect();
            for (d, dict) in dicts.iter().enumerate() {
                for (i, r) in dict.rows.iter().enumerate() {
                    let id = ((d as u32) << 28) | i as u32;
                    let want = r.left >= 0 && key.as_bytes().starts_with(r.surface.as_bytes());
                    let got = res.iter().filter(|x| **x == (id, r.surface.len())).count();
                    if want && got != 1 { run.fail(idx, "c05:index:missing", &format!("lookup({:?}) does not return row {} of dictionary {} exactly once", key, i, d)); fails += 1; }
                    if !want && res.iter().any(|x| x.0 == id) { run.fail(idx, "c05:index:spurious", &format!("lookup({:?}) returns row {} of dictionary {}", key, i, d)); fails += 1; }
                }
            }
            let total: usize = dicts.iter().map(|dd| dd.rows.iter().filter(|r| r.left >= 0 && key.as_bytes().starts_with(r.surface.as_bytes())).count()).sum();
            if res.len() != total { run.fail(idx, "c05:index:count", &format!("lookup({:?}) returns {} entries, {} rows are indexed prefixes", key, res.len(), total)); fails += 1; }
        }
        // determinism: a second compilation of the same inputs, in ANOTHER THREAD (std's RandomState draws its keys per
        // thread, so a hash-ordered container in the builder would iterate differently there); a third one happens in
        // another PROCESS at the end of the run (child_jobs)
        let again = std::thread::scope(|sc| std::thread::Builder::new().stack_size(thread_stack()).spawn_scoped(sc, || build(None, time, &w.desc, Some(mtext.as_bytes()), csv.as_bytes())).map(|h| h.join()))
            .ok().and_then(|r| r.ok()).unwrap_or_else(|| Err("PANIC thread".into()));
        if again.as_ref().ok() != Some(sb) {
            run.fail(idx, "c05:nondeterministic:system", "compiling the same inputs with the same timestamp twice (second time in another thread) gave different bytes");
        }
        if let (Some(ub), Some(ucsv)) = (ub, &ucsv) {
            let sl = DictionaryLoader::read_system_dictionary(sb).ok().and_then(|l| l.to_loaded());
            if let Some(sl) = sl {
                let again = std::thread::scope(|sc| std::thread::Builder::new().stack_size(thread_stack()).spawn_scoped(sc, || build(Some(&sl), time, &w.udesc, None, ucsv.as_bytes())).map(|h| h.join()))
                    .ok().and_then(|r| r.ok()).unwrap_or_else(|| Err("PANIC thread".into()));
                if again.as_ref().ok() != Some(ub) {
                    run.fail(idx, "c05:nondeterministic:user", "compiling the same user dictionary twice (second time in another thread) gave different bytes");
                }
            }
        }
        run.bump("determinism:thread-recompiles");
        // rarely used entry points: the same lexicon given as TWO sources (read_lexicon twice, cut at a record boundary;
        // `sudachi build` takes several CSV files) and as a FILE (LexiconReader::read_file, memory-mapped) must give the same bytes
        if idx % 3 == 1 {
            let cut = bounds.iter().copied().filter(|&b| b > 0 && b < csv.len() && !csv[b..].starts_with('\u{feff}')).nth(bounds.len() / 3);
            if let Some(cut) = cut {
                let two = build_parts(None, time, &w.desc, Some(mtext.as_bytes()), &[Part::Bytes(csv[..cut].as_bytes()), Part::Bytes(csv[cut..].as_bytes())]);
                run.bump("entry:two-sources");
                if two.as_ref().ok() != Some(sb) {
                    run.fail(idx, "c05:sources:split", &format!("the lexicon read as two sources (cut at byte {}) compiles to different bytes than read as one", cut));
                }
            }
            let path = std::path::PathBuf::from(format!("{}/c05_lex_{}.csv", run.opts.out, idx));
            if std::fs::write(&path, csv.as_bytes()).is_ok() {
                let f = build_parts(None, time, &w.desc, Some(mtext.as_bytes()), &[Part::File(&path)]);
                run.bump("entry:file-source");
                if f.as_ref().ok() != Some(sb) {
                    run.fail(idx, "c05:sources:file", "the lexicon read from a file compiles to different bytes than read from memory");
                }
                let _ = std::fs::remove_file(&path);
            }
        }
        if sb.len() + ub.as_ref().map_or(0, |u| u.len()) < 200_000 {
            let mut job = format!("{} {} {} {} {}", idx, time, hex(w.desc.as_bytes()), hex(mtext.as_bytes()), hex(csv.as_bytes()));
            let mut want = fingerprint(sb);
            if let (Some(ub), Some(ucsv)) = (ub, &ucsv) {
                job.push_str(&format!(" {} {}", hex(w.udesc.as_bytes()), hex(ucsv.as_bytes())));
                want.push(' ');
                want.push_str(&fingerprint(ub));
            }
            child_jobs.push((idx, job, want));
        }
        // alignment: same bytes at an 8-aligned and at an odd address
        let (b0, s0) = at_alignment(sb, 0);
        let (b1, s1) = at_alignment(sb, 1);
        let ua = ub.as_ref().map(|u| (at_alignment(u, 0), at_alignment(u, 1)));
        let d0 = load_and_dump(&b0[s0..s0 + sb.len()], ua.as_ref().map(|x| &x.0 .0[x.0 .1..x.0 .1 + ub.as_ref().unwrap().len()]), &keys);
        let d1 = load_and_dump(&b1[s1..s1 + sb.len()], ua.as_ref().map(|x| &x.1 .0[x.1 .1..x.1 .1 + ub.as_ref().unwrap().len()]), &keys);
        let t0 = d0.map(|x| x.text).unwrap_or_else(|e| e);
        let t1 = d1.map(|x| x.text).unwrap_or_else(|e| e);
        if t0 != t1 || t0 != l.text {
            run.fail(idx, "c05:alignment", "fields loaded from an aligned and from an odd address differ");
        }
        run.bump("alignment-pairs");
        if fails == 0 { run.bump("oracle:clean"); }
    }
    run.extra.insert("subset_oracle_seconds".into(), serde_json::json!({"get_word_info_subset": (subset_secs.0 * 10.0).round() / 10.0, "tokenizer_set_subset": (subset_secs.1 * 10.0).round() / 10.0}));
    if let Some(dir) = &tokdir { let _ = std::fs::remove_dir_all(dir); }
    // determinism across PROCESSES: one fresh process compiles every collected input again
    if !child_jobs.is_empty() {
        let dir = run.opts.out.clone();
        let text: String = child_jobs.iter().map(|j| format!("{}\n", j.1)).collect();
        let ok = std::fs::write(format!("{}/c05_child_in.txt", dir), text).is_ok();
        let outp = if ok { std::env::current_exe().ok().and_then(|exe| std::process::Command::new(exe).args(["C05CHILD", "--out", &dir]).output().ok()) } else { None };
        match outp {
            Some(o) if o.status.success() => {
                let got: std::collections::HashMap<usize, String> = String::from_utf8_lossy(&o.stdout).lines()
                    .filter_map(|l| { let (a, b) = l.split_once(' ')?; Some((a.parse().ok()?, b.to_string())) }).collect();
                for (idx, _, want) in &child_jobs {
                    run.bump("determinism:process-recompiles");
                    if got.get(idx) != Some(want) {
                        run.fail(*idx, "c05:nondeterministic:process", &format!("a second process compiled the same inputs to different bytes: {:?} vs {}", got.get(idx), want));
                    }
                }
            }
            _ => { run.fail(0, "c05:nondeterministic:child", "the child process for the cross-process determinism check did not run"); }
        }
        let _ = std::fs::remove_file(format!("{}/c05_child_in.txt", dir));
    }
}
