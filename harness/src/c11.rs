//! C11: loading a subset of word fields never changes the fields that were requested.
//!
//! Three kinds of case lines (all answered by `Subset.handle` of the Lean model):
//!  * `nz`  — `InfoSubset::normalize` on all 1 024 masks;
//!  * `wi`  — one word of a generated system/user dictionary through
//!            `LexiconSet::get_word_info_subset` with every one of the 1 024 subsets (the model gets
//!            the raw bytes of the word-info records, cut out of the compiled binary by the harness);
//!  * `tokp` — the same as `tok` for configurations WITH path-rewrite plugins: the model additionally gets the plugin stack,
//!            the class mask of every character, the real numeric parser's answers for every run of candidate nodes and the
//!            best path of the same configuration without the plugins (`Subset.tokenizeRw`);
//!  * `tok` — `StatefulTokenizer` with a random order of `set_mode` / `set_subset`, then tokenise; the
//!            model gets the mode-C best path of a full-field analysis and answers the final
//!            mode/subset and every morpheme with all its `WordInfoData` fields.
//! Oracles (independent of the model): every requested raw field and every requested accessor equals
//! the full load; boundaries / word ids equal the full-field analysis; surfaces partition the input.
use crate::c01::{analyse, partition_oracle};
use crate::common::*;
use crate::dict::*;
use crate::world::unk_def;
use sudachi::analysis::stateful_tokenizer::StatefulTokenizer;
use sudachi::analysis::Mode;
use sudachi::dic::dictionary::JapaneseDictionary;
use sudachi::dic::header::Header;
use sudachi::dic::lexicon::word_infos::WordInfo;
use sudachi::dic::subset::InfoSubset;
use sudachi::dic::word_id::WordId;
use sudachi::dic::DictionaryLoader;
use sudachi::plugin::path_rewrite::join_numeric::verif_parse;
use std::collections::BTreeSet;
use sudachi::prelude::*;

pub const WI_SLOTS: usize = 40;
pub const TOK_SLOTS: usize = 88;
pub const CASES_PER_WORLD: usize = WI_SLOTS + TOK_SLOTS;

const FIELD_NAMES: [&str; 10] = [
    "surface", "head_word_length", "pos_id", "normalized_form", "dic_form_word_id", "reading_form", "split_a", "split_b",
    "word_structure", "synonym_group_ids",
];
const SURFACE: u32 = 1;
const POS_ID: u32 = 4;
const NORMALIZED_FORM: u32 = 8;
const DIC_FORM_WORD_ID: u32 = 16;
const READING_FORM: u32 = 32;
const ALL: u32 = 1023;

// ---------------------------------------------------------------------------------------------
// observation of one WordInfo: every raw field + the three accessors with a fall-back

#[derive(Clone, Debug, PartialEq)]
pub struct Obs {
    surface: String,
    hl: usize,
    pos: u16,
    norm: String,
    dfwi: i32,
    df: String,
    reading: String,
    a: Vec<u32>,
    b: Vec<u32>,
    ws: Vec<u32>,
    syn: Vec<u32>,
    acc_n: String,
    acc_d: String,
    acc_r: String,
}

fn obs(wi: &WordInfo) -> Obs {
    let d = wi.borrow_data();
    Obs {
        surface: d.surface.clone(),
        hl: d.head_word_length as usize,
        pos: d.pos_id,
        norm: d.normalized_form.clone(),
        dfwi: d.dictionary_form_word_id,
        df: d.dictionary_form.clone(),
        reading: d.reading_form.clone(),
        a: d.a_unit_split.iter().map(|w| w.as_raw()).collect(),
        b: d.b_unit_split.iter().map(|w| w.as_raw()).collect(),
        ws: d.word_structure.iter().map(|w| w.as_raw()).collect(),
        syn: d.synonym_group_ids.clone(),
        acc_n: wi.normalized_form().to_string(),
        acc_d: wi.dictionary_form().to_string(),
        acc_r: wi.reading_form().to_string(),
    }
}

fn show_str(s: &str) -> String {
    join(s.chars().map(|c| c as u32), ".")
}

fn show_obs(o: &Obs) -> String {
    [
        show_str(&o.surface), o.hl.to_string(), o.pos.to_string(), show_str(&o.norm), o.dfwi.to_string(), show_str(&o.df),
        show_str(&o.reading), join(o.a.iter(), "."), join(o.b.iter(), "."), join(o.ws.iter(), "."), join(o.syn.iter(), "."),
        show_str(&o.acc_n), show_str(&o.acc_d), show_str(&o.acc_r),
    ]
    .join("/")
}

/// raw stored value of field `f`
fn raw_field(o: &Obs, f: usize) -> String {
    match f {
        0 => o.surface.clone(),
        1 => o.hl.to_string(),
        2 => o.pos.to_string(),
        3 => o.norm.clone(),
        4 => o.dfwi.to_string(),
        5 => o.reading.clone(),
        6 => join(o.a.iter(), "."),
        7 => join(o.b.iter(), "."),
        8 => join(o.ws.iter(), "."),
        _ => join(o.syn.iter(), "."),
    }
}

/// value(s) the public accessors of field `f` return
fn acc_field(o: &Obs, f: usize) -> String {
    match f {
        3 => o.acc_n.clone(),
        4 => format!("{}|{}", o.dfwi, o.acc_d),
        5 => o.acc_r.clone(),
        _ => raw_field(o, f),
    }
}

/// the documented contract of the raw API ("string fields can be empty, use surface"): whoever asks
/// for a form asks for the surface as well
fn spec_closed(s: u32) -> bool {
    s & (NORMALIZED_FORM | DIC_FORM_WORD_ID | READING_FORM) == 0 || s & SURFACE != 0
}

/// D10: the dictionary form of a word that is its own dictionary form comes back empty because the
/// surface was not loaded
fn is_d10(f: usize, loaded: u32, sub: &Obs, full: &Obs, own_id: i64) -> bool {
    f == 4
        && loaded & SURFACE == 0
        && sub.dfwi == full.dfwi
        && (full.dfwi < 0 || full.dfwi as i64 == own_id)
        && sub.acc_d.is_empty()
        && full.acc_d == full.surface
}

// ---------------------------------------------------------------------------------------------
// cutting the word-info records out of a compiled dictionary (dumb re-reading of the layout)

fn rd_u32(b: &[u8], off: usize) -> usize {
    u32::from_le_bytes([b[off], b[off + 1], b[off + 2], b[off + 3]]) as usize
}

pub struct LexBin {
    pub recs: Vec<Vec<u8>>,
    pub has_syn: bool,
    pub npos: usize,
}

pub fn cut_records(bytes: &[u8], system: bool) -> Result<LexBin, String> {
    let loader = if system { DictionaryLoader::read_system_dictionary(bytes) } else { DictionaryLoader::read_user_dictionary(bytes) }
        .map_err(|e| format!("reload: {:?}", e))?;
    let has_syn = loader.header.has_synonym_group_ids();
    let mut off = Header::STORAGE_SIZE;
    let mut npos = 0;
    if let Some(g) = &loader.grammar {
        off += g.storage_size;
        npos = g.pos_list.len();
    }
    let trie = rd_u32(bytes, off);
    off += 4 + 4 * trie;
    let wt = rd_u32(bytes, off);
    off += 4 + wt;
    let n = rd_u32(bytes, off);
    off += 4 + 6 * n;
    let starts: Vec<usize> = (0..n).map(|k| rd_u32(bytes, off + 4 * k)).collect();
    let mut sorted = starts.clone();
    sorted.push(bytes.len());
    sorted.sort();
    sorted.dedup();
    let mut recs = vec![];
    for &s in &starts {
        let e = *sorted.iter().find(|&&x| x > s).unwrap_or(&bytes.len());
        recs.push(bytes[s..e].to_vec());
    }
    Ok(LexBin { recs, has_syn, npos })
}

// ---------------------------------------------------------------------------------------------
// worlds

pub struct W11 {
    pub wd: Workdir,
    pub dic: JapaneseDictionary,
    pub bins: Vec<LexBin>,
    pub pos_offsets: Vec<usize>,
    pub nsys: usize,
    pub rows: Vec<Vec<Row>>,
    pub has_path_rewrite: bool,
    pub desc: Vec<String>,
    pub lex_payload: String,
    /// surfaces of the directed compounds of the SECOND user dictionary whose A split, B split and word
    /// structure are `U`-references into that same dictionary (empty when the world has none)
    pub rebase_texts: Vec<String>,
    /// the system dictionary carries the directed ill-formed split declarations (unit longer than its parent,
    /// unit ending inside a character)
    pub d6_rows: bool,
    /// the same configuration WITHOUT the path-rewrite plugins (its mode-C analysis is the path the plugins are given)
    pub dic0: Option<JapaneseDictionary>,
    /// configured path-rewrite plugins in order: ('N', enableNormalize) / ('K', minLength)
    pub plugins: Vec<(char, usize)>,
    pub has_numeric: bool,
    /// system words the `wi` slots serve first (the indexed words that got boundary-length fields)
    pub focus_words: Vec<usize>,
    pub boundary_world: bool,
}

fn kata(rng: &mut Rng, n: usize) -> String {
    (0..n).map(|_| *rng.pick(&['ア', 'イ', 'ウ', 'カ', 'ー'])).collect()
}

/// system header version 1 / user header version 2: the same layout without synonym group ids.
/// The records of the generated dictionary still carry the (last) synonym array; a reader that
/// honours the flag never looks at it.
fn strip_synonym_flag(bin: &mut [u8], system: bool) {
    let v: u64 = if system { 0x7366d3f18bd111e7 } else { 0x9fdeb5a90168d868 };
    bin[..8].copy_from_slice(&v.to_le_bytes());
}

fn tweak_system_rows(rng: &mut Rng, rows: &mut Vec<Row>, directed: bool) {
    let n = rows.len();
    for i in 0..n {
        if rng.chance(1, 6) { rows[i].dic_form = i.to_string(); }
        if rng.chance(1, 8) {
            rows[i].syn = join((0..rng.range(1, 4)).map(|_| *rng.pick(&[0u32, 1, 255, 256, 65535, 4294967295, 123456])), "/");
        }
        if rng.chance(1, 6) && rows[i].wstruct == "*" {
            rows[i].wstruct = join((0..rng.range(1, 4)).map(|_| rng.below(n)), "/");
        }
        if rng.chance(1, 14) { let k = *rng.pick(&[126usize, 127, 128, 129, 200]); rows[i].reading = kata(rng, k); }
        if rng.chance(1, 14) {
            let k = *rng.pick(&[63usize, 64, 65, 127, 128]);
            rows[i].norm = (0..k).map(|_| *rng.pick(&['𠮷', 'あ', 'a', '東'])).collect();
        }
        if rng.chance(1, 20) { rows[i].headword = (0..rng.range(120, 135)).map(|_| *rng.pick(&['a', 'あ', '𠮷'])).collect(); }
    }
    // rows that are not indexed (never tokenised) may carry anything the format allows
    let wild = if directed { 3 } else { rng.range(1, 3) };
    for k in 0..wild {
        let mut r = Row::simple(&rand_word(rng, WORD_CHARS, 4), -1, -1, 0, rng.below(POS.len()));
        r.mode = 'C';
        let len = |rng: &mut Rng| -> usize { if rng.chance(1, 3) { *rng.pick(&[0usize, 1, 126, 127]) } else { rng.below(6) } };
        let ids = |rng: &mut Rng, k: usize| -> String { if k == 0 { "*".into() } else { join((0..k).map(|_| rng.below(n)), "/") } };
        let (ka, kb, kw) = if directed && k == 0 { (127, 127, 127) } else { (len(rng), len(rng), len(rng)) };
        r.split_a = ids(rng, ka);
        r.split_b = ids(rng, kb);
        r.wstruct = ids(rng, kw);
        let ks = if directed && k == 0 { 127 } else { len(rng) };
        r.syn = if ks == 0 { "*".into() } else { join((0..ks).map(|_| rng.next() as u32), "/") };
        if rng.chance(1, 2) { let k = rng.range(1, 140); r.reading = kata(rng, k); }
        if rng.chance(1, 2) { r.norm = rand_word(rng, WORD_CHARS, 5); }
        if rng.chance(1, 2) { r.headword = rand_word(rng, WORD_CHARS, 5); }
        if rng.chance(1, 2) { r.dic_form = rng.below(n).to_string(); }
        rows.push(r);
    }
}

/// rows that JoinNumericPlugin works on: digits and kanji numerals with the numeral POS (a few with another POS or with a
/// normalised form that differs from the surface, so that POS id and normalised form — not the surface — decide), and the
/// separators `,` `.`
fn add_numeral_rows(rng: &mut Rng, rows: &mut Vec<Row>, n_ids: usize) {
    let id = |rng: &mut Rng| rng.below(n_ids) as i32;
    for w in ["0", "1", "2", "3", "4", "5", "一", "二", "三", "十", "百", "千", "万", "12"] {
        let pos = if rng.chance(1, 7) { NOUN } else { NUMERAL };
        let (l, r) = (id(rng), id(rng));
        let mut row = Row::simple(w, l, r, rng.below(3000) as i32, pos);
        if rng.chance(1, 6) { row.norm = (*rng.pick(&["7", "七", ",", "x"])).to_string(); }
        if rng.chance(1, 8) { row.headword = (*rng.pick(&["9", "九"])).to_string(); }
        rows.push(row);
    }
    for w in [",", "."] {
        let (l, r) = (id(rng), id(rng));
        let mut row = Row::simple(w, l, r, rng.below(3000) as i32, SYMBOL);
        if rng.chance(1, 6) { row.norm = "、".into(); }
        rows.push(row);
    }
    // a word that is NOT a separator but whose normalised form is one
    let (l, r) = (id(rng), id(rng));
    let mut row = Row::simple("、", l, r, rng.below(3000) as i32, SYMBOL);
    row.norm = ",".into();
    rows.push(row);
}

/// katakana dictionary words of 1-3 characters (what JoinKatakanaOovPlugin's minLength rule looks at), some with a headword
/// that is longer/shorter than the key so that `num_codepts` and the length of the stored surface differ
fn add_katakana_rows(rng: &mut Rng, rows: &mut Vec<Row>, n_ids: usize) {
    let id = |rng: &mut Rng| rng.below(n_ids) as i32;
    for w in ["ア", "イウ", "アイウ", "カ", "ウア"] {
        let (l, r) = (id(rng), id(rng));
        let mut row = Row::simple(w, l, r, rng.below(1000) as i32 - 600, NOUN);
        if rng.chance(1, 3) { row.headword = (*rng.pick(&["アイウカア", "ア", "ｱ"])).to_string(); }
        rows.push(row);
    }
}

/// exact boundary lengths of the two variable-width encodings of a record: strings of 126/127/128/200/300 UTF-16 units
/// (one- and two-byte length prefix; the writer switches at 127, the reader at 128) in each of headword / normalised form /
/// reading, with and without surrogate pairs at the boundary, and id arrays of 0/1/127 elements.  Non-indexed rows plus a
/// few indexed ones (short key, long fields) so that the analyser meets them too.
fn add_boundary_rows(rng: &mut Rng, rows: &mut Vec<Row>) -> Vec<usize> {
    let n = rows.len();
    let fill = |rng: &mut Rng, units: usize, astral: bool| -> String {
        let mut s = String::new();
        let mut u = 0;
        while u < units {
            if astral && units - u >= 2 { s.push('𠮷'); u += 2; } else { s.push(*rng.pick(&['あ', 'a', '東', 'é'])); u += 1; }
        }
        s
    };
    let idx: Vec<usize> = (0..n).filter(|&i| rows[i].left >= 0 && rows[i].surface.chars().count() <= 4).take(6).collect();
    // indexed: short key, long fields
    for (k, &i) in idx.iter().enumerate() {
        match k {
            0 => rows[i].reading = fill(rng, 128, false),
            1 => rows[i].norm = fill(rng, 127, false),
            2 => rows[i].headword = fill(rng, 126, false),
            3 => { rows[i].reading = fill(rng, 300, false); rows[i].norm = fill(rng, 200, true); }
            4 => rows[i].headword = fill(rng, 128, true),
            _ => { rows[i].norm = fill(rng, 128, false); rows[i].reading = fill(rng, 127, true); }
        }
    }
    for field in 0..3 {
        for (units, astral) in [(126usize, false), (127, false), (128, false), (200, false), (300, false), (127, true), (128, true)] {
            let mut r = Row::simple(&rand_word(rng, WORD_CHARS, 3), -1, -1, 0, rng.below(POS.len()));
            let v = fill(rng, units, astral);
            match field { 0 => r.headword = v, 1 => r.norm = v, _ => r.reading = v }
            if rng.chance(1, 2) { r.dic_form = rng.below(n).to_string(); }
            if rng.chance(1, 2) { r.syn = "5/4294967295".into(); }
            rows.push(r);
        }
    }
    // the head-word length (byte length of the key) is written with the same one-/two-byte prefix: keys of 126/127/128/255/300
    // bytes, not indexed; plus an indexed key of 129 bytes (43 hiragana) and a compound over it, so that mode A/B cut a unit
    // at a two-byte head-word length
    for bytes in [126usize, 127, 128, 255, 300] {
        let key: String = std::iter::repeat('a').take(bytes).collect();
        let mut r = Row::simple(&key, -1, -1, 0, rng.below(POS.len()));
        r.headword = "x".into(); r.norm = "x".into(); r.reading = "x".into();
        rows.push(r);
    }
    let long_key: String = std::iter::repeat('あ').take(43).collect();
    let li = rows.len();
    rows.push(Row::simple(&long_key, 0, 0, -20000, NOUN));
    let ki = rows.len();
    rows.push(Row::simple("京", 0, 0, 3000, NOUN));
    let mut comp = Row::simple(&format!("{}京", long_key), 0, 0, -32000, NOUN);
    comp.mode = 'C';
    comp.split_a = format!("{}/{}", li, ki);
    comp.split_b = format!("{}/{}", li, ki);
    rows.push(comp);
    for (ka, kb, kw, ks) in [(0usize, 1usize, 127usize, 0usize), (1, 127, 0, 1), (127, 0, 1, 127), (1, 1, 1, 1)] {
        let mut r = Row::simple(&rand_word(rng, WORD_CHARS, 3), -1, -1, 0, rng.below(POS.len()));
        r.mode = 'C';
        let ids = |rng: &mut Rng, k: usize| -> String { if k == 0 { "*".into() } else { join((0..k).map(|_| rng.below(n)), "/") } };
        r.split_a = ids(rng, ka);
        r.split_b = ids(rng, kb);
        r.wstruct = ids(rng, kw);
        r.syn = if ks == 0 { "*".into() } else { join((0..ks).map(|_| rng.next() as u32), "/") };
        rows.push(r);
    }
    idx
}

fn gen_user_rows(rng: &mut Rng, sys: &[Row], npos: usize, n_ids: usize) -> Vec<Row> {
    let k = rng.range(2, 7);
    let pool: Vec<char> = (0..4).map(|_| *rng.pick(WORD_CHARS)).collect();
    let mut rows: Vec<Row> = vec![];
    for i in 0..k {
        let mut r;
        if i >= 1 && rng.chance(1, 2) {
            // a compound over system words and earlier words of this dictionary
            let np = rng.range(2, 3);
            let mut surface = String::new();
            let mut ids = vec![];
            for _ in 0..np {
                if rng.chance(1, 2) {
                    let j = rng.below(i);
                    surface.push_str(&rows[j].surface);
                    ids.push(format!("U{}", j));
                } else {
                    let cand: Vec<usize> = (0..sys.len()).filter(|&j| sys[j].surface.len() < 40).collect();
                    let j = *rng.pick(&cand);
                    surface.push_str(&sys[j].surface);
                    ids.push(j.to_string());
                }
            }
            r = Row::simple(&surface, rng.below(n_ids) as i32, rng.below(n_ids) as i32, rng.below(6000) as i32 - 200, rng.below(npos));
            r.mode = 'C';
            let l = ids.join("/");
            match rng.below(3) {
                0 => { r.mode = 'B'; r.split_a = l.clone(); }
                1 => { r.split_a = l.clone(); r.split_b = l.clone(); }
                _ => { r.split_b = l.clone(); }
            }
            if rng.chance(1, 2) { r.wstruct = l; }
        } else {
            let w = if rng.chance(1, 3) { rng.pick(sys).surface.clone() } else { rand_word(rng, &pool, 3) };
            r = Row::simple(&w, rng.below(n_ids) as i32, rng.below(n_ids) as i32, rng.below(6000) as i32 - 200, rng.below(npos));
        }
        if r.surface.len() > 200 { r = Row::simple("あ", 0, 0, 0, 0); }
        if rng.chance(1, 3) { r.norm = rand_word(rng, &pool, 2); }
        if rng.chance(1, 3) { let k = rng.range(1, 4); r.reading = kata(rng, k); }
        if rng.chance(1, 5) { r.headword = rand_word(rng, &pool, 3); }
        if rng.chance(1, 4) { r.syn = join((0..rng.range(1, 3)).map(|_| rng.below(100000)), "/"); }
        rows.push(r);
    }
    rows
}

/// directed rows for the dictionary-id fix-up of `LexiconSet::get_word_info_subset`: two plain words and two
/// compounds whose A split, B split and word structure refer to them with `U<n>` (the builder stores
/// dictionary number 1; the reader has to re-stamp them with the number of THIS dictionary).  The compounds
/// are so cheap that they are on the best path of their own surface.
fn add_rebase_rows(rng: &mut Rng, rows: &mut Vec<Row>, sys: &[Row], npos: usize, n_ids: usize) -> Vec<String> {
    let i0 = rows.len();
    let pool: Vec<char> = (0..3).map(|_| *rng.pick(&['あ', 'い', 'ア', 'イ', '東', '京', 'a', 'b', '𠮷'])).collect();
    let id = |rng: &mut Rng| rng.below(n_ids) as i32;
    let wa = rand_word(rng, &pool, 2);
    let wb = rand_word(rng, &pool, 2);
    let (la, ra, lb, rb) = (id(rng), id(rng), id(rng), id(rng));
    rows.push(Row::simple(&wa, la, ra, 3000, rng.below(npos)));
    rows.push(Row::simple(&wb, lb, rb, 3000, rng.below(npos)));
    let refs = format!("U{}/U{}", i0, i0 + 1);
    let mut c1 = Row::simple(&format!("{}{}", wa, wb), id(rng), id(rng), -30000, rng.below(npos));
    c1.mode = 'C';
    c1.split_a = refs.clone();
    c1.split_b = refs.clone();
    c1.wstruct = refs.clone();
    let cand: Vec<usize> = (0..sys.len()).filter(|&j| sys[j].surface.len() < 20).collect();
    let j = *rng.pick(&cand);
    let mut c2 = Row::simple(&format!("{}{}{}", wb, sys[j].surface, wa), id(rng), id(rng), -30000, rng.below(npos));
    c2.mode = 'C';
    c2.split_a = format!("U{}/{}/U{}", i0 + 1, j, i0);
    c2.split_b = format!("U{}/{}/U{}", i0 + 1, j, i0);
    c2.wstruct = format!("U{}/{}", i0, j);
    let texts = vec![c1.surface.clone(), c2.surface.clone()];
    rows.push(c1);
    rows.push(c2);
    texts
}

/// directed ill-formed split declarations (what `NodeSplitIterator::next` clamps and snaps since the repair
/// of D6): `東` = `東京都 / 京` (first unit longer than the parent), `東京` = `a / 京` in A (first unit ends inside
/// a character) and `東京都 / a / 京` in B (clamped, then an empty unit)
fn add_d6_rows(rng: &mut Rng, rows: &mut Vec<Row>, n_ids: usize) {
    let id = |rng: &mut Rng| rng.below(n_ids) as i32;
    let base = rows.len();
    for w in ["東京都", "京", "a"] {
        let (l, r) = (id(rng), id(rng));
        rows.push(Row::simple(w, l, r, 7000, 0));
    }
    let (long, kyo, a) = (base, base + 1, base + 2);
    let mut r1 = Row::simple("東", id(rng), id(rng), -30000, 0);
    r1.mode = 'C';
    r1.split_a = format!("{}/{}", long, kyo);
    r1.split_b = format!("{}/{}", long, kyo);
    rows.push(r1);
    let mut r2 = Row::simple("東京", id(rng), id(rng), -30000, 0);
    r2.mode = 'C';
    r2.split_a = format!("{}/{}", a, kyo);
    r2.split_b = format!("{}/{}/{}", long, a, kyo);
    rows.push(r2);
}

pub const REBASE_SLOT0: usize = 4;
pub const REBASE_SLOTS: usize = 15;
pub const D6_SLOT0: usize = REBASE_SLOT0 + REBASE_SLOTS;
pub const D6_SLOTS: usize = 4;
pub const NUM_SLOT0: usize = D6_SLOT0 + D6_SLOTS;
pub const NUM_SLOTS: usize = 8;
const D6_TEXTS: [&str; D6_SLOTS] = ["東京東", "東京東", "東", "東京"];

pub fn gen_w11(rng: &mut Rng, tag: &str, widx: usize) -> Result<W11, String> {
    let wd = Workdir::new(tag);
    let mut desc = vec![];
    let n_ids = rng.range(2, 5);
    // every third world has a non-square connection matrix (all ids stay below both dimensions)
    let extra_l = if widx % 3 == 1 { rng.range(1, 3) } else { 0 };
    let matrix = Matrix::random(rng, n_ids + extra_l, n_ids, false);
    if extra_l > 0 { desc.push("matrix:non-square".into()); }
    let size = rng.range(8, 20);
    let mut lex = gen_lexicon(rng, n_ids, size, false, true);
    // overlong surfaces make compound rows exceed the trie key limit: keep keys short
    tweak_system_rows(rng, &mut lex.rows, widx == 0);
    // every fourth world (the first included) is directed: ill-formed split declarations in the system dictionary,
    // two user dictionaries, U-references inside the second one
    let directed_world = widx % 4 == 0;
    // every fourth world (the second, ...) carries the exact boundary lengths of strings and arrays
    let boundary_world = widx % 4 == 1;
    // one world in twelve has the maximum number of user dictionaries (14: dictionary ids 1..=14, 15 is OOV)
    let many_users = widx % 12 == 6;
    let with_pr = widx % 3 == 2;
    if directed_world { add_d6_rows(rng, &mut lex.rows, n_ids); }
    if with_pr { add_numeral_rows(rng, &mut lex.rows, n_ids); add_katakana_rows(rng, &mut lex.rows, n_ids); }
    let focus_words = if boundary_world { add_boundary_rows(rng, &mut lex.rows) } else { vec![] };
    let csv = csv_of(&lex.rows, &lex.pos);
    let mut system = build_system(csv.as_bytes(), matrix.text().as_bytes())?;
    let sys_nosyn = widx % 4 == 3;
    if sys_nosyn { strip_synonym_flag(&mut system, true); }
    desc.push(format!("system-synonyms:{}", !sys_nosyn));

    // plugins: input text plugins half of the time, OOV providers, path rewrite in every third world
    let mut input: Vec<String> = vec![];
    if rng.chance(1, 2) {
        input.push(r#"{"class":"com.worksap.nlp.sudachi.DefaultInputTextPlugin","rewriteDef":"rewrite.def"}"#.to_string());
    }
    let mut oov: Vec<String> = vec![];
    if rng.chance(1, 2) {
        wd.write("unk_gen.def", &unk_def(rng, n_ids));
        oov.push(r#"{"class":"com.worksap.nlp.sudachi.MeCabOovPlugin","charDef":"char.def","unkDef":"unk_gen.def"}"#.to_string());
    }
    oov.push(simple_oov_json(rng.below(n_ids) as i64, rng.below(n_ids) as i64, rng.below(12000) as i64));
    let mut pr: Vec<String> = vec![];
    let mut plugins: Vec<(char, usize)> = vec![];
    if with_pr {
        // stacks NK, N, K, KN in turn (the first path-rewrite world is NK with enableNormalize)
        let shape = [2usize, 0, 1, 3][(widx / 3) % 4];
        let en = if widx == 2 { true } else { rng.chance(1, 2) };
        // minLength 0 switches the "short dictionary word" rule off: rarely
        let ml = if rng.chance(1, 8) { 0 } else { 1 + (widx / 3) % 3 };
        // one JoinNumericPlugin in three has NO settings at all (enableNormalize then defaults to true)
        let bare = widx != 2 && rng.chance(1, 3);
        let en = en || bare;
        let nj = if bare { r#"{"class":"com.worksap.nlp.sudachi.JoinNumericPlugin"}"#.to_string() }
            else { format!(r#"{{"class":"com.worksap.nlp.sudachi.JoinNumericPlugin","enableNormalize":{}}}"#, en) };
        if bare { desc.push("numeric-plugin:no-settings".into()); }
        let kj = format!(r#"{{"class":"com.worksap.nlp.sudachi.JoinKatakanaOovPlugin","oovPOS":{},"minLength":{}}}"#, OOV_POS_JSON, ml);
        match shape {
            0 => { pr.push(nj); plugins.push(('N', en as usize)); }
            1 => { pr.push(kj); plugins.push(('K', ml)); }
            2 => { pr.push(nj); plugins.push(('N', en as usize)); pr.push(kj); plugins.push(('K', ml)); }
            _ => { pr.push(kj); plugins.push(('K', ml)); pr.push(nj); plugins.push(('N', en as usize)); }
        }
    }
    let has_path_rewrite = !pr.is_empty();
    let has_numeric = plugins.iter().any(|p| p.0 == 'N');
    desc.push(format!("path-rewrite:{}", plugins.iter().map(|p| p.0.to_string()).collect::<String>()));
    desc.push(format!("input-plugins:{}", input.len()));
    let cfg = config_json(&wd, &input, &oov, &pr, &[]);
    let cfg0 = config_json(&wd, &input, &oov, &[], &[]);

    let nusers = if directed_world { 2 } else if many_users { 14 } else if boundary_world { 0 } else { rng.below(3) };
    let mut rebase_texts: Vec<String> = vec![];
    let mut rows_all = vec![lex.rows.clone()];
    let mut user_bins = vec![];
    if nusers > 0 {
        let base = load(&cfg, system.clone(), vec![])?;
        for u in 0..nusers {
            let mut pos = default_pos();
            let extra = rng.below(3);
            for e in 0..extra {
                pos.push(["名詞".into(), "固有名詞".into(), format!("ユーザ{}{}", u, e), "*".into(), "*".into(), "*".into()]);
            }
            let mut rows = gen_user_rows(rng, &lex.rows, pos.len(), n_ids);
            if many_users && u + 1 < nusers { rows.truncate(2); }
            if (directed_world && u == 1) || (many_users && u + 1 == nusers) { rebase_texts = add_rebase_rows(rng, &mut rows, &lex.rows, pos.len(), n_ids); }
            let ucsv = csv_of(&rows, &pos);
            let mut ub = build_user(&base, ucsv.as_bytes())?;
            if rng.chance(1, 4) { strip_synonym_flag(&mut ub, false); desc.push("user-synonyms:false".into()); }
            user_bins.push(ub);
            rows_all.push(rows);
        }
    }
    desc.push(format!("users:{}", nusers));
    if directed_world { desc.push("directed:d6-units+U-references-in-second-user-dictionary".into()); }
    if boundary_world { desc.push("directed:boundary-lengths(strings-126/127/128/200/300,arrays-0/1/127)".into()); }
    if many_users { desc.push("directed:14-user-dictionaries+U-references-in-the-last".into()); }

    let mut bins = vec![cut_records(&system, true)?];
    for ub in &user_bins { bins.push(cut_records(ub, false)?); }
    let nsys = bins[0].npos;
    let mut pos_offsets = vec![0usize];
    let mut total = nsys;
    for b in bins.iter().skip(1) {
        pos_offsets.push(total);
        // Grammar::merge appends the user POS list
        total += b.npos;
    }
    let dic0 = if has_path_rewrite { Some(load(&cfg0, system.clone(), user_bins.clone())?) } else { None };
    let dic = load(&cfg, system, user_bins)?;
    if dic.grammar().pos_list.len() != total {
        return Err(format!("pos bookkeeping: grammar has {} POS, harness computed {}", dic.grammar().pos_list.len(), total));
    }
    let lex_payload = format!(
        "lex={} syn={} posoff={} nsys={}",
        bins.iter().map(|b| b.recs.iter().map(|r| hex(r)).collect::<Vec<_>>().join(",")).collect::<Vec<_>>().join(";"),
        join(bins.iter().map(|b| b.has_syn as u8), ","),
        join(pos_offsets.iter(), ","),
        nsys
    );
    Ok(W11 { wd, dic, bins, pos_offsets, nsys, rows: rows_all, has_path_rewrite, desc, lex_payload, rebase_texts, d6_rows: directed_world, dic0, plugins, has_numeric, focus_words, boundary_world })
}

fn world_for(seed: u64, widx: usize) -> Result<W11, String> {
    let mut rng = Rng::for_case(seed ^ 0x1111_c011, widx);
    gen_w11(&mut rng, &format!("C11-w{}", widx), widx)
}

/// does the tree's `normalize` pull SURFACE in for DIC_FORM_WORD_ID (the repair of D10)?
fn nz_variant() -> &'static str {
    if InfoSubset::DIC_FORM_WORD_ID.normalize().contains(InfoSubset::SURFACE) { "fix" } else { "cur" }
}

/// does `set_subset` add the fields the configured path-rewrite plugins read (candidate repair) or not (the tree)?
/// Probed on the tokenizer itself: with a JoinNumericPlugin configured, `set_subset(empty)` in mode C
fn pw_variant(w: &W11) -> &'static str {
    if !w.has_numeric { return "cur"; }
    let mut tok = StatefulTokenizer::new(&w.dic, Mode::C);
    tok.set_subset(InfoSubset::empty());
    if tok.verif_state().3.contains(InfoSubset::POS_ID | InfoSubset::NORMALIZED_FORM) { "fix" } else { "cur" }
}

// ---------------------------------------------------------------------------------------------
// `wi`: one word, all subsets

fn load_all_subsets(dic: &JapaneseDictionary, wid: WordId) -> Vec<Result<Result<Obs, String>, String>> {
    (0..1024u32)
        .map(|s| {
            catch(|| match dic.lexicon().get_word_info_subset(wid, InfoSubset::from_bits_retain(s)) {
                Ok(wi) => Ok(obs(&wi)),
                Err(e) => Err(format!("{:?}", e)),
            })
        })
        .collect()
}

fn show_res(r: &Result<Result<Obs, String>, String>) -> String {
    match r {
        Ok(Ok(o)) => format!("ok/{}", show_obs(o)),
        Ok(Err(_)) => "err".into(),
        Err(_) => "PANIC".into(),
    }
}

fn wi_case(run: &mut Run, idx: usize, w: &W11, d: usize, k: usize) {
    let wid = WordId::new(d as u8, k as u32);
    let res = load_all_subsets(&w.dic, wid);
    let payload = format!("nz={} {} wid={} subs=0-1023", nz_variant(), w.lex_payload, wid.as_raw());
    let answer = (0..1024).map(|s| format!("{}:{}", s, show_res(&res[s]))).collect::<Vec<_>>().join(" ");
    let full = match &res[ALL as usize] {
        Ok(Ok(o)) => o.clone(),
        other => {
            run.case(idx, "wi", &payload, &answer, false);
            run.bump(&format!("wi:full-load-fails:{}", show_res(other)));
            return;
        }
    };
    let rich = [!full.norm.is_empty(), !full.reading.is_empty(), !full.a.is_empty(), !full.b.is_empty(), !full.ws.is_empty(), !full.syn.is_empty(), full.dfwi >= 0]
        .iter()
        .filter(|&&x| x)
        .count();
    run.case(idx, "wi", &payload, &answer, rich >= 2);
    run.bump_by("wi:subset-loads", 1024);
    run.bump(if d == 0 { "wi:system-word" } else { "wi:user-word" });
    if !w.bins[d].has_syn { run.bump("wi:dictionary-without-synonym-ids"); }
    if !full.syn.is_empty() { run.bump("wi:word-with-synonym-ids"); }
    if full.dfwi < 0 { run.bump("wi:dic-form:none"); } else if full.dfwi as usize == k { run.bump("wi:dic-form:self"); } else { run.bump("wi:dic-form:other"); }
    if full.norm.is_empty() { run.bump("wi:norm=headword"); } else { run.bump("wi:norm-differs"); }
    if full.reading.is_empty() { run.bump("wi:reading=headword"); } else { run.bump("wi:reading-differs"); }
    if !full.a.is_empty() || !full.b.is_empty() { run.bump("wi:has-splits"); }
    if full.surface.encode_utf16().count() >= 128 || full.reading.encode_utf16().count() >= 128 || full.norm.encode_utf16().count() >= 128 { run.bump("wi:two-byte-length-prefix"); }
    if full.a.len() >= 100 { run.bump("wi:array>=100"); }
    run.bump(&format!("wi:head-word-length:{}", match full.hl { 0..=125 => "0-125", 126 => "126", 127 => "127", 128 => "128", 129..=254 => "129-254", 255 => "255", _ => "256+" }));
    let ubucket = |u: usize| -> &'static str { match u { 0 => "0", 1..=125 => "1-125", 126 => "126", 127 => "127", 128 => "128", 129..=199 => "129-199", 200..=299 => "200-299", _ => "300+" } };
    for (name, v) in [("surface", &full.surface), ("normalized_form", &full.norm), ("reading_form", &full.reading)] {
        run.bump(&format!("wi:utf16-units:{}:{}", name, ubucket(v.encode_utf16().count())));
        if v.chars().any(|c| c as u32 >= 0x10000) && v.encode_utf16().count() >= 126 { run.bump(&format!("wi:long-string-with-surrogate-pairs:{}", name)); }
    }
    let abucket = |n: usize| -> &'static str { match n { 0 => "0", 1 => "1", 2..=126 => "2-126", _ => "127" } };
    for (name, n) in [("split_a", full.a.len()), ("split_b", full.b.len()), ("word_structure", full.ws.len()), ("synonym_group_ids", full.syn.len())] {
        run.bump(&format!("wi:array-len:{}:{}", name, abucket(n)));
    }
    run.bump(&format!("wi:dictionary-id:{}", d));
    if d > 0 && full.pos as usize >= w.pos_offsets[d] { run.bump("wi:user-defined-pos"); }
    if d >= 2 && full.a.iter().chain(full.b.iter()).chain(full.ws.iter()).any(|&x| (x >> 28) as usize == d) {
        run.bump("wi:second-user-dictionary-word-with-U-references");
    }

    let mut seen: Vec<String> = vec![];
    let mut fail = |run: &mut Run, key: String, what: String| {
        if !seen.contains(&key) {
            seen.push(key.clone());
            run.fail(idx, &key, &what);
        }
    };
    let word = format!("word ({}, {}) headword {:?}", d, k, full.surface);
    for s in 0..1024u32 {
        // (1) every requested stored field equals the full load
        match &res[s as usize] {
            Ok(Ok(o)) => {
                for f in 0..10 {
                    if s & (1 << f) != 0 && raw_field(o, f) != raw_field(&full, f) {
                        fail(run, format!("field:{}:raw", FIELD_NAMES[f]),
                             format!("{}: subset {:#b}: stored {} = {:?}, full load {:?}", word, s, FIELD_NAMES[f], raw_field(o, f), raw_field(&full, f)));
                    }
                }
                // (2) the raw API on a request that follows its documented contract
                if spec_closed(s) {
                    for f in 0..10 {
                        if s & (1 << f) != 0 && acc_field(o, f) != acc_field(&full, f) {
                            fail(run, format!("acc-closed:{}:raw", FIELD_NAMES[f]),
                                 format!("{}: subset {:#b} (forms with surface): accessor {} = {:?}, full load {:?}", word, s, FIELD_NAMES[f], acc_field(o, f), acc_field(&full, f)));
                        }
                    }
                }
            }
            other => fail(run, "outcome:raw".into(), format!("{}: subset {:#b}: {} although the full load succeeds", word, s, show_res(other))),
        }
        // (3) what the analyser would load for the request `s`: normalize(s); accessors of the requested fields
        let s2 = InfoSubset::from_bits_retain(s).normalize().bits();
        if let Ok(Ok(o)) = &res[(s2 & ALL) as usize] {
            for f in 0..10 {
                if s & (1 << f) != 0 && acc_field(o, f) != acc_field(&full, f) {
                    if is_d10(f, s2, o, &full, k as i64) {
                        fail(run, "d10:dicform-self:raw".into(),
                             format!("{}: request {:#b} -> normalize {:#b}: dictionary_form() = {:?}, full load {:?} (word is its own dictionary form, id {})", word, s, s2, o.acc_d, full.acc_d, full.dfwi));
                    } else {
                        fail(run, format!("acc:{}:raw", FIELD_NAMES[f]),
                             format!("{}: request {:#b} -> normalize {:#b}: accessor {} = {:?}, full load {:?}", word, s, s2, FIELD_NAMES[f], acc_field(o, f), acc_field(&full, f)));
                    }
                }
            }
        }
    }
}

// ---------------------------------------------------------------------------------------------
// `tok`: set_mode / set_subset in some order, then tokenise

#[derive(Clone, Debug)]
enum Op {
    M(Mode),
    S(u32),
}

fn mode_ch(m: Mode) -> char {
    match m { Mode::A => 'A', Mode::B => 'B', Mode::C => 'C' }
}

#[derive(Clone, Debug)]
struct Morph {
    wid: u32,
    begin: usize,
    end: usize,
    bb: usize,
    be: usize,
    cb: usize,
    ce: usize,
    o: Obs,
    /// the accessors of `Morpheme` itself, by field
    api: [String; 10],
}

struct TokOut {
    mode: Mode,
    subset: u32,
    modified: String,
    morphs: Vec<Morph>,
    analysed_ok: bool,
    /// class mask of every character of the rewritten text
    cat: Vec<u32>,
}

fn tok_state(dic: &JapaneseDictionary, mode0: Mode, ops: &[Op]) -> (Mode, u32) {
    let mut tok = StatefulTokenizer::new(dic, mode0);
    for op in ops {
        match op {
            Op::M(m) => { tok.set_mode(*m); }
            Op::S(s) => { tok.set_subset(InfoSubset::from_bits_retain(*s)); }
        }
    }
    let st = tok.verif_state();
    (st.4, st.3.bits())
}

fn run_tok(dic: &JapaneseDictionary, text: &str, mode0: Mode, ops: &[Op]) -> Result<Result<TokOut, String>, String> {
    catch(|| {
        let mut tok = StatefulTokenizer::new(dic, mode0);
        for op in ops {
            match op {
                Op::M(m) => { tok.set_mode(*m); }
                Op::S(s) => { tok.set_subset(InfoSubset::from_bits_retain(*s)); }
            }
        }
        let st = tok.verif_state();
        tok.reset().push_str(text);
        if let Err(e) = tok.do_tokenize() { return Err(err_class(&e)); }
        let tables = tok.verif_input().verif_tables();
        let modified = tables.modified.clone();
        let cat = tables.mod_cat.clone();
        let mut ml = MorphemeList::empty(dic);
        if let Err(e) = ml.collect_results(&mut tok) { return Err(err_class(&e)); }
        let mut morphs = vec![];
        for m in ml.iter() {
            let wi = m.get_word_info();
            let o = obs(wi);
            let r = m.verif_node_range();
            let api = [
                wi.surface().to_string(),
                wi.head_word_length().to_string(),
                m.part_of_speech_id().to_string(),
                m.normalized_form().to_string(),
                format!("{}|{}", wi.dictionary_form_word_id(), m.dictionary_form()),
                m.reading_form().to_string(),
                join(wi.a_unit_split().iter().map(|w| w.as_raw()), "."),
                join(wi.b_unit_split().iter().map(|w| w.as_raw()), "."),
                join(wi.word_structure().iter().map(|w| w.as_raw()), "."),
                join(m.synonym_group_ids().iter(), "."),
            ];
            morphs.push(Morph { wid: m.word_id().as_raw(), begin: m.begin(), end: m.end(), bb: r.2, be: r.3, cb: r.0, ce: r.1, o, api });
        }
        Ok(TokOut { mode: st.4, subset: st.3.bits(), modified, morphs, analysed_ok: true, cat })
    })
}

fn gen_ops(rng: &mut Rng, directed: usize) -> (Mode, Vec<Op>, u32) {
    let m = |rng: &mut Rng| mode_of(rng.below(3));
    let sub = |rng: &mut Rng| -> u32 {
        match rng.below(8) {
            0 => 0,
            1 => 1 << rng.below(10),
            2 => (1 << rng.below(10)) | (1 << rng.below(10)),
            3 => ALL ^ (1 << rng.below(10)),
            4 => DIC_FORM_WORD_ID | (rng.below(1024) as u32 & !(SURFACE | NORMALIZED_FORM | READING_FORM)),
            _ => rng.below(1024) as u32,
        }
    };
    let mut mode0 = m(rng);
    let ops = match directed {
        0 => vec![Op::S(DIC_FORM_WORD_ID)],                       // D10
        1 => vec![Op::S(0), Op::M(Mode::A)],                       // split flag added without normalize
        2 => vec![Op::M(Mode::B), Op::S(0)],
        3 => vec![Op::S(SURFACE | POS_ID | NORMALIZED_FORM)],
        // exactly one of SPLIT_A / SPLIT_B / WORD_STRUCTURE, modes A and B, both orders of set_mode / set_subset (+ mode C)
        d if d >= REBASE_SLOT0 && d < REBASE_SLOT0 + REBASE_SLOTS => {
            let k = d - REBASE_SLOT0;
            let flag = [1u32 << 6, 1 << 7, 1 << 8][k / 5];
            match k % 5 {
                0 => vec![Op::S(flag), Op::M(Mode::A)],
                1 => vec![Op::M(Mode::A), Op::S(flag)],
                2 => vec![Op::S(flag), Op::M(Mode::B)],
                3 => vec![Op::M(Mode::B), Op::S(flag)],
                _ => { mode0 = Mode::C; vec![Op::S(flag)] }
            }
        }
        // ill-formed units: clamped to the parent / moved back to a character start
        d if d >= D6_SLOT0 && d < D6_SLOT0 + D6_SLOTS => match d - D6_SLOT0 {
            0 => vec![Op::M(Mode::A)],
            1 => vec![Op::M(Mode::B)],
            2 => vec![Op::S(0), Op::M(Mode::A)],
            _ => vec![Op::M(Mode::B), Op::S(2)],
        },
        // exactly the fields JoinNumericPlugin reads (and one less / nothing): the light fields behind them are NOT loaded
        d if d >= NUM_SLOT0 && d < NUM_SLOT0 + NUM_SLOTS => {
            let k = d - NUM_SLOT0;
            if k < 5 { mode0 = Mode::C; }
            match k {
                0 => vec![Op::S(POS_ID | NORMALIZED_FORM)],
                1 => vec![Op::S(SURFACE | POS_ID | NORMALIZED_FORM)],
                2 => vec![Op::S(SURFACE)],
                3 => vec![Op::S(0)],
                4 => vec![Op::S(SURFACE | POS_ID)],
                5 => vec![Op::S(POS_ID | NORMALIZED_FORM), Op::M(Mode::A)],
                6 => vec![Op::M(Mode::B), Op::S(POS_ID | NORMALIZED_FORM)],
                _ => vec![Op::M(Mode::C), Op::S(NORMALIZED_FORM)],
            }
        }
        _ => match rng.below(7) {
            0 => vec![Op::S(sub(rng))],
            1 => vec![Op::S(sub(rng)), Op::M(m(rng))],
            2 => vec![Op::M(m(rng)), Op::S(sub(rng))],
            3 => vec![Op::M(m(rng)), Op::S(sub(rng)), Op::M(m(rng))],
            4 => vec![Op::S(sub(rng)), Op::M(m(rng)), Op::S(sub(rng))],
            5 => vec![Op::M(m(rng))],
            _ => vec![Op::S(sub(rng)), Op::S(sub(rng)), Op::M(m(rng)), Op::M(m(rng))],
        },
    };
    let mut requested = ALL;
    for op in &ops { if let Op::S(s) = op { requested = *s; } }
    (mode0, ops, requested)
}

fn show_ops(ops: &[Op]) -> String {
    ops.iter().map(|o| match o { Op::M(m) => format!("m:{}", mode_ch(*m)), Op::S(s) => format!("s:{}", s) }).collect::<Vec<_>>().join(",")
}

/// the property's clauses on one analysis, against the full-field analysis in the same mode
fn tok_oracle(w: &W11, text: &str, requested: u32, out: &TokOut, full: &TokOut, ctx: &str, unfed_differs: &mut bool) -> Vec<(String, String)> {
    let mut fails = vec![];
    // the exact condition (C11.boundaries_subset_free_plugins): JoinKatakanaOovPlugin reads no word-info field, JoinNumericPlugin
    // reads pos_id() and normalized_form() — loaded when the subset the tokenizer ended up with holds POS_ID and NORMALIZED_FORM
    // (set_subset then adds SURFACE itself).  `requested` is what the caller asked for; asking for the three fields implies it.
    let _ = requested;
    let plugins_fed = !w.has_numeric || out.subset & (POS_ID | NORMALIZED_FORM) == (POS_ID | NORMALIZED_FORM);
    let same_shape = out.morphs.len() == full.morphs.len()
        && out.morphs.iter().zip(full.morphs.iter()).all(|(a, b)| a.begin == b.begin && a.end == b.end && a.wid == b.wid);
    if !same_shape {
        if plugins_fed {
            let sh = |t: &TokOut| t.morphs.iter().map(|m| format!("{}..{}:{:#x}", m.begin, m.end, m.wid)).collect::<Vec<_>>().join(" ");
            fails.push(("boundaries:tok".to_string(), format!("{}: morphemes [{}] differ from the full-field analysis [{}] text={:?}", ctx, sh(out), sh(full), text)));
        } else {
            // outside the property's condition (JoinNumericPlugin configured, POS id / normalised form not loaded): observed only
            *unfed_differs = true;
        }
        return fails;
    }
    for (i, (a, b)) in out.morphs.iter().zip(full.morphs.iter()).enumerate() {
        for f in 0..10 {
            if requested & (1 << f) == 0 { continue; }
            if a.api[f] != b.api[f] {
                let own = (a.wid & 0x0fff_ffff) as i64;
                let joined = f == 4 && w.has_path_rewrite && (a.wid >> 28) == 0xf && out.subset & SURFACE == 0
                    && a.o.dfwi == -1 && b.o.dfwi == -1;
                if joined {
                    // a node merged by a path-rewrite plugin: its dictionary form is (or falls back to) the concatenation
                    // of the parts' stored surfaces, which were not loaded for the dictionary words among them
                    fails.push(("d10:dicform-joined:tok".to_string(),
                        format!("{}: merged morpheme {} ({:#x}): dictionary_form() = {:?} with loaded subset {:#b}, full-field analysis {:?}; text={:?}", ctx, i, a.wid, a.o.acc_d, out.subset, b.o.acc_d, text)));
                } else if is_d10(f, out.subset, &a.o, &b.o, own) && (a.wid >> 28) != 0xf {
                    fails.push(("d10:dicform-self:tok".to_string(),
                        format!("{}: morpheme {} ({:#x}): dictionary_form() = {:?} with loaded subset {:#b}, full-field analysis {:?}; text={:?}", ctx, i, a.wid, a.o.acc_d, out.subset, b.o.acc_d, text)));
                } else {
                    fails.push((format!("acc:{}:tok", FIELD_NAMES[f]),
                        format!("{}: morpheme {} ({:#x}): accessor {} = {:?} with loaded subset {:#b}, full-field analysis {:?}; text={:?}", ctx, i, a.wid, FIELD_NAMES[f], a.api[f], out.subset, b.api[f], text)));
                }
            }
        }
    }
    fails
}

fn world_text(rng: &mut Rng, w: &W11, maxlen: usize) -> String {
    let mut s = String::new();
    let n = rng.range(1, maxlen);
    let short = |r: &&Row| r.surface.chars().count() <= 8 && r.left >= 0;
    while s.chars().count() < n {
        if w.has_numeric && rng.chance(1, 3) {
            s.push_str(*rng.pick(&["12,345", "3.14", "1,2", "0.5.", "一二三", "二千十", "1,234,567", "12", "1、2", "5,", "百万", "3.", "1.2.3", "2,0", "一,二", "12,"]));
            continue;
        }
        if w.plugins.iter().any(|p| p.0 == 'K') && rng.chance(1, 4) {
            s.push_str(*rng.pick(&["アイウ", "アアイ", "ウーア", "ァイ", "カア", "イウカ", "アxイウ", "ヴア", "イウウア", "アイウアイウ", "ウアイウ"]));
            continue;
        }
        match rng.below(10) {
            0..=5 => {
                let d = rng.below(w.rows.len());
                let cand: Vec<&Row> = w.rows[d].iter().filter(short).collect();
                if !cand.is_empty() { s.push_str(&rng.pick(&cand).surface); }
            }
            6 => s.push_str(*rng.pick(&["12,345", "3.14", "一二三", "二千十", "アイウ", "ァ", "ｶﾞ", "ーー", "👍🏻", "e\u{301}"])),
            _ => s.push(*rng.pick(TEXT_CHARS)),
        }
    }
    s
}

fn tok_case(run: &mut Run, idx: usize, w: &W11, slot: usize) {
    let mut rng = Rng::for_case(run.opts.seed, idx);
    let text = match slot {
        0 => w.rows[0].iter().filter(|r| r.left >= 0 && r.surface.chars().count() <= 8).map(|r| r.surface.clone()).collect::<Vec<_>>().concat(),
        d if d >= REBASE_SLOT0 && d < REBASE_SLOT0 + REBASE_SLOTS && !w.rebase_texts.is_empty() => {
            run.bump("tok:directed:U-references-of-second-user-dictionary");
            w.rebase_texts.concat()
        }
        d if d >= D6_SLOT0 && d < D6_SLOT0 + D6_SLOTS && w.d6_rows => {
            run.bump("tok:directed:ill-formed-units");
            D6_TEXTS[d - D6_SLOT0].to_string()
        }
        d if d >= D6_SLOT0 && d < D6_SLOT0 + D6_SLOTS && w.boundary_world => {
            run.bump("tok:directed:two-byte-head-word-length");
            format!("{}京", std::iter::repeat('あ').take(43).collect::<String>())
        }
        d if d >= NUM_SLOT0 && d < NUM_SLOT0 + NUM_SLOTS && w.has_path_rewrite => {
            run.bump("tok:directed:plugin-fields");
            (*rng.pick(&["12,345円一二三3.14", "1,2アイウアイウ3.", "二千十イウウア12", "5,ウアイウ1、2", "0.5.百万カア", "アイウアイウ", "イウウア"])).to_string()
        }
        _ => world_text(&mut rng, w, 12),
    };
    let (mode0, ops, requested) = gen_ops(&mut rng, slot);
    if idx % 3 == 0 && !text.is_empty() { let mut r2 = Rng::for_case(run.opts.seed ^ 0x5E05E, idx); reuse_split_case(run, idx, w, &text, &mut r2); }
    let (fmode, fsub) = tok_state(&w.dic, mode0, &ops);
    let ctx = format!("mode0={} ops={} -> mode {} subset {:#b}", mode_ch(mode0), show_ops(&ops), mode_ch(fmode), fsub);
    // the mode-C best path of a full-field analysis: what the model starts from
    let cpath = run_tok(&w.dic, &text, Mode::C, &[]);
    let out = run_tok(&w.dic, &text, mode0, &ops);
    let full = run_tok(&w.dic, &text, fmode, &[]);
    run.bump(&format!("tok:final-mode:{}", mode_ch(fmode)));
    run.bump(&format!("tok:ops:{}", ops.len()));
    if w.has_path_rewrite { run.bump("tok:path-rewrite-world"); }

    let pre = format!("mode={} sub={}", mode_ch(fmode), fsub);
    let answer_of = |out: &Result<Result<TokOut, String>, String>| match out {
        Ok(Ok(o)) => format!("ok {} morphs={}", pre, o.morphs.iter().map(|m| format!("{}:{}:{}:{}", m.wid, m.bb, m.be, show_obs(&m.o))).collect::<Vec<_>>().join(";")),
        Ok(Err(_)) => format!("err {}", pre),
        Err(_) => format!("PANIC {}", pre),
    };
    if !w.has_path_rewrite {
        // correspondence line `tok`: no path-rewrite plugin
        if let Ok(Ok(cp)) = &cpath {
            let payload = format!(
                "nz={} {} mode0={} ops={} text={} path={}",
                nz_variant(), w.lex_payload, mode_ch(mode0), show_ops(&ops), hex(cp.modified.as_bytes()),
                cp.morphs.iter().map(|m| format!("{}:{}:{}", m.wid, m.bb, m.be)).collect::<Vec<_>>().join(",")
            );
            let answer = answer_of(&out);
            let nontrivial = matches!(&out, Ok(Ok(o)) if o.morphs.len() >= 2 && o.morphs.iter().any(|m| m.wid >> 28 != 0xf));
            run.case(idx, "tok", &payload, &answer, nontrivial);
        }
    } else if let Some(d0) = &w.dic0 {
        // correspondence line `tokp`: the plugins run on the word infos loaded with the tokenizer's subset.  The model gets
        // the mode-C best path of the SAME configuration without the plugins (the lattice search cannot see them), the class
        // masks of the text, the plugin stack and the numeric parser's answers (real parser) for every run of candidates
        if let Ok(Ok(cp)) = &run_tok(d0, &text, Mode::C, &[]) {
            let norm_of = |m: &Morph| -> String {
                if m.wid >> 28 == 0xf { return cp.modified.get(m.bb..m.be).unwrap_or("").to_string(); }
                match catch(|| w.dic.lexicon().get_word_info_subset(WordId::from_raw(m.wid), InfoSubset::from_bits_retain(fsub))) {
                    Ok(Ok(wi)) => wi.normalized_form().to_string(),
                    _ => String::new(),
                }
            };
            let forms: Vec<String> = cp.morphs.iter().map(norm_of).collect();
            let cand = |i: usize| -> bool {
                let m = &cp.morphs[i];
                forms[i] == "," || forms[i] == "." || (m.cb..m.ce.min(cp.cat.len())).any(|c| cp.cat[c] & (16 | 256) != 0)
            };
            let mut qs: BTreeSet<String> = BTreeSet::new();
            qs.insert(String::new());
            for b in 0..forms.len() {
                let mut acc = String::new();
                for j in b..forms.len() {
                    if !cand(j) { break; }
                    acc.push_str(&forms[j]);
                    if acc.len() > 300 { break; }
                    qs.insert(acc.clone());
                }
            }
            let mut pq = vec![];
            for q in &qs {
                if let Ok((n, err, done, norm)) = catch(|| verif_parse(q)) {
                    pq.push(format!("{}:{}:{}:{}:{}", hex(q.as_bytes()), n, err, done as u8, hex(norm.as_bytes())));
                }
            }
            let g = w.dic.grammar();
            let num_pos = g.get_part_of_speech_id(&POS[NUMERAL][..]).unwrap_or(u16::MAX);
            let oov_pos = g.get_part_of_speech_id(&POS[NOUN][..]).unwrap_or(u16::MAX);
            let plug = w.plugins.iter().map(|p| if p.0 == 'N' { format!("N:{}:{}", p.1, num_pos) } else { format!("K:{}:{}", p.1, oov_pos) }).collect::<Vec<_>>().join(";");
            let payload = format!(
                "nz={} pw={} nv={} {} mode0={} ops={} text={} cat={} plugins={} pq={} path={}",
                nz_variant(), pw_variant(w), crate::c14::numeric_variant(), w.lex_payload, mode_ch(mode0), show_ops(&ops),
                hex(cp.modified.as_bytes()), join(cp.cat.iter(), ","), plug, pq.join(";"),
                cp.morphs.iter().map(|m| format!("{}:{}:{}:{}:{}", m.wid, m.bb, m.be, m.cb, m.ce)).collect::<Vec<_>>().join(",")
            );
            let answer = answer_of(&out);
            let rewritten = matches!(&out, Ok(Ok(o)) if o.morphs.iter().any(|m| m.wid == 0xffff_ffff || (m.wid >> 28 != 0xf && m.wid & 0x0fff_ffff == 0x0fff_ffff) ));
            let nontrivial = matches!(&out, Ok(Ok(o)) if o.morphs.len() >= 2 && o.morphs.iter().any(|m| m.wid >> 28 != 0xf));
            run.case(idx, "tokp", &payload, &answer, nontrivial);
            run.bump(if rewritten { "tokp:path-rewritten" } else { "tokp:path-unchanged" });
            run.bump_by("tokp:parser-queries", pq.len() as u64);
            run.bump(&format!("tokp:set_subset-variant:{}", pw_variant(w)));
        }
    }
    let line = format!("C11 tok idx={} (oracle) text={:?} {}", idx, text, ctx);
    match (&out, &full) {
        (Ok(Ok(o)), Ok(Ok(fu))) => {
            run.bump("tok:outcome:ok");
            run.bump(&format!("tok:morphemes:{}", o.morphs.len().min(12)));
            if o.morphs.len() != cpath.as_ref().ok().and_then(|c| c.as_ref().ok()).map_or(0, |c| c.morphs.len()) { run.bump("tok:split-changed-path"); }
            debug_assert!(o.analysed_ok);
            let mut unfed = false;
            for (k, what) in tok_oracle(w, &text, requested, o, fu, &ctx, &mut unfed) {
                run.fail_with_line(idx, &line, &k, &what);
            }
            if w.has_numeric {
                let fed = o.subset & (POS_ID | NORMALIZED_FORM) == (POS_ID | NORMALIZED_FORM);
                run.bump(if fed { "tok:numeric-plugin:fields-loaded" } else if unfed { "tok:numeric-plugin:fields-NOT-loaded:boundaries-DIFFER-from-full-analysis" } else { "tok:numeric-plugin:fields-NOT-loaded:boundaries-equal" });
                if unfed && std::env::var("C11_SHOW_UNFED").is_ok() {
                    eprintln!("C11 unfed: {} text={:?}: [{}] vs full [{}]", ctx, text,
                        o.morphs.iter().map(|m| format!("{}..{}", m.begin, m.end)).collect::<Vec<_>>().join(" "),
                        fu.morphs.iter().map(|m| format!("{}..{}", m.begin, m.end)).collect::<Vec<_>>().join(" "));
                }
            }
            // surfaces partition the input whatever the subset
            let bad = {
                let mut pos = 0;
                let mut bad = None;
                for (i, m) in o.morphs.iter().enumerate() {
                    if m.begin != pos || m.end < m.begin || m.end > text.len() || !text.is_char_boundary(m.end) { bad = Some(i); break; }
                    pos = m.end;
                }
                if bad.is_none() && pos != text.len() && !(o.morphs.is_empty() && o.modified.is_empty()) { bad = Some(o.morphs.len()); }
                bad
            };
            if let Some(i) = bad {
                run.fail_with_line(idx, &line, "partition:tok", &format!("{}: morpheme {} breaks the partition of the input; text={:?}", ctx, i, text));
            }
        }
        (a, b) => {
            let cls = |r: &Result<Result<TokOut, String>, String>| match r { Ok(Ok(_)) => "ok".to_string(), Ok(Err(e)) => format!("err:{}", e), Err(_) => "panic".to_string() };
            run.bump(&format!("tok:outcome:{}/{}", cls(a), cls(b)));
            if cls(a) != cls(b) {
                run.fail_with_line(idx, &line, "outcome:tok", &format!("{}: subset analysis ends with {}, full-field analysis with {}; text={:?}", ctx, cls(a), cls(b), text));
            }
        }
    }
}

/// ORACLE ONLY: C11 on morpheme lists that are REUSED as the `out` list of `split_into` / `copy_slice`.  The morphemes a list
/// receives were analysed with the subset of the SOURCE list, so splitting them again has to read the units with THAT
/// subset, whatever the receiving list held before (an analysis with fewer fields, a look-up, nothing).  Two-level split
/// C -> B -> A of every morpheme of a mode-C analysis with the requested subset `req`, once through NEW lists and once through
/// lists that held an analysis with a SMALLER subset before; every requested field of every unit and every unit range must
/// be the same in both runs and the same as in a full-field run (the property: a requested field has the value it has when
/// all fields are loaded; boundaries are those of a full-field analysis).
fn reuse_split_case(run: &mut Run, idx: usize, w: &W11, text: &str, rng: &mut Rng) {
    let dic = &w.dic;
    // requested fields: always the split lists (the walk needs them); otherwise random
    let req: u32 = (rng.below(1024) as u32) | 64 | 128;
    let small: u32 = match rng.below(4) { 0 => 0, 1 => SURFACE, 2 => SURFACE | POS_ID, _ => (rng.below(1024) as u32) & !(64 | 128 | 256) };
    let via_copy = rng.chance(1, 2);
    // the property promises full-field boundaries only when no path-rewrite plugin is configured or the subset contains the
    // fields those plugins read; otherwise the mode-C path itself may differ and nothing is judged here
    let fed = SURFACE | POS_ID | NORMALIZED_FORM;
    if w.has_path_rewrite && req & fed != fed { run.bump("reuse-split:not-judged(path-rewrite plugins not fed)"); return; }
    let observe = |sub: u32, pre: Option<u32>| -> Result<Result<Vec<(usize, usize, Vec<String>)>, String>, String> {
        catch(|| {
            let mut out = MorphemeList::empty(dic);
            let mut out2 = MorphemeList::empty(dic);
            if let Some(ps) = pre {
                let mut t0 = StatefulTokenizer::new(dic, Mode::C);
                t0.set_subset(InfoSubset::from_bits_retain(ps));
                for l in [&mut out, &mut out2] {
                    t0.reset().push_str(text);
                    t0.do_tokenize().map_err(|e| err_class(&e))?;
                    l.collect_results(&mut t0).map_err(|e| err_class(&e))?;
                }
            }
            let mut tok = StatefulTokenizer::new(dic, Mode::C);
            tok.set_subset(InfoSubset::from_bits_retain(sub));
            tok.reset().push_str(text);
            tok.do_tokenize().map_err(|e| err_class(&e))?;
            let mut src = MorphemeList::empty(dic);
            src.collect_results(&mut tok).map_err(|e| err_class(&e))?;
            let mut res = vec![];
            for i in 0..src.len() {
                out.clear();
                if via_copy || !src.split_into(Mode::B, i, &mut out).map_err(|e| err_class(&e))? {
                    out.clear();
                    src.copy_slice(i, i + 1, &mut out);
                }
                for j in 0..out.len() {
                    out2.clear();
                    if !out.split_into(Mode::A, j, &mut out2).map_err(|e| err_class(&e))? {
                        out.copy_slice(j, j + 1, &mut out2);
                    }
                    for m in out2.iter() {
                        let wi = m.get_word_info();
                        let api = vec![
                            m.surface().to_string(),
                            wi.head_word_length().to_string(),
                            m.part_of_speech_id().to_string(),
                            m.normalized_form().to_string(),
                            format!("{}|{}", wi.dictionary_form_word_id(), m.dictionary_form()),
                            m.reading_form().to_string(),
                            join(wi.a_unit_split().iter().map(|w| w.as_raw()), "."),
                            join(wi.b_unit_split().iter().map(|w| w.as_raw()), "."),
                            join(wi.word_structure().iter().map(|w| w.as_raw()), "."),
                            join(m.synonym_group_ids().iter(), "."),
                        ];
                        res.push((m.begin(), m.end(), api));
                    }
                }
            }
            Ok(res)
        })
    };
    let full = observe(ALL, None);
    let fresh = observe(req, None);
    let reused = observe(req, Some(small));
    run.bump(&format!("reuse-split:{}", if via_copy { "copy_slice-then-split" } else { "split-B-then-split-A" }));
    let ctx = format!("two-level split ({}) of a mode-C analysis with set_subset({:#b}); text={:?}", if via_copy { "copy_slice, then split_into(A)" } else { "split_into(B), then split_into(A)" }, req, text);
    let line = format!("C11 reuse-split idx={} req={} small={} copy={} text={}", idx, req, small, via_copy as u8, hex(text.as_bytes()));
    let effective = InfoSubset::from_bits_retain(req).normalize().bits();
    let cmp = |name: &str, key: &str, got: &Result<Result<Vec<(usize, usize, Vec<String>)>, String>, String>, run: &mut Run| {
        match (got, &full) {
            (Ok(Ok(g)), Ok(Ok(f))) => {
                if g.len() != f.len() || g.iter().zip(f.iter()).any(|(a, b)| (a.0, a.1) != (b.0, b.1)) {
                    run.fail_with_line(idx, &line, &format!("{}:boundaries", key), &format!("{} through {}: unit ranges {:?} differ from the full-field run {:?}", ctx, name,
                        g.iter().map(|x| (x.0, x.1)).collect::<Vec<_>>(), f.iter().map(|x| (x.0, x.1)).collect::<Vec<_>>()));
                    return;
                }
                for (k, (a, b)) in g.iter().zip(f.iter()).enumerate() {
                    for fld in 0..10usize {
                        if effective & (1 << fld) != 0 && req & (1 << fld) != 0 && a.2[fld] != b.2[fld] {
                            run.fail_with_line(idx, &line, &format!("{}:field:{}", key, FIELD_NAMES[fld]), &format!("{} through {}: unit {} ({}..{}) reports {} = {:?}, the full-field run {:?}", ctx, name, k, a.0, a.1, FIELD_NAMES[fld], a.2[fld], b.2[fld]));
                            return;
                        }
                    }
                }
                run.bump(&format!("reuse-split:{}:units={}", name, if g.len() > 3 { "4+".to_string() } else { g.len().to_string() }));
            }
            (a, b) => {
                let cls = |r: &Result<Result<Vec<(usize, usize, Vec<String>)>, String>, String>| match r { Ok(Ok(_)) => "ok".to_string(), Ok(Err(e)) => format!("err:{}", e), Err(_) => "panic".to_string() };
                if cls(a) != cls(b) {
                    run.fail_with_line(idx, &line, &format!("{}:outcome", key), &format!("{} through {}: ends with {}, the full-field run with {}", ctx, name, cls(a), cls(b)));
                }
            }
        }
    };
    cmp("new lists", "reuse-split:new", &fresh, run);
    cmp(&format!("lists that held an analysis with subset {:#b}", small), "reuse-split:reused", &reused, run);
}

/// oracle-only sweep: every subset x every mode through set_subset + tokenise on one text
fn tok_sweep(run: &mut Run, idx: usize, w: &W11) {
    let mut rng = Rng::for_case(run.opts.seed ^ 0x5eed, idx);
    let text = world_text(&mut rng, w, 10);
    // C01's oracle on the full analysis, once
    if let Ok(Ok(a)) = analyse(&w.dic, &text, Mode::C) {
        if let Some((k, what)) = partition_oracle(&text, &a) {
            run.fail_with_line(idx, &format!("C11 sweep idx={} text={:?}", idx, text), &format!("partition:{}", k), &what);
        }
    }
    for mi in 0..3 {
        let mode = mode_of(mi);
        let full = match run_tok(&w.dic, &text, mode, &[]) { Ok(Ok(f)) => f, _ => { run.bump("sweep:full-analysis-fails"); continue; } };
        for s in 0..1024u32 {
            let (ops, order) = if s % 2 == 0 { (vec![Op::M(mode), Op::S(s)], "mode,subset") } else { (vec![Op::S(s), Op::M(mode)], "subset,mode") };
            let mode0 = mode_of((s as usize / 2) % 3);
            let ctx = format!("sweep mode0={} ops={} ({})", mode_ch(mode0), show_ops(&ops), order);
            let line = format!("C11 sweep idx={} text={:?} {}", idx, text, ctx);
            match run_tok(&w.dic, &text, mode0, &ops) {
                Ok(Ok(o)) => {
                    run.bump_by("sweep:analyses", 1);
                    let mut unfed = false;
                    let fails = tok_oracle(w, &text, s, &o, &full, &ctx, &mut unfed);
                    if unfed { run.bump_by("sweep:numeric-plugin:fields-NOT-loaded:boundaries-DIFFER", 1); }
                    for (k, what) in fails.into_iter().take(1) {
                        if !run.failures.iter().any(|f| f.index == idx && f.key == k) {
                            run.fail_with_line(idx, &line, &k, &what);
                        }
                    }
                }
                _ => {
                    if !run.failures.iter().any(|f| f.index == idx && f.key == "outcome:tok") {
                        run.fail_with_line(idx, &line, "outcome:tok", &format!("{}: subset analysis fails, the full-field analysis succeeds; text={:?}", ctx, text));
                    }
                }
            }
        }
    }
}

pub fn run(run: &mut Run) {
    run.rule = "worlds = generated system dictionary (+0-2 user dictionaries, own POS, U-references, with/without synonym flag in \
the header; every fourth world directed: two user dictionaries, compounds of the SECOND one whose A/B split and word structure are \
U-references into it, requests with exactly one of SPLIT_A/SPLIT_B/WORD_STRUCTURE x modes A/B/C x both orders of set_mode/set_subset, \
and ill-formed split declarations that NodeSplitIterator clamps / moves back to a character start) with forms equal/different from the headword, dictionary forms none/self/other, splits, word structure, synonym ids, \
1- and 2-byte length prefixes, arrays up to 127; per world 40 `wi` slots (one word x all 1024 subsets through \
LexiconSet::get_word_info_subset) and 88 `tok` slots (random order of set_mode/set_subset, random text, all modes) plus one \
oracle-only sweep of 1024 subsets x 3 modes; every third world has path-rewrite plugins (stacks NK, N, K, KN in turn, numerals and katakana \
words in the dictionary and in the texts, 8 directed requests around {POS_ID, NORMALIZED_FORM}) and sends `tokp` lines (plugin stack, class \
masks, numeric parser answers, plugin-free best path); every fourth world carries boundary lengths: strings of 126/127/128/200/300 UTF-16 units \
in headword / normalised form / reading, keys of 126/127/128/255/300 bytes (two-byte head-word length), an indexed 129-byte key split in A/B, \
arrays of 0/1/127 ids; one world in twelve has 14 user dictionaries; every third a non-square matrix; non-trivial wi = word with >= 2 optional fields present, tok = >= 2 morphemes with a \
dictionary word; distinct by line".into();
    let n = run.opts.count;
    // case 0: normalize on every mask
    if run.wants(0) {
        let payload = format!("nz={}", nz_variant());
        let ans = join((0..1024u32).map(|s| InfoSubset::from_bits_retain(s).normalize().bits()), ",");
        run.case(0, "nz", &payload, &ans, true);
        run.bump(&format!("normalize-variant:{}", nz_variant()));
        // the closure rules the property needs, checked directly
        for s in 0..1024u32 {
            let r = InfoSubset::from_bits_retain(s).normalize().bits();
            if r & s != s || (s & (NORMALIZED_FORM | READING_FORM) != 0 && r & SURFACE == 0) || (s & (64 | 128) != 0 && r & 2 == 0) {
                run.fail(0, "normalize:closure", &format!("normalize({:#b}) = {:#b} drops a requested flag or a closure rule", s, r));
                break;
            }
        }
    }
    let mut cur_world: Option<(usize, Result<W11, String>)> = None;
    for idx in 1..n.max(1) {
        if !run.wants(idx) { continue; }
        let widx = (idx - 1) / CASES_PER_WORLD;
        let slot = (idx - 1) % CASES_PER_WORLD;
        if cur_world.as_ref().map(|w| w.0) != Some(widx) {
            cur_world = None;
            cur_world = Some((widx, world_for(run.opts.seed, widx)));
            if let Some((_, Ok(w))) = &cur_world { for d in &w.desc { run.bump(&format!("world:{}", d)); } }
        }
        let w = match &cur_world.as_ref().unwrap().1 {
            Ok(w) => w,
            Err(e) => {
                if slot == 0 { run.bump(&format!("world-error:{}", e.chars().take(60).collect::<String>())); }
                continue;
            }
        };
        if slot < WI_SLOTS {
            // spread the slots over the lexicons: user words first (they are few), then system words
            let mut words: Vec<(usize, usize)> = vec![];
            for d in 1..w.bins.len() { for k in 0..w.bins[d].recs.len() { words.push((d, k)); } }
            let nsysw = w.bins[0].recs.len();
            // many small user dictionaries: the words of the LAST one (its U-references must be re-stamped with 14) first
            if w.bins.len() > 4 { let last = w.bins.len() - 1; words.sort_by_key(|&(d, _)| if d == last { 0 } else { 1 }); }
            if w.boundary_world {
                // the indexed words with boundary-length fields, then from the end (boundary rows, wild rows)
                for &k in &w.focus_words { words.push((0, k)); }
                for j in 0..nsysw { let k = nsysw - 1 - j; if !w.focus_words.contains(&k) { words.push((0, k)); } }
            } else {
                // system words from the end (wild rows) and from the start alternately
                for j in 0..nsysw { let k = if j % 2 == 0 { nsysw - 1 - j / 2 } else { j / 2 }; words.push((0, k)); }
            }
            if slot < words.len() {
                let (d, k) = words[slot];
                wi_case(run, idx, w, d, k);
            }
        } else {
            let ts = slot - WI_SLOTS;
            if ts == TOK_SLOTS - 1 { tok_sweep(run, idx, w); } else { tok_case(run, idx, w, ts); }
        }
    }
}
